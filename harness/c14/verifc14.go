//go:build verif

// Package verifc14 is the part of the C14 harness shared by the three traced
// packages (home, dhcpd, filtering).  It is compiled in through the overlay as
// /repo/internal/verifc14 and never exists in /repo.
//
// Parent mode (the process `go test` started): re-executes the same test
// binary under strace with VERIF_C14_CHILD=1, then runs the strace parser
// (tools/c14_straceparse.py), which writes the cases for the driver.
//
// Child mode (traced): the package harness runs the REAL save paths inside
// Session.Case; every case is bracketed by marker system calls, a concurrent
// reader polls the destination (independent monitor), and the contents seen
// before / after every save go to a side file for the parser.
package verifc14

import (
	"bytes"
	"crypto/sha256"
	"encoding/hex"
	"encoding/json"
	"errors"
	"fmt"
	"io/fs"
	"os"
	"os/exec"
	"os/signal"
	"path/filepath"
	"runtime"
	"strconv"
	"strings"
	"sync"
	"sync/atomic"
	"syscall"
	"testing"
	"time"
)

// Syscalls is the traced set: the one fixed in DESIGN.md plus every other
// call that can create, modify or rename a file, so that nothing slips by.
const Syscalls = "open,openat,openat2,creat,write,pwrite64,writev,pwritev,pwritev2,fsync,fdatasync,sync_file_range,close," +
	"rename,renameat,renameat2,unlink,unlinkat,ftruncate,truncate,link,linkat,symlink,symlinkat," +
	"dup,dup2,dup3,sendfile,splice,copy_file_range,fallocate," +
	// process structure, for the parser: threads share the descriptor table, forked children do not
	"clone,clone3,fork,vfork,execve"

// SmallLimit is the largest content handled byte by byte (strace -s).
const SmallLimit = 512

// Session is the child-side state.
type Session struct {
	T    *testing.T
	Root string
	Seed uint64
	Tier string
	// Inject is "" in the ordinary traced run, and "fsync" / "rename" in the
	// runs where strace makes EVERY fsync+fdatasync (EIO), respectively every
	// rename* (EXDEV), of the process fail: the package harness then runs its
	// injected-failure scenarios only.
	Inject  string
	meta    *os.File
	wantDir string
	seg     int
}

// InjectModes are the additional traced runs (strace -e inject=...).
var InjectModes = []struct{ Name, Spec string }{
	{"fsync", "inject=fsync,fdatasync:error=EIO"},
	{"rename", "inject=rename,renameat,renameat2:error=EXDEV"},
}

// Start returns nil in the parent (after the traced child and the parser have
// run) and the session in the child.
func Start(t *testing.T, pkg string) *Session {
	out := os.Getenv("VERIF_OUT")
	if out == "" {
		t.Skip("VERIF_OUT not set")
	}
	seed, _ := strconv.ParseUint(os.Getenv("VERIF_SEED"), 10, 64)
	tier := os.Getenv("VERIF_TIER")
	if tier == "" {
		tier = "quick"
	}
	if os.Getenv("VERIF_C14_CHILD") == "1" {
		f, err := os.OpenFile(os.Getenv("VERIF_C14_META"), os.O_CREATE|os.O_WRONLY|os.O_APPEND, 0o644)
		if err != nil {
			t.Fatal(err)
		}
		t.Cleanup(func() { f.Close() })
		wd := os.Getenv("VERIF_C14_WANT")
		os.MkdirAll(wd, 0o755)
		return &Session{T: t, Root: os.Getenv("VERIF_C14_ROOT"), Seed: seed, Tier: tier, meta: f,
			Inject: os.Getenv("VERIF_C14_INJECT"), wantDir: wd}
	}

	exe, err := os.Executable()
	if err != nil {
		t.Fatal(err)
	}
	// hard limits: the traced binary is the already built test binary only
	// (never the go tool), and it is killed with its whole process group
	limit := 4 * time.Minute
	if tier == "thorough" {
		limit = 90 * time.Minute
	}
	if v, err := strconv.Atoi(os.Getenv("VERIF_C14_LIMIT_S")); err == nil && v > 0 {
		limit = time.Duration(v) * time.Second
	}
	verif := os.Getenv("VERIF_DIR")
	if verif == "" {
		verif = "/verif"
	}
	// one ordinary traced run, then one run per injected system-call failure
	runs := []struct{ Name, Spec string }{{"", ""}}
	runs = append(runs, InjectModes...)
	var failures []string
	for _, run := range runs {
		tag := pkg
		if run.Name != "" {
			tag = pkg + "_" + run.Name
		}
		root, err := os.MkdirTemp("", "vfc14-"+tag+"-")
		if err != nil {
			t.Fatal(err)
		}
		root, _ = filepath.EvalSymlinks(root)
		wantDir, err := os.MkdirTemp("", "vfc14w-"+tag+"-")
		if err != nil {
			t.Fatal(err)
		}
		trace := filepath.Join(out, "c14_"+tag+".trace")
		meta := filepath.Join(out, "c14_"+tag+".meta.jsonl")
		os.Remove(trace)
		os.Remove(meta)
		args := []string{"-f", "-s", strconv.Itoa(SmallLimit + 64), "-e", "trace=" + Syscalls}
		if run.Spec != "" {
			args = append(args, "-e", run.Spec)
		}
		args = append(args, "-o", trace, exe, "-test.run", "^TestVerifC14$", "-test.count=1",
			"-test.timeout="+(limit-10*time.Second).String())
		cmd := exec.Command("strace", args...)
		cmd.Env = append(os.Environ(), "VERIF_C14_CHILD=1", "VERIF_C14_ROOT="+root, "VERIF_C14_META="+meta,
			"VERIF_C14_WANT="+wantDir, "VERIF_C14_INJECT="+run.Name)
		cmd.SysProcAttr = &syscall.SysProcAttr{Setpgid: true}
		var ob bytes.Buffer
		cmd.Stdout, cmd.Stderr = &ob, &ob
		cerr := cmd.Start()
		if cerr == nil {
			done := make(chan error, 1)
			go func() { done <- cmd.Wait() }()
			select {
			case cerr = <-done:
			case <-time.After(limit):
				syscall.Kill(-cmd.Process.Pid, syscall.SIGKILL)
				<-done
				cerr = fmt.Errorf("traced run exceeded its hard limit of %s and was killed", limit)
			}
		}
		tail := ob.String()
		if len(tail) > 3000 {
			tail = tail[len(tail)-3000:]
		}
		// the parser runs even when the child failed: the cases recorded so far count
		p := exec.Command("python3", filepath.Join(verif, "tools", "c14_straceparse.py"),
			"--trace", trace, "--meta", meta, "--root", root, "--out", out, "--pkg", pkg, "--inject", run.Name,
			"--want", wantDir,
			"--seed", strconv.FormatUint(seed, 10), "--tier", tier, "--only", os.Getenv("VERIF_ONLY_ID"))
		pout, perr := p.CombinedOutput()
		os.RemoveAll(root)
		os.RemoveAll(wantDir)
		if perr != nil {
			failures = append(failures, fmt.Sprintf("strace parser failed (%s): %v\n%s", tag, perr, pout))
		}
		if cerr != nil {
			failures = append(failures, fmt.Sprintf("traced child failed (%s): %v\n%s", tag, cerr, tail))
		}
	}
	if len(failures) > 0 {
		t.Fatal(strings.Join(failures, "\n"))
	}
	return nil
}

// Scale picks by tier.
func (s *Session) Scale(q, th int) int {
	if s.Tier == "thorough" {
		return th
	}
	return q
}

// Dir makes a fresh directory below the traced root.
func (s *Session) Dir(name string) string {
	d := filepath.Join(s.Root, name)
	if err := os.MkdirAll(d, 0o755); err != nil {
		s.T.Fatal(err)
	}
	return d
}

// TmpInDstDir makes renameio fall back to the destination directory for its
// temporary file (what happens in production when $TMPDIR is on another
// mount); TmpShared points $TMPDIR to a directory on the same mount, where
// renameio then creates the temporary file.
func (s *Session) TmpInDstDir() { os.Setenv("TMPDIR", filepath.Join(s.Root, "no-such-dir")) }
func (s *Session) TmpShared()   { os.Setenv("TMPDIR", s.Dir("tmp")) }

type version struct {
	Exists bool   `json:"exists"`
	Len    int    `json:"len"`
	Sha    string `json:"sha"`
	Hex    string `json:"hex,omitempty"`
	Err    string `json:"err,omitempty"`   // error returned by the save ("" = success)
	Label  string `json:"label,omitempty"` // which save
	// Skipped: the save path decided, without error, not to replace the file.
	Skipped bool `json:"skipped,omitempty"`
	// ExpectErr: the harness provoked the failure (failed download ...).
	ExpectErr bool `json:"expect_err,omitempty"`
	// Intended content of a successful save, when the harness knows it
	// independently of the file (Want*), and whether it was given.
	// Kind: which save program of Model/SaveLoop.v ran ("writefile": renameio.WriteFile
	// through configuration.write / dbStore; "update": DNSFilter.update; "": not
	// judged against the save model).  Fault: what the harness made fail
	// ("limit" write, "nofile" creation of the temporary file, "fsync", "rename",
	// "source" the download or the parser).
	Kind  string `json:"kind,omitempty"`
	Fault string `json:"fault,omitempty"`
	// Round 6 (K), Kind "migrate" (dhcpd.migrateDB): the path of the legacy
	// leases.db and its state when the call started (MigPresent ...).
	MigOld   string `json:"mig_old,omitempty"`
	MigState int    `json:"mig_state"`
	// MayFail: an error of this save is not a finding by itself (a list above a
	// download size limit may be refused); dst must then hold the previous version.
	MayFail bool `json:"may_fail,omitempty"`
	// WantSha names the side file with the reference content of a version too
	// large for Hex: the intended content when known, else what was read back.
	WantSha string `json:"want_sha,omitempty"`
	HasWant bool   `json:"has_want,omitempty"`
	WantLen int    `json:"want_len,omitempty"`
	WantHex string `json:"want_hex,omitempty"`
}

func snapshot(path string) (v version) {
	v, _ = snapshotB(path)
	return v
}

func snapshotB(path string) (v version, b []byte) {
	b, err := os.ReadFile(path)
	if err != nil {
		return version{}, nil
	}
	h := sha256.Sum256(b)
	v = version{Exists: true, Len: len(b), Sha: hex.EncodeToString(h[:])}
	if len(b) <= SmallLimit {
		v.Hex = hex.EncodeToString(b)
	}
	return v, b
}

// Case is one traced scenario on one destination path.
type Case struct {
	s        *Session
	Name     string
	Dst      string
	Keep     []string
	Classes  []string
	versions []version
	Info     map[string]any

	prev       []byte // content at dst after the previous save attempt
	prevExists bool
	want       []byte // intended content of the next successful save
	hasWant    bool
	contentBad string
	wantShas   []string
	unordered  bool // concurrent saves: the order of publication is not known to the harness
	// Kind of the next save (see version.Kind); reset after every save.
	Kind string
	// MayFail for the next save (see version.MayFail); reset after every save.
	MayFail bool
	saves   int
	// migWatch: set while a migration runs (see SaveMigrate); read by the
	// concurrent reader.
	migWatch atomic.Pointer[migWatch]
	migBad   atomic.Pointer[string]
}

// States of the legacy lease database at the start of a migration.
const (
	MigPresent    = 0 // there, decodable
	MigAbsent     = 1
	MigNull       = 2 // decodes to no table at all: nothing to migrate
	MigGarbage    = 3 // not decodable
	MigUnreadable = 4 // cannot be opened
)

type migWatch struct {
	old     string
	wantSha string
}

// SaveMigrate runs one real migration of the legacy lease database oldPath
// into c.Dst (f = dhcpd.migrateDB or dhcpd.Create) and judges the property on
// BOTH paths: whatever happens, the leases must be recoverable: c.Dst is the
// complete new version (want), or the legacy file is still there,
// byte-identical.  state: what the legacy file is at the start; fault: ""
// none, "limit" (RLIMIT_FSIZE = limit around f), "nofile" (RLIMIT_NOFILE = 0:
// not even the legacy file can be opened), "nodir" (the harness made the
// directory of c.Dst unusable: the temporary file cannot be created); in a
// run with Session.Inject every fsync resp. rename fails.  While f runs the
// concurrent reader of the case reads the legacy path and THEN c.Dst: a legacy
// file that is gone must go with a complete new file.
func (c *Case) SaveMigrate(label, oldPath string, state int, fault string, limit uint64, want []byte, f func() error) (err error) {
	c.begin()
	if fault == "" && c.s.Inject != "" && state == MigPresent {
		fault = c.s.Inject
	}
	oldBefore, oldErr := os.ReadFile(oldPath)
	oldPresent := oldErr == nil
	wh := sha256.Sum256(want)
	w := &migWatch{old: oldPath, wantSha: hex.EncodeToString(wh[:])}
	if state == MigPresent && oldPresent {
		c.migWatch.Store(w)
	}
	switch fault {
	case "limit":
		signal.Ignore(syscall.SIGXFSZ)
		var old syscall.Rlimit
		if e := syscall.Getrlimit(syscall.RLIMIT_FSIZE, &old); e != nil {
			c.s.T.Fatalf("getrlimit: %v", e)
		}
		lim := old
		lim.Cur = limit
		if e := syscall.Setrlimit(syscall.RLIMIT_FSIZE, &lim); e != nil {
			c.s.T.Fatalf("setrlimit: %v", e)
		}
		func() {
			defer func() {
				if e := syscall.Setrlimit(syscall.RLIMIT_FSIZE, &old); e != nil {
					c.s.T.Fatalf("setrlimit back: %v", e)
				}
			}()
			err = f()
		}()
		c.Classes = append(c.Classes, "fail-write-limit")
	case "nofile":
		var old syscall.Rlimit
		if e := syscall.Getrlimit(syscall.RLIMIT_NOFILE, &old); e != nil {
			c.s.T.Fatalf("getrlimit: %v", e)
		}
		lim := old
		lim.Cur = 0
		if e := syscall.Setrlimit(syscall.RLIMIT_NOFILE, &lim); e != nil {
			c.s.T.Fatalf("setrlimit: %v", e)
		}
		func() {
			defer func() {
				if e := syscall.Setrlimit(syscall.RLIMIT_NOFILE, &old); e != nil {
					c.s.T.Fatalf("setrlimit back: %v", e)
				}
			}()
			err = f()
		}()
		c.Classes = append(c.Classes, "fail-open")
	default:
		err = f()
	}
	c.migWatch.Store(nil)
	v, cur := snapshotB(c.Dst)
	oldAfter, oldErrAfter := os.ReadFile(oldPath)
	oldStill := oldErrAfter == nil
	expectOK := state == MigPresent && fault == ""
	v.Label, v.Kind, v.Fault, v.MigOld, v.MigState = label, "migrate", fault, oldPath, state
	v.ExpectErr = !expectOK && state != MigAbsent && state != MigNull
	v.Skipped = err == nil && !expectOK
	if err != nil {
		v.Err = err.Error()
		if len(v.Err) > 200 {
			v.Err = v.Err[:200]
		}
	}
	newOK := v.Exists && bytes.Equal(cur, want)
	oldOK := oldStill && oldPresent && bytes.Equal(oldAfter, oldBefore)
	faultDesc := fault
	if faultDesc == "" {
		faultDesc = "none"
	}
	switch {
	case state == MigPresent && !oldPresent:
		c.Fail("migration %q: the legacy %s this start was to migrate is not there (lost before this call); %s is %s", label, filepath.Base(oldPath), filepath.Base(c.Dst), describe(v.Exists, cur))
	case state == MigPresent && !newOK && !oldOK:
		c.Fail("migration %q (fault: %s, reported: %q): the lease database holds NEITHER version: %s is %s (complete new version: %d bytes) and the legacy %s is %s (it held %d bytes)",
			label, faultDesc, v.Err, filepath.Base(c.Dst), describe(v.Exists, cur), len(want), filepath.Base(oldPath), describe(oldStill, oldAfter), len(oldBefore))
	case state == MigPresent && err == nil && !newOK:
		c.Fail("migration %q reported success and %s is %s, not the complete new version (%d bytes)", label, filepath.Base(c.Dst), describe(v.Exists, cur), len(want))
	case state == MigPresent && err == nil && oldStill:
		c.Fail("migration %q reported success and the legacy %s is still there", label, filepath.Base(oldPath))
	case state == MigPresent && !expectOK && err == nil:
		c.Fail("migration %q reported success under the injected fault %s", label, faultDesc)
	case state != MigPresent && (oldStill != oldPresent || !bytes.Equal(oldAfter, oldBefore)):
		c.Fail("migration %q had nothing it could migrate (legacy state %d) and changed the legacy %s: %s", label, state, filepath.Base(oldPath), describe(oldStill, oldAfter))
	case (state == MigGarbage || state == MigUnreadable) && err == nil:
		c.Fail("migration %q could not read the legacy database (state %d) and reported success", label, state)
	}
	c.want, c.hasWant = nil, false
	if expectOK {
		c.want, c.hasWant = want, true
	}
	c.judge(&v, cur, err == nil && expectOK)
	c.versions = append(c.versions, v)
	c.Classes = append(c.Classes, "migrateDB")
	return err
}

func describe(present bool, b []byte) string {
	if !present {
		return "ABSENT"
	}
	return fmt.Sprintf("%d bytes", len(b))
}

// dump stores a reference content for the parser (outside the traced root),
// named by its SHA-256; small contents travel as hex in the record itself.
func (c *Case) dump(b []byte) string {
	if len(b) <= SmallLimit {
		return ""
	}
	h := sha256.Sum256(b)
	name := hex.EncodeToString(h[:])
	p := filepath.Join(c.s.wantDir, name+".bin")
	if _, err := os.Stat(p); err != nil {
		if err := os.WriteFile(p, b, 0o644); err != nil {
			c.s.T.Fatalf("reference content: %v", err)
		}
	}
	return name
}

// begin marks the start of one save in the trace and returns its kind.
func (c *Case) begin() (kind string) {
	c.saves++
	c.s.mark(fmt.Sprintf("save-%d", c.saves))
	kind, c.Kind = c.Kind, ""
	return kind
}

// Job is one of several saves started at the same time on the same dst.
type Job struct {
	Want []byte
	F    func() error
}

// SaveConcurrent runs the jobs in parallel goroutines (released together).
// The harness cannot know in which order they publish: the reader may see the
// previous version and the wanted versions in any order, the final content
// must be one of the wanted versions of the jobs that succeeded, and the
// model side compares the published versions as a set.
func (c *Case) SaveConcurrent(label string, jobs []Job) {
	c.unordered = true
	c.begin()
	errs := make([]error, len(jobs))
	start := make(chan struct{})
	var wg sync.WaitGroup
	for i := range jobs {
		wg.Add(1)
		go func(i int) {
			defer wg.Done()
			<-start
			errs[i] = jobs[i].F()
		}(i)
	}
	close(start)
	wg.Wait()
	v, cur := snapshotB(c.Dst)
	okAny, match := false, false
	for i, j := range jobs {
		jv := v
		jv.Label = fmt.Sprintf("%s#%d", label, i)
		if errs[i] != nil {
			jv.Err = errs[i].Error()
		} else {
			okAny = true
			h := sha256.Sum256(j.Want)
			c.wantShas = append(c.wantShas, hex.EncodeToString(h[:]))
			jv.HasWant, jv.WantLen = true, len(j.Want)
			if len(j.Want) <= SmallLimit {
				jv.WantHex = hex.EncodeToString(j.Want)
			}
			jv.WantSha = c.dump(j.Want)
			if v.Exists && bytes.Equal(cur, j.Want) {
				match = true
			}
		}
		c.versions = append(c.versions, jv)
	}
	if c.contentBad == "" {
		if okAny && !match {
			c.contentBad = fmt.Sprintf("after the concurrent saves %q %s holds %d bytes that are none of the %d intended versions", label, filepath.Base(c.Dst), len(cur), len(jobs))
		} else if !okAny && (v.Exists != c.prevExists || !bytes.Equal(cur, c.prev)) {
			c.contentBad = fmt.Sprintf("all concurrent saves %q failed but %s changed", label, filepath.Base(c.Dst))
		}
	}
	c.prev, c.prevExists = cur, v.Exists
}

// Want states, independently of the file system, what the next successful
// save must leave at dst.
func (c *Case) Want(b []byte) { c.want, c.hasWant = b, true }

// judge is the content half of the property, checked after every save
// attempt: a failed or skipped save leaves exactly the previous version, a
// successful one exactly the intended new version.
func (c *Case) judge(v *version, cur []byte, changedOK bool) {
	if c.contentBad == "" {
		switch {
		case !changedOK && c.prevExists && !v.Exists:
			c.contentBad = fmt.Sprintf("save attempt %q could not produce a complete new version (provoked failure=%v err=%q skipped=%v) and %s, which held %d bytes, NO LONGER EXISTS: the path is neither the previous nor a complete new version",
				v.Label, v.ExpectErr, v.Err, v.Skipped, filepath.Base(c.Dst), len(c.prev))
		case !changedOK && (v.Exists != c.prevExists || !bytes.Equal(cur, c.prev)):
			c.contentBad = fmt.Sprintf("save attempt %q could not produce a complete new version (provoked failure=%v err=%q skipped=%v) but %s changed: %d -> %d bytes; it is neither the previous nor a complete new version",
				v.Label, v.ExpectErr, v.Err, v.Skipped, filepath.Base(c.Dst), len(c.prev), len(cur))
		case changedOK && c.hasWant && (!v.Exists || !bytes.Equal(cur, c.want)):
			c.contentBad = fmt.Sprintf("save %q reported success but %s holds %d bytes that are not the intended new version (%d bytes)",
				v.Label, filepath.Base(c.Dst), len(cur), len(c.want))
		}
	}
	if changedOK && c.hasWant {
		v.HasWant, v.WantLen = true, len(c.want)
		if len(c.want) <= SmallLimit {
			v.WantHex = hex.EncodeToString(c.want)
		}
		v.WantSha = c.dump(c.want)
	} else if changedOK && v.Exists {
		v.WantSha = c.dump(cur)
	}
	c.prev, c.prevExists = cur, v.Exists
	c.want, c.hasWant = nil, false
}

func (s *Session) mark(what string) {
	// a system call that cannot succeed but shows up in the trace
	_ = syscall.Unlink(filepath.Join(s.Root, "VERIF_MARK", what))
}

// Save runs one real save and records what is at dst afterwards.
func (c *Case) Save(label string, f func() error) error {
	kind := c.begin()
	err := f()
	v, cur := snapshotB(c.Dst)
	v.Label, v.Kind = label, kind
	if err != nil {
		v.Err = err.Error()
		if len(v.Err) > 200 {
			v.Err = v.Err[:200]
		}
	}
	c.judge(&v, cur, err == nil)
	c.versions = append(c.versions, v)
	return err
}

// SaveB is Save for save paths that report whether they replaced the file;
// expectErr says the harness provoked a failure on purpose.
func (c *Case) SaveB(label string, expectErr bool, f func() (bool, error)) (replaced bool, err error) {
	kind := c.begin()
	replaced, err = f()
	v, cur := snapshotB(c.Dst)
	v.Label, v.ExpectErr, v.Kind = label, expectErr, kind
	v.MayFail, c.MayFail = c.MayFail, false
	if expectErr {
		v.Fault = "source"
		if c.s.Inject != "" {
			v.Fault = c.s.Inject
		}
	}
	if err != nil {
		v.Err = err.Error()
		if len(v.Err) > 200 {
			v.Err = v.Err[:200]
		}
	} else {
		v.Skipped = !replaced
	}
	// a provoked failure must leave the previous version whatever the save path reports
	c.judge(&v, cur, err == nil && replaced && !expectErr)
	c.versions = append(c.versions, v)
	return replaced, err
}

// SaveLimited runs one real save while no regular file of the process may
// grow beyond limit bytes (RLIMIT_FSIZE lowered for the duration of f): the
// write(2) that crosses the limit is cut short and the next one fails with
// EFBIG, what a full disk or a quota does to the save path.  limit 0 makes the
// first write fail.  Whatever the save path returns, dst must afterwards be
// byte-identical to the previous version (and exist if it existed).
func (c *Case) SaveLimited(label string, limit uint64, f func() error) (err error) {
	kind := c.begin()
	signal.Ignore(syscall.SIGXFSZ)
	var old syscall.Rlimit
	if e := syscall.Getrlimit(syscall.RLIMIT_FSIZE, &old); e != nil {
		c.s.T.Fatalf("getrlimit: %v", e)
	}
	lim := old
	lim.Cur = limit
	if e := syscall.Setrlimit(syscall.RLIMIT_FSIZE, &lim); e != nil {
		c.s.T.Fatalf("setrlimit: %v", e)
	}
	c.s.mark("limit-on")
	func() {
		defer func() {
			if e := syscall.Setrlimit(syscall.RLIMIT_FSIZE, &old); e != nil {
				c.s.T.Fatalf("setrlimit back: %v", e)
			}
			c.s.mark("limit-off")
		}()
		err = f()
	}()
	v, cur := snapshotB(c.Dst)
	v.Label, v.ExpectErr, v.Kind, v.Fault = label, true, kind, "limit"
	if err != nil {
		v.Err = err.Error()
		if len(v.Err) > 200 {
			v.Err = v.Err[:200]
		}
	}
	c.want, c.hasWant = nil, false
	c.judge(&v, cur, false)
	c.versions = append(c.versions, v)
	c.Classes = append(c.Classes, "fail-write-limit")
	if err == nil {
		c.Classes = append(c.Classes, "fail-write-limit-unreported")
	}
	return err
}

// SaveNoFile runs one real save while the process cannot get a new file
// descriptor (RLIMIT_NOFILE lowered to 0 for the duration of f): creating the
// temporary file fails with EMFILE.  The save must report an error and dst
// must be byte-identical to the previous version.
func (c *Case) SaveNoFile(label string, f func() error) (err error) {
	kind := c.begin()
	var old syscall.Rlimit
	if e := syscall.Getrlimit(syscall.RLIMIT_NOFILE, &old); e != nil {
		c.s.T.Fatalf("getrlimit: %v", e)
	}
	lim := old
	lim.Cur = 0
	if e := syscall.Setrlimit(syscall.RLIMIT_NOFILE, &lim); e != nil {
		c.s.T.Fatalf("setrlimit: %v", e)
	}
	func() {
		defer func() {
			if e := syscall.Setrlimit(syscall.RLIMIT_NOFILE, &old); e != nil {
				c.s.T.Fatalf("setrlimit back: %v", e)
			}
		}()
		err = f()
	}()
	v, cur := snapshotB(c.Dst)
	v.Label, v.ExpectErr, v.Kind, v.Fault = label, true, kind, "nofile"
	if err != nil {
		v.Err = err.Error()
		if len(v.Err) > 200 {
			v.Err = v.Err[:200]
		}
	} else {
		c.Fail("save %q ran while no temporary file could be created (EMFILE) and reported success", label)
	}
	c.want, c.hasWant = nil, false
	c.judge(&v, cur, false)
	c.versions = append(c.versions, v)
	c.Classes = append(c.Classes, "fail-open")
	return err
}

// SaveInjected is one real save in a run where strace fails every fsync
// (Session.Inject == "fsync") or every rename ("rename"): the save must report
// the error and dst must be byte-identical to the previous version.
func (c *Case) SaveInjected(label string, f func() error) (err error) {
	kind := c.begin()
	err = f()
	v, cur := snapshotB(c.Dst)
	v.Label, v.ExpectErr, v.Kind, v.Fault = label, true, kind, c.s.Inject
	if err != nil {
		v.Err = err.Error()
		if len(v.Err) > 200 {
			v.Err = v.Err[:200]
		}
	} else {
		c.Fail("save %q reported success although every %s of the process fails", label, c.s.Inject)
	}
	c.want, c.hasWant = nil, false
	c.judge(&v, cur, false)
	c.versions = append(c.versions, v)
	c.Classes = append(c.Classes, "fail-"+c.s.Inject)
	return err
}

// Fail records a monitor failure found by the package harness itself (first
// one wins, as with the content judgement).
func (c *Case) Fail(format string, a ...any) {
	if c.contentBad == "" {
		c.contentBad = fmt.Sprintf(format, a...)
	}
}

// Class adds a branch class.
func (c *Case) Class(cl string) { c.Classes = append(c.Classes, cl) }

// Case brackets body with markers, runs the concurrent reader and writes the
// side record.  keep: names below Root that may legitimately remain.
func (s *Session) Case(name, dst string, keep []string, classes []string, body func(c *Case)) {
	s.seg++
	c := &Case{s: s, Name: name, Dst: dst, Keep: keep, Classes: classes, Info: map[string]any{}}
	// files present at the start (for the model's boot state)
	initial := map[string]version{}
	filepath.Walk(s.Root, func(p string, fi os.FileInfo, err error) error {
		if err == nil && fi.Mode().IsRegular() {
			initial[p] = snapshot(p)
		}
		return nil
	})
	v0, b0 := snapshotB(dst)
	c.versions = append(c.versions, v0)
	c.prev, c.prevExists = b0, v0.Exists
	s.mark(fmt.Sprintf("begin-%d", s.seg))

	// independent monitor: a reader polling dst while the saves run
	type obs struct {
		Exists bool
		Len    int
		Sha    string
	}
	var (
		stop  atomic.Bool
		wg    sync.WaitGroup
		seen  []obs
		polls int
	)
	wg.Add(1)
	go func() {
		defer wg.Done()
		for {
			last := stop.Load()
			// round 6 (K): while a migration runs, the legacy path is read FIRST:
			// if it is gone (or changed), dst, read afterwards, must be the complete
			// new version.  The observation counts only if the same migration is
			// still running when both reads are done.
			mw := c.migWatch.Load()
			legacyGone, legacyDesc := false, ""
			if mw != nil {
				ob, oerr := os.ReadFile(mw.old)
				if errors.Is(oerr, fs.ErrNotExist) {
					legacyGone, legacyDesc = true, "absent"
				} else if oerr != nil {
					mw = nil
				}
				_ = ob
			}
			b, err := os.ReadFile(dst)
			if mw != nil && legacyGone && c.migBad.Load() == nil && (err == nil || errors.Is(err, fs.ErrNotExist)) {
				h := sha256.Sum256(b)
				if (err != nil || hex.EncodeToString(h[:]) != mw.wantSha) && c.migWatch.Load() == mw {
					msg := fmt.Sprintf("concurrent reader, during a migration: the legacy %s was %s and %s, read afterwards, was %s: the lease database held neither version",
						filepath.Base(mw.old), legacyDesc, filepath.Base(dst), describe(err == nil, b))
					c.migBad.Store(&msg)
				}
			}
			o := obs{}
			if err == nil {
				h := sha256.Sum256(b)
				o = obs{Exists: true, Len: len(b), Sha: hex.EncodeToString(h[:])}
			} else if !errors.Is(err, fs.ErrNotExist) {
				// only "no such file" is the observation "absent"; anything
				// else (descriptor shortage ...) is no observation at all
				if last {
					return
				}
				runtime.Gosched()
				continue
			}
			polls++
			if len(seen) == 0 || seen[len(seen)-1] != o {
				seen = append(seen, o)
			}
			if last {
				return
			}
			runtime.Gosched()
		}
	}()

	body(c)

	stop.Store(true)
	wg.Wait()
	s.mark(fmt.Sprintf("end-%d", s.seg))

	// the reader must have seen complete versions only, in order
	nseen := len(seen)
	j, bad := 0, ""
	if c.unordered {
		// membership only; intended contents count as versions
		wantSha := map[string]bool{}
		for _, v := range c.versions {
			if v.Exists {
				wantSha[v.Sha] = true
			}
		}
		for _, w := range c.wantShas {
			wantSha[w] = true
		}
		for _, o := range seen {
			if o.Exists && !wantSha[o.Sha] || !o.Exists && c.versions[0].Exists {
				bad = fmt.Sprintf("concurrent reader saw a state of %s that is none of the complete versions: exists=%v len=%d sha=%.12s",
					filepath.Base(dst), o.Exists, o.Len, o.Sha)
				break
			}
		}
		seen = nil
	}
	for _, o := range seen {
		k := j
		for k < len(c.versions) && !(c.versions[k].Exists == o.Exists && c.versions[k].Sha == o.Sha) {
			k++
		}
		if k == len(c.versions) {
			bad = fmt.Sprintf("concurrent reader saw a state of %s that is neither the previous nor the new version: exists=%v len=%d sha=%.12s (versions: %d)",
				filepath.Base(dst), o.Exists, o.Len, o.Sha, len(c.versions))
			break
		}
		j = k
	}
	if mb := c.migBad.Load(); mb != nil && bad == "" {
		bad = *mb
	}
	rec := map[string]any{
		"seg": s.seg, "name": name, "dst": dst, "keep": keep, "classes": c.Classes,
		"versions": c.versions, "initial": initial, "reader_polls": polls, "reader_distinct": nseen, "unordered": c.unordered,
		"reader_bad": bad, "content_bad": c.contentBad, "info": c.Info, "tmpdir": os.Getenv("TMPDIR"),
		"inject": s.Inject,
	}
	b, _ := json.Marshal(rec)
	s.meta.Write(append(b, '\n'))
}

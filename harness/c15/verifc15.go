//go:build verif

// Package verifc15 is the part of the C15 harnesses shared by the packages
// rulelist and filtering: the property's failure classes "HTML content" and
// "binary content" stated at the byte level, independent of the code under
// test and of the Coq model, and the enumerated bodies with one control byte.
// It is compiled in through the overlay as /repo/internal/verifc15 and never
// exists in /repo.  It imports nothing from the code under test.
package verifc15

import (
	"fmt"
	"strings"
)

// The two content failures of the property, read twice.
//
// STRICT reading (what a reader of the property text would write down):
//
//   - HTML: the first bytes of the body after ASCII white space are
//     "<!doctype html" or "<html", in any letter case.
//   - binary: the body has a byte below 0x20 other than TAB, LF, CR, or the
//     byte 0x7F, anywhere.
//
// INSPECTED reading (what the monitors hold the code to; the parser looks at
// every line of the body, in order, up to the first line it rejects, but only
// at part of each line):
//
//   - lines are the pieces between LF bytes (an unterminated last piece is a
//     line), one CR before the LF dropped; a line of 65536 bytes or more is an
//     error of its own (not one of the property's classes: not judged);
//   - of a line, the white space at both ends is not inspected: TAB, LF, VT
//     (0x0B), FF (0x0C), CR, SPACE and the Unicode spaces U+0085, U+00A0,
//     U+1680, U+2000..U+200A, U+2028, U+2029, U+202F, U+205F, U+3000 in UTF-8;
//   - a line that is then empty, or starts with '#' or '!', is a comment (the
//     title line "! Title: ..." included) and is not inspected at all;
//   - every other line is a rule line and is inspected in full: HTML = the
//     line starts with "<html" or "<!doctype" in any ASCII letter case and no
//     rule line precedes it; binary = it has an offending byte (as in the
//     strict reading);
//   - the normal form of a body with neither is its rule lines, each followed
//     by LF.
//
// Where the readings differ the code follows the inspected one; the
// differences are recorded as observation classes (Obs), never as failures:
// a control byte inside a comment or title line, VT / FF at the edge of a
// line, an HTML head after comment lines or one that only starts like
// "<!doctype" / "<html".
type Spec struct {
	HTMLStrict   bool
	BinaryStrict bool
	// HTML, Binary: the inspected reading.  At most one of HTML, Binary,
	// TooLong is set: the first that a walk over the lines meets.
	HTML    bool
	Binary  bool
	TooLong bool
	// BadLine, BadCol (1-based, in the raw line), BadByte: where Binary was met.
	BadLine, BadCol int
	BadByte         byte
	// Norm is the normal form, if none of HTML, Binary, TooLong is set; else
	// the rule lines up to the failing line.
	Norm []byte
	// Obs: differences between the readings met in this body.
	Obs []string
}

// Offending says whether b makes a text binary.
func Offending(b byte) bool {
	return (b < 0x20 && b != '\t' && b != '\n' && b != '\r') || b == 0x7f
}

var spaces = []string{
	"\t", "\n", "\v", "\f", "\r", " ", "\xc2\x85", "\xc2\xa0", "\xe1\x9a\x80",
	"\xe2\x80\x80", "\xe2\x80\x81", "\xe2\x80\x82", "\xe2\x80\x83", "\xe2\x80\x84", "\xe2\x80\x85",
	"\xe2\x80\x86", "\xe2\x80\x87", "\xe2\x80\x88", "\xe2\x80\x89", "\xe2\x80\x8a",
	"\xe2\x80\xa8", "\xe2\x80\xa9", "\xe2\x80\xaf", "\xe2\x81\x9f", "\xe3\x80\x80",
}

// trim returns s without the white space at both ends, and the number of
// bytes taken from its start.
func trim(s string) (t string, lead int) {
	t = s
	for again := true; again; {
		again = false
		for _, sp := range spaces {
			if strings.HasPrefix(t, sp) {
				t, lead, again = t[len(sp):], lead+len(sp), true
			}
		}
	}
	for again := true; again; {
		again = false
		for _, sp := range spaces {
			if strings.HasSuffix(t, sp) {
				t, again = t[:len(t)-len(sp)], true
			}
		}
	}
	return t, lead
}

func hasPrefixFoldASCII(s, lowerPrefix string) bool {
	if len(s) < len(lowerPrefix) {
		return false
	}
	for i := 0; i < len(lowerPrefix); i++ {
		c := s[i]
		if c >= 'A' && c <= 'Z' {
			c += 'a' - 'A'
		}
		if c != lowerPrefix[i] {
			return false
		}
	}
	return true
}

// MaxLine is the size from which a line is an error of its own.
const MaxLine = 65536

// Classify evaluates both readings on a complete body.
func Classify(body []byte) (sp Spec) {
	s := string(body)
	obs := map[string]bool{}
	for i := 0; i < len(body); i++ {
		if Offending(body[i]) {
			sp.BinaryStrict = true
		}
	}
	lead := strings.TrimLeft(s, " \t\n\v\f\r")
	sp.HTMLStrict = hasPrefixFoldASCII(lead, "<!doctype html") || hasPrefixFoldASCII(lead, "<html")

	var norm []byte
	rules := 0
	lineNo := 0
	for rest := s; len(rest) > 0; {
		var raw string
		if i := strings.IndexByte(rest, '\n'); i >= 0 {
			raw, rest = rest[:i], rest[i+1:]
		} else {
			raw, rest = rest, ""
		}
		lineNo++
		if len(raw) >= MaxLine {
			sp.TooLong = true
			break
		}
		line := strings.TrimSuffix(raw, "\r")
		t, leadN := trim(line)
		edge := line[:leadN] + line[leadN+len(t):]
		if strings.ContainsAny(edge, "\v\f") {
			obs["obs-vt-ff-at-line-edge-not-inspected"] = true
		}
		if rules == 0 && (hasPrefixFoldASCII(t, "<html") || hasPrefixFoldASCII(t, "<!doctype")) {
			sp.HTML = true
			if !sp.HTMLStrict {
				obs["obs-html-beyond-strict-reading"] = true
			}
			break
		}
		if t == "" || t[0] == '#' || t[0] == '!' {
			for i := 0; i < len(t); i++ {
				if Offending(t[i]) {
					if strings.HasPrefix(t, "! Title: ") {
						obs["obs-control-byte-in-title-not-inspected"] = true
					} else {
						obs["obs-control-byte-in-comment-not-inspected"] = true
					}
				}
			}
			continue
		}
		bad := -1
		for i := 0; i < len(t); i++ {
			if Offending(t[i]) {
				bad = i
				break
			}
		}
		if bad >= 0 {
			sp.Binary, sp.BadLine, sp.BadCol, sp.BadByte = true, lineNo, leadN+bad+1, t[bad]
			break
		}
		rules++
		norm = append(norm, t...)
		norm = append(norm, '\n')
	}
	sp.Norm = norm
	if sp.BinaryStrict && !sp.Binary && !sp.HTML && !sp.TooLong {
		obs["obs-binary-strict-but-accepted"] = true
	}
	for k := range obs {
		sp.Obs = append(sp.Obs, k)
	}
	return sp
}

// Fails says whether the body is one of the property's content failures by
// the inspected reading.
func (sp Spec) Fails() bool { return sp.HTML || sp.Binary }

// Clean says that no reading finds anything: the body must be accepted and
// stored as Norm.
func (sp Spec) Clean() bool { return !sp.HTML && !sp.Binary && !sp.TooLong }

// Positions are the places of the one control byte in an enumerated body.
var Positions = []string{"line-start", "mid-line", "last-byte", "late-in-line", "after-4k", "comment", "title"}

// Values are the byte values put there: 0x00..0x1F and 0x7F (TAB, LF, CR among
// them as the values that do not offend).
func Values() (vs []byte) {
	for b := 0; b < 0x20; b++ {
		vs = append(vs, byte(b))
	}
	return append(vs, 0x7f)
}

// Filler is 4 KiB and more of rule lines.
var Filler = func() string {
	var b strings.Builder
	for i := 0; b.Len() < 4200; i++ {
		fmt.Fprintf(&b, "||fill-%03d.filler.example^\n", i)
	}
	return b.String()
}()

// CtlBody is the list text whose only byte below 0x20 besides LF (or 0x7F) is
// v at position class pos.  probe is the probe name it has a rule for; every
// body also has a rule naming v and pos, so that the normal forms of two
// bodies differ.  The line with the control byte names a host under .invalid:
// when v is LF the line falls into two, and neither part may be a pattern that
// matches a probe name (".example^" would match every name under .example).
func CtlBody(v byte, pos, probe string) string {
	head := fmt.Sprintf("||%s^\n||v%02x-%s.example^\n", probe, v, pos)
	c := string([]byte{v})
	switch pos {
	case "line-start":
		return head + c + "||ctl.invalid^\n||after.example^\n"
	case "mid-line":
		return head + "||ct" + c + "l.invalid^\n||after.example^\n"
	case "last-byte":
		return head + "||ctl.invalid^" + c
	case "late-in-line":
		return head + "||" + strings.Repeat("a", 300) + c + "zz.invalid^\n||after.example^\n"
	case "after-4k":
		return head + Filler + "||ct" + c + "l.invalid^\n||after.example^\n"
	case "comment":
		return head + "# com" + c + "ment\n||after.example^\n"
	case "title":
		return "! Title: Ct" + c + "l list\n" + head + "||after.example^\n"
	}
	panic("verifc15: unknown position " + pos)
}

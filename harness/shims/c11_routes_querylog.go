//go:build verif

package querylog

import "github.com/AdguardTeam/AdGuardHome/internal/aghhttp"

// VerifRegisterRoutes runs the package's real registration function with the
// given RegisterFunc (C11 harness).
func VerifRegisterRoutes(reg aghhttp.RegisterFunc) {
	l := &queryLog{conf: &Config{HTTPRegister: reg}}
	l.initWeb()
}

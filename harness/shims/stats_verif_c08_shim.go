//go:build verif

package stats

// VerifFlush performs one iteration of the periodic flush: if the unit
// identifier generator (Config.UnitID) yields another hour than the current
// unit's, the current unit is written to the database and a new one starts.
func VerifFlush(s Interface) {
	s.(*StatsCtx).flush()
}

//go:build verif

package stats

// VerifStartWithoutFlusher is Start without the periodic flush goroutine: the
// HTTP handlers are registered, and the harness calls VerifFlush itself at the
// points where the goroutine would find that the hour has changed.  (Two
// concurrent flushers, which the real program never has, would race on the
// unit identifier that flush reads before it takes the locks.)
func VerifStartWithoutFlusher(s Interface) {
	s.(*StatsCtx).initWeb()
}

// VerifFlush performs one iteration of the periodic flush: if the unit
// identifier generator (Config.UnitID) yields another hour than the current
// unit's, the current unit is written to the database and a new one starts.
func VerifFlush(s Interface) {
	s.(*StatsCtx).flush()
}

//go:build verif

package stats

import (
	"bytes"
	"encoding/gob"
	"sort"

	"go.etcd.io/bbolt"
)

// VerifStartWithoutFlusher is Start without the periodic flush goroutine: the
// HTTP handlers are registered, and the harness calls VerifFlush itself at the
// points where the goroutine would find that the hour has changed.  (Two
// concurrent flushers, which the real program never has, would race on the
// unit identifier that flush reads before it takes the locks.)
func VerifStartWithoutFlusher(s Interface) {
	s.(*StatsCtx).initWeb()
}

// VerifFlush performs one iteration of the periodic flush: if the unit
// identifier generator (Config.UnitID) yields another hour than the current
// unit's, the current unit is written to the database and a new one starts.
func VerifFlush(s Interface) {
	s.(*StatsCtx).flush()
}

// VerifUnit is what one stored unit of stats.db says about clients and domains.
type VerifUnit struct {
	Clients map[string]uint64
	Domains map[string]uint64
	ID      uint32
	NTotal  uint64
}

// VerifReadDB reads the units stored in the database file (after Close), in
// the order of their identifiers, straight from the bolt buckets.
func VerifReadDB(filename string) (units []VerifUnit, err error) {
	db, err := bbolt.Open(filename, 0o644, &bbolt.Options{ReadOnly: true})
	if err != nil {
		return nil, err
	}
	defer func() { _ = db.Close() }()

	err = db.View(func(tx *bbolt.Tx) (ferr error) {
		return tx.ForEach(func(name []byte, b *bbolt.Bucket) (berr error) {
			id, ok := unitNameToID(name)
			if !ok {
				return nil
			}

			udb := &unitDB{}
			berr = gob.NewDecoder(bytes.NewReader(b.Get([]byte{0}))).Decode(udb)
			if berr != nil {
				return berr
			}

			units = append(units, VerifUnit{
				Clients: convertSliceToMap(udb.Clients),
				Domains: convertSliceToMap(udb.Domains),
				ID:      id,
				NTotal:  udb.NTotal,
			})

			return nil
		})
	})
	sort.Slice(units, func(i, j int) bool { return units[i].ID < units[j].ID })

	return units, err
}

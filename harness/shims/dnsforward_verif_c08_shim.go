//go:build verif

package dnsforward

import (
	"net/netip"
	"time"

	"github.com/AdguardTeam/AdGuardHome/internal/aghnet"
	"github.com/AdguardTeam/AdGuardHome/internal/filtering"
	"github.com/AdguardTeam/dnsproxy/proxy"
	"github.com/miekg/dns"
)

// VerifProcessQueryLogsAndStats runs the logging stage of the request pipeline
// (Server.processQueryLogsAndStats) on a request as the earlier stages leave
// it: question, client address, ClientID.  For harnesses outside the package
// that hold a server made by home.initDNS.
func VerifProcessQueryLogsAndStats(s *Server, req *dns.Msg, addr netip.AddrPort, clientID string) {
	pctx := &proxy.DNSContext{Proto: proxy.ProtoUDP, Req: req, Res: &dns.Msg{}, Addr: addr}
	dctx := &dnsContext{proxyCtx: pctx, startTime: time.Now(), result: &filtering.Result{}, clientID: clientID}
	s.processQueryLogsAndStats(dctx)
}

// VerifAnonymizer returns the IPMut the server loads its address mutator from.
func VerifAnonymizer(s *Server) (m *aghnet.IPMut) {
	return s.anonymizer
}

//go:build verif

package dnsforward

import "github.com/AdguardTeam/AdGuardHome/internal/aghhttp"

// VerifRegisterRoutes runs the package's real registration function with the
// given RegisterFunc (C11 harness: the real home.httpRegister on a fresh mux).
// The handlers are bound to a zero Server: they must never be reached.
func VerifRegisterRoutes(reg aghhttp.RegisterFunc) {
	old := webRegistered
	webRegistered = false
	defer func() { webRegistered = old }()
	s := &Server{}
	s.conf.HTTPRegister = reg
	s.registerHandlers()
}

//go:build verif

package filtering

import "time"

// Shim of the C05 dependency-failure search (harness/dnsforward/
// zz_verif_C05hostile_test.go).  Nothing here changes what the package does;
// the functions only let a harness in another package call, or wait for, what
// the filter's own goroutines call.

// VerifC05PeriodicTick is the timer arm of updatesLoop's select, called as the
// loop calls it (the loop's own first tick comes five seconds after Start and
// the next one an hour later; further passes of the periodic path are driven
// through this call).
func (d *DNSFilter) VerifC05PeriodicTick() {
	_ = d.periodicallyRefreshFilters(5 * time.Second)
}

// VerifC05MakeDue marks every list as never updated, so that the next
// periodic pass downloads all enabled lists.
func (d *DNSFilter) VerifC05MakeDue() {
	d.conf.filtersMu.Lock()
	defer d.conf.filtersMu.Unlock()

	for _, arr := range []*[]FilterYAML{&d.conf.Filters, &d.conf.WhitelistFilters} {
		for i := range *arr {
			(*arr)[i].LastUpdated = time.Time{}
		}
	}
}

// VerifC05RefreshIdle returns when no refresh pass is running (the pass that
// held refreshLock has returned or has been unwound by a panic).
func (d *DNSFilter) VerifC05RefreshIdle() {
	d.refreshLock.Lock()
	//lint:ignore SA2001 waiting for the holder is the point.
	d.refreshLock.Unlock()
}

// VerifC05PendingInits is the number of engine rebuilds waiting for
// updatesLoop.
func (d *DNSFilter) VerifC05PendingInits() (n int) { return len(d.filtersInitializerChan) }

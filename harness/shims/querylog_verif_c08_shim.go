//go:build verif

package querylog

import "context"

// VerifRotate performs the rotation of the log file (querylog.json is renamed
// to querylog.json.1) that the periodic rotation check performs when the
// oldest record is older than the rotation interval.
func VerifRotate(ctx context.Context, l QueryLog) (err error) {
	return l.(*queryLog).rotate(ctx)
}

//go:build verif

package querylog

import (
	"context"

	"github.com/AdguardTeam/AdGuardHome/internal/aghnet"
)

// VerifRotate performs the rotation of the log file (querylog.json is renamed
// to querylog.json.1) that the periodic rotation check performs when the
// oldest record is older than the rotation interval.
func VerifRotate(ctx context.Context, l QueryLog) (err error) {
	return l.(*queryLog).rotate(ctx)
}

// VerifAnonymizer returns the IPMut the query log holds (Config.Anonymizer as
// New stored it): the one its configuration handlers store into and its
// report loads from.
func VerifAnonymizer(l QueryLog) (m *aghnet.IPMut) {
	return l.(*queryLog).anonymizer
}

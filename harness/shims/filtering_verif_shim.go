//go:build verif

package filtering

import (
	"fmt"

	"github.com/AdguardTeam/AdGuardHome/internal/filtering/rulelist"
	"github.com/AdguardTeam/urlfilter/rules"
)

// VerifSetFilters loads block and allow lists synchronously (what the
// asynchronous filter initialiser does).
func (d *DNSFilter) VerifSetFilters(block, allow []Filter) (err error) {
	return d.setFilters(block, allow, false)
}

// VerifSetServiceRules registers a blocked service made of the given rule
// lines, the way initBlockedServices registers the built-in ones.
func VerifSetServiceRules(id string, texts []string) (err error) {
	if serviceRules == nil {
		serviceRules = map[string][]*rules.NetworkRule{}
	}
	netRules := make([]*rules.NetworkRule, 0, len(texts))
	for _, text := range texts {
		rule, rerr := rules.NewNetworkRule(text, rulelist.URLFilterIDBlockedService)
		if rerr != nil {
			return fmt.Errorf("service %q rule %q: %w", id, text, rerr)
		}
		netRules = append(netRules, rule)
	}
	serviceRules[id] = netRules

	return nil
}

// VerifStartNoLoop does what Start does except starting updatesLoop: it makes
// the channel of pending engine initialisations and registers the HTTP
// handlers.  The harness plays the loop's part itself (VerifRunPendingInit),
// so that nothing depends on when a goroutine gets to run.
func (d *DNSFilter) VerifStartNoLoop() {
	d.filtersInitializerChan = make(chan filtersInitializerParams, 1)
	d.RegisterFilteringHandlers()
}

// VerifRunPendingInit is the first arm of updatesLoop's select, run once,
// synchronously: a pending engine initialisation (queued by
// EnableFilters(true)) is carried out with initFiltering.
func (d *DNSFilter) VerifRunPendingInit() (ran bool, err error) {
	select {
	case params := <-d.filtersInitializerChan:
		return true, d.initFiltering(params.allowFilters, params.blockFilters)
	default:
		return false, nil
	}
}

//go:build verif

package filtering

import (
	"fmt"

	"github.com/AdguardTeam/AdGuardHome/internal/filtering/rulelist"
	"github.com/AdguardTeam/urlfilter/rules"
)

// VerifSetFilters loads block and allow lists synchronously (what the
// asynchronous filter initialiser does).
func (d *DNSFilter) VerifSetFilters(block, allow []Filter) (err error) {
	return d.setFilters(block, allow, false)
}

// VerifSetServiceRules registers a blocked service made of the given rule
// lines, the way initBlockedServices registers the built-in ones.
func VerifSetServiceRules(id string, texts []string) (err error) {
	if serviceRules == nil {
		serviceRules = map[string][]*rules.NetworkRule{}
	}
	netRules := make([]*rules.NetworkRule, 0, len(texts))
	for _, text := range texts {
		rule, rerr := rules.NewNetworkRule(text, rulelist.URLFilterIDBlockedService)
		if rerr != nil {
			return fmt.Errorf("service %q rule %q: %w", id, text, rerr)
		}
		netRules = append(netRules, rule)
	}
	serviceRules[id] = netRules

	return nil
}

// VerifStartNoLoop does what Start does except starting updatesLoop: it makes
// the channel of pending engine initialisations and registers the HTTP
// handlers.  The harness plays the loop's part itself (VerifRunPendingInit),
// so that nothing depends on when a goroutine gets to run.
func (d *DNSFilter) VerifStartNoLoop() {
	d.filtersInitializerChan = make(chan filtersInitializerParams, 1)
	d.RegisterFilteringHandlers()
}

// VerifRunPendingInit is the first arm of updatesLoop's select, run once,
// synchronously: a pending engine initialisation (queued by
// EnableFilters(true)) is carried out with initFiltering.
func (d *DNSFilter) VerifRunPendingInit() (ran bool, err error) {
	select {
	case params := <-d.filtersInitializerChan:
		return true, d.initFiltering(params.allowFilters, params.blockFilters)
	default:
		return false, nil
	}
}

// VerifPendingInits is the number of engine initialisations waiting in the
// channel.
func (d *DNSFilter) VerifPendingInits() (n int) { return len(d.filtersInitializerChan) }

// VerifInitTask is a task taken from the channel and not yet carried out.
type VerifInitTask struct{ params filtersInitializerParams }

// VerifTakePendingInit is the receive of updatesLoop's first arm alone: the
// loop has taken the task and is busy with it until VerifInstall.
func (d *DNSFilter) VerifTakePendingInit() (task *VerifInitTask) {
	select {
	case params := <-d.filtersInitializerChan:
		return &VerifInitTask{params: params}
	default:
		return nil
	}
}

// VerifInstall is the rest of updatesLoop's first arm: initFiltering with the
// parameters of the task.
func (d *DNSFilter) VerifInstall(task *VerifInitTask) (err error) {
	return d.initFiltering(task.params.allowFilters, task.params.blockFilters)
}

// VerifRunLoopUntilDrained runs the REAL updatesLoop in a goroutine, asks it
// to stop (the done channel, as Close does) and waits until it has returned;
// the loop's select may see the stop request before a queued task, so this
// is repeated until the channel is empty after the loop has returned.  Every
// task the loop took has then been carried out by the loop itself; nothing
// depends on how fast the goroutine runs.
func (d *DNSFilter) VerifRunLoopUntilDrained() (rounds int) {
	for {
		d.done = make(chan struct{}, 1)
		exited := make(chan struct{})
		go func() {
			defer close(exited)
			d.updatesLoop()
		}()
		d.done <- struct{}{}
		<-exited
		d.done = nil
		rounds++
		if len(d.filtersInitializerChan) == 0 {
			return rounds
		}
	}
}

// VerifTryRefresh is tryRefreshFilters, the call the periodic refresh of
// updatesLoop and POST /control/filtering/refresh make.
func (d *DNSFilter) VerifTryRefresh(block, allow, force bool) (updated int, isNetErr, ok bool) {
	return d.tryRefreshFilters(block, allow, force)
}

//go:build verif

package stats

import "github.com/AdguardTeam/AdGuardHome/internal/aghhttp"

// VerifRegisterRoutes runs the package's real registration function with the
// given RegisterFunc (C11 harness).
func VerifRegisterRoutes(reg aghhttp.RegisterFunc) {
	s := &StatsCtx{httpRegister: reg}
	s.initWeb()
}

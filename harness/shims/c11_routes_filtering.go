//go:build verif

package filtering

import "github.com/AdguardTeam/AdGuardHome/internal/aghhttp"

// VerifRegisterRoutes runs the package's real registration function with the
// given RegisterFunc (C11 harness).
func VerifRegisterRoutes(reg aghhttp.RegisterFunc) {
	d := &DNSFilter{conf: &Config{HTTPRegister: reg}}
	d.RegisterFilteringHandlers()
}

//go:build verif

package querylog

import (
	"math"
	"context"
	"fmt"
	"io"
	"os"
	"path/filepath"
	"strconv"
	"strings"
	"testing"
	"time"

	"github.com/AdguardTeam/golibs/errors"
	"github.com/AdguardTeam/golibs/logutil/slogutil"
)

// Reader-reuse histories: arbitrary interleavings of SeekStart / seekTS /
// ReadNext on ONE qLogReader over 0..3 files.
//
// Two monitors state the property directly on what the real reader did,
// without the model:
//
//   - twin: a second reader over the same files performs the same operations
//     EXCEPT the seeks that returned an error.  "A failed seek never
//     mis-positions subsequent reads" = every ReadNext of the reader under
//     test returns what the twin's ReadNext returns.
//   - run: the lines returned between two successful positionings (SeekStart,
//     a seek that found its record, a seek that fell back to the newest end)
//     are the expected descending run: they start at the positioned record,
//     go down one record at a time across the files, nothing twice, nothing
//     skipped, and after io.EOF nothing more.

// c20SpecSeek states the contract of qLogReader.seekTS on the stored stamps
// (strictly increasing inside every file): files are asked newest first; the
// file holding the stamp positions the reader on that record; a file wholly
// newer than the stamp passes the question on to the older file; a file
// wholly older than it makes the reader fall back to the newest end; a stamp
// between two records of a file is not found.  res: 0 found (idx = global
// index of the record), 1 not found, 2 fell back, 3 unspecified (an empty
// file was asked).
func c20SpecSeek(files [][]c20Line, base []int, ts int64) (res, idx int) {
	if len(files) == 0 {
		// nothing to ask: the contract says nothing (the code returns nil)
		return 3, 0
	}
	for i := len(files) - 1; i >= 0; i-- {
		switch rk := c20Rank(files[i], ts); {
		case rk >= 0:
			return 0, base[i] + rk
		case rk == -1:
			continue
		case rk == -2:
			return 2, 0
		case rk == -3:
			return 1, 0
		default:
			return 3, 0
		}
	}
	return 1, 0
}

// c20Step is one operation of a history.  kind: 0 SeekStart, 1 seekTS(ts),
// 2 ReadNext k times, 3 ReadNext until io.EOF.
type c20Step struct {
	kind int
	ts   int64
	tk   string // how the target was chosen (for the description only)
	k    int
}

// Scripted steps: the target of a seek is given by the records around it
// (global indices, oldest record = 0).
func c20SStart() c20Step     { return c20Step{kind: 0} }
func c20SRead(k int) c20Step { return c20Step{kind: 2, k: k} }
func c20SReadAll() c20Step   { return c20Step{kind: 3} }

// c20SSeek: at >= 0: the stamp of record at; at == -1: older than every
// record; at == -2: newer than every record; at <= -10: strictly between
// records -at-10 and -at-9.
func c20SSeek(at int) c20Step { return c20Step{kind: 1, k: at, tk: "scripted"} }

// c20SSeekRec: the same targets through qLogReader.seekRecord (search.go):
// seekTS, then one ReadNext stepping over the found record (round 8).
func c20SSeekRec(at int) c20Step { return c20Step{kind: 4, k: at, tk: "scripted"} }

// c20HistoryCase runs one history on one reader: the scripted steps if any,
// else nOps random ones.
func c20HistoryCase(t *testing.T, out *vfOut, r *vfRand, dir, kind string, files [][]c20Line, nOps int, script []c20Step, classes []string) {
	ctx := context.Background()
	logger := slogutil.NewDiscardLogger()
	var paths []string
	for i, f := range files {
		p := filepath.Join(dir, "h"+strconv.Itoa(i)+".json")
		if err := c20Write(p, f); err != nil {
			t.Fatal(err)
		}
		defer os.Remove(p)
		paths = append(paths, p)
	}
	rd, err := newQLogReader(ctx, logger, paths)
	if err != nil {
		t.Fatal(err)
	}
	defer rd.Close()
	tw, err := newQLogReader(ctx, logger, paths)
	if err != nil {
		t.Fatal(err)
	}
	defer tw.Close()

	mon := &c20Mon{failedAt: -1}
	var ops []string
	var hist []string
	defer c20Recover(out, "history/"+kind, &ops, nil)
	cls := map[string]bool{"reader-history": true}
	for _, c := range classes {
		cls[c] = true
	}
	var all []c20Line
	var base []int
	var fileOf []int
	idxOf := map[string]int{}
	for i, f := range files {
		base = append(base, len(all))
		for _, l := range f {
			idxOf[l.text] = len(all)
			all = append(all, l)
			fileOf = append(fileOf, i)
			if len(l.text) >= maxEntrySize-3 {
				cls["lines-at-limit"] = true
			}
		}
		if len(f) == 0 {
			cls["reader-empty-file"] = true
		}
	}
	n := len(all)
	if len(files) == 0 {
		cls["reader-no-files"] = true
	}
	curPos := func() (int64, int64) {
		if rd.currentFile < 0 || rd.currentFile >= len(rd.qFiles) {
			return int64(rd.currentFile), 0
		}
		return int64(rd.currentFile), rd.qFiles[rd.currentFile].position
	}
	obsRead := func(line string) string {
		c, p := curPos()
		return "(" + strconv.FormatInt(c, 10) + "," + strconv.Itoa(len(line)) + "," + strconv.FormatInt(p, 10) + ")"
	}

	// state of the run monitor
	known := false   // the reader was positioned on a definite record
	exp := -1        // global index of the record the next ReadNext must return (-1: io.EOF)
	runPrev := -2    // global index returned last in this run (-2: none yet)
	runEOF := false  // this run has reported io.EOF
	failedSeeks := 0 // failed seeks since the last successful positioning
	positioned := func(idx int) {
		known, exp, runPrev, runEOF, failedSeeks = true, idx, -2, false, 0
	}
	unknown := func() { known, runPrev, runEOF, failedSeeks = false, -2, false, 0 }

	// one ReadNext on both readers, judged by both monitors
	read := func() (line string, eof bool) {
		line, rerr := rd.ReadNext()
		tline, terr := tw.ReadNext()
		if rerr != nil && rerr != io.EOF {
			mon.fail("read-error", "ReadNext: %v", rerr)
		}
		eof = rerr != nil
		if eof != (terr != nil) || line != tline {
			mon.fail("failed-seek-changed-reads",
				"after %d failed seek(s) ReadNext returned (%s, eof=%v); the same reader without the failed seeks returns (%s, eof=%v)",
				failedSeeks, c20Short(line, idxOf), eof, c20Short(tline, idxOf), terr != nil)
		}
		if eof {
			if known && exp >= 0 {
				mon.fail("run-incomplete", "io.EOF with record %d (and %d older) still to be returned", exp, exp)
			}
			runEOF = true
			return line, true
		}
		gi, ok := idxOf[line]
		switch {
		case !ok:
			mon.fail("run-not-a-record", "ReadNext returned a string that is no stored record (len %d)", len(line))
		case runEOF:
			mon.fail("read-after-eof", "record %d returned after io.EOF without a positioning in between", gi)
		case runPrev != -2 && gi >= runPrev:
			mon.fail("run-duplicate", "record %d returned after record %d (not older)", gi, runPrev)
		case runPrev != -2 && gi != runPrev-1:
			mon.fail("run-gap", "record %d returned after record %d: %d record(s) skipped", gi, runPrev, runPrev-1-gi)
		}
		if known {
			if exp < 0 {
				mon.fail("run-extra", "expected io.EOF, got record %d", gi)
			} else if gi != exp || !ok {
				mon.fail("run-wrong-record", "expected record %d, got %s", exp, c20Short(line, idxOf))
			}
			if exp >= 0 {
				if exp > 0 && fileOf[exp] != fileOf[exp-1] {
					cls["reader-file-switch"] = true
				}
				exp--
			}
		}
		if ok {
			runPrev = gi
		}
		return line, false
	}

	gapTargets := func() (inFile, betweenFiles []int64) {
		for i := 0; i+1 < n; i++ {
			if ts, ok := c20Between(r, all[i].ts, all[i+1].ts); ok {
				if fileOf[i] == fileOf[i+1] {
					inFile = append(inFile, ts)
				} else {
					betweenFiles = append(betweenFiles, ts)
				}
			}
		}
		return inFile, betweenFiles
	}
	inFile, betweenFiles := gapTargets()

	// the steps: scripted, or drawn
	var steps []c20Step
	for _, st := range script {
		if st.kind == 1 || st.kind == 4 {
			switch at := st.k; {
			case n == 0:
				st.ts, st.tk = 1_700_000_000_000_000_000, "any"
			case at >= 0:
				st.ts, st.tk = all[at].ts, "present"
			case at == -1:
				st.ts, st.tk = all[0].ts-500, "older-than-all"
			case at == -2:
				st.ts, st.tk = all[n-1].ts+500, "newer-than-all"
			case at == -3:
				st.ts, st.tk = c20Year1700, "far-older-than-all"
			case at == -4:
				st.ts, st.tk = math.MinInt64, "far-older-than-all"
			case at == -5:
				st.ts, st.tk = math.MaxInt64, "far-newer-than-all"
			default:
				i := -at - 10
				st.ts = c20Mid(all[i].ts, all[i+1].ts)
				st.tk = map[bool]string{true: "between-records", false: "between-files"}[fileOf[i] == fileOf[i+1]]
			}
		}
		steps = append(steps, st)
	}
	for step := 0; script == nil && step < nOps; step++ {
		choice := r.Intn(20)
		if step == 0 && !r.Chance(1, 4) {
			choice = 0 // most histories start with SeekStart; the others read / seek an unpositioned reader
		}
		switch {
		case choice == 0 || choice == 1:
			steps = append(steps, c20SStart())
		case choice <= 11:
			var ts int64
			tk := ""
			switch k := r.Intn(10); {
			case n == 0:
				ts, tk = r.Range(1, 2_000_000_000_000_000_000), "any"
			case k == 8 || k == 9:
				// anywhere in the int64 range, the wrap boundaries of the stored stamps included
				ts, tk = vfPick(r, c20FarTargets(r, all)), "far"
				if rk := c20Rank(all, ts); rk == -1 {
					tk = "far-older-than-all"
				} else if rk == -2 {
					tk = "far-newer-than-all"
				}
			case k <= 2:
				ts, tk = all[r.Intn(n)].ts, "present"
			case k == 3:
				ts, tk = all[0].ts-r.Range(1, 1000), "older-than-all"
			case k == 4:
				ts, tk = all[n-1].ts+r.Range(1, 1000), "newer-than-all"
			case k == 5 && len(betweenFiles) > 0:
				ts, tk = vfPick(r, betweenFiles), "between-files"
			case len(inFile) > 0:
				ts, tk = vfPick(r, inFile), "between-records"
			default:
				ts, tk = all[r.Intn(n)].ts, "present"
			}
			kd := 1
			if r.Chance(1, 3) {
				kd = 4
			}
			steps = append(steps, c20Step{kind: kd, ts: ts, tk: tk})
		case choice == 12 && n > 0:
			steps = append(steps, c20SReadAll())
		default:
			steps = append(steps, c20SRead(1+r.Intn(4)))
		}
	}

	for _, st := range steps {
		mon.at = len(hist)
		switch st.kind {
		case 0:
			if err = rd.SeekStart(); err != nil {
				mon.fail("seekstart-error", "SeekStart: %v", err)
			}
			if terr := tw.SeekStart(); terr != nil {
				mon.fail("seekstart-error", "twin SeekStart: %v", terr)
			}
			c, p := curPos()
			ops = append(ops, vfApp("C20.RSeekStart", vfZ(c), vfZ(p)))
			hist = append(hist, "SeekStart")
			positioned(n - 1)
		case 1, 4:
			ts, tk := st.ts, st.tk
			isRec := st.kind == 4
			opName, coqOp := "seekTS", "C20.RSeek"
			var serr error
			if isRec {
				opName, coqOp = "seekRecord", "C20.RSeekRec"
				cls["seek-record"] = true
				if ts > time.Now().UnixNano() {
					cls["seek-record-stamp-after-wall-clock"] = true
				}
				serr = rd.seekRecord(ctx, time.Unix(0, ts))
			} else {
				serr = rd.seekTS(ctx, ts)
			}
			code := int64(0)
			switch {
			case serr == nil:
			case errors.Is(serr, errTSNotFound):
				code = 1
			default:
				code = 4
			}
			c, p := curPos()
			ops = append(ops, vfApp(coqOp, vfZ(ts), vfZ(code), vfZ(c), vfZ(p), vfBool(rd.seekFellBack)))
			res, idx := c20SpecSeek(files, base, ts)
			hist = append(hist, fmt.Sprintf("%s(%s %d)=%s", opName, tk, ts, map[bool]string{true: "ok", false: "error"}[serr == nil]))
			if serr == nil {
				// the twin follows every successful seek
				var terr error
				if isRec {
					terr = tw.seekRecord(ctx, time.Unix(0, ts))
				} else {
					terr = tw.seekTS(ctx, ts)
				}
				if terr != nil {
					mon.fail("twin-seek", "the seek succeeded on the reader under test and failed on its twin: %v", terr)
				}
			} else {
				failedSeeks++
				cls["history-failed-seek"] = true
				if known && exp >= 0 && exp < n-1 {
					cls["history-failed-seek-mid-run"] = true
				}
				if known && exp >= 0 && fileOf[exp] != len(files)-1 {
					cls["history-failed-seek-in-older-file"] = true
				}
			}
			switch res {
			case 0:
				cls["reader-seek-found-file-"+strconv.Itoa(len(files)-1-fileOf[idx])] = true
				if serr != nil || rd.seekFellBack {
					mon.fail("reader-seek-present", "seek of the stamp of record %d: err %v fellback %v", idx, serr, rd.seekFellBack)
				}
			case 1:
				cls["reader-not-found"] = true
				if code != 1 || rd.seekFellBack {
					mon.fail("reader-absent-class", "seek of an absent stamp (%s): err %v fellback %v", tk, serr, rd.seekFellBack)
				}
			case 2:
				cls["reader-fell-back"] = true
				if tk == "between-files" {
					cls["reader-between-files"] = true
				}
				if serr != nil || !rd.seekFellBack {
					mon.fail("reader-fallback", "seek of a stamp after a file's end (%s): err %v fellback %v", tk, serr, rd.seekFellBack)
				}
			}
			switch {
			case serr != nil:
				// a failed seek positions nothing: the run goes on
			case len(files) == 0:
				// no file: nil error, nothing to read
			case res == 0 && isRec:
				// seekRecord steps over the requested record: the next read returns
				// the one just older (io.EOF behind the oldest), whatever the wall
				// clock says about the stamps
				positioned(idx - 1)
			case res == 0:
				positioned(idx)
			case res == 2:
				positioned(n - 1)
			default:
				unknown()
			}
		case 3:
			// read to the end
			var obs []string
			for k := 0; k <= n+2; k++ {
				line, eof := read()
				if eof {
					break
				}
				obs = append(obs, obsRead(line))
				if k == n+2 {
					mon.fail("read-no-eof", "more than %d records returned without io.EOF", n+2)
				}
			}
			ops = append(ops, vfApp("C20.RReadAll", vfList("Z * Z * Z", obs)+"%Z"))
			hist = append(hist, "ReadNext*"+strconv.Itoa(len(obs))+"+EOF")
		default:
			got := 0
			for j := 0; j < st.k; j++ {
				line, eof := read()
				if eof {
					ops = append(ops, vfApp("C20.RRead", vfOpt("Z * Z * Z", false, "")))
					break
				}
				got++
				ops = append(ops, vfApp("C20.RRead", vfOpt("Z * Z * Z", true, obsRead(line)+"%Z")))
			}
			if got < st.k {
				hist = append(hist, "ReadNext*"+strconv.Itoa(got)+"+EOF")
			} else {
				hist = append(hist, "ReadNext*"+strconv.Itoa(got))
			}
		}
	}
	fitems := make([]string, len(files))
	counts := make([]int, len(files))
	for i, f := range files {
		fitems[i] = c20CoqFile(f)
		counts[i] = len(f)
	}
	metaWrap, metaDesc := c20MetaOf(paths...)
	if metaDesc != nil {
		cls["meta-"+c20CurMeta.kind] = true
	}
	c := vfCase{
		Coq: metaWrap(vfApp("C20.CReader", vfZ(maxEntrySize), vfZ(bufferSize), vfList("list (Z * Z)", fitems),
			vfList("C20.rop", ops))),
		Nontrivial: n > 0,
		MonitorOK:  len(mon.msgs) == 0,
		MonitorMsg: strings.Join(mon.msgs, "; "),
		FindingKey: mon.key,
		Desc: map[string]any{"kind": "history/" + kind, "records_per_file_oldest_first": counts,
			"first_stamp": c20FirstStamp(all), "history": hist},
	}
	if metaDesc != nil {
		c.Desc.(map[string]any)["metadata"] = metaDesc
	}
	if mon.failedAt >= 0 && mon.failedAt < len(hist) {
		// the monitors are prefix-closed: the history up to the first failing
		// operation is itself a failing history
		c.Desc.(map[string]any)["history_up_to_first_failure"] = hist[:mon.failedAt+1]
	}
	for k := range cls {
		c.Classes = append(c.Classes, k)
	}
	out.Emit(c)
}

func c20FirstStamp(all []c20Line) int64 {
	if len(all) == 0 {
		return 0
	}
	return all[0].ts
}

// c20Short names a returned string for messages.
func c20Short(line string, idxOf map[string]int) string {
	if gi, ok := idxOf[line]; ok {
		return "record " + strconv.Itoa(gi)
	}
	if line == "" {
		return "\"\""
	}
	return "a string of " + strconv.Itoa(len(line)) + " bytes that is no record"
}

// c20GenFiles draws nf files with increasing stamps; some empty.
func c20GenFiles(r *vfRand, nf int, ts0 int64, maxLines int, emptyChance int) (files [][]c20Line) {
	kinds := []string{"short", "short", "mixed", "medium", "limit", "large"}
	ts := ts0
	idx := 0
	for j := 0; j < nf; j++ {
		kind := vfPick(r, kinds)
		n := int(r.Range(1, int64(maxLines)))
		if r.Chance(1, 5) {
			n = 1
		}
		if emptyChance > 0 && r.Chance(1, emptyChance) {
			n = 0
		}
		f, e := c20GenFile(r, kind, n, 0, ts+vfPick(r, []int64{0, 1, 5, 1_000_000_000}), idx)
		ts = e
		idx += len(f)
		files = append(files, f)
	}
	return files
}

// c20FutureDelta moves a stamp of 2023 to the year 2100: later than the wall
// clock of any run of this harness (whole seconds, so that the line keeps its
// length).
const c20FutureDelta = int64(77*365+19) * 86400 * 1_000_000_000

// c20ToFuture returns a copy of files (oldest first) in which the records
// from record fromLine of file fromFile on carry stamps after the wall clock;
// the lines keep their lengths, the stamps stay strictly increasing.
func c20ToFuture(files [][]c20Line, fromFile, fromLine int) (out [][]c20Line) {
	gi := 0
	for i, f := range files {
		var g []c20Line
		for j, l := range f {
			if i > fromFile || (i == fromFile && j >= fromLine) {
				l = c20MakeLine(gi, l.ts+c20FutureDelta, len(l.text))
			}
			g = append(g, l)
			gi++
		}
		out = append(out, g)
	}
	return out
}

// c20SeekRecScript: seekRecord to every record in turn (newest first), each
// followed by two reads, then the absent classes.
func c20SeekRecScript(n int) (sc []c20Step) {
	for i := n - 1; i >= 0; i-- {
		sc = append(sc, c20SSeekRec(i), c20SRead(2))
	}
	sc = append(sc, c20SSeekRec(-2), c20SRead(1), c20SSeekRec(-1), c20SRead(1), c20SSeekRec(-10-(n-2)), c20SRead(1), c20SSeekRec(n/2), c20SReadAll())
	return sc
}

//go:build verif

package querylog

import (
	"bytes"
	"context"
	"encoding/json"
	"fmt"
	"log/slog"
	"math"
	"net"
	"net/http/httptest"
	"net/netip"
	"net/url"
	"os"
	"runtime"
	"slices"
	"sort"
	"strconv"
	"strings"
	"testing"
	"time"

	"github.com/AdguardTeam/AdGuardHome/internal/aghnet"
	"github.com/AdguardTeam/AdGuardHome/internal/filtering"
	"github.com/AdguardTeam/AdGuardHome/internal/filtering/rulelist"
	"github.com/AdguardTeam/golibs/timeutil"
	"github.com/AdguardTeam/urlfilter/rules"
	"github.com/miekg/dns"
	"golang.org/x/net/idna"
)

var c07Hosts = []string{
	"example.org", "ads.example.org", "tracker.ads.example.net", "cdn.example.com",
	"xn--e1afmkfd.example", "a.b", "ignored.example", "sub.ignored.example", "host-7.lan",
	"EXAMPLE.io", "a&b.example.org", "x<y.example.net",
}

var c07IPs = []string{"192.168.1.5", "192.168.1.55", "10.0.0.1", "2001:db8::1", "127.0.0.1"}

// c07Mask is the property's own reading of the anonymisation (last 16 bits of
// an IPv4 address, last 80 bits of an IPv6 address zeroed), independent of
// querylog.AnonymizeIP.
func c07Mask(ip string) string {
	a, err := netip.ParseAddr(ip)
	if err != nil {
		return ip
	}
	if a.Is4() || a.Is4In6() {
		b := a.Unmap().As4()
		b[2], b[3] = 0, 0
		return netip.AddrFrom4(b).String()
	}
	b := a.As16()
	for i := 6; i < 16; i++ {
		b[i] = 0
	}
	return netip.AddrFrom16(b).String()
}

// c07Texts: the address texts of a case (the pool, then the masked forms);
// c07TextIndex finds one (len(c07Texts()) = not an address of the case).
func c07Texts() (texts []string) {
	texts = append(texts, c07IPs...)
	for _, ip := range c07IPs {
		texts = append(texts, c07Mask(ip))
	}
	return texts
}

func c07TextIndex(s string) int {
	ts := c07Texts()
	for i, t := range ts {
		if t == s {
			return i
		}
	}
	return len(ts)
}

// c07CoqTexts renders the two tables of a CHist case: the texts and the
// (address, masked address) index pairs.
func c07CoqTexts() (texts, masks string) {
	var ts, ms []string
	for _, t := range c07Texts() {
		ts = append(ts, vfBytes(t))
	}
	for i := range c07IPs {
		ms = append(ms, vfPair(vfN(uint64(i)), vfN(uint64(len(c07IPs)+i))))
	}
	return vfList("bytes", ts), vfList("N * N", ms)
}

var c07CIDs = []string{"", "", "phone", "my-laptop", "tv", "Sys-Kiosk"}

// c07ClientTables are the FindClient tables the history switches between.
var c07ClientTables = [][]struct {
	id     string
	name   string
	ignore bool
}{
	{},
	{{"192.168.1.5", "Kitchen", false}, {"phone", "Alices Phone", false}, {"10.0.0.1", "router", false}},
	{{"192.168.1.5", "Kitchen", true}, {"phone", "Alices Phone", false}, {"tv", "TV", true}, {"2001:db8::1", "srv6", false}},
	// upper-case K / S past the start of a name: terms starting with k / s
	// (stringutil.ContainsFold missed them, repaired as f792c49).
	{{"127.0.0.1", "My Kitchen", false}, {"192.168.1.55", "TV Set", false}, {"my-laptop", "Alices laptoP", false}},
}

var c07IgnoreLists = [][]string{
	{},
	{"ignored.example"},
	{"||ignored.example^", "a.b"},
	{"cdn.example.com", "|host-7.lan^"},
}

var c07Statuses = filteringStatusValues

// c07Rec is what the harness knows about one recorded entry.
type c07Rec struct {
	id       int
	ns       int64
	jlen     int
	host     string
	ip       string
	cid      string
	reason   filtering.Reason
	filtered bool
	want     string // canonical JSON of the entry as the API shows it with anonymisation off
	wantAnon string // the same with the client address masked (c07Mask)
	where    int    // 0 memory, 1 current file, 2 rotated file, -1 gone
}

type c07H struct {
	t       *testing.T
	ctx     context.Context
	r       *vfRand
	dir     string
	l       *queryLog
	conf    Config
	table   int
	ignore  int
	recs    []*c07Rec
	byNS    map[int64][]*c07Rec
	lastNS  int64
	// hook is the slog handler of the log: newLogEntry reports an answer that
	// cannot be packed through it, i.e. from inside Add, after the caller's part
	// of the work and before Add locks the buffer.
	hook *c07Hook
	// latePct: per cent of the recorded queries whose Add is overtaken by
	// whole other Adds (flushes, rotations) between building the entry and
	// locking the buffer.
	latePct int
	// stepPct: per cent of the recorded queries whose stamp is rewritten the
	// way a wall clock that stepped back (or stood still) would leave it.
	stepPct int
	// stepped: a stamp was rewritten out of order in this history (the
	// assumption "clock readings under the lock strictly rise" is off).
	stepped bool
	inLate  bool
	steps   []string
	cls     map[string]bool
	msgs    []string
	key     string
	nsearch int
	stuck   bool
	// forceHost, when set, is the host of the next recorded queries.
	forceHost string
	// wideLines (round 6): the next recorded queries get host names of 1-250
	// bytes and answers of 0-3 KB, so that the lines of the log file differ
	// widely in length.
	wideLines bool
	// tuneLen (round 6), when set: the next recorded query gets no answer and a
	// host name of such a length that its line in the log file has exactly one
	// of these lengths (the first that a host name of 1-250 bytes gives;
	// provided the clock reading it gets is written with nine fractional
	// digits).
	tuneLen []int
	// lockHeld: the harness itself holds fileFlushLock, so the flush an Add
	// spawns cannot run yet (the Add is recorded as OAddAsync).
	lockHeld bool
	// anon: anonymize_client_ip as last configured (kept across restarts, as
	// the configuration file keeps it).
	anon bool
	desc    []string
	// anonSeen: entries that were served from memory while anonymising
	anonSeen map[int]bool
	// ivl: the rotation interval as last configured (through the API or by the
	// configuration a restart read)
	ivl time.Duration
	// forceReason / forceFiltered, when set (>= 0), fix the filtering result
	// of the next recorded queries; forceAge backdates the next recorded
	// query (a record left by an earlier run of the program).
	forceReason   int
	forceFiltered int
	forceAge      time.Duration
	// cells: (status, reason, filtered) cells asked while an entry of that
	// reason / flag was visible
	cells map[[3]int]bool
}

func c07NewH(t *testing.T, r *vfRand, dir string) *c07H {
	return &c07H{t: t, ctx: context.Background(), r: r, dir: dir, byNS: map[int64][]*c07Rec{}, cls: map[string]bool{}, hook: &c07Hook{},
		anonSeen: map[int]bool{}, ivl: timeutil.Day, forceReason: -1, forceFiltered: -1, cells: map[[3]int]bool{}}
}

// trace appends one readable line per operation / request to the case
// description (what a replay file shows as the input).
func (h *c07H) trace(format string, a ...any) {
	if len(h.desc) < 400 {
		h.desc = append(h.desc, fmt.Sprintf(format, a...))
	}
}

func (h *c07H) fail(key, format string, a ...any) {
	if h.key == "" {
		h.key = key
	}
	if len(h.msgs) < 4 {
		h.msgs = append(h.msgs, fmt.Sprintf(format, a...))
	}
}

func (h *c07H) findClient(ids []string) (c *Client, err error) {
	for _, id := range ids {
		for _, e := range c07ClientTables[h.table] {
			if e.id == id {
				return &Client{Name: e.name, IgnoreQueryLog: e.ignore}, nil
			}
		}
	}
	return nil, nil
}

func (h *c07H) coqClients() string {
	var items []string
	for _, e := range c07ClientTables[h.table] {
		items = append(items, vfPair(vfBytes(e.id), vfApp("C07.Cl", vfBytes(e.name), vfBool(e.ignore))))
	}
	return vfList("bytes * client", items)
}

// coqIgnored lists the pool hosts the CURRENT ignore engine matches (oracle).
func (h *c07H) coqIgnored() string {
	var items []string
	for _, host := range c07Hosts {
		if h.l.conf.Ignored.Has(strings.ToLower(host)) {
			items = append(items, vfBytes(strings.ToLower(host)))
		}
	}
	return vfList("bytes", items)
}

func (h *c07H) coqConfig() string {
	return vfApp("C07.Cfg", vfBool(h.l.conf.Enabled), vfBool(h.l.conf.FileEnabled), vfZ(int64(h.l.conf.MemSize)),
		h.coqIgnored(), h.coqClients())
}

func (h *c07H) newLog(memSize uint, fileEnabled, enabled bool) {
	eng, err := aghnet.NewIgnoreEngine(c07IgnoreLists[h.ignore])
	if err != nil {
		h.t.Fatal(err)
	}
	h.conf = Config{
		Logger:         slog.New(h.hook),
		Ignored:        eng,
		Anonymizer:     aghnet.NewIPMut(nil),
		ConfigModified: func() {},
		FindClient:     h.findClient,
		BaseDir:        h.dir,
		RotationIvl:    h.ivl,
		MemSize:        memSize,
		Enabled:        enabled,
		FileEnabled:    fileEnabled,
		AnonymizeClientIP: h.anon,
	}
	if h.anon {
		h.conf.Anonymizer = aghnet.NewIPMut(AnonymizeIP)
	}
	h.l, err = newQueryLog(h.conf)
	if err != nil {
		h.t.Fatal(err)
	}
}

// canon re-marshals a decoded JSON entry without the fields that depend on
// the current client table.
func c07Canon(m map[string]any) string {
	delete(m, "client_info")
	b, _ := json.Marshal(m)
	return string(b)
}

// c07Hook is the log's slog handler.  Only errors are enabled; when fn is set
// the next "adding data from response" error runs it once, inside the Add that
// logs it.
type c07Hook struct{ fn func() }

func (k *c07Hook) Enabled(_ context.Context, lv slog.Level) bool { return lv >= slog.LevelError }
func (k *c07Hook) Handle(_ context.Context, rec slog.Record) error {
	if k.fn != nil && rec.Message == "adding data from response" {
		f := k.fn
		k.fn = nil
		f()
	}
	return nil
}
func (k *c07Hook) WithAttrs([]slog.Attr) slog.Handler { return k }
func (k *c07Hook) WithGroup(string) slog.Handler      { return k }

// Clock steps the harness simulates by rewriting the stamp of the entry just
// pushed (as it does for the records "left by an earlier run").
const (
	c07StepNone  = iota
	c07StepEqual // the reading of the previous record again
	c07StepSwap  // 1 ns before the previous record
	c07StepBack  // 1 ns before a record 2-4 places back
)

// add records one query and waits for the flush it may trigger.
func (h *c07H) add() {
	if h.latePct+h.stepPct > 0 && !h.inLate && !h.lockHeld && h.forceAge == 0 && h.l.conf.Enabled {
		k := h.r.Intn(100)
		switch {
		case k < h.latePct:
			n := int(h.r.Range(1, 3))
			h.addX(func() {
				for i := 0; i < n; i++ {
					switch j := h.r.Intn(10); {
					case j < 7:
						h.add()
					case j < 9:
						h.flushOp()
					default:
						h.rotateOp()
					}
				}
			}, c07StepNone)
			return
		case k < h.latePct+h.stepPct:
			h.addX(nil, 1+h.r.Intn(3))
			return
		}
	}
	h.addX(nil, c07StepNone)
}

// unordered: the records the log holds are not in strictly increasing stamp
// order in the order they were pushed.
func (h *c07H) unordered() bool {
	last := int64(math.MinInt64)
	for _, x := range h.recs {
		if x.where < 0 {
			continue
		}
		if x.ns <= last {
			return true
		}
		last = x.ns
	}
	return false
}

// weak: the history is outside the assumption (a simulated clock step left
// stamps out of order): only what holds for every push order is judged
// (each page newest first, the unpaged listing complete, cursor pages never
// repeat a record), not the absence of gaps.
func (h *c07H) weak() bool { return h.stepped && h.unordered() }

// addX records one query.  late != nil: the Add is overtaken: it is called
// with an answer that cannot be packed, newLogEntry reports that through the
// logger, and the handler runs late (whole Adds of other queries, flushes,
// rotations, each awaited) before Add goes on to lock the buffer: the schedule
// "goroutine 1 has built its entry, goroutine 2 records its query, goroutine 1
// gets the lock", driven through the real Add.  step: a simulated clock step.
func (h *c07H) addX(late func(), step int) {
	r := h.r
	host := vfPick(r, c07Hosts)
	if h.forceHost != "" {
		host = h.forceHost
	}
	if h.wideLines {
		host = c07WideHost(r)
	}
	ip := vfPick(r, c07IPs)
	cid := vfPick(r, c07CIDs)
	reason := filtering.Reason(r.Intn(12))
	res := &filtering.Result{Reason: reason}
	switch reason {
	case filtering.FilteredBlockList, filtering.FilteredSafeBrowsing, filtering.FilteredParental,
		filtering.FilteredSafeSearch, filtering.FilteredBlockedService, filtering.FilteredInvalid:
		res.IsFiltered = !r.Chance(1, 8)
	default:
		res.IsFiltered = r.Chance(1, 10)
	}
	if h.forceReason >= 0 {
		reason = filtering.Reason(h.forceReason)
		res.Reason = reason
	}
	if h.forceFiltered >= 0 {
		res.IsFiltered = h.forceFiltered == 1
	}
	for i, n := 0, r.Intn(3); i < n; i++ {
		res.Rules = append(res.Rules, &filtering.ResultRule{
			Text: vfPick(r, []string{"||ads.example.org^", "@@||example.org^$important", "|a.b^$dnsrewrite=1.2.3.4", ""}),
			FilterListID: rulelistID(r.Intn(4)),
		})
	}
	if reason == filtering.FilteredBlockedService {
		res.ServiceName = "svc" + strconv.Itoa(r.Intn(3))
	}
	if reason == filtering.RewrittenRule && r.Bool() {
		res.DNSRewriteResult = &filtering.DNSRewriteResult{
			RCode: dns.RcodeSuccess,
			Response: filtering.DNSRewriteResultResponse{
				dns.TypeA:   []rules.RRValue{net.IPv4(1, 2, 3, 4)},
				dns.TypeTXT: []rules.RRValue{"hello \"quoted\""},
			},
		}
	}
	if reason == filtering.Rewritten && r.Bool() {
		res.CanonName = "canon.example.org"
		res.IPList = []netip.Addr{netip.MustParseAddr("5.6.7.8")}
	}
	qt := vfPick(r, []uint16{dns.TypeA, dns.TypeAAAA, dns.TypeHTTPS, dns.TypeTXT})
	q := &dns.Msg{Question: []dns.Question{{Name: host + ".", Qtype: qt, Qclass: dns.ClassINET}}}
	p := &AddParams{
		Question:          q,
		Result:            res,
		ClientID:          cid,
		Upstream:          vfPick(r, []string{"", "8.8.8.8:53", "https://dns.example/dns-query"}),
		ClientProto:       vfPick(r, []ClientProto{ClientProtoPlain, ClientProtoDoH, ClientProtoDoT, ClientProtoDoQ, ClientProtoDNSCrypt}),
		ClientIP:          net.ParseIP(ip),
		Elapsed:           time.Duration(r.Range(0, 5_000_000)),
		Cached:            r.Chance(1, 4),
		AuthenticatedData: r.Chance(1, 5),
	}
	if r.Chance(2, 3) {
		a := &dns.Msg{}
		a.SetReply(q)
		a.Rcode = vfPick(r, []int{dns.RcodeSuccess, dns.RcodeSuccess, dns.RcodeNameError, dns.RcodeServerFailure})
		if a.Rcode == dns.RcodeSuccess && r.Bool() {
			a.Answer = append(a.Answer, &dns.A{Hdr: dns.RR_Header{Name: q.Question[0].Name, Rrtype: dns.TypeA, Class: dns.ClassINET, Ttl: uint32(r.Intn(600))}, A: net.IPv4(9, 9, byte(r.Intn(256)), 1)})
		}
		if h.wideLines {
			// TXT strings of up to 255 bytes: an answer of 0-3 KB
			for left := int(r.Range(0, 3000)) * r.Intn(2); left > 0; {
				k := int(r.Range(1, 255))
				if k > left {
					k = left
				}
				a.Answer = append(a.Answer, &dns.TXT{Hdr: dns.RR_Header{Name: q.Question[0].Name, Rrtype: dns.TypeTXT, Class: dns.ClassINET, Ttl: 60}, Txt: []string{strings.Repeat("t", k)}})
				left -= k
			}
		}
		p.Answer = a
		if r.Chance(1, 4) {
			p.OrigAnswer = a
		}
	}
	if r.Chance(1, 6) {
		_, p.ReqECS, _ = net.ParseCIDR("1.2.3.0/24")
	}

	if h.wideLines {
		// The property (and qLogFile's reader) speaks of lines shorter than
		// the entry limit: many short TXT strings, base64 and a copy in
		// OrigAnswer can push a wide line past it; such a record is made
		// narrower instead of being recorded (class wide-line-trimmed).
		for tries := 0; tries < 8; tries++ {
			dry := newLogEntry(h.ctx, slog.New(h.hook), p)
			db, _ := json.Marshal(dry)
			if len(db)+64 < maxEntrySize {
				break
			}
			h.cls["wide-line-trimmed"] = true
			if p.OrigAnswer != nil {
				p.OrigAnswer = nil

				continue
			}
			if p.Answer != nil && len(p.Answer.Answer) > 1 {
				p.Answer.Answer = p.Answer.Answer[:len(p.Answer.Answer)/2]

				continue
			}
			p.Answer = nil
		}
	}

	if len(h.tuneLen) > 0 {
		p.Answer, p.OrigAnswer = nil, nil
		dry := newLogEntry(h.ctx, slog.New(h.hook), p)
		db, _ := json.Marshal(dry)
		t9 := dry.Time.Truncate(time.Second).Add(123456789)
		cur := len(db) - len(dry.Time.Format(time.RFC3339Nano)) + len(t9.Format(time.RFC3339Nano))
		for _, tl := range h.tuneLen {
			if wantHost := len(dry.QHost) + tl - cur; wantHost >= 1 && wantHost <= 250 {
				host = c07HostOfLen(r, wantHost)
				q.Question[0].Name = host + "."
				break
			}
		}
		h.tuneLen = nil
	}
	// strictly increasing wall-clock stamps
	for time.Now().UnixNano() <= h.lastNS {
	}
	l := h.l
	if !l.conf.Enabled {
		l.Add(p)
		h.steps = append(h.steps, vfApp("C07.HOp", vfApp("OAdd", vfApp("C07.E", vfN(0), vfZ(h.lastNS+1), vfZ(100), vfBytes(strings.ToLower(host)), vfBytes(ip), vfBytes(cid), vfZ(int64(reason)), vfBool(res.IsFiltered)))))
		h.cls["add-while-disabled"] = true
		h.trace("add (log disabled) %s from %s clientid=%q", host, ip, cid)
		return
	}
	// hold the flush lock so that the asynchronous flush cannot empty the
	// buffer before the recorded entry has been read back
	hookRan := false
	if late != nil {
		// an A record whose owner name has a label of 70 bytes: Pack fails
		a := &dns.Msg{}
		a.SetReply(q)
		a.Answer = append(a.Answer, &dns.A{Hdr: dns.RR_Header{Name: strings.Repeat("x", 70) + ".example.", Rrtype: dns.TypeA, Class: dns.ClassINET, Ttl: 1}, A: net.IPv4(9, 9, 9, 9)})
		p.Answer, p.OrigAnswer = a, nil
		nrec := len(h.recs)
		h.hook.fn = func() {
			// the entry has been built (before 3418b11: and stamped)
			for t0 := time.Now().UnixNano(); time.Now().UnixNano() <= t0; {
			}
			h.trace("Add of the next record has built its entry and is about to lock the buffer; meanwhile:")
			h.inLate = true
			late()
			h.inLate = false
			if len(h.recs) > nrec {
				h.cls["interleaved-add"] = true
				if len(h.recs) > nrec+1 {
					h.cls["interleaved-add-overtaken-by-2+"] = true
				}
				if h.recs[len(h.recs)-1].where == 1 {
					h.cls["interleaved-add-across-flush"] = true
				}
				if h.recs[len(h.recs)-1].where == 2 {
					h.cls["interleaved-add-across-rotation"] = true
				}
			}
			for time.Now().UnixNano() <= h.lastNS {
			}
			// from here on as in an ordinary add: the flush this Add may spawn
			// must not empty the buffer before the entry has been read back
			l.fileFlushLock.Lock()
			hookRan = true
		}
	} else if !h.lockHeld {
		l.fileFlushLock.Lock()
	}
	l.Add(p)
	if late != nil && !hookRan {
		h.t.Fatal("the logger hook did not run inside Add")
	}
	var ent *logEntry
	var pending bool
	func() {
		l.bufferLock.Lock()
		defer l.bufferLock.Unlock()
		l.buffer.ReverseRange(func(e *logEntry) bool { ent = e; return false })
		pending = l.flushPending
	}()
	if ent == nil {
		h.t.Fatal("entry not in the buffer after Add")
	}
	if h.forceAge > 0 {
		// a record left by an earlier run: the flush this Add may have spawned
		// waits for fileFlushLock, so the entry is still only in the buffer
		old := time.Now().Add(-h.forceAge)
		if old.UnixNano() <= h.lastNS {
			h.t.Fatalf("backdated stamp %d not after %d", old.UnixNano(), h.lastNS)
		}
		func() {
			l.bufferLock.Lock()
			defer l.bufferLock.Unlock()
			ent.Time = time.Unix(0, old.UnixNano())
		}()
		h.cls["backdated-record"] = true
	}
	stepped := false
	if step != c07StepNone && len(h.recs) > 0 {
		// a wall clock that stood still / stepped back between two readings
		ns, cl := int64(0), ""
		switch step {
		case c07StepEqual:
			ns, cl = h.recs[len(h.recs)-1].ns, "clock-step-equal"
		case c07StepSwap:
			ns, cl = h.recs[len(h.recs)-1].ns-1, "clock-step-swap"
		default:
			k := int(r.Range(2, 4))
			if k > len(h.recs) {
				k = len(h.recs)
			}
			ns, cl = h.recs[len(h.recs)-k].ns-1, "clock-step-back-k"
		}
		if ns > 0 && (step == c07StepEqual || len(h.byNS[ns]) == 0) {
			func() {
				l.bufferLock.Lock()
				defer l.bufferLock.Unlock()
				ent.Time = time.Unix(0, ns)
			}()
			stepped, h.stepped = true, true
			h.cls[cl] = true
		}
	}
	rec := &c07Rec{id: len(h.recs) + 1, ns: ent.Time.UnixNano(), host: ent.QHost, ip: ent.IP.String(), cid: ent.ClientID,
		reason: ent.Result.Reason, filtered: ent.Result.IsFiltered}
	b, err := json.Marshal(ent)
	if err != nil {
		h.t.Fatal(err)
	}
	rec.jlen = len(b)
	// rendered on a private copy of the address and without the anonymiser,
	// so that this extra call cannot touch the entry in the buffer
	clone := ent.shallowClone()
	clone.IP = slices.Clone(ent.IP)
	jb, _ := json.Marshal(l.entryToJSON(h.ctx, clone, aghnet.NewIPMut(nil).Load()))
	var m map[string]any
	_ = json.Unmarshal(jb, &m)
	rec.want = c07Canon(m)
	m["client"] = c07Mask(rec.ip)
	rec.wantAnon = c07Canon(m)
	if !h.lockHeld {
		l.fileFlushLock.Unlock()
	}
	if pending && !h.lockHeld {
		h.cls["add-triggers-flush"] = true
		// wait (bounded) until the asynchronous flush has finished
		deadline := time.Now().Add(5 * time.Second)
		for {
			l.bufferLock.Lock()
			pend := l.flushPending
			l.bufferLock.Unlock()
			if !pend {
				break
			}
			if time.Now().After(deadline) {
				h.fail("flush-stuck", "the flush triggered by Add did not finish (flushPending stays set)")
				h.stuck = true
				c07Stuck = true
				break
			}
			runtime.Gosched()
		}
		l.fileFlushLock.Lock()
		l.fileFlushLock.Unlock()
	}
	if !stepped && rec.ns <= h.lastNS {
		// the clock was made to advance past every earlier stamp before this
		// Add was called (and again before it locked the buffer)
		prev := h.recs[len(h.recs)-1]
		for _, x := range h.recs {
			if x.ns >= rec.ns {
				prev = x
				break
			}
		}
		h.fail("stamp-order", "record #%d was pushed after record #%d but carries a stamp %d ns older (overtaken between building the entry and locking the buffer: %v): push order is not stamp order",
			rec.id, prev.id, prev.ns-rec.ns, late != nil)
	}
	if rec.ns > h.lastNS {
		h.lastNS = rec.ns
	}
	h.recs = append(h.recs, rec)
	h.byNS[rec.ns] = append(h.byNS[rec.ns], rec)
	h.trace("add #%d %s from %s clientid=%q reason=%d flush_spawned=%v overtaken=%v clock_step=%v stamp=%d", rec.id, rec.host, rec.ip, rec.cid, rec.reason, pending, late != nil, stepped, rec.ns)
	opName := "OAdd"
	if h.lockHeld {
		opName = "OAddAsync"
	}
	h.steps = append(h.steps, vfApp("C07.HOp", vfApp(opName, vfApp("C07.E", vfN(uint64(rec.id)), vfZ(rec.ns), vfZ(int64(rec.jlen)),
		vfBytes(rec.host), vfBytes(rec.ip), vfBytes(rec.cid), vfZ(int64(rec.reason)), vfBool(rec.filtered)))))
	// the monitor's own book-keeping of where entries live
	memCap := int(l.conf.MemSize)
	if memCap == 0 {
		memCap = 1
	}
	nmem := 0
	for _, x := range h.recs {
		if x.where == 0 && x != rec {
			nmem++
		}
	}
	if nmem >= memCap { // the ring buffer overwrote its oldest entry
		for _, x := range h.recs {
			if x.where == 0 && x != rec {
				x.where = -1
				h.cls["ring-overwrite"] = true
				break
			}
		}
	}
	if pending && !h.lockHeld {
		h.moveMemToFile()
	}
	// "every recorded query is returned", all memory sizes: with file logging
	// on, once the Add (and the flush it started) is over the buffer is not
	// full (the next Add would overwrite its oldest record), and with
	// size_memory 0, where memory is never searched, it is empty: the record
	// has reached the file.
	if l.conf.FileEnabled && !h.lockHeld && !h.stuck {
		inMem := 0
		for _, x := range h.recs {
			if x.where == 0 {
				inMem++
			}
		}
		if ms := int(l.conf.MemSize); (ms == 0 && inMem > 0) || (ms > 0 && inMem >= ms) {
			h.fail("recorded-reaches-file", "record #%d: size_memory %d, file logging on: after Add %d record(s) stay in the memory buffer and no flush was started (flush_spawned=%v): %s",
				rec.id, ms, inMem, pending,
				map[bool]string{true: "with size_memory 0 memory is never searched, the record is never returned and the next Add overwrites it", false: "the buffer is full, the next Add overwrites its oldest record"}[ms == 0])
		}
	}
}

func rulelistID(i int) (id rulelist.URLFilterID) { return rulelist.URLFilterID(i) }

func (h *c07H) moveMemToFile() {
	for _, x := range h.recs {
		if x.where == 0 {
			x.where = 1
		}
	}
}

func c07CountLines(path string) int64 {
	b, err := os.ReadFile(path)
	if err != nil {
		return -1
	}
	return int64(bytes.Count(b, []byte{'\n'}))
}

func (h *c07H) state() {
	l := h.l
	l.bufferLock.Lock()
	n := l.buffer.Len()
	l.bufferLock.Unlock()
	nc, nr := c07CountLines(l.logFile), c07CountLines(l.logFile+".1")
	h.steps = append(h.steps, vfApp("C07.HState", vfZ(int64(n)), vfZ(nc), vfZ(nr)))
	// the property's own book-keeping of where every recorded query lives
	var w [3]int64
	for _, x := range h.recs {
		if x.where >= 0 {
			w[x.where]++
		}
	}
	if !h.stuck && !h.lockHeld && (w[0] != int64(n) || w[1] != max(nc, 0) || w[2] != max(nr, 0)) {
		h.fail("where-recorded", "memory / querylog.json / querylog.json.1 hold %d / %d / %d records, the recorded and not removed ones are %d / %d / %d",
			n, nc, nr, w[0], w[1], w[2])
	}
}

func (h *c07H) op() {
	r := h.r
	l := h.l
	switch k := r.Intn(100); {
	case k < 62:
		h.add()
	case k < 72:
		_ = l.flushLogBuffer(h.ctx)
		h.moveMemToFile()
		h.steps = append(h.steps, "(C07.HOp OFlush)")
		h.cls["op-flush"] = true
		h.trace("flush")
	case k < 75:
		// the periodic rotation check as a whole (checkAndRotate), with an
		// interval that makes every existing file due (1 ns) or none (a day),
		// or with the interval as configured
		switch r.Intn(3) {
		case 0:
			h.checkRotate(time.Nanosecond)
		case 1:
			h.checkRotate(timeutil.Day)
		default:
			h.checkRotate(0)
		}
	case k < 80:
		if err := l.rotate(h.ctx); err != nil {
			h.t.Fatal(err)
		}
		hasCur := false
		for _, x := range h.recs {
			if x.where == 1 {
				hasCur = true
			}
		}
		if hasCur {
			for _, x := range h.recs {
				if x.where == 2 {
					x.where = -1
					h.cls["rotate-ages-out"] = true
				} else if x.where == 1 {
					x.where = 2
				}
			}
		}
		h.steps = append(h.steps, "(C07.HOp ORotate)")
		h.cls["op-rotate"] = true
		h.trace("rotate")
	case k < 82:
		rq := httptest.NewRequest("POST", "/control/querylog_clear", nil)
		l.handleQueryLogClear(httptest.NewRecorder(), rq)
		for _, x := range h.recs {
			x.where = -1
		}
		h.steps = append(h.steps, "(C07.HOp OClear)")
		h.cls["op-clear"] = true
		h.trace("POST /control/querylog_clear")
	case k < 93:
		// configuration change through the HTTP API, client table directly
		en := !r.Chance(1, 6)
		h.ignore = r.Intn(len(c07IgnoreLists))
		h.table = r.Intn(len(c07ClientTables))
		if c07ForceTable >= 0 {
			h.table = c07ForceTable
		}
		anon := h.anon
		if r.Chance(1, 2) {
			anon = !anon
		}
		if r.Chance(1, 4) {
			// the deprecated endpoint: any subset of enabled / interval /
			// anonymize_client_ip; the ignore list stays
			var pen, pan *bool
			days := math.NaN()
			if r.Bool() {
				pen = &en
			}
			if r.Bool() {
				pan = &anon
			}
			if r.Bool() {
				days = vfPick(r, []float64{0.25, 1, 7, 30, 90})
			}
			h.postLegacyConfig(pen, pan, days)
		} else {
			h.putConfig(en, anon, vfPick(r, []time.Duration{time.Hour, 6 * time.Hour, timeutil.Day, timeutil.Day, 7 * timeutil.Day}), r.Chance(2, 3))
		}
	default:
		// restart: Shutdown, then a new instance with the configuration the
		// old one persists (WriteDiskConfig), possibly edited the way a user
		// edits the configuration file
		mem, editMem := uint(r.Range(1, 8)), r.Chance(1, 2)
		if r.Chance(1, 10) {
			mem = 0
		}
		flipFile, flipEn := r.Chance(1, 5), r.Chance(1, 8)
		h.restart(func(c *Config) {
			if editMem {
				c.MemSize = mem
			}
			if flipFile {
				c.FileEnabled = !c.FileEnabled
			}
			if flipEn {
				c.Enabled = !c.Enabled
			}
		})
	}
	h.state()
}

// checkRotate runs the periodic rotation check as a whole.  override > 0: the
// interval is set to it around the call (and restored); 0: the interval as
// configured.
func (h *c07H) checkRotate(override time.Duration) {
	l := h.l
	for time.Now().UnixNano() <= h.lastNS+1 {
	}
	ivl := h.ivl
	if override > 0 {
		ivl = override
		var saved time.Duration
		func() {
			l.confMu.Lock()
			defer l.confMu.Unlock()
			saved, l.conf.RotationIvl = l.conf.RotationIvl, ivl
		}()
		defer func() {
			l.confMu.Lock()
			defer l.confMu.Unlock()
			l.conf.RotationIvl = saved
		}()
	}
	l.checkAndRotate(h.ctx)
	now := time.Now().UnixNano()
	// the property's reading: the file is rotated iff it exists and its
	// first record is at least the interval old
	first := int64(0)
	for _, x := range h.recs {
		if x.where == 1 && (first == 0 || x.ns < first) {
			first = x.ns
		}
	}
	switch {
	case first == 0:
		h.cls["check-rotate-missing-file"] = true
	case first+int64(ivl) <= now:
		h.cls["check-rotate-due"] = true
		if override == 0 {
			h.cls["check-rotate-configured-due"] = true
		}
		for _, x := range h.recs {
			if x.where == 2 {
				x.where = -1
				h.cls["rotate-ages-out"] = true
			} else if x.where == 1 {
				x.where = 2
			}
		}
	default:
		h.cls["check-rotate-not-due"] = true
		if override == 0 {
			h.cls["check-rotate-configured-not-due"] = true
		}
	}
	if override > 0 {
		h.steps = append(h.steps, vfApp("C07.HCheckRot", vfZ(int64(ivl)), vfZ(now)))
		h.trace("checkAndRotate with interval %v", ivl)
	} else {
		h.steps = append(h.steps, vfApp("C07.HCheckRotCfg", vfZ(now)))
		h.trace("checkAndRotate (configured interval %v)", ivl)
	}
}

// configApplied checks what WriteDiskConfig (the values home writes to the
// configuration file) says after a configuration request.
func (h *c07H) configApplied(en bool) {
	var c Config
	h.l.WriteDiskConfig(&c)
	if c.Enabled != en || c.RotationIvl != h.ivl || c.AnonymizeClientIP != h.anon {
		h.fail("config-applied", "after the configuration request the log reports enabled=%v interval=%v anonymize_client_ip=%v, requested %v / %v / %v",
			c.Enabled, c.RotationIvl, c.AnonymizeClientIP, en, h.ivl, h.anon)
	}
}

// putConfig: PUT /control/querylog/config/update.
func (h *c07H) putConfig(en, anon bool, ivl time.Duration, listing bool) {
	wasAnon := h.anon
	h.anon, h.ivl = anon, ivl
	body, _ := json.Marshal(map[string]any{"enabled": en, "anonymize_client_ip": h.anon,
		"interval": float64(ivl.Milliseconds()), "ignored": c07IgnoreLists[h.ignore]})
	w := httptest.NewRecorder()
	h.l.handlePutQueryLogConfig(w, httptest.NewRequest("PUT", "/control/querylog/config/update", bytes.NewReader(body)))
	if w.Code != 200 {
		h.t.Fatalf("config update: %d %s", w.Code, w.Body.String())
	}
	h.configApplied(en)
	h.steps = append(h.steps, vfApp("C07.HOp", vfApp("OSetConfig", vfBool(en), h.coqIgnored(), h.coqClients())),
		vfApp("C07.HAnon", vfBool(h.anon)), vfApp("C07.HIvl", vfZ(int64(ivl))))
	h.cls["op-config"] = true
	h.trace("PUT /control/querylog/config/update %s; client table %d", body, h.table)
	if h.anon != wasAnon {
		h.cls["op-config-anonymize-toggled"] = true
		// a request right behind the change: served with the switch on, it
		// must leave the stored entries alone; served right after the switch
		// went off, it must show the recorded addresses again
		if listing {
			h.state()
			h.listing()
		}
	}
}

// postLegacyConfig: POST /control/querylog_config (deprecated): only the
// members present change.
func (h *c07H) postLegacyConfig(en, anon *bool, days float64) {
	m := map[string]any{}
	newEn := h.l.conf.Enabled
	if en != nil {
		m["enabled"], newEn = *en, *en
	}
	wasAnon := h.anon
	if anon != nil {
		m["anonymize_client_ip"], h.anon = *anon, *anon
	}
	if !math.IsNaN(days) {
		m["interval"] = days
		h.ivl = time.Duration(float64(timeutil.Day) * days)
		h.cls["op-config-legacy-interval"] = true
	}
	body, _ := json.Marshal(m)
	w := httptest.NewRecorder()
	h.l.handleQueryLogConfig(w, httptest.NewRequest("POST", "/control/querylog_config", bytes.NewReader(body)))
	if w.Code != 200 {
		h.t.Fatalf("legacy config update: %d %s", w.Code, w.Body.String())
	}
	h.configApplied(newEn)
	h.steps = append(h.steps, vfApp("C07.HOp", vfApp("OSetConfig", vfBool(newEn), h.coqIgnored(), h.coqClients())),
		vfApp("C07.HAnon", vfBool(h.anon)), vfApp("C07.HIvl", vfZ(int64(h.ivl))))
	h.cls["op-config"] = true
	h.cls["op-config-legacy"] = true
	if h.anon != wasAnon {
		h.cls["op-config-anonymize-toggled"] = true
	}
	h.trace("POST /control/querylog_config %s; client table %d", body, h.table)
}

// restart: Shutdown, then newQueryLog on the same directory with the
// configuration the old instance persists (WriteDiskConfig), after [edit].
func (h *c07H) restart(edit func(c *Config)) {
	l := h.l
	var pc Config
	l.WriteDiskConfig(&pc)
	fe := pc.FileEnabled
	if pc.RotationIvl != h.ivl || pc.AnonymizeClientIP != h.anon {
		h.fail("config-applied", "the configuration to persist has interval=%v anonymize_client_ip=%v, configured %v / %v",
			pc.RotationIvl, pc.AnonymizeClientIP, h.ivl, h.anon)
	}
	if err := l.Shutdown(h.ctx); err != nil && !strings.Contains(err.Error(), "nothing to write") {
		h.t.Fatal(err)
	}
	for _, x := range h.recs {
		if x.where == 0 {
			if fe {
				x.where = 1
				h.cls["restart-keeps-memory"] = true
				if !pc.Enabled {
					h.cls["restart-while-disabled-keeps-memory"] = true
				}
			} else {
				x.where = -1
				h.cls["restart-drops-memory"] = true
			}
		}
	}
	if edit != nil {
		edit(&pc)
	}
	if pc.MemSize != l.conf.MemSize {
		h.cls["restart-mem-size-changed"] = true
	}
	if pc.FileEnabled != fe {
		h.cls["restart-file-enabled-changed"] = true
	}
	h.newLog(pc.MemSize, pc.FileEnabled, pc.Enabled)
	h.steps = append(h.steps, vfApp("C07.HOp", vfApp("ORestart", h.coqConfig())), vfApp("C07.HIvl", vfZ(int64(h.ivl))))
	h.cls["op-restart"] = true
	h.trace("restart: mem_size=%d file_enabled=%v enabled=%v interval=%v anonymize_client_ip=%v", h.l.conf.MemSize, h.l.conf.FileEnabled, h.l.conf.Enabled, h.ivl, h.anon)
}

// c07Query is one request.
type c07Query struct {
	older  string // raw older_than value ("" = absent)
	limit  string
	offset string
	term   string
	status string
}

func (q c07Query) encode() string {
	v := url.Values{}
	if q.older != "" {
		v.Set("older_than", q.older)
	}
	if q.limit != "" {
		v.Set("limit", q.limit)
	}
	if q.offset != "" {
		v.Set("offset", q.offset)
	}
	if q.term != "" {
		v.Set("search", q.term)
	}
	if q.status != "" {
		v.Set("response_status", q.status)
	}
	return v.Encode()
}

func c07OptInt(s string) string {
	if s == "" {
		return vfOpt("Z", false, "")
	}
	v, err := strconv.ParseInt(s, 10, 64)
	if err != nil {
		return vfOpt("Z", false, "")
	}
	return vfOpt("Z", true, vfZ(v))
}

// coq renders the request as the model's [request].
func (q c07Query) coq() string {
	older := "(@None (option Z))"
	olderNS := int64(0)
	if q.older != "" {
		t, err := time.Parse(time.RFC3339Nano, q.older)
		if err != nil {
			older = "(Some (@None Z))"
		} else {
			olderNS = t.UnixNano()
			older = "(Some (Some " + vfZ(olderNS) + "))"
		}
	}
	term := "(@None (bytes * bytes * bool))"
	if q.term != "" {
		val := q.term
		strict := false
		if len(val) >= 2 && val[0] == '"' && val[len(val)-1] == '"' {
			val = val[1 : len(val)-1]
			strict = true
		}
		low := strings.ToLower(val)
		ascii, _ := idna.ToASCII(low)
		if ascii == low {
			ascii = ""
		}
		term = "(Some (" + vfBytes(val) + ", " + vfBytes(ascii) + ", " + vfBool(strict) + "))"
	}
	status := vfOpt("Z", false, "")
	if q.status != "" {
		idx := int64(-1)
		for i, s := range c07Statuses {
			if s == q.status {
				idx = int64(i)
			}
		}
		status = vfOpt("Z", true, vfZ(idx))
	}
	return vfApp("C07.Req", older, c07OptInt(q.limit), c07OptInt(q.offset), term, status)
}

type c07Resp struct {
	code   int // 0 ok, 1 bad request, 2 panic
	ids    []int
	nss    []int64
	oldest string
	raw    []map[string]any
	// clients: the "client" member of every returned entry
	clients []string
}

// listing asks for everything and checks it against the property.
func (h *c07H) listing() {
	all := h.expected(c07Query{})
	resp := h.search(c07Query{})
	if resp.code == 0 && !h.same(resp.ids, all) {
		h.fail("complete-once-ordered", "full listing returned %v, recorded and not removed: %v", resp.ids, all)
	}
}

func (h *c07H) search(q c07Query) (resp c07Resp) {
	h.nsearch++
	w := httptest.NewRecorder()
	rq := httptest.NewRequest("GET", "/control/querylog?"+q.encode(), nil)
	func() {
		defer func() {
			if v := recover(); v != nil {
				resp.code = 2
				h.fail("panic", "GET /control/querylog?%s panicked: %v", q.encode(), v)
			}
		}()
		h.l.handleQueryLog(w, rq)
	}()
	oldestNS := int64(0)
	if resp.code != 2 {
		switch w.Code {
		case 200:
			var body struct {
				Data   []map[string]any `json:"data"`
				Oldest string           `json:"oldest"`
			}
			if err := json.Unmarshal(w.Body.Bytes(), &body); err != nil {
				h.t.Fatalf("response: %v", err)
			}
			resp.oldest = body.Oldest
			resp.raw = body.Data
			if body.Oldest != "" {
				t, err := time.Parse(time.RFC3339Nano, body.Oldest)
				if err != nil {
					h.t.Fatal(err)
				}
				oldestNS = t.UnixNano()
			}
			for _, e := range body.Data {
				ts, _ := e["time"].(string)
				t, err := time.Parse(time.RFC3339Nano, ts)
				if err != nil {
					h.t.Fatal(err)
				}
				ns := t.UnixNano()
				if n := len(resp.nss); n > 0 && ns > resp.nss[n-1] {
					h.fail("page-newest-first", "GET /control/querylog?%s: row %d (time %s) is newer than the row before it", q.encode(), n, ts)
				}
				resp.nss = append(resp.nss, ns)
				cl, _ := e["client"].(string)
				resp.clients = append(resp.clients, cl)
				if rec := h.recOf(ns, e); rec != nil {
					resp.ids = append(resp.ids, rec.id)
					want, wantCl := rec.want, rec.ip
					if h.anon {
						want, wantCl = rec.wantAnon, c07Mask(rec.ip)
						h.cls["served-while-anonymising"] = true
						if rec.where == 0 {
							h.anonSeen[rec.id] = true
						}
					} else if h.anonSeen[rec.id] {
						h.cls["served-plain-after-served-anonymised"] = true
					}
					if cl != wantCl {
						h.fail("client-as-recorded", "entry %d (recorded with client %s, anonymize_client_ip now %v) returned with client %s, want %s",
							rec.id, rec.ip, h.anon, cl, wantCl)
					} else if got := c07Canon(e); got != want {
						h.fail("entry-fields", "entry %d returned with other fields than recorded: %s vs %s", rec.id, got, want)
					}
				} else {
					resp.ids = append(resp.ids, 0)
					h.fail("unknown-entry", "response holds an entry that was never recorded (time %s)", ts)
				}
			}
		case 400:
			resp.code = 1
		default:
			h.t.Fatalf("unexpected status %d", w.Code)
		}
	}
	h.trace("GET /control/querylog?%s -> code %d ids %v clients %v", q.encode(), resp.code, resp.ids, resp.clients)
	rows := make([]string, len(resp.ids))
	for i, id := range resp.ids {
		rows[i] = vfPair(vfN(uint64(id)), vfN(uint64(c07TextIndex(resp.clients[i]))))
	}
	h.steps = append(h.steps, vfApp("C07.HSearchC", q.coq(), vfZ(int64(resp.code)), vfList("N * N", rows), vfZ(oldestNS)))
	return resp
}

// searchDirect calls queryLog.search with explicit parameters (scan window).
func (h *c07H) searchDirect(q c07Query, olderNS int64, limit, offset, scan int) (ids []int, oldestNS int64, panicked bool) {
	h.nsearch++
	params := &searchParams{limit: limit, offset: offset, maxFileScanEntries: scan}
	if olderNS != 0 {
		params.olderThan = time.Unix(0, olderNS)
	}
	v := url.Values{}
	if q.term != "" {
		v.Set("search", q.term)
	}
	if q.status != "" {
		v.Set("response_status", q.status)
	}
	var crits []string
	for _, f := range []struct {
		name string
		ct   criterionType
	}{{"search", ctTerm}, {"response_status", ctFilteringStatus}} {
		ok, c, err := h.l.parseSearchCriterion(h.ctx, v, f.name, f.ct)
		if err != nil {
			h.t.Fatal(err)
		}
		if ok {
			params.searchCriteria = append(params.searchCriteria, c)
			if f.ct == ctTerm {
				crits = append(crits, vfApp("CTerm", vfBytes(c.value), vfBytes(c.asciiVal), vfBool(c.strict)))
			} else {
				idx := 0
				for i, sv := range c07Statuses {
					if sv == c.value {
						idx = i
					}
				}
				crits = append(crits, vfApp("CStatus", vfZ(int64(idx))))
			}
		}
	}
	var entries []*logEntry
	var oldest time.Time
	func() {
		defer func() {
			if pv := recover(); pv != nil {
				panicked = true
				h.fail("panic", "search(%+v) panicked: %v", params, pv)
			}
		}()
		h.l.confMu.RLock()
		defer h.l.confMu.RUnlock()
		entries, oldest = h.l.search(h.ctx, params)
	}()
	if !oldest.IsZero() {
		oldestNS = oldest.UnixNano()
	}
	cids := []string{}
	for _, e := range entries {
		id := 0
		if n := len(ids); n > 0 && e.Time.UnixNano() > entries[n-1].Time.UnixNano() {
			h.fail("page-newest-first", "search(%+v): entry %d is newer than the entry before it", params, n)
		}
		if rec := h.recOfEntry(e); rec != nil {
			id = rec.id
		} else {
			h.fail("unknown-entry", "search returned an entry that was never recorded")
		}
		ids = append(ids, id)
		cids = append(cids, vfN(uint64(id)))
	}
	code := int64(0)
	if panicked {
		code = 2
	}
	older := vfOpt("Z", olderNS != 0, vfZ(olderNS))
	h.trace("search(older_than=%d limit=%d offset=%d scan=%d term=%q status=%q) -> ids %v oldest %d panicked %v", olderNS, limit, offset, scan, q.term, q.status, ids, oldestNS, panicked)
	h.steps = append(h.steps, vfApp("C07.HSearchP",
		vfApp("C07.P", older, vfZ(int64(limit)), vfZ(int64(offset)), vfZ(int64(scan)), vfList("crit", crits)),
		vfZ(code), vfList("N", cids), vfZ(oldestNS)))
	return ids, oldestNS, panicked
}

// scanChain follows the continuation cursor of searches with a small scan
// window until the log reports its end; pages may come back empty.
func (h *c07H) scanChain(crit c07Query, limit, scan int) {
	want := h.expected(crit)
	var got []int
	older := int64(0)
	for page := 0; page <= 4*len(h.recs)+6; page++ {
		ids, oldest, panicked := h.searchDirect(crit, older, limit, 0, scan)
		if panicked {
			return
		}
		got = append(got, ids...)
		if len(ids) == 0 && oldest != 0 {
			h.cls["scan-window-exhausted-empty-page"] = true
		}
		if len(ids) < limit && oldest != 0 {
			h.cls["scan-window-exhausted"] = true
		}
		if oldest == 0 {
			break
		}
		older = oldest
	}
	if h.weak() {
		// an empty page may hand out a cursor that is not older: no claim
		if ok, why := h.pagesOK(got, want, false); !ok {
			h.fail("scan-window-paging", "pages of %d with scan window %d (criteria %+v) give %v: %s", limit, scan, crit, got, why)
		}
	} else if !h.same(got, want) {
		h.fail("scan-window-paging", "pages of %d with scan window %d (criteria %+v) followed to the reported end give %v, want %v", limit, scan, crit, got, want)
	}
}

// sat is the property's own reading of the search criteria.
func (h *c07H) sat(x *c07Rec, q c07Query) bool {
	if q.term != "" {
		val := q.term
		strict := false
		if len(val) >= 2 && val[0] == '"' && val[len(val)-1] == '"' {
			val, strict = val[1:len(val)-1], true
		}
		name := ""
		if c, _ := h.findClient(c07IDs(x)); c != nil {
			name = c.Name
		}
		low := strings.ToLower(val)
		cands := []string{x.host, x.cid, x.ip, name}
		ok := false
		for i, c := range cands {
			c = strings.ToLower(c)
			if strict && c == low || !strict && strings.Contains(c, low) {
				ok = true
			}
			if i == 0 {
				if a, _ := idna.ToASCII(low); a != low && a != "" {
					if strict && c == a || !strict && strings.Contains(c, a) {
						ok = true
					}
				}
			}
		}
		if !ok {
			return false
		}
	}
	r, f := x.reason, x.filtered
	switch q.status {
	case "", "all":
	case "filtered":
		return f || r == filtering.NotFilteredAllowList || r == filtering.Rewritten || r == filtering.RewrittenAutoHosts || r == filtering.RewrittenRule
	case "blocked":
		return f && (r == filtering.FilteredBlockList || r == filtering.FilteredBlockedService)
	case "blocked_services":
		return f && r == filtering.FilteredBlockedService
	case "blocked_safebrowsing":
		return f && r == filtering.FilteredSafeBrowsing
	case "blocked_parental":
		return f && r == filtering.FilteredParental
	case "whitelisted":
		return r == filtering.NotFilteredAllowList
	case "rewritten":
		return r == filtering.Rewritten || r == filtering.RewrittenAutoHosts || r == filtering.RewrittenRule
	case "safe_search":
		return f && r == filtering.FilteredSafeSearch
	case "processed":
		return r != filtering.FilteredBlockList && r != filtering.FilteredBlockedService && r != filtering.NotFilteredAllowList
	}
	return true
}

func c07IDs(x *c07Rec) (ids []string) {
	if x.cid != "" {
		ids = append(ids, x.cid)
	}
	return append(ids, x.ip)
}

// expected returns the ids the property demands for the criteria of q (not
// its paging), newest first.
func (h *c07H) expected(q c07Query) (ids []int) {
	for i := len(h.recs) - 1; i >= 0; i-- {
		x := h.recs[i]
		if x.where < 0 || (x.where == 0 && h.l.conf.MemSize == 0 && !h.l.conf.FileEnabled) {
			continue
		}
		if h.l.conf.Ignored.Has(x.host) {
			continue
		}
		if c, _ := h.findClient(c07IDs(x)); c != nil && c.IgnoreQueryLog {
			continue
		}
		if h.sat(x, q) {
			ids = append(ids, x.id)
		}
	}
	// newest first by stamp (reverse push order, when stamps are in push order)
	sort.SliceStable(ids, func(i, j int) bool { return h.recs[ids[i]-1].ns > h.recs[ids[j]-1].ns })
	return ids
}

func c07Eq(a, b []int) bool {
	if len(a) != len(b) {
		return false
	}
	for i := range a {
		if a[i] != b[i] {
			return false
		}
	}
	return true
}

// recOf finds the record a returned row stands for: by stamp, and among
// records with the same stamp by the fields of the row.
func (h *c07H) recOf(ns int64, row map[string]any) *c07Rec {
	c := h.byNS[ns]
	if len(c) == 0 {
		return nil
	}
	if len(c) > 1 {
		cp := map[string]any{}
		for k, v := range row {
			cp[k] = v
		}
		got := c07Canon(cp)
		for _, x := range c {
			if got == x.want || got == x.wantAnon {
				return x
			}
		}
		qn := ""
		if qm, ok := row["question"].(map[string]any); ok {
			qn, _ = qm["name"].(string)
		}
		for _, x := range c {
			if x.host == qn {
				return x
			}
		}
	}
	return c[0]
}

func (h *c07H) recOfEntry(e *logEntry) *c07Rec {
	c := h.byNS[e.Time.UnixNano()]
	if len(c) == 0 {
		return nil
	}
	for _, x := range c {
		if x.host == e.QHost && x.cid == e.ClientID && x.reason == e.Result.Reason && x.filtered == e.Result.IsFiltered {
			return x
		}
	}
	return c[0]
}

// same: equal id sequences, up to the order of records with equal stamps.
func (h *c07H) same(got, want []int) bool {
	if len(got) != len(want) {
		return false
	}
	norm := func(ids []int) []int {
		out := slices.Clone(ids)
		for i := 0; i < len(out); {
			j := i
			for j < len(out) && out[j] > 0 && out[i] > 0 && h.recs[out[j]-1].ns == h.recs[out[i]-1].ns {
				j++
			}
			if j == i {
				j = i + 1
			}
			sort.Ints(out[i:j])
			i = j
		}
		return out
	}
	return c07Eq(norm(got), norm(want))
}

// pagesOK judges the concatenation of the pages of one paging run.  In a
// history inside the assumption: exactly the demanded sequence.  Outside
// (stamps out of order after a simulated clock step): for cursor chains no
// record twice, only demanded records, newest first as a whole; for offset
// pages only demanded records (each page newest first is judged per response).
func (h *c07H) pagesOK(got, want []int, cursor bool) (ok bool, why string) {
	if !h.weak() {
		return h.same(got, want), ""
	}
	h.cls["judged-any-push-order"] = true
	in := map[int]bool{}
	for _, id := range want {
		in[id] = true
	}
	seen := map[int]bool{}
	for i, id := range got {
		if !in[id] {
			return false, fmt.Sprintf("record %d is not among the demanded ones", id)
		}
		if cursor {
			if seen[id] {
				return false, fmt.Sprintf("record %d is returned twice", id)
			}
			seen[id] = true
			if i > 0 && id > 0 && got[i-1] > 0 && h.recs[id-1].ns > h.recs[got[i-1]-1].ns {
				return false, fmt.Sprintf("record %d is newer than record %d returned before it", id, got[i-1])
			}
		}
	}
	return true, ""
}

// battery runs the searches on the current state.
func (h *c07H) battery(full bool) {
	r := h.r
	// 1. everything, default paging
	all := h.expected(c07Query{})
	resp := h.search(c07Query{})
	if resp.code == 0 && !h.same(resp.ids, all) {
		h.fail("complete-once-ordered", "full listing returned %v, recorded and not removed: %v", resp.ids, all)
	}
	if len(all) > 0 {
		h.cls["nonempty-log"] = true
	}
	crit := c07Query{}
	if r.Chance(1, 3) {
		crit.status = vfPick(r, c07Statuses[1:])
	}
	if r.Chance(1, 4) {
		crit.term = vfPick(r, c07Terms)
	}
	want := h.expected(crit)
	// 2. cursor paging
	{
		lim := int(r.Range(1, 5))
		var got []int
		q := crit
		q.limit = strconv.Itoa(lim)
		for page := 0; page <= len(h.recs)+2; page++ {
			resp = h.search(q)
			if resp.code != 0 {
				break
			}
			got = append(got, resp.ids...)
			if resp.oldest == "" || len(resp.ids) == 0 || resp.ids[len(resp.ids)-1] == 0 {
				break
			}
			if page > 0 {
				h.cls["cursor-page-2+"] = true
			}
			if rec := h.recs[resp.ids[len(resp.ids)-1]-1]; resp.ids[len(resp.ids)-1] > 0 && page >= 0 {
				switch rec.where {
				case 0:
					h.cls["cursor-in-memory"] = true
				case 1:
					h.cls["cursor-in-current-file"] = true
				case 2:
					h.cls["cursor-in-rotated-file"] = true
				}
			}
			q.older = resp.oldest
		}
		if ok, why := h.pagesOK(got, want, true); !ok {
			h.fail("cursor-paging", "cursor pages of %d (criteria %+v) concatenate to %v, want %v %s", lim, crit, got, want, why)
		}
	}
	// 3. offset paging
	if full || r.Bool() {
		lim := int(r.Range(1, 4))
		var got []int
		for off := 0; off <= len(want)+lim; off += lim {
			q := crit
			q.limit, q.offset = strconv.Itoa(lim), strconv.Itoa(off)
			resp = h.search(q)
			if resp.code != 0 {
				break
			}
			got = append(got, resp.ids...)
			if off > 0 && len(resp.ids) > 0 {
				h.cls["offset-page-2+"] = true
			}
		}
		if ok, why := h.pagesOK(got, want, false); !ok {
			h.fail("offset-paging", "offset pages of %d (criteria %+v) concatenate to %v, want %v %s", lim, crit, got, want, why)
		}
	}
	if !full {
		return
	}
	// 4. filters
	for si, st := range c07Statuses {
		q := c07Query{status: st}
		resp = h.search(q)
		if w := h.expected(q); resp.code == 0 && !h.same(resp.ids, w) {
			h.fail("filters-exact", "response_status=%s returned %v, want %v", st, resp.ids, w)
		} else if len(w) > 0 && len(w) < len(all) {
			h.cls["status-selects-"+st] = true
		}
		// the cells of the status table this request decided
		for _, id := range all {
			x := h.recs[id-1]
			f := 0
			if x.filtered {
				f = 1
			}
			h.cells[[3]int{si, int(x.reason), f}] = true
		}
	}
	if len(h.cells) == len(c07Statuses)*12*2 {
		h.cls["status-table-all-cells"] = true
	}
	terms := append([]string{}, c07Terms...)
	vfShuffle(r, terms)
	terms = terms[:6]
	if h.table == 3 {
		// names with an upper-case K / S past the start: always ask for them
		terms = append(terms, "kitchen", "set", "s laptop", "itchen")
	}
	for _, term := range terms {
		q := c07Query{term: term}
		if r.Chance(1, 4) {
			q.status = vfPick(r, c07Statuses)
		}
		resp = h.search(q)
		if w := h.expected(q); resp.code == 0 && !h.same(resp.ids, w) {
			h.fail("filters-exact", "search=%s status=%s returned %v, want %v", term, q.status, resp.ids, w)
		} else if len(w) > 0 && len(w) < len(all) {
			if term == "kitchen" || term == "set" || term == "s laptop" || term == "kiosk" {
				h.cls["term-ks-initial-selects"] = true
			}
			if strings.HasPrefix(term, `"`) {
				h.cls["term-strict-selects"] = true
			} else {
				h.cls["term-substring-selects"] = true
			}
		}
	}
	// 4b. small scan windows (queryLog.search directly)
	for i := 0; i < 2; i++ {
		c := c07Query{}
		switch r.Intn(3) {
		case 0:
			c.term = vfPick(r, []string{"a.b", "phone", "ads", "cdn", "192.168.1.55", "xn--"})
		case 1:
			c.status = vfPick(r, c07Statuses[1:])
		}
		h.scanChain(c, int(r.Range(1, 4)), int(r.Range(1, 7)))
	}
	// 5. parameter values that must not crash
	for _, q := range []c07Query{
		{limit: "-1"}, {limit: "0"}, {limit: "2147483648"}, {limit: "2147483647"}, {limit: "abc"},
		{limit: "99999999999999999999"}, {offset: "-1"}, {offset: "2147483648", limit: "1"},
		{offset: "2147483647", limit: "2147483647"}, {limit: "-9223372036854775808"},
		{older: "yesterday"}, {status: "bogus"}, {offset: "1000"}, {offset: "1", limit: "-1"},
	} {
		resp = h.search(q)
		switch resp.code {
		case 1:
			h.cls["bad-request"] = true
		case 0:
			h.cls["odd-params-accepted"] = true
		}
	}
	// 6. cursors that were never returned (correspondence only)
	if len(h.recs) > 0 {
		x := vfPick(r, h.recs)
		for _, ns := range []int64{x.ns + 1, x.ns - 1, h.recs[0].ns - 1000, h.lastNS + 1000, x.ns} {
			h.search(c07Query{older: time.Unix(0, ns).UTC().Format(time.RFC3339Nano), limit: strconv.Itoa(int(r.Range(1, 6)))})
		}
		h.cls["older-than-arbitrary"] = true
	}
}

func c07CHist(c0 string, steps []string) string {
	texts, masks := c07CoqTexts()
	return vfApp("C07.CHist", vfZ(maxEntrySize), vfZ(bufferSize), c0, texts, masks, vfList("C07.hstep", steps))
}

// c07AnonPrelude: the scenario of the clause "returned with the client it was
// recorded with" under configuration changes: entries recorded with
// anonymisation off (some flushed, some rotated, some in memory), switch on,
// everything listed (and paged), switch off, listed again; then the memory
// part is flushed and rotated and listed again, so that what went to the files
// is seen as well; finally entries recorded while the switch is on.
func c07AnonPrelude(t *testing.T, out *vfOut, r *vfRand, mem uint) {
	dir, err := os.MkdirTemp(t.TempDir(), "a")
	if err != nil {
		t.Fatal(err)
	}
	defer os.RemoveAll(dir)
	h := c07NewH(t, r, dir)
	h.newLog(mem, true, true)
	c0 := h.coqConfig()
	setAnon := func(on bool) {
		h.anon = on
		body, _ := json.Marshal(map[string]any{"enabled": true, "anonymize_client_ip": on,
			"interval": float64(timeutil.Day.Milliseconds()), "ignored": c07IgnoreLists[h.ignore]})
		w := httptest.NewRecorder()
		h.l.handlePutQueryLogConfig(w, httptest.NewRequest("PUT", "/control/querylog/config/update", bytes.NewReader(body)))
		if w.Code != 200 {
			t.Fatalf("config update: %d %s", w.Code, w.Body.String())
		}
		h.steps = append(h.steps, vfApp("C07.HOp", vfApp("OSetConfig", vfBool(true), h.coqIgnored(), h.coqClients())),
			vfApp("C07.HAnon", vfBool(on)))
		h.cls["op-config"] = true
		h.cls["op-config-anonymize-toggled"] = true
		h.trace("PUT /control/querylog/config/update %s", body)
	}
	rotate := func() {
		if err = h.l.rotate(h.ctx); err != nil {
			t.Fatal(err)
		}
		for _, x := range h.recs {
			if x.where == 2 {
				x.where = -1
			} else if x.where == 1 {
				x.where = 2
			}
		}
		h.steps = append(h.steps, "(C07.HOp ORotate)")
		h.trace("rotate")
	}
	flush := func() {
		_ = h.l.flushLogBuffer(h.ctx)
		h.moveMemToFile()
		h.steps = append(h.steps, "(C07.HOp OFlush)")
		h.trace("flush")
	}
	for i := uint(0); i < mem; i++ { // the last one fills the buffer: flushed
		h.add()
	}
	rotate()
	for i := uint(0); i < mem; i++ {
		h.add()
	}
	for i := uint(0); i+1 < mem; i++ {
		h.add() // these stay in memory
	}
	h.state()
	h.listing()
	setAnon(true)
	h.listing()
	h.battery(false)
	setAnon(false)
	h.listing()
	setAnon(true)
	h.listing()
	setAnon(false)
	flush()
	h.state()
	h.listing()
	rotate()
	h.listing()
	setAnon(true)
	for i := uint(0); i < mem+1; i++ {
		h.add()
	}
	h.listing()
	setAnon(false)
	h.state()
	h.battery(true)
	c := vfCase{
		Coq: c07CHist(c0, h.steps),
		Nontrivial: true, MonitorOK: len(h.msgs) == 0, MonitorMsg: strings.Join(h.msgs, "; "), FindingKey: h.key,
		Desc: map[string]any{"kind": "anonymise-toggle", "mem_size": mem, "entries": len(h.recs), "searches": h.nsearch, "trace": h.desc},
	}
	for k := range h.cls {
		c.Classes = append(c.Classes, k)
	}
	sort.Strings(c.Classes)
	out.Emit(c)
}

// c07Finish emits the case of a constructed history.
func (h *c07H) finish(out *vfOut, c0 string, desc map[string]any) {
	desc["entries"], desc["searches"], desc["trace"] = len(h.recs), h.nsearch, h.desc
	desc["status_cells"] = len(h.cells)
	c := vfCase{
		Coq: c07CHist(c0, h.steps),
		Nontrivial: len(h.recs) > 0, MonitorOK: len(h.msgs) == 0, MonitorMsg: strings.Join(h.msgs, "; "), FindingKey: h.key,
		Desc: desc,
	}
	for k := range h.cls {
		c.Classes = append(c.Classes, k)
	}
	sort.Strings(c.Classes)
	out.Emit(c)
}

func (h *c07H) flushOp() {
	_ = h.l.flushLogBuffer(h.ctx)
	h.moveMemToFile()
	h.steps = append(h.steps, "(C07.HOp OFlush)")
	h.cls["op-flush"] = true
	h.trace("flush")
}

func (h *c07H) rotateOp() {
	if err := h.l.rotate(h.ctx); err != nil {
		h.t.Fatal(err)
	}
	hasCur := false
	for _, x := range h.recs {
		if x.where == 1 {
			hasCur = true
		}
	}
	if hasCur {
		for _, x := range h.recs {
			if x.where == 2 {
				x.where = -1
				h.cls["rotate-ages-out"] = true
			} else if x.where == 1 {
				x.where = 2
			}
		}
	}
	h.steps = append(h.steps, "(C07.HOp ORotate)")
	h.cls["op-rotate"] = true
	h.trace("rotate")
}

// c07StatusPrelude: one record for every filtering reason with and without
// IsFiltered, spread over rotated file, current file and memory; then every
// response_status value: each of the 10 x 12 x 2 cells of the status table is
// decided by the real code, by the model and by the monitor.
func c07StatusPrelude(t *testing.T, out *vfOut, r *vfRand, mem uint) {
	dir, err := os.MkdirTemp(t.TempDir(), "st")
	if err != nil {
		t.Fatal(err)
	}
	defer os.RemoveAll(dir)
	h := c07NewH(t, r, dir)
	h.newLog(mem, true, true)
	c0 := h.coqConfig()
	h.forceHost = "example.org"
	n := 0
	for reason := 0; reason < 12; reason++ {
		for f := 0; f < 2; f++ {
			h.forceReason, h.forceFiltered = reason, f
			h.add()
			n++
			if n == 9 {
				h.rotateOp()
			}
		}
	}
	h.forceReason, h.forceFiltered, h.forceHost = -1, -1, ""
	h.state()
	h.battery(true)
	if !h.cls["status-table-all-cells"] {
		h.fail("", "status prelude: only %d of %d cells were asked", len(h.cells), len(c07Statuses)*24)
	}
	// every value again with a cursor chain of two per page
	for _, st := range c07Statuses {
		want := h.expected(c07Query{status: st})
		var got []int
		q := c07Query{status: st, limit: "2"}
		for page := 0; page <= len(h.recs)+2; page++ {
			resp := h.search(q)
			if resp.code != 0 {
				break
			}
			got = append(got, resp.ids...)
			if resp.oldest == "" || len(resp.ids) == 0 {
				break
			}
			q.older = resp.oldest
		}
		if !c07Eq(got, want) {
			h.fail("cursor-paging", "response_status=%s in pages of 2 gives %v, want %v", st, got, want)
		}
	}
	for _, x := range h.recs {
		switch x.where {
		case 0:
			h.cls["entries-in-memory"] = true
		case 1:
			h.cls["entries-in-current-file"] = true
		case 2:
			h.cls["entries-in-rotated-file"] = true
		}
	}
	h.finish(out, c0, map[string]any{"kind": "status-table", "mem_size": mem})
}

// c07TogglePrelude: one configuration field changes while records sit in
// memory (beforeFlush) or in the file, with or without a restart between the
// change and its reversal.  enabled and interval change through the API;
// file_enabled and mem_size only exist in the configuration file, so their
// change IS a restart with the edited value.  Two records left by an earlier
// run (20 h and 2 h old) make the configured interval matter: a day keeps the
// file, an hour rotates it.
func c07TogglePrelude(t *testing.T, out *vfOut, r *vfRand, field string, afterFlush, restart bool) {
	dir, err := os.MkdirTemp(t.TempDir(), "tg")
	if err != nil {
		t.Fatal(err)
	}
	defer os.RemoveAll(dir)
	h := c07NewH(t, r, dir)
	h.newLog(4, true, true)
	c0 := h.coqConfig()
	show := func() {
		h.state()
		h.listing()
	}
	h.forceAge = 20 * time.Hour
	h.add()
	h.forceAge = 2 * time.Hour
	h.add()
	h.forceAge = 0
	if afterFlush {
		h.flushOp()
		h.cls["toggle-after-flush"] = true
	} else {
		h.cls["toggle-before-flush"] = true
	}
	show()
	h.checkRotate(0) // a day: nothing is due
	h.state()
	set := func(on bool) {
		switch field {
		case "enabled":
			h.putConfig(on, h.anon, h.ivl, false)
		case "interval":
			ivl := time.Hour
			if on {
				ivl = timeutil.Day
			}
			if afterFlush {
				h.putConfig(true, h.anon, ivl, false)
			} else {
				d := float64(ivl) / float64(timeutil.Day)
				if ivl == time.Hour {
					// the deprecated endpoint only takes 6 h, 1, 7, 30, 90 days
					d = 0.25
				}
				h.postLegacyConfig(nil, nil, d)
			}
		case "file_enabled":
			h.restart(func(c *Config) { c.FileEnabled = on })
		case "mem_size":
			h.restart(func(c *Config) {
				if on {
					c.MemSize = 4
				} else {
					c.MemSize = 1
				}
			})
		}
		h.cls["toggle-"+field] = true
	}
	set(false)
	show()
	h.add()
	h.add()
	show()
	h.checkRotate(0)
	show()
	if restart {
		h.restart(nil)
		h.cls["toggle-then-restart"] = true
		show()
	} else {
		h.cls["toggle-no-restart"] = true
	}
	h.add()
	set(true)
	show()
	h.add()
	h.state()
	h.battery(true)
	h.finish(out, c0, map[string]any{"kind": "toggle", "field": field, "after_flush": afterFlush, "restart": restart})
}

// c07Stuck is set once a flush never finished: later histories are skipped.
var c07Stuck bool

// c07ForceTable pins the client table of a history (prelude scenario with the
// names that hold an upper-case K / S past their start); -1 = random.
var c07ForceTable = -1

// c07LatePct / c07StepPct: see c07H.latePct / stepPct (for the histories
// started next).
var c07LatePct, c07StepPct = 0, 0

var c07Terms = []string{
	"example", "EXAMPLE.ORG", `"example.org"`, `"ads.example.org"`, "ads", "192.168.1.5", `"192.168.1.5"`,
	"192.168.1", "phone", `"phone"`, "Kitchen", `"kitchen"`, "alices", "пример", `"пример.example"`,
	"2001:db8", "laptop", "nomatch-zzz", `""`, "a.b", ".", "tv", "router", "xn--",
	"a&b", "<y", `"a&b.example.org"`, "&",
	// first letter k / s (and others) against upper-case letters past the start of a client name
	"kitchen", "itchen", "set", "s laptop", "KITCHEN", `"my kitchen"`, `"tv set"`, "v se", "p",
	"kiosk", "sys-k", `"sys-kiosk"`,
}

func c07History(t *testing.T, out *vfOut, r *vfRand, nops int, mem uint, fileEnabled bool, tag string) {
	dir, err := os.MkdirTemp(t.TempDir(), "h")
	if err != nil {
		t.Fatal(err)
	}
	defer os.RemoveAll(dir)
	h := c07NewH(t, r, dir)
	h.table, h.ignore = r.Intn(len(c07ClientTables)), r.Intn(2)
	if c07ForceTable >= 0 {
		h.table = c07ForceTable
	}
	h.newLog(mem, fileEnabled, true)
	h.latePct, h.stepPct = c07LatePct, c07StepPct
	c0 := h.coqConfig()
	if mem == 0 {
		h.cls["mem-size-0"] = true
	}
	if !fileEnabled {
		h.cls["file-disabled"] = true
	}
	if nops > 0 && mem > 2 && r.Chance(1, 4) {
		// records left by an earlier run
		h.forceAge = time.Duration(r.Range(26, 60)) * time.Hour
		h.add()
		h.forceAge = time.Duration(r.Range(2, 20)) * time.Hour
		h.add()
		h.forceAge = 0
		h.state()
	}
	nb := 1 + r.Intn(2)
	for i := 0; i < nops && !h.stuck; i++ {
		h.op()
		if nb > 0 && r.Intn(nops) < 2 {
			h.battery(false)
			nb--
		}
	}
	h.battery(true)
	if mem <= 2 && fileEnabled && len(h.recs) >= 3 {
		h.cls[fmt.Sprintf("mem-size-%d-several-adds", mem)] = true
	}
	for _, x := range h.recs {
		switch x.where {
		case 0:
			h.cls["entries-in-memory"] = true
		case 1:
			h.cls["entries-in-current-file"] = true
		case 2:
			h.cls["entries-in-rotated-file"] = true
		}
	}
	c := vfCase{
		Coq: c07CHist(c0, h.steps),
		Nontrivial: len(h.recs) > 0,
		MonitorOK:  len(h.msgs) == 0,
		MonitorMsg: strings.Join(h.msgs, "; "),
		FindingKey: h.key,
		Desc:       map[string]any{"kind": tag, "ops": nops, "mem_size": mem, "file_enabled": fileEnabled, "entries": len(h.recs), "searches": h.nsearch, "trace": h.desc},
	}
	for k := range h.cls {
		c.Classes = append(c.Classes, k)
	}
	sort.Strings(c.Classes)
	out.Emit(c)
}

// c07ScanPrelude: a few old matching records behind a long run of newer
// non-matching ones, searched with scan windows smaller than the run.
func c07ScanPrelude(t *testing.T, out *vfOut, r *vfRand) {
	dir, err := os.MkdirTemp(t.TempDir(), "s")
	if err != nil {
		t.Fatal(err)
	}
	defer os.RemoveAll(dir)
	h := c07NewH(t, r, dir)
	h.newLog(3, true, true)
	c0 := h.coqConfig()
	for i, host := range []string{"a.b", "example.org", "a.b", "a.b"} {
		h.forceHost = host
		h.add()
		if i == 1 {
			if err = h.l.rotate(h.ctx); err != nil {
				t.Fatal(err)
			}
			h.steps = append(h.steps, "(C07.HOp ORotate)")
		}
	}
	for i := 0; i < 17; i++ {
		h.forceHost = vfPick(r, []string{"example.org", "cdn.example.com", "ads.example.org", "host-7.lan"})
		h.add()
	}
	h.forceHost = ""
	h.state()
	for _, w := range []struct{ lim, scan int }{{2, 3}, {1, 1}, {5, 4}, {2, 16}, {1, 50}} {
		h.scanChain(c07Query{term: `"a.b"`}, w.lim, w.scan)
		h.scanChain(c07Query{}, w.lim, w.scan)
	}
	h.battery(false)
	c := vfCase{
		Coq: c07CHist(c0, h.steps),
		Nontrivial: true, MonitorOK: len(h.msgs) == 0, MonitorMsg: strings.Join(h.msgs, "; "), FindingKey: h.key,
		Desc: map[string]any{"kind": "scan-window-prelude", "entries": len(h.recs), "searches": h.nsearch, "trace": h.desc},
	}
	for k := range h.cls {
		c.Classes = append(c.Classes, k)
	}
	sort.Strings(c.Classes)
	out.Emit(c)
}

// c07ClearRacePrelude: the Add that fills the buffer sets flushPending and
// spawns the flush; POST /control/querylog_clear gets fileFlushLock before
// that goroutine (the harness holds the lock while clear queues up first, then
// the Add, then releases).  The late goroutine finds the buffer empty.  After
// that mem_size+1 more queries are recorded: all must be returned.  In the
// unchanged tree both orders of the two lock waiters end in the same state, so
// the case does not depend on the scheduler.
func c07ClearRacePrelude(t *testing.T, out *vfOut, r *vfRand, mem uint) {
	dir, err := os.MkdirTemp(t.TempDir(), "c")
	if err != nil {
		t.Fatal(err)
	}
	defer os.RemoveAll(dir)
	h := c07NewH(t, r, dir)
	h.newLog(mem, true, true)
	c0 := h.coqConfig()
	for i := uint(0); i+1 < mem; i++ {
		h.add()
	}
	l := h.l
	base := runtime.NumGoroutine()
	l.fileFlushLock.Lock()
	cleared := make(chan struct{})
	go func() {
		rq := httptest.NewRequest("POST", "/control/querylog_clear", nil)
		l.handleQueryLogClear(httptest.NewRecorder(), rq)
		close(cleared)
	}()
	// let clear reach its Lock call before the flush goroutine exists
	for i := 0; i < 2000; i++ {
		runtime.Gosched()
	}
	time.Sleep(2 * time.Millisecond)
	h.lockHeld = true
	h.add() // fills the buffer: flushPending is set, the flush goroutine queues behind clear
	h.lockHeld = false
	l.fileFlushLock.Unlock()
	<-cleared
	deadline := time.Now().Add(5 * time.Second)
	for runtime.NumGoroutine() > base && time.Now().Before(deadline) {
		l.fileFlushLock.Lock()
		l.fileFlushLock.Unlock()
		runtime.Gosched()
	}
	for _, x := range h.recs {
		x.where = -1
	}
	h.steps = append(h.steps, "(C07.HOp OClear)", "(C07.HOp OFlush)")
	h.cls["op-clear"] = true
	h.cls["clear-overtakes-spawned-flush"] = true
	h.state()
	for i := uint(0); i < mem+1 && !h.stuck; i++ {
		h.add()
	}
	h.state()
	h.battery(true)
	c := vfCase{
		Coq: c07CHist(c0, h.steps),
		Nontrivial: true, MonitorOK: len(h.msgs) == 0, MonitorMsg: strings.Join(h.msgs, "; "), FindingKey: h.key,
		Desc: map[string]any{"kind": "clear-overtakes-spawned-flush", "mem_size": mem, "entries": len(h.recs), "searches": h.nsearch, "trace": h.desc},
	}
	for k := range h.cls {
		c.Classes = append(c.Classes, k)
	}
	sort.Strings(c.Classes)
	out.Emit(c)
}

// pagingAll follows cursor chains with pages of 1, 2, 3 and asks offset pages
// of 1 and 2 on the current state, without criteria.
func (h *c07H) pagingAll() {
	want := h.expected(c07Query{})
	h.listing()
	for _, lim := range []int{1, 2, 3} {
		var got []int
		q := c07Query{limit: strconv.Itoa(lim)}
		for page := 0; page <= len(h.recs)+2; page++ {
			resp := h.search(q)
			if resp.code != 0 {
				break
			}
			got = append(got, resp.ids...)
			if resp.oldest == "" || len(resp.ids) == 0 {
				break
			}
			if page > 0 {
				h.cls["cursor-page-2+"] = true
			}
			q.older = resp.oldest
		}
		if ok, why := h.pagesOK(got, want, true); !ok {
			h.fail("cursor-paging", "cursor pages of %d concatenate to %v, want %v %s", lim, got, want, why)
		}
	}
	for _, lim := range []int{1, 2} {
		var got []int
		for off := 0; off <= len(want)+lim; off += lim {
			resp := h.search(c07Query{limit: strconv.Itoa(lim), offset: strconv.Itoa(off)})
			if resp.code != 0 {
				break
			}
			got = append(got, resp.ids...)
		}
		if ok, why := h.pagesOK(got, want, false); !ok {
			h.fail("offset-paging", "offset pages of %d concatenate to %v, want %v %s", lim, got, want, why)
		}
	}
}

// c07WideHost draws a well-formed host name of 1-250 bytes (labels of at most
// 63 bytes).
func c07WideHost(r *vfRand) string {
	n := int(r.Range(1, 250))
	if r.Chance(1, 3) {
		n = int(r.Range(1, 12))
	}
	return c07HostOfLen(r, n)
}

// c07HostOfLen draws a well-formed lower-case host name of exactly n bytes.
func c07HostOfLen(r *vfRand, n int) string {
	var b strings.Builder
	for b.Len() < n {
		k := int(r.Range(1, 63))
		if k > n-b.Len() {
			k = n - b.Len()
		}
		if b.Len() > 0 {
			if k == 1 && n-b.Len() == 1 {
				b.WriteByte('z') // no room for a dot and a label
				break
			}
			b.WriteByte('.')
			k--
			if k == 0 {
				k = 1
			}
		}
		for i := 0; i < k && b.Len() < n; i++ {
			b.WriteByte("abcdefghijklmnopqrstuvwxyz0123456789"[r.Intn(36)])
		}
	}
	return b.String()
}

// cursorSweep (round 6): EVERY visible record in turn is the older_than
// cursor of a page of 1 and of a page of 2; the page must hold exactly the
// next records of the sequence (so the pages from any cursor on partition the
// rest of the sequence), and its "oldest" must be the stamp of its last row.
// A cursor that lies in a log file is located by the bisection of
// qLogFile.seekTS: with lines of widely differing lengths the probes fall on
// every kind of byte of a line, line breaks included.
func (h *c07H) cursorSweep() {
	want := h.expected(c07Query{})
	h.cls["cursor-sweep"] = true
	for _, lim := range []int{1, 2} {
		for i, id := range want {
			x := h.recs[id-1]
			q := c07Query{limit: strconv.Itoa(lim), older: time.Unix(0, x.ns).UTC().Format(time.RFC3339Nano)}
			resp := h.search(q)
			end := i + 1 + lim
			if end > len(want) {
				end = len(want)
			}
			exp := want[i+1 : end]
			switch x.where {
			case 0:
				h.cls["cursor-in-memory"] = true
			case 1:
				h.cls["cursor-in-current-file"] = true
			case 2:
				h.cls["cursor-in-rotated-file"] = true
			}
			if resp.code != 0 || !h.same(resp.ids, exp) {
				h.fail("cursor-sweep", "page of %d with older_than = stamp of record %d (line of %d bytes) returned %v (code %d, oldest %q), the sequence goes on with %v: the pages do not partition the sequence",
					lim, id, x.jlen, resp.ids, resp.code, resp.oldest, exp)
			}
		}
	}
}

// alignProbe (round 6) records queries until the FIRST probe of the
// timestamp bisection over the file that the next flush writes (offset
// size/2) falls exactly on the line break that ends some record which is
// neither the last nor the last but one: records are added until the line
// length that the next record needs for that is one a host name of 1-250
// bytes gives, then that record is added with the tuned host.  Reports
// whether the alignment was reached (the clock digits can spoil an attempt).
func (h *c07H) alignProbe() bool {
	// ordinary lines while aligning: the closer the line breaks, the sooner one
	// of them can be met
	defer func(w bool) { h.wideLines = w }(h.wideLines)
	h.wideLines = false
	for attempt := 0; attempt < 60; attempt++ {
		var ends []int64 // offset of the line break of every record still in memory
		size := int64(0)
		var last *c07Rec
		for _, x := range h.recs {
			if x.where == 0 {
				size += int64(x.jlen) + 1
				ends = append(ends, size-1)
				last = x
			}
		}
		if last != nil && len(ends) >= 3 {
			for _, e := range ends[:len(ends)-2] {
				if e == size/2 {
					return true
				}
			}
		}
		// a tuned record of L bytes makes the size size+L+1; the probe is then
		// (size+L+1)/2; wanted: an e with L = 2e - size - 1 or 2e - size that a
		// host name of 1-250 bytes gives to a line without an answer (decided in
		// addX, where the other fields of the record are drawn)
		h.tuneLen = nil
		if len(ends) >= 2 {
			for _, e := range ends[:len(ends)-1] {
				if L := 2*e - size - 1; L >= 150 && L <= 1000 {
					h.tuneLen = append(h.tuneLen, int(L), int(L)+1)
				}
			}
		}
		h.add()
	}
	return false
}

// c07SweepHistory (round 6): nrec records with lines of widely differing
// lengths, spread over rotated file, current file and memory as the script
// says (a = add, f = flush, r = rotate), then the cursor sweep and the paging
// chains.
func c07SweepHistory(t *testing.T, out *vfOut, r *vfRand, kind string, script string) {
	dir, err := os.MkdirTemp(t.TempDir(), "w")
	if err != nil {
		t.Fatal(err)
	}
	defer os.RemoveAll(dir)
	h := c07NewH(t, r, dir)
	h.newLog(1000, true, true)
	c0 := h.coqConfig()
	h.wideLines = true
	h.cls["wide-lines"] = true
	for _, tok := range strings.Fields(script) {
		if h.stuck {
			break
		}
		switch {
		case tok == "f":
			h.flushOp()
		case tok == "r":
			h.rotateOp()
		case tok == "P":
			if h.alignProbe() {
				h.cls["probe-on-line-break"] = true
			}
		case strings.HasPrefix(tok, "a"):
			n, _ := strconv.Atoi(tok[1:])
			for i := 0; i < n; i++ {
				h.add()
			}
		default:
			t.Fatalf("script token %q", tok)
		}
		h.state()
	}
	h.cursorSweep()
	h.pagingAll()
	for _, x := range h.recs {
		switch x.where {
		case 0:
			h.cls["entries-in-memory"] = true
		case 1:
			h.cls["entries-in-current-file"] = true
		case 2:
			h.cls["entries-in-rotated-file"] = true
		}
	}
	lens := make([]int, len(h.recs))
	for i, x := range h.recs {
		lens[i] = x.jlen
	}
	h.finish(out, c0, map[string]any{"kind": kind, "script": script, "line_lengths": lens})
}

// c07OrderPrelude: constructed histories in the dimension "push order vs
// stamp order".  Script tokens: a = add; L1 / L2 = an Add overtaken by one /
// two whole Adds; Lf = overtaken by an Add and a flush; Lr = by an Add, a flush
// and a rotation; s= / s< / sk = an add whose stamp is rewritten as by a clock
// that stood still / stepped back past the previous record / past a record 2-4
// places back; f = flush; r = rotate; R = restart; p = paging with fixed page
// sizes; b / B = the battery.
func c07OrderPrelude(t *testing.T, out *vfOut, r *vfRand, kind string, mem uint, script string) {
	dir, err := os.MkdirTemp(t.TempDir(), "o")
	if err != nil {
		t.Fatal(err)
	}
	defer os.RemoveAll(dir)
	h := c07NewH(t, r, dir)
	h.newLog(mem, true, true)
	c0 := h.coqConfig()
	nested := func(n int, flush, rotate bool) func() {
		return func() {
			for i := 0; i < n; i++ {
				h.add()
			}
			if flush {
				h.flushOp()
			}
			if rotate {
				h.rotateOp()
			}
		}
	}
	for _, tok := range strings.Fields(script) {
		if h.stuck {
			break
		}
		switch tok {
		case "a":
			h.add()
		case "L1":
			h.addX(nested(1, false, false), c07StepNone)
		case "L2":
			h.addX(nested(2, false, false), c07StepNone)
		case "Lf":
			h.addX(nested(1, true, false), c07StepNone)
		case "Lr":
			h.addX(nested(1, true, true), c07StepNone)
		case "s=":
			h.addX(nil, c07StepEqual)
		case "s<":
			h.addX(nil, c07StepSwap)
		case "sk":
			h.addX(nil, c07StepBack)
		case "f":
			h.flushOp()
		case "r":
			h.rotateOp()
		case "R":
			h.restart(nil)
		case "p":
			h.pagingAll()
		case "b":
			h.battery(false)
		case "B":
			h.battery(true)
		default:
			t.Fatalf("script token %q", tok)
		}
		h.state()
	}
	for _, x := range h.recs {
		switch x.where {
		case 0:
			h.cls["entries-in-memory"] = true
		case 1:
			h.cls["entries-in-current-file"] = true
		case 2:
			h.cls["entries-in-rotated-file"] = true
		}
	}
	h.finish(out, c0, map[string]any{"kind": kind, "mem_size": mem, "script": script})
}

// c07ConcurrentAdds: four goroutines record queries at the same time (no
// schedule is forced); afterwards the buffer must be in stamp order.  Only an
// inversion is a failure (a witness); a run without one proves nothing and
// nothing else is judged.  The first records go to the model as a history.
func c07ConcurrentAdds(t *testing.T, out *vfOut, r *vfRand) {
	dir, err := os.MkdirTemp(t.TempDir(), "cc")
	if err != nil {
		t.Fatal(err)
	}
	defer os.RemoveAll(dir)
	h := c07NewH(t, r, dir)
	const G = 4
	n := out.Scale(2000, 8000)
	h.newLog(uint(G*n+10), false, true)
	c0 := h.coqConfig()
	l := h.l
	start := make(chan struct{})
	done := make(chan struct{}, G)
	for g := 0; g < G; g++ {
		go func(g int) {
			<-start
			for i := 0; i < n; i++ {
				host := c07Hosts[(g+i)%len(c07Hosts)]
				q := &dns.Msg{Question: []dns.Question{{Name: host + ".", Qtype: dns.TypeA, Qclass: dns.ClassINET}}}
				l.Add(&AddParams{Question: q, Result: &filtering.Result{}, ClientIP: net.ParseIP(c07IPs[g%len(c07IPs)]), Upstream: "u"})
			}
			done <- struct{}{}
		}(g)
	}
	close(start)
	for g := 0; g < G; g++ {
		<-done
	}
	var ents []*logEntry
	func() {
		l.bufferLock.Lock()
		defer l.bufferLock.Unlock()
		l.buffer.Range(func(e *logEntry) bool { ents = append(ents, e); return true })
	}()
	if len(ents) != G*n {
		h.fail("complete-once-ordered", "%d queries recorded by %d goroutines, the buffer holds %d", G*n, G, len(ents))
	}
	inv := 0
	for i := 1; i < len(ents); i++ {
		if d := ents[i-1].Time.UnixNano() - ents[i].Time.UnixNano(); d > 0 {
			if inv == 0 {
				h.fail("stamp-order", "%d goroutines recording at the same time: the record at position %d of the buffer (%s from %s) carries a stamp %d ns older than the record pushed before it (%s from %s): push order is not stamp order",
					G, i, ents[i].QHost, ents[i].IP, d, ents[i-1].QHost, ents[i-1].IP)
			}
			inv++
		}
	}
	h.trace("%d goroutines x %d Adds; inversions of stamp order in the buffer: %d", G, n, inv)
	for i := 0; i < len(ents) && i < 40; i++ {
		e := ents[i]
		b, _ := json.Marshal(e)
		h.steps = append(h.steps, vfApp("C07.HOp", vfApp("OAdd", vfApp("C07.E", vfN(uint64(i+1)), vfZ(e.Time.UnixNano()), vfZ(int64(len(b))),
			vfBytes(e.QHost), vfBytes(e.IP.String()), vfBytes(e.ClientID), vfZ(int64(e.Result.Reason)), vfBool(e.Result.IsFiltered)))))
	}
	h.cls["concurrent-adds"] = true
	c := vfCase{
		Coq: c07CHist(c0, h.steps), Nontrivial: true, MonitorOK: len(h.msgs) == 0, MonitorMsg: strings.Join(h.msgs, "; "), FindingKey: h.key,
		Desc: map[string]any{"kind": "concurrent-adds", "goroutines": G, "adds_each": n, "trace": h.desc},
		Classes: []string{"concurrent-adds"},
	}
	out.Emit(c)
}

// c07BigFile: the request-parameter space of the handler x the scan cap.  A
// querylog.json of nm records of host rareNN.example followed by nn > cap
// newer records of noise.test is written directly (the lines json.Encoder
// writes for such entries); requests go through handleQueryLog: offset absent
// / explicit 0 / positive, limit absent / 0 / huge, older_than absent / empty /
// garbage.  Monitor: offset pages 0, 10, 20 of search=rare add up to every
// rare record, newest first; the chain of cursors from the request without
// offset (whose first page the cap cuts short) does too.  The requests without
// cursor go to the model (C07.CBig: cap as a parameter, lines abstracted to
// the two hosts).
func c07BigFile(t *testing.T, out *vfOut, r *vfRand, nm, nn int) {
	dir, err := os.MkdirTemp(t.TempDir(), "big")
	if err != nil {
		t.Fatal(err)
	}
	defer os.RemoveAll(dir)
	h := c07NewH(t, r, dir)
	const step = 1000
	base := (time.Now().Add(-time.Hour).UnixNano() / step) * step
	const ip = "10.9.9.9"
	var buf bytes.Buffer
	enc := json.NewEncoder(&buf)
	for k := 0; k < nm+nn; k++ {
		host := "noise.test"
		if k < nm {
			host = fmt.Sprintf("rare%02d.example", k)
		}
		e := &logEntry{Time: time.Unix(0, base+int64(k)*step), QHost: host, QType: "A", QClass: "IN", Upstream: "u", IP: net.ParseIP(ip)}
		if err = enc.Encode(e); err != nil {
			t.Fatal(err)
		}
	}
	if err = os.WriteFile(dir+"/"+queryLogFileName, buf.Bytes(), 0o644); err != nil {
		t.Fatal(err)
	}
	h.newLog(100, true, true)
	scanCap := newSearchParams().maxFileScanEntries
	type res struct {
		code   int
		ids    []int
		oldest string
	}
	get := func(q c07Query, toModel bool) (x res) {
		h.nsearch++
		w := httptest.NewRecorder()
		rq := httptest.NewRequest("GET", "/control/querylog?"+q.encode(), nil)
		func() {
			defer func() {
				if v := recover(); v != nil {
					x.code = 2
					h.fail("panic", "GET /control/querylog?%s panicked: %v", q.encode(), v)
				}
			}()
			h.l.handleQueryLog(w, rq)
		}()
		oldestNS := int64(0)
		if x.code != 2 {
			switch w.Code {
			case 200:
				var body struct {
					Data []struct {
						Time string `json:"time"`
					} `json:"data"`
					Oldest string `json:"oldest"`
				}
				if err := json.Unmarshal(w.Body.Bytes(), &body); err != nil {
					t.Fatal(err)
				}
				x.oldest = body.Oldest
				if body.Oldest != "" {
					tm, err := time.Parse(time.RFC3339Nano, body.Oldest)
					if err != nil {
						t.Fatal(err)
					}
					oldestNS = tm.UnixNano()
				}
				last := int64(math.MaxInt64)
				for _, e := range body.Data {
					tm, err := time.Parse(time.RFC3339Nano, e.Time)
					if err != nil {
						t.Fatal(err)
					}
					ns := tm.UnixNano()
					if ns > last {
						h.fail("page-newest-first", "GET /control/querylog?%s: a row is newer than the row before it", q.encode())
					}
					last = ns
					k := (ns - base) / step
					if ns < base || (ns-base)%step != 0 || k >= int64(nm+nn) {
						h.fail("unknown-entry", "GET /control/querylog?%s returned a record that is not in the file (time %s)", q.encode(), e.Time)
						k = -1
					}
					x.ids = append(x.ids, int(k)+1)
				}
			case 400:
				x.code = 1
			default:
				t.Fatalf("unexpected status %d", w.Code)
			}
		}
		show := x.ids
		if len(show) > 12 {
			show = show[:12]
		}
		h.trace("GET /control/querylog?%s -> code %d, %d rows, ids %v, oldest %q", q.encode(), x.code, len(x.ids), show, x.oldest)
		if toModel {
			var ids []string
			for _, id := range x.ids {
				ids = append(ids, vfN(uint64(id)))
			}
			h.steps = append(h.steps, vfPair(vfPair(vfPair(q.coq(), vfZ(int64(x.code))), vfList("N", ids)), vfZ(oldestNS)))
		}
		return x
	}
	var wantRare []int
	for k := nm; k >= 1; k-- {
		wantRare = append(wantRare, k)
	}
	// 1. offset / limit paging with an explicit first offset 0
	for _, term := range []string{"rare", "RARE"} {
		want := wantRare
		var got []int
		for off := 0; off <= nm+10; off += 10 {
			x := get(c07Query{term: term, limit: "10", offset: strconv.Itoa(off)}, true)
			got = append(got, x.ids...)
		}
		h.cls["explicit-offset-zero"] = true
		if !c07Eq(got, want) {
			h.fail("offset-paging", "search=%s&limit=10 at offsets 0, 10, 20, ... over a file of %d matching records behind %d newer ones that do not match (scan cap %d) returned %v, want %v: offset paging does not partition the matching sequence",
				term, nm, nn, scanCap, got, want)
		}
	}
	// 2. no offset: the cap cuts the first page short; the cursors lead on
	{
		var got []int
		q := c07Query{term: "rare", limit: "10"}
		for page := 0; page < (nm+nn)/1000+10; page++ {
			x := get(q, page == 0)
			if x.code != 0 {
				break
			}
			got = append(got, x.ids...)
			if page == 0 && len(x.ids) < 10 && x.oldest != "" {
				h.cls["scan-cap-cuts-first-page"] = true
			}
			if x.oldest == "" {
				break
			}
			q.older = x.oldest
		}
		if !c07Eq(got, wantRare) {
			h.fail("cursor-paging", "search=rare&limit=10 without offset, following oldest, over the same file returned %v, want %v", got, wantRare)
		}
	}
	// 3. the rest of the parameter space (correspondence; no crash)
	for _, q := range []c07Query{
		{limit: "5", offset: "0"}, {limit: "5"}, {term: "rare", offset: "0"}, {term: "rare"}, {term: "rare", limit: "0", offset: "0"},
		{term: "rare", limit: "2147483647", offset: "0"}, {term: "rare", limit: "2147483647", offset: "3"}, {term: "rare", limit: "7", offset: "9"},
		{term: "rare", limit: "abc", offset: "0"}, {term: "rare", limit: "10", offset: "x"}, {term: "rare", limit: "10", offset: "-1"},
		{term: "rare", limit: "10", offset: "2147483648"}, {older: "garbage", offset: "0"}, {term: "noise", limit: "3", offset: "50010"},
		{status: "filtered", limit: "3", offset: "0"}, {status: "processed", limit: "3", offset: "0"},
	} {
		x := get(q, true)
		if x.code == 1 {
			h.cls["bad-request"] = true
		}
	}
	if x := get(c07Query{term: "rare", limit: "2147483647", offset: "0"}, false); x.code == 0 && !c07Eq(x.ids, wantRare) {
		h.fail("filters-exact", "search=rare&limit=2147483647&offset=0 returned %v, want %v", x.ids, wantRare)
	}
	h.cls["big-file-over-scan-cap"] = true
	c := vfCase{
		Coq: vfApp("C07.CBig", vfZ(int64(scanCap)), vfZ(int64(nm)), vfZ(int64(nn)), vfZ(base), vfZ(step),
			vfBytes("rare"), vfBytes("noise"), vfBytes(ip), vfList("request * Z * list N * Z", h.steps)),
		Nontrivial: true, MonitorOK: len(h.msgs) == 0, MonitorMsg: strings.Join(h.msgs, "; "), FindingKey: h.key,
		Desc: map[string]any{"kind": "big-file", "matching": nm, "newer_non_matching": nn, "scan_cap": scanCap, "searches": h.nsearch, "trace": h.desc},
	}
	for k := range h.cls {
		c.Classes = append(c.Classes, k)
	}
	sort.Strings(c.Classes)
	out.Emit(c)
}

func TestVerifC07(t *testing.T) {
	out := vfOpen(t, "C07")
	defer out.Close()
	// ---- prelude (seed-independent)
	pr := vfNewRand(7)
	c07History(t, out, pr, 0, 4, true, "empty")
	c07History(t, out, pr, 25, 3, true, "prelude-mem3")
	c07History(t, out, pr, 25, 1, true, "prelude-mem1")
	c07History(t, out, pr, 25, 0, true, "prelude-mem0")
	c07History(t, out, pr, 25, 4, false, "prelude-nofile")
	c07History(t, out, pr, 60, 5, true, "prelude-long")
	c07ScanPrelude(t, out, pr)
	for _, mem := range []uint{1, 2, 3, 4} {
		if !c07Stuck {
			c07ClearRacePrelude(t, out, pr, mem)
		}
	}
	for _, mem := range []uint{1, 2, 4} {
		if !c07Stuck {
			c07AnonPrelude(t, out, pr, mem)
		}
	}
	// names with an upper-case K / S past the start, terms kitchen / set /
	// "s laptop" / itchen asked in every battery (defect repaired as f792c49)
	if !c07Stuck {
		c07ForceTable = 3
		c07History(t, out, vfNewRand(11), 60, 6, true, "prelude-ks-names")
		c07History(t, out, vfNewRand(12), 40, 2, true, "prelude-ks-names")
		c07ForceTable = -1
	}
	// every cell of the response_status table
	for _, mem := range []uint{7, 30} {
		if !c07Stuck {
			c07StatusPrelude(t, out, vfNewRand(13+uint64(mem)), mem)
		}
	}
	// configuration toggles x records flushed or not x restart or not
	for _, field := range []string{"enabled", "file_enabled", "mem_size", "interval"} {
		for _, afterFlush := range []bool{false, true} {
			for _, restart := range []bool{false, true} {
				if !c07Stuck {
					c07TogglePrelude(t, out, vfNewRand(21), field, afterFlush, restart)
				}
			}
		}
	}
	// push order vs stamp order: Adds overtaken between building the entry and
	// locking the buffer (real interleavings; since 3418b11 the stamp is taken
	// under the lock, so these are judged at full strength) ...
	for _, sc := range []struct {
		kind   string
		mem    uint
		script string
	}{
		{"overtaken-memory", 50, "a L1 p L2 p a L1 L1 p b"},
		{"overtaken-flush", 50, "a L1 f p a Lf p a a Lr p a f p L2 r p B"},
		{"overtaken-mem2", 2, "a L1 p L2 p a Lf p L1 L1 p R a L1 p b"},
		{"overtaken-mem1", 1, "a L1 p L1 r L2 p"},
		// ... and stamps left out of order by a clock that stood still or stepped
		// back (outside the assumption: judged by what holds for every push order)
		{"clock-step-swap", 50, "a a s< p a p f p a s< p r a p f p b"},
		{"clock-step-equal", 50, "a a s= p a p f p a s= p b"},
		{"clock-step-back", 50, "a a a a sk p f p a a sk p r a sk p f p B"},
		{"clock-step-mem3", 3, "a a s< p a a sk p a s= p a a p R a s< p b"},
	} {
		if !c07Stuck {
			c07OrderPrelude(t, out, vfNewRand(31), sc.kind, sc.mem, sc.script)
		}
	}
	if !c07Stuck {
		c07ConcurrentAdds(t, out, vfNewRand(41))
	}
	// the handler's parameter space x the scan cap: a file with more lines than the cap
	c07BigFile(t, out, vfNewRand(43), 15, 50000)
	if out.Scale(0, 1) == 1 {
		c07BigFile(t, out, vfNewRand(44), 23, 120003)
		c07BigFile(t, out, vfNewRand(45), 3, 50001)
	}
	// round 6: lines of widely differing lengths, every record as cursor
	for i, sc := range []string{"a6 f", "a12 f a2", "a9 f r a14 f a1", "a40 f", "a4 P f a1", "a3 P f r a5 f"} {
		if !c07Stuck {
			c07SweepHistory(t, out, vfNewRand(uint64(51+i)), "cursor-sweep", sc)
		}
	}
	// ---- random histories
	rnd := vfNewRand(out.Seed)
	n := out.Scale(120, 500)
	c07LatePct = 8
	for i := 0; i < n && !c07Stuck; i++ {
		r := rnd.Fork(uint64(i))
		mem := uint(r.Range(1, 8))
		if r.Chance(1, 12) {
			mem = 0
		}
		c07History(t, out, r, int(r.Range(4, 45)), mem, !r.Chance(1, 8), "random")
	}
	// random histories with simulated clock steps
	c07StepPct = 15
	n = out.Scale(16, 80)
	for i := 0; i < n && !c07Stuck; i++ {
		r := rnd.Fork(uint64(100000 + i))
		c07History(t, out, r, int(r.Range(6, 40)), uint(r.Range(1, 8)), !r.Chance(1, 8), "random-clock-step")
	}
	c07LatePct, c07StepPct = 0, 0
	// round 6: drawn cursor sweeps (6-40 records over one or two files)
	n = out.Scale(4, 40)
	for i := 0; i < n && !c07Stuck; i++ {
		r := rnd.Fork(uint64(200000 + i))
		k := int(r.Range(6, 40))
		sc := "a" + strconv.Itoa(k) + " f"
		if r.Bool() {
			j := int(r.Range(2, int64(k-2)))
			sc = "a" + strconv.Itoa(j) + " f r a" + strconv.Itoa(k-j) + " f"
		}
		if r.Chance(1, 3) {
			// ... ending in a constructed alignment: the first probe of the
			// bisection falls on a line break
			sc = "a" + strconv.Itoa(int(r.Range(3, 12))) + " P f"
			if r.Bool() {
				sc += " r a" + strconv.Itoa(int(r.Range(1, 9))) + " f"
			}
		}
		if r.Chance(1, 3) {
			sc += " a" + strconv.Itoa(1+r.Intn(2))
		}
		c07SweepHistory(t, out, r, "cursor-sweep-random", sc)
	}
}

//go:build verif

package querylog

import (
	"fmt"
	"os"
	"path/filepath"
	"strconv"
	"strings"
	"syscall"
	"testing"
	"time"
)

// Round 6.  Two input dimensions of the property that the earlier rounds left
// to chance or did not vary at all:
//
//   - ALIGNMENT (K): where the line breaks of a file larger than the read
//     buffer fall relative to the 1.6 MB windows the backward reader positions.
//     The arithmetic (readNextLine / initBuffer): a window is (re)initialised
//     for a read at position p (the offset of the line break that ends the
//     record to return) when there is no window, or when p - bufferStart <
//     maxEntrySize and bufferStart != 0; the new window is [p-bufferSize, p)
//     for p > bufferSize, else [0, bufferSize): it ENDS at the position.  A
//     record is therefore read from window byte x+1.. when the break in front
//     of it sits at window byte x and the record ends at window byte
//     x+1+len >= maxEntrySize; the record below that break is the first one of
//     the next window, which ends at that break.  So the whole layout of a
//     file, window by window, is fixed by (x, len of the lowest record, len of
//     the top record) per window: c20BufSpec.  The files are built from the
//     newest end backwards; whether an alignment class is reached is read from
//     the REAL reader's bufferStart after every call, not from the builder.
//
//   - METADATA (L): modification / access time before, inside and after the
//     stored stamps, permission bits, and a file that grows through a second
//     handle while the reader has it open.  The model has no metadata
//     (Proofs/QLogDisk.v: the reader is a function of the bytes); the seek
//     contract is judged on the stored stamps whatever the metadata.

// ---- options of c20FileCase

type c20SeekThrough struct {
	rec   int // record to seek to (index in the file, oldest = 0)
	reads int // ReadNext calls that follow
}

type c20FileOpt struct {
	// q, path: run on this open reader (the caller wrote the file and keeps
	// both); nil: the case writes f.json and opens it.
	q    *qLogFile
	path string
	// windows: records (file order) at which a byte-level window starts during
	// the reverse read: the reads from there on are also emitted as a
	// C20.CBytesAt case.
	windows []int
	// seekThrough: seeks to chosen records followed by reads down through the
	// lower end of the window that the seek positions.
	seekThrough []c20SeekThrough
	// sched: where to queue the byte-level window cases (they are expensive to
	// evaluate and must not sit next to each other in one shard).
	sched *c20Sched
	// layout: description of a constructed layout for the replay file.
	layout any
}

// ---- spreading expensive cases over the evaluator shards

// c20Sched runs one queued heavy case after every period light ones, so that
// every coqc shard (shard_size consecutive cases) gets its share.
type c20Sched struct {
	heavy  []func()
	lights int
	period int
}

func (s *c20Sched) add(f func()) { s.heavy = append(s.heavy, f) }

func (s *c20Sched) light() {
	s.lights++
	if s.period > 0 && s.lights%s.period == 0 {
		s.one()
	}
}

func (s *c20Sched) one() {
	if len(s.heavy) > 0 {
		f := s.heavy[0]
		s.heavy = s.heavy[1:]
		// a heavy case does not inherit the metadata variant of its neighbour
		c20CurMeta = c20MetaPolicy{}
		f()
		c20CurMeta = c20MetaPolicy{}
	}
}

func (s *c20Sched) drain() {
	for len(s.heavy) > 0 {
		s.one()
	}
}

// ---- metadata

// c20MetaPolicy is the metadata variant applied to every file c20Write writes
// while it is in force.
type c20MetaPolicy struct{ kind string }

var c20CurMeta c20MetaPolicy

// c20MetaSeen: what Stat reported right after the variant was applied.
var c20MetaSeen = map[string][3]int64{}

var c20MetaKinds = []string{
	"mtime-epoch", "mtime-before-stamps", "mtime-mid-stamps", "mtime-just-before-last-stamp",
	"mtime-equals-a-stamp", "mtime-future", "atime-epoch", "atime-future", "read-only",
}

// c20FixedNow is the "ordinary" time given to the half of the pair that a
// variant does not vary: later than the stamps the generators use (2023),
// fixed so that a case is the same term in every run.
var c20FixedNow = time.Date(2026, 1, 1, 0, 0, 0, 0, time.UTC)

func (m c20MetaPolicy) apply(path string, lines []c20Line) error {
	delete(c20MetaSeen, path)
	if m.kind == "" {
		return nil
	}
	first, mid, last := int64(1_700_000_000_000_000_000), int64(1_700_000_000_000_000_000), int64(1_700_000_000_000_000_000)
	var stamped []int64
	for _, l := range lines {
		if l.ts != 0 {
			stamped = append(stamped, l.ts)
		}
	}
	if len(stamped) > 0 {
		first, mid, last = stamped[0], stamped[len(stamped)/2], stamped[len(stamped)-1]
	}
	at, mt := c20FixedNow, c20FixedNow
	mode := os.FileMode(0o644)
	switch m.kind {
	case "mtime-epoch":
		mt = time.Unix(0, 0)
	case "mtime-before-stamps":
		mt = time.Unix(0, first).Add(-time.Hour)
	case "mtime-mid-stamps":
		mt = time.Unix(0, mid-1)
	case "mtime-equals-a-stamp":
		mt = time.Unix(0, mid)
	case "mtime-just-before-last-stamp":
		mt = time.Unix(0, last).Add(-2 * time.Millisecond)
	case "mtime-future":
		mt = time.Date(2200, 1, 1, 0, 0, 0, 0, time.UTC)
	case "atime-epoch":
		at = time.Unix(0, 0)
	case "atime-future":
		at = time.Date(2200, 1, 1, 0, 0, 0, 0, time.UTC)
	case "read-only":
		mode = 0o444
	default:
		return fmt.Errorf("unknown metadata variant %q", m.kind)
	}
	if err := os.Chmod(path, mode); err != nil {
		return err
	}
	if err := os.Chtimes(path, at, mt); err != nil {
		return err
	}
	fi, err := os.Stat(path)
	if err != nil {
		return err
	}
	atime := int64(0)
	if st, ok := fi.Sys().(*syscall.Stat_t); ok {
		atime = st.Atim.Sec*1_000_000_000 + st.Atim.Nsec
	}
	c20MetaSeen[path] = [3]int64{fi.ModTime().UnixNano(), atime, int64(fi.Mode().Perm())}
	return nil
}

// c20MetaOf returns the wrapper that puts the metadata of the files of a case
// into its term (C20.CMeta, outermost = first path), and the description for
// the replay file; the identity and nil when no variant is in force.
func c20MetaOf(paths ...string) (wrap func(string) string, desc any) {
	wrap = func(s string) string { return s }
	if c20CurMeta.kind == "" {
		return wrap, nil
	}
	var seen [][3]int64
	var d []map[string]any
	for _, p := range paths {
		if m, ok := c20MetaSeen[p]; ok {
			seen = append(seen, m)
			d = append(d, map[string]any{"file": filepath.Base(p), "mtime_unix_nano": m[0], "atime_unix_nano": m[1], "mode": fmt.Sprintf("%#o", m[2])})
		}
	}
	if len(seen) == 0 {
		return wrap, nil
	}
	wrap = func(s string) string {
		for i := len(seen) - 1; i >= 0; i-- {
			s = vfApp("C20.CMeta", vfZ(seen[i][0]), vfZ(seen[i][1]), vfZ(seen[i][2]), s)
		}
		return s
	}
	return wrap, map[string]any{"variant": c20CurMeta.kind, "files": d}
}

// c20DrawMeta puts a variant in force for the next case with probability
// num/den, none otherwise.
func c20DrawMeta(r *vfRand, num, den int) {
	c20CurMeta = c20MetaPolicy{}
	if r.Chance(num, den) {
		c20CurMeta = c20MetaPolicy{kind: vfPick(r, c20MetaKinds)}
	}
}

// ---- alignment classes, read from the real reader

type c20Align struct {
	lines     []c20Line
	off       []int64 // start offset of every record; off[n] = file size
	prevBS    int64
	prevValid bool
	ordinal   int // windows with a non-zero start initialised since the last positioning
	afterSeek bool
	hits      []string
}

func c20NewAlign(lines []c20Line) *c20Align {
	a := &c20Align{lines: lines, off: make([]int64, len(lines)+1)}
	for i, l := range lines {
		a.off[i+1] = a.off[i] + int64(len(l.text)) + 1
	}
	return a
}

// before notes the window in force before a ReadNext.
func (a *c20Align) before(q *qLogFile) {
	a.prevBS, a.prevValid = q.bufferStart, q.buffer != nil
	if !a.prevValid {
		a.ordinal = 0
	}
}

// after classifies the read that has just returned record k.
func (a *c20Align) after(q *qLogFile, k int, cls map[string]bool) {
	if k < 0 || k >= len(a.lines) {
		return
	}
	bs := q.bufferStart
	reinit := !a.prevValid || bs != a.prevBS
	if reinit && bs != 0 {
		a.ordinal++
	}
	ln := int64(len(a.lines[k].text))
	brk := a.off[k] - 1 // the line break in front of the record
	end := a.off[k] + ln
	hit := func(c string) {
		cls[c] = true
		if len(a.hits) < 16 {
			a.hits = append(a.hits, fmt.Sprintf("record %d (%d bytes at %d): %s, window %d at %d", k, ln, a.off[k], c, a.ordinal, bs))
		}
		switch {
		case a.afterSeek:
			cls["align-window-after-seek"] = true
		case a.ordinal == 1:
			cls["align-window-1"] = true
		case a.ordinal == 2:
			cls["align-window-2"] = true
		case a.ordinal >= 3:
			cls["align-window-3-or-later"] = true
		}
	}
	if bs != 0 {
		switch brk {
		case bs:
			hit("align-break-at-buffer-byte-0")
		case bs + 1:
			hit("align-break-at-buffer-byte-1")
		}
		if reinit && ln == maxEntrySize-1 {
			hit("align-max-record-ends-at-buffer-end")
		}
		if reinit && q.bufferLen > 0 && q.buffer[q.bufferLen-1] == '\n' {
			hit("align-break-at-buffer-last-byte")
		}
		if !reinit && end-bs == maxEntrySize {
			hit("align-record-ends-at-reinit-threshold")
		}
	}
	if a.prevValid && a.prevBS != 0 && reinit {
		if a.off[k] == a.prevBS && ln == maxEntrySize-1 {
			hit("align-max-record-starts-at-buffer-byte-0")
		}
		if end-a.prevBS == maxEntrySize-1 {
			hit("align-record-ends-just-under-reinit-threshold")
		}
		if a.off[k] < a.prevBS && a.prevBS-a.off[k] <= 2 && ln == maxEntrySize-1 {
			hit("align-max-record-starts-just-before-buffer")
		}
	}
}

// ---- byte-level windows of large files

// c20WindowReads: reads per window (two records on either side of a window
// boundary when the window starts one record above the lowest record of a
// constructed window).
const c20WindowReads = 4

// c20WindowMax: the content given to the evaluator ends at the position the
// window starts from; it is kept under this many bytes (the byte-level model
// materialises every 1.6 MB window it reads).
const c20WindowMax = bufferSize + 8*maxEntrySize

type c20Window struct {
	k0         int
	pos0, bs0  int64
	valid0     bool
	lines      []c20Line
	ops        []string
	next       int
	wrong      []string
	firstState string
}

// c20OpenWindow starts a window at record k if the reader stands on the break
// that ends record k and the file up to there is small enough.
func c20OpenWindow(q *qLogFile, lines []c20Line, k int) *c20Window {
	if k < 0 || k >= len(lines) {
		return nil
	}
	end := c20Size(lines[:k+1]) - 1
	if q.position != end || end+1 > c20WindowMax {
		return nil
	}
	return &c20Window{k0: k, pos0: q.position, bs0: q.bufferStart, valid0: q.buffer != nil, lines: lines[:k+1], next: k}
}

func (w *c20Window) read(q *qLogFile, line string, eof bool) {
	if eof {
		w.ops = append(w.ops, vfApp("C20.BRead", vfOpt("Z * bytes * Z", false, "")))
		if w.next >= 0 {
			w.wrong = append(w.wrong, fmt.Sprintf("io.EOF with record %d still to be returned", w.next))
		}
		return
	}
	ki, given := int64(w.next), "(pk I0)"
	if w.next < 0 || line != w.lines[w.next].text {
		exp := ""
		if w.next >= 0 {
			exp = w.lines[w.next].text
		}
		w.wrong = append(w.wrong, fmt.Sprintf("expected record %d: %s", w.next, c20Diff(exp, line)))
		ki, given = -1, c20Pk(line)
	}
	w.ops = append(w.ops, vfApp("C20.BRead", vfOpt("Z * bytes * Z", true, "("+vfZ(ki)+", "+given+", "+vfZ(q.position)+")")))
	w.next--
}

func (w *c20Window) emit(out *vfOut, sched *c20Sched, kind string, _ *c20Mon, metaWrap func(string) string, metaDesc any) {
	litems := make([]string, len(w.lines))
	for i, l := range w.lines {
		litems[i] = c20Pk(l.text)
	}
	c := vfCase{
		Coq: metaWrap(vfApp("C20.CBytesAt", vfZ(maxEntrySize), vfZ(bufferSize), vfList("bytes", litems),
			vfZ(w.pos0), vfZ(w.bs0), vfBool(w.valid0), vfList("C20.bop", w.ops))),
		Nontrivial: true,
		MonitorOK:  len(w.wrong) == 0,
		MonitorMsg: strings.Join(w.wrong, "; "),
		Classes:    []string{"byte-level", "byte-level-window"},
		Desc: map[string]any{"kind": "bytes-window/" + kind, "window_starts_at_record": w.k0, "position": w.pos0,
			"bufferStart": w.bs0, "buffer_valid": w.valid0, "reads": len(w.ops),
			"lens_oldest_first_rle": c20LensRLE(w.lines)},
	}
	if !c.MonitorOK {
		c.FindingKey = "window-wrong-line"
	}
	if metaDesc != nil {
		c.Desc.(map[string]any)["metadata"] = metaDesc
	}
	if sched != nil {
		sched.add(func() { out.Emit(c) })
	} else {
		out.Emit(c)
	}
}

// c20Diff says where two strings differ (for monitor messages).
func c20Diff(want, got string) string {
	i := 0
	for i < len(want) && i < len(got) && want[i] == got[i] {
		i++
	}
	cut := func(s string) string {
		lo, hi := i-6, i+10
		if lo < 0 {
			lo = 0
		}
		if hi > len(s) {
			hi = len(s)
		}
		if lo > hi {
			lo = hi
		}
		return strconv.Quote(s[lo:hi])
	}
	return fmt.Sprintf("first difference at byte %d: written ...%s, returned ...%s (lengths %d / %d)", i, cut(want), cut(got), len(want), len(got))
}

// c20LensRLE renders all line lengths, runs compressed.
func c20LensRLE(lines []c20Line) string {
	var b strings.Builder
	for i := 0; i < len(lines); {
		j := i
		for j < len(lines) && len(lines[j].text) == len(lines[i].text) {
			j++
		}
		if b.Len() > 0 {
			b.WriteByte(' ')
		}
		b.WriteString(strconv.Itoa(len(lines[i].text)))
		if j-i > 1 {
			b.WriteString("x" + strconv.Itoa(j-i))
		}
		i = j
	}
	return b.String()
}

// ---- constructed layouts

// c20BufSpec fixes the layout of one window of the backward reader (see the
// comment at the top of the file).
type c20BufSpec struct {
	// top: length of the record that ends where the window ends (for the first
	// window: the last record of the file); 0 = drawn, -1 = an empty line.
	top int
	// x: window byte that holds the line break in front of the lowest record
	// read from this window, 0 <= x < maxEntrySize.
	x int
	// low: length of that record; x+1+low >= maxEntrySize, so that it is still
	// read from this window.
	low int
	// near: lengths of the nNear records next to both ends of the window:
	// "one" (one byte), "typical", "max" (maxEntrySize-1), "max-1"
	// (maxEntrySize-2), "mixed".
	near  string
	nNear int
}

func (sp c20BufSpec) String() string {
	return fmt.Sprintf("{top %d, break at window byte %d, then %d bytes; %d %s records at both ends}", sp.top, sp.x, sp.low, sp.nNear, sp.near)
}

const c20MinStamped = 72 // shorter records carry no stamp (filler text)

func c20NearLen(r *vfRand, near string) int {
	switch near {
	case "one":
		return 1
	case "max":
		return maxEntrySize - 1
	case "max-1":
		return maxEntrySize - 2
	case "mixed":
		return vfPick(r, []int{1, maxEntrySize - 1, maxEntrySize - 2, int(r.Range(80, 600)), int(r.Range(80, 3000))})
	}
	return int(r.Range(80, 600))
}

// c20BuildAligned returns the line lengths of a file (oldest first) whose
// windows, as the backward reader positions them from SeekStart, follow
// specs; tailTop is the length of the record under the last break (0 = drawn),
// nHead the number of further records towards the beginning of the file.
// lows / tops: file indices of the lowest / top record of every window.
func c20BuildAligned(t *testing.T, r *vfRand, specs []c20BufSpec, tailTop, nHead int) (lens []int, lows, tops []int) {
	var rev []int // newest first
	var lowsR, topsR []int
	for i, sp := range specs {
		if sp.x < 0 || sp.x >= maxEntrySize || sp.x+1+sp.low < maxEntrySize || sp.low >= maxEntrySize {
			t.Fatalf("c20BuildAligned: window %d: impossible spec %v", i, sp)
		}
		top := sp.top
		switch {
		case top == 0:
			top = int(r.Range(80, 600))
		case top < 0:
			top = 0
		}
		var nearTop, nearLow []int
		for j := 0; j < sp.nNear; j++ {
			nearTop = append(nearTop, c20NearLen(r, sp.near))
			nearLow = append(nearLow, c20NearLen(r, sp.near))
		}
		rem := int64(bufferSize-sp.x) - int64(top+1) - int64(sp.low+1)
		for _, l := range nearTop {
			rem -= int64(l + 1)
		}
		for _, l := range nearLow {
			rem -= int64(l + 1)
		}
		var bulk []int
		for rem > 2*maxEntrySize+1200 {
			l := int(r.Range(8000, maxEntrySize-1))
			bulk = append(bulk, l)
			rem -= int64(l + 1)
		}
		if rem < 3*(c20MinStamped+1) {
			t.Fatalf("c20BuildAligned: window %d: nothing left to adjust (%d)", i, rem)
		}
		a, b := rem/3, rem/3
		c := rem - a - b
		topsR = append(topsR, len(rev))
		rev = append(rev, top)
		rev = append(rev, nearTop...)
		rev = append(rev, bulk...)
		rev = append(rev, int(a-1), int(b-1), int(c-1))
		rev = append(rev, nearLow...)
		lowsR = append(lowsR, len(rev))
		rev = append(rev, sp.low)
	}
	if tailTop == 0 {
		tailTop = int(r.Range(80, 600))
	}
	rev = append(rev, tailTop)
	for j := 0; j < nHead; j++ {
		rev = append(rev, int(r.Range(80, 900)))
	}
	n := len(rev)
	lens = make([]int, n)
	for i, l := range rev {
		lens[n-1-i] = l
	}
	for _, k := range lowsR {
		lows = append(lows, n-1-k)
	}
	for _, k := range topsR {
		tops = append(tops, n-1-k)
	}
	return lens, lows, tops
}

// c20LinesOfLens writes records of exactly the given lengths: stamped JSON
// lines where the length allows, else filler without a stamp (ts 0).
func c20LinesOfLens(t *testing.T, r *vfRand, lens []int, ts0 int64) []c20Line {
	lines := make([]c20Line, len(lens))
	ts := ts0
	for i, want := range lens {
		ts += r.Range(1, 5000)
		if want >= c20MinStamped {
			lines[i] = c20MakeLine(i, ts, want)
		} else {
			lines[i] = c20Line{text: strings.Repeat(string(rune('a'+i%26)), want)}
		}
		if len(lines[i].text) != want {
			t.Fatalf("c20LinesOfLens: record %d has %d bytes, wanted %d", i, len(lines[i].text), want)
		}
	}
	return lines
}

// c20AlignedCase builds the file of a layout and runs it as a file case with a
// byte-level window at the lowest record of the last constructed window and a
// seek to the top record of every window followed by reads through its lower
// end.
func c20AlignedCase(t *testing.T, out *vfOut, r *vfRand, dir, kind string, specs []c20BufSpec, tailTop int, sched *c20Sched, classes []string) {
	lens, lows, tops := c20BuildAligned(t, r, specs, tailTop, int(r.Range(2, 12)))
	lines := c20LinesOfLens(t, r, lens, 1_700_000_000_000_000_000)
	opt := c20FileOpt{sched: sched}
	var specTexts []string
	for _, sp := range specs {
		specTexts = append(specTexts, sp.String())
	}
	opt.layout = map[string]any{"windows_newest_first": specTexts, "record_under_last_break": tailTop}
	// the window: one record above the lowest record of the last window
	last := lows[len(lows)-1]
	opt.windows = []int{last + 1}
	for i := range specs {
		opt.seekThrough = append(opt.seekThrough, c20SeekThrough{rec: tops[i], reads: tops[i] - lows[i] + 3})
	}
	c20FileCase(t, out, r, dir, "aligned/"+kind, lines, 6, classes, opt)
}

// c20AlignedPrelude queues the constructed representatives of the alignment
// classes (seed-independent).
func c20AlignedPrelude(t *testing.T, out *vfOut, dir string, sched *c20Sched) {
	const me = maxEntrySize
	typ := c20BufSpec{x: 5000, low: me - 1, near: "typical", nNear: 3}
	type lay struct {
		kind    string
		specs   []c20BufSpec
		tailTop int
	}
	lays := []lay{
		// the break in front of a record of the greatest length is the FIRST byte of the window
		{"break-at-byte-0/window-1", []c20BufSpec{{x: 0, low: me - 1, near: "typical", nNear: 3}}, 0},
		{"break-at-byte-0/window-2", []c20BufSpec{typ, {x: 0, low: me - 1, near: "max", nNear: 2}}, 0},
		{"break-at-byte-0/window-3", []c20BufSpec{typ, {x: 77, low: me - 1, near: "typical", nNear: 2}, {top: me - 1, x: 0, low: me - 1, near: "max-1", nNear: 2}}, me - 1},
		// ... the second byte: records of maxEntrySize-2 and maxEntrySize-1 bytes
		{"break-at-byte-1/window-1", []c20BufSpec{{x: 1, low: me - 2, near: "max-1", nNear: 2}}, me - 2},
		{"break-at-byte-0-then-1", []c20BufSpec{{top: me - 1, x: 0, low: me - 1, near: "max", nNear: 3}, {x: 1, low: me - 1, near: "typical", nNear: 3}}, 0},
		// a record of the greatest length that starts at window byte 0 (its end is
		// just under the re-initialisation threshold: it is read from the next
		// window, which it ends), and one that ends exactly at the threshold
		{"max-record-at-byte-0", []c20BufSpec{{x: me - 1, low: 300, near: "typical", nNear: 3}, {top: me - 1, x: me - 100, low: 99, near: "typical", nNear: 2}}, me - 100},
		// records of the greatest length that start one / two bytes BEFORE a window
		// (their ends are two / three bytes under the threshold)
		{"max-record-from-before-window", []c20BufSpec{{x: me - 2, low: 120, near: "typical", nNear: 2}, {top: me - 1, x: me - 3, low: 2000, near: "typical", nNear: 2}}, me - 1},
		// one-byte records next to every boundary (no stamps: read backwards only)
		{"one-byte-records", []c20BufSpec{{top: 1, x: me - 2, low: 1, near: "one", nNear: 24}, {top: me - 2, x: 2, low: me - 1, near: "one", nNear: 24}}, 1},
		// empty lines (outside the theorem: lines are non-empty there): the only
		// way to a line break in the LAST byte of a window
		{"empty-lines", []c20BufSpec{{top: -1, x: 0, low: me - 1, near: "typical", nNear: 2}, {top: -1, x: 3, low: me - 1, near: "typical", nNear: 2}}, 200},
	}
	for i, l := range lays {
		l := l
		r := vfNewRand(uint64(620 + i))
		sched.add(func() { c20AlignedCase(t, out, r, dir, l.kind, l.specs, l.tailTop, sched, nil) })
	}
}

// c20RandomSpec draws the layout of one window.
func c20RandomSpec(r *vfRand) c20BufSpec {
	const me = maxEntrySize
	sp := c20BufSpec{near: vfPick(r, []string{"typical", "typical", "max", "max-1", "mixed"}), nNear: int(r.Range(0, 4))}
	switch r.Intn(6) {
	case 0:
		sp.x = 0
	case 1:
		sp.x = 1
	case 2:
		sp.x = int(r.Range(2, 40))
	case 3:
		sp.x = me - 1 - r.Intn(3)
	default:
		sp.x = r.Intn(me)
	}
	minLow := me - 1 - sp.x
	if minLow < c20MinStamped {
		minLow = c20MinStamped
	}
	switch r.Intn(3) {
	case 0:
		sp.low = minLow
	case 1:
		sp.low = me - 1
	default:
		sp.low = int(r.Range(int64(minLow), me-1))
	}
	if r.Chance(1, 3) {
		sp.top = vfPick(r, []int{me - 1, me - 2, c20MinStamped})
	}
	return sp
}

// c20AlignedRandom queues n files of 1-3 drawn windows.
func c20AlignedRandom(t *testing.T, out *vfOut, rnd *vfRand, dir string, sched *c20Sched, n int, maxWindows int) {
	for i := 0; i < n; i++ {
		r := rnd.Fork(uint64(6000000 + i))
		nw := 1 + r.Intn(maxWindows)
		var specs []c20BufSpec
		for j := 0; j < nw; j++ {
			specs = append(specs, c20RandomSpec(r))
		}
		tail := 0
		if r.Chance(1, 2) {
			tail = vfPick(r, []int{maxEntrySize - 1, maxEntrySize - 2, specs[nw-1].x})
			if tail < c20MinStamped {
				tail = 0
			}
		}
		sched.add(func() { c20AlignedCase(t, out, r, dir, "random-"+strconv.Itoa(nw), specs, tail, sched, nil) })
	}
}

// ---- a file that grows through another handle while the reader has it open

// c20AppendCase: the reader under test is opened on the first chunk; a second
// handle (O_APPEND, kept open) writes the following chunks; after every chunk
// the same reader must read everything backwards and find every stamp (one
// case per phase, each beginning with SeekStart, so that the model starts
// from a fresh state on the file as it is then).
func c20AppendCase(t *testing.T, out *vfOut, r *vfRand, dir, kind string, chunks [][]c20Line, sched *c20Sched) {
	c20CurMeta = c20MetaPolicy{}
	path := filepath.Join(dir, "grow.json")
	if err := c20Write(path, chunks[0]); err != nil {
		t.Fatal(err)
	}
	defer os.Remove(path)
	q, err := newQLogFile(path)
	if err != nil {
		t.Fatal(err)
	}
	defer q.Close()
	app, err := os.OpenFile(path, os.O_APPEND|os.O_WRONLY, 0o644)
	if err != nil {
		t.Fatal(err)
	}
	defer app.Close()
	var lines []c20Line
	for i, ch := range chunks {
		if i > 0 {
			var b strings.Builder
			for _, l := range ch {
				b.WriteString(l.text)
				b.WriteByte('\n')
			}
			if _, err = app.WriteString(b.String()); err != nil {
				t.Fatal(err)
			}
		}
		lines = append(lines, ch...)
		cur := append([]c20Line(nil), lines...)
		c20FileCase(t, out, r, dir, "appended/"+kind+"/phase-"+strconv.Itoa(i), cur, 16,
			[]string{"meta-appended-while-open"}, c20FileOpt{q: q, path: path, sched: sched})
	}
}

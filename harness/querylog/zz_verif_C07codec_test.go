//go:build verif

package querylog

// C07, codec part: file lines through the real encoder (json.Marshal of
// logEntry, as flushLogBuffer does), the real decoder (decodeLogEntry), the
// real readJSONValue and the real searchCriterion.quickMatch / match.  The
// Coq evaluator runs Model/QLogCodec.v on the same lines.

import (
	"bytes"
	"context"
	"encoding/base64"
	"encoding/json"
	"fmt"
	"net"
	"net/netip"
	"sort"
	"strconv"
	"strings"
	"testing"
	"time"
	"unicode/utf8"

	"github.com/AdguardTeam/AdGuardHome/internal/aghnet"
	"github.com/AdguardTeam/AdGuardHome/internal/filtering"
	"github.com/AdguardTeam/AdGuardHome/internal/filtering/rulelist"
	"github.com/AdguardTeam/golibs/logutil/slogutil"
	"github.com/AdguardTeam/golibs/timeutil"
	"github.com/AdguardTeam/urlfilter/rules"
	"github.com/miekg/dns"
)

// ---- projection of a logEntry onto the model's centry

type ccRule struct {
	Text, IP string
	ID       int64
}

type ccRRV struct {
	Kind int // 0 string, 1 number, 2 bool, 3 null, 4 nested
	S    string
	B    bool
}

type ccKV struct {
	K int64
	V []ccRRV
}

type ccRW struct {
	RCode int64
	Resp  []ccKV
}

type ccEnt struct {
	S      [13]string
	F      [3]bool
	I      [2]int64
	IPList []string
	Rules  []ccRule
	RW     *ccRW
}

func ccRRVOf(v any) ccRRV {
	switch x := v.(type) {
	case string:
		return ccRRV{Kind: 0, S: x}
	case net.IP:
		if x == nil {
			return ccRRV{Kind: 0, S: "<nil>"}
		}
		return ccRRV{Kind: 0, S: x.String()}
	case netip.Addr:
		return ccRRV{Kind: 0, S: x.String()}
	case json.Number:
		return ccRRV{Kind: 1, S: string(x)}
	case bool:
		return ccRRV{Kind: 2, B: x}
	case nil:
		return ccRRV{Kind: 3}
	default:
		return ccRRV{Kind: 4}
	}
}

// ccProject renders an entry as texts.  byString: response keys in the order
// json.Marshal writes a map (sorted as strings); else numerically.
func ccProject(e *logEntry, byString bool) (c ccEnt) {
	if !e.Time.IsZero() {
		c.S[0] = e.Time.Format(time.RFC3339Nano)
	}
	c.S[1], c.S[2], c.S[3], c.S[4], c.S[5] = e.QHost, e.QType, e.QClass, e.ReqECS, e.ClientID
	c.S[6], c.S[7] = string(e.ClientProto), e.Upstream
	c.S[8] = base64.StdEncoding.EncodeToString(e.Answer)
	c.S[9] = base64.StdEncoding.EncodeToString(e.OrigAnswer)
	if e.IP != nil {
		c.S[10] = e.IP.String()
	}
	res := &e.Result
	c.S[11], c.S[12] = res.CanonName, res.ServiceName
	c.F = [3]bool{e.Cached, e.AuthenticatedData, res.IsFiltered}
	c.I = [2]int64{int64(e.Elapsed), int64(res.Reason)}
	for _, a := range res.IPList {
		c.IPList = append(c.IPList, a.String())
	}
	for _, r := range res.Rules {
		cr := ccRule{Text: r.Text, ID: int64(r.FilterListID)}
		if r.IP.IsValid() {
			cr.IP = r.IP.String()
		}
		c.Rules = append(c.Rules, cr)
	}
	if w := res.DNSRewriteResult; w != nil {
		rw := &ccRW{RCode: int64(w.RCode)}
		keys := make([]int, 0, len(w.Response))
		for k := range w.Response {
			keys = append(keys, int(k))
		}
		if byString {
			sort.Slice(keys, func(i, j int) bool { return strconv.Itoa(keys[i]) < strconv.Itoa(keys[j]) })
		} else {
			sort.Ints(keys)
		}
		for _, k := range keys {
			kv := ccKV{K: int64(k)}
			for _, v := range w.Response[rules.RRType(k)] {
				kv.V = append(kv.V, ccRRVOf(v))
			}
			rw.Resp = append(rw.Resp, kv)
		}
		c.RW = rw
	}
	return c
}

// ---- Gallina printing

// ccPk prints a byte string packed seven bytes to a primitive integer.
func ccPk(s string) string {
	if len(s) == 0 {
		return "(pk I0)"
	}
	var b strings.Builder
	b.WriteString("(pk ")
	n := 0
	for i := 0; i < len(s); i += 7 {
		j := i + 7
		if j > len(s) {
			j = len(s)
		}
		var v uint64
		for k := j - 1; k >= i; k-- {
			v = v<<8 | uint64(s[k])
		}
		v = v<<3 | uint64(j-i)
		b.WriteString("(IC " + strconv.FormatUint(v, 10) + " ")
		n++
	}
	b.WriteString("I0")
	b.WriteString(strings.Repeat(")", n+1))
	return b.String()
}

func ccPkList(xs []string) string {
	items := make([]string, len(xs))
	for i, x := range xs {
		items[i] = ccPk(x)
	}
	return vfList("bytes", items)
}

func (c *ccEnt) coq() string {
	var fl, in, rl []string
	for _, f := range c.F {
		fl = append(fl, vfBool(f))
	}
	for _, i := range c.I {
		in = append(in, vfZ(i))
	}
	for _, r := range c.Rules {
		rl = append(rl, vfApp("CR", ccPk(r.Text), ccPk(r.IP), vfZ(r.ID)))
	}
	rw := "(@None rewrite)"
	if c.RW != nil {
		var kvs []string
		for _, kv := range c.RW.Resp {
			var vs []string
			for _, v := range kv.V {
				switch v.Kind {
				case 0:
					vs = append(vs, "(RS "+ccPk(v.S)+")")
				case 1:
					vs = append(vs, "(RNumber "+ccPk(v.S)+")")
				case 2:
					vs = append(vs, "(RBoolean "+vfBool(v.B)+")")
				case 3:
					vs = append(vs, "RNullV")
				default:
					vs = append(vs, "RNested")
				}
			}
			kvs = append(kvs, vfPair(vfZ(kv.K), vfList("rrv", vs)))
		}
		rw = "(Some (RW " + vfZ(c.RW.RCode) + " " + vfList("Z * list rrv", kvs) + "))"
	}
	return vfApp("CE", ccPkList(c.S[:]), vfList("bool", fl), vfList("Z", in), ccPkList(c.IPList),
		vfList("crule", rl), rw)
}

// ---- the real code around one line

var ccClients = []struct {
	id, name string
}{{"1.2.3.4", "Kitchen"}, {"phone", "Alices <Phone>"}, {"2001:db8::1", "srv6"}}

type ccH struct {
	t   *testing.T
	ctx context.Context
	l   *queryLog
	out *vfOut
	// sameAs, when set, is a line that must decode to the same entry as the
	// next line given to [line] (the same entry written by another encoder).
	sameAs string
}

// ccOldEncoder rewrites a line of the current encoder the way the encoder
// before the netip migration wrote it: ResultRule.IP was a net.IP with
// omitempty, so a rule without an address had no "IP" member at all (the
// comment "It is nil unless ..." on the field still says so).  ok is false
// when a rule object would become empty: no caller ever built a rule without
// text, address and list ID.
func ccOldEncoder(line string) (old string, ok bool) {
	i := strings.Index(line, `"Result":{`)
	if i < 0 {
		return "", false
	}
	head, tail := line[:i], line[i:]
	if strings.Contains(tail, `{"IP":""}`) {
		return "", false
	}
	n := strings.Count(tail, `"IP":""`)
	tail = strings.ReplaceAll(tail, `,"IP":""`, "")
	tail = strings.ReplaceAll(tail, `"IP":"",`, "")
	if n == 0 || strings.Contains(tail, `"IP":""`) {
		return "", false
	}
	return head + tail, true
}

func ccNew(t *testing.T, out *vfOut) *ccH {
	eng, err := aghnet.NewIgnoreEngine(nil)
	if err != nil {
		t.Fatal(err)
	}
	l, err := newQueryLog(Config{
		Logger:         slogutil.NewDiscardLogger(),
		Ignored:        eng,
		Anonymizer:     aghnet.NewIPMut(nil),
		ConfigModified: func() {},
		FindClient: func(ids []string) (*Client, error) {
			for _, id := range ids {
				for _, c := range ccClients {
					if c.id == id {
						return &Client{Name: c.name}, nil
					}
				}
			}
			return nil, nil
		},
		BaseDir:     t.TempDir(),
		RotationIvl: timeutil.Day,
		MemSize:     10,
		Enabled:     true,
		FileEnabled: true,
	})
	if err != nil {
		t.Fatal(err)
	}
	return &ccH{t: t, ctx: context.Background(), l: l, out: out}
}

// ccStrings lists the string tokens of the line as json.Decoder.Token sees them.
func ccStrings(line string) (res []string) {
	dec := json.NewDecoder(strings.NewReader(line))
	dec.UseNumber()
	seen := map[string]bool{}
	for {
		t, err := dec.Token()
		if err != nil {
			return res
		}
		if s, ok := t.(string); ok && !seen[s] {
			seen[s] = true
			res = append(res, s)
		}
	}
}

type ccQ struct {
	v, a   string
	strict bool
}

// ccSan replaces every invalid byte by U+FFFD, as encoding/json does.
func ccSan(s string) string {
	var b strings.Builder
	for i := 0; i < len(s); {
		r, n := utf8.DecodeRuneInString(s[i:])
		if r == utf8.RuneError && n == 1 {
			b.WriteString("\uFFFD")
		} else {
			b.WriteString(s[i : i+n])
		}
		i += n
	}
	return b.String()
}

func ccASCII(s string) bool {
	for i := 0; i < len(s); i++ {
		if s[i] >= 0x80 {
			return false
		}
	}
	return true
}

// line runs everything on one line and emits the case.  src == nil for
// hand-written lines.
func (h *ccH) line(kind string, src *logEntry, line string, qs []ccQ, classes map[string]bool) {
	l := h.l
	cls := map[string]bool{"codec-" + kind: true}
	for k := range classes {
		cls[k] = true
	}
	var msgs []string
	key := ""
	fail := func(k, f string, a ...any) {
		if key == "" {
			key = k
		}
		if len(msgs) < 3 {
			msgs = append(msgs, fmt.Sprintf(f, a...))
		}
	}
	// decode
	dec := &logEntry{}
	panicked := false
	func() {
		defer func() {
			if r := recover(); r != nil {
				panicked = true
			}
		}()
		l.decodeLogEntry(h.ctx, dec, line)
	}()
	if panicked {
		cls["decode-panic"] = true
	}
	dp := ccProject(dec, false)
	if h.sameAs != "" {
		other := &logEntry{}
		func() {
			defer func() { _ = recover() }()
			l.decodeLogEntry(h.ctx, other, h.sameAs)
		}()
		if panicked {
			fail("codec-decode-panic", "decodeLogEntry panicked on a line of the older encoder: %s", line)
		} else if op := ccProject(other, false); op.coq() != dp.coq() {
			fail("codec-old-encoder", "the line of the older encoder decodes to another entry than the current one: %s vs %s", line, h.sameAs)
		}
		h.sameAs = ""
	}
	// oracles: what Go's parsers accept among the strings of the line
	var goodT, goodIP, goodAddr, goodB64 []string
	for _, s := range ccStrings(line) {
		if _, err := time.Parse(time.RFC3339, s); err == nil {
			goodT = append(goodT, s)
		}
		if net.ParseIP(s) != nil {
			goodIP = append(goodIP, s)
		}
		if _, err := netip.ParseAddr(s); err == nil {
			goodAddr = append(goodAddr, s)
		}
		if _, err := base64.StdEncoding.DecodeString(s); err == nil {
			goodB64 = append(goodB64, s)
		}
	}
	// raw values
	qh, ip, cid := readJSONValue(line, `"QH":"`), readJSONValue(line, `"IP":"`), readJSONValue(line, `"CID":"`)
	if strings.ContainsRune(qh+ip+cid, '\\') {
		cls["raw-value-with-escape"] = true
	}
	// quick / full match
	var qos []string
	if !panicked {
		cache := clientCache{}
		finder := quickMatchClientFinder{client: l.client, cache: cache}
		dec.client, _ = l.client(dec.ClientID, dec.IP.String(), cache)
		for _, q := range qs {
			c := &searchCriterion{value: q.v, asciiVal: q.a, criterionType: ctTerm, strict: q.strict}
			quick := c.quickMatch(h.ctx, l.logger, line, finder.findClient)
			full := c.match(dec)
			if full {
				cls["term-matches-decoded"] = true
			}
			if quick && !full {
				cls["quick-passes-nonmatching"] = true
			}
			if full && !quick {
				fail("quickmatch-escaped-value", "quickMatch rejects a line whose decoded entry matches: term %q strict=%v line %s", q.v, q.strict, line)
			}
			qos = append(qos, vfApp("QO", ccPk(q.v), ccPk(q.a), vfBool(q.strict), vfBool(quick), vfBool(full)))
		}
	}
	// monitor: the entry comes back as it was recorded
	srcCoq := "(@None centry)"
	if src != nil {
		sp := ccProject(src, true)
		srcCoq = "(Some " + sp.coq() + ")"
		lossy := false
		if src.Result.Reason == filtering.RewrittenAutoHosts && len(src.Result.IPList) > 0 {
			lossy, cls["translate-autohosts-iplist"] = true, true
		}
		if w := src.Result.DNSRewriteResult; w != nil && len(w.Response) == 0 && w.RCode == 0 {
			lossy, cls["empty-rewrite-result"] = true, true
		}
		want := ccProject(src, false)
		for i := range want.S {
			if !utf8.ValidString(want.S[i]) {
				cls["invalid-utf8-replaced"] = true
			}
			want.S[i] = ccSan(want.S[i])
		}
		for i := range want.Rules {
			want.Rules[i].Text = ccSan(want.Rules[i].Text)
		}
		if want.RW != nil {
			for _, kv := range want.RW.Resp {
				for j := range kv.V {
					kv.V[j].S = ccSan(kv.V[j].S)
				}
			}
		}
		if panicked {
			fail("codec-decode-panic", "decodeLogEntry panicked on a line written by json.Marshal: %s", line)
		} else if !lossy && want.coq() != dp.coq() {
			fail("codec-roundtrip", "entry differs after encode + decode: line %s", line)
		} else if !lossy {
			cls["roundtrip-exact"] = true
		}
	}
	items := func(xs []string) string { return ccPkList(xs) }
	var cl []string
	for _, c := range ccClients {
		cl = append(cl, vfPair(ccPk(c.id), vfApp("C07.Cl", ccPk(c.name), "false")))
	}
	c := vfCase{
		Coq: vfApp("C07.CCodec", srcCoq, ccPk(line), items(goodT), items(goodIP), items(goodAddr), items(goodB64),
			vfBool(panicked), dp.coq(), ccPk(qh), ccPk(ip), ccPk(cid), vfList("bytes * client", cl), vfList("qobs", qos)),
		Nontrivial: true,
		MonitorOK:  len(msgs) == 0,
		MonitorMsg: strings.Join(msgs, "; "),
		FindingKey: key,
		Desc:       map[string]any{"kind": "codec-" + kind, "line": line},
	}
	for k := range cls {
		c.Classes = append(c.Classes, k)
	}
	sort.Strings(c.Classes)
	h.out.Emit(c)
}

// ---- generated entries

var ccHosts = []string{
	"example.org", "ads.example.org", "a&b.example.org", "x<y>z.example.net", `q\"uote.example`, `back\\slash.example`,
	`tab\009ctl.example`, "пример.рф", "ünï.example", "emoji😀.example", "sep\u2028line\u2029.example",
	"bad\xff\xfeutf8.example", "cut\xe2\x80", "ctl\x01\x1f\x7f.example", "sl/ash.example", "xn--e1afmkfd.example",
	"EXAMPLE.io", "", "q\"raw.example", "f0\xf0\x90\x80.example", "ed\xed\xa0\x80surrogate.example",
	// U+212A (Kelvin sign) and U+017F (long s): the non-ASCII code points whose simple fold is an ASCII letter
	"\u212a9.\u017fet.example", "kelvin.my-kitchen.example",
}

// ccFoldTerms: terms for the two hosts above: equal under strings.EqualFold
// (rune-wise), but never inside a window of the term's byte length; and terms
// starting with k / s against an upper-case letter past the start (the
// stringutil.ContainsFold defect repaired as f792c49).
var ccFoldTerms = map[string][]ccQ{
	"\u212a9.\u017fet.example": {{v: "k9.set.example", strict: true}, {v: "K9.SET.EXAMPLE", strict: true}, {v: "k9"}, {v: "9.\u017fet"},
		{v: "\u017fet.e"}, {v: "set"}, {v: "\u212a9.\u017fet.example", strict: true}, {v: "k9.\u017fet.example", strict: true}},
	"kelvin.my-kitchen.example": {{v: "\u212aelvin.my-kitchen.example", strict: true}, {v: "\u212aelvin"}, {v: "KITCHEN"}, {v: "kitchen"},
		{v: "Kelvin.My-Kitchen.Example", strict: true}, {v: "my-\u212aitchen"}},
}

var ccTexts = []string{
	"||ads.example.org^", "@@||example.org^$important", "|a.b^$dnsrewrite=1.2.3.4", "", "/re<g>ex&/", `||q"uote^`,
	"||пример.рф^", "bad\xc3\x28utf8", "\t# comment \\ with backslash", "||emoji😀^",
}

var ccUpstreams = []string{"", "8.8.8.8:53", "https://dns.example/dns-query?a=1&b=<2>", "tls://ünï.example", "quic://[2001:db8::1]:853"}

func ccEntry(r *vfRand) (e *logEntry, cls map[string]bool) {
	cls = map[string]bool{}
	zones := []*time.Location{time.UTC, time.FixedZone("", 2*3600), time.FixedZone("", -(7*3600 + 1800)), time.FixedZone("", 5*3600+45*60)}
	ns := r.Range(1_500_000_000, 1_900_000_000)*1_000_000_000 + vfPick(r, []int64{0, 1, 123_000_000, 999_999_999, r.Range(0, 999_999_999)})
	e = &logEntry{
		Time:        time.Unix(0, ns).In(vfPick(r, zones)),
		QHost:       vfPick(r, ccHosts),
		QType:       vfPick(r, []string{"A", "AAAA", "HTTPS", "TXT", "TYPE65280"}),
		QClass:      vfPick(r, []string{"IN", "CH", "CLASS5"}),
		ClientID:    vfPick(r, []string{"", "", "phone", "my-laptop", "we<ird"}),
		ClientProto: vfPick(r, []ClientProto{ClientProtoPlain, ClientProtoDoH, ClientProtoDoT, ClientProtoDoQ, ClientProtoDNSCrypt}),
		Upstream:    vfPick(r, ccUpstreams),
		Elapsed:     time.Duration(vfPick(r, []int64{0, 1, -1, 837429, r.Range(-5_000_000, 5_000_000_000), 1<<63 - 1, -(1 << 63)})),
		Cached:      r.Chance(1, 3),
		AuthenticatedData: r.Chance(1, 4),
	}
	if r.Chance(1, 5) {
		e.ReqECS = vfPick(r, []string{"1.2.3.0/24", "2001:db8::/32"})
	}
	switch r.Intn(4) {
	case 0:
		e.IP = net.IPv4(1, 2, 3, 4) // 16-byte form
	case 1:
		e.IP = net.IP{192, 168, 1, byte(r.Intn(256))} // 4-byte form
	case 2:
		e.IP = net.ParseIP("2001:db8::1")
	default:
		e.IP = net.ParseIP(vfPick(r, []string{"::1", "fe80::1234:5678", "10.0.0.1", "::ffff:1.2.3.4"}))
	}
	if r.Chance(2, 3) {
		b := make([]byte, r.Intn(40))
		for i := range b {
			b[i] = byte(r.Intn(256))
		}
		e.Answer = b
		if r.Chance(1, 3) {
			e.OrigAnswer = append([]byte{7}, b...)
		}
	}
	res := &e.Result
	res.Reason = filtering.Reason(r.Intn(12))
	res.IsFiltered = r.Chance(1, 2)
	for i, n := 0, vfPick(r, []int{0, 0, 1, 1, 2, 3}); i < n; i++ {
		rule := &filtering.ResultRule{Text: vfPick(r, ccTexts), FilterListID: rulelist.URLFilterID(vfPick(r, []int64{0, 1, 2, -1, -2, -5, 1700000000}))}
		if r.Chance(1, 3) {
			rule.IP = netip.MustParseAddr(vfPick(r, []string{"1.2.3.4", "::1", "2001:db8::2"}))
		}
		res.Rules = append(res.Rules, rule)
	}
	if res.Reason == filtering.FilteredBlockedService || r.Chance(1, 10) {
		res.ServiceName = vfPick(r, []string{"svc0", "you<tube>", "d&d"})
	}
	if r.Chance(1, 4) {
		res.CanonName = vfPick(r, []string{"canon.example.org", "c&name.example"})
	}
	if r.Chance(1, 4) {
		for i, n := 0, 1+r.Intn(3); i < n; i++ {
			res.IPList = append(res.IPList, netip.MustParseAddr(vfPick(r, []string{"5.6.7.8", "::2", "2001:db8::3", "127.0.0.1"})))
		}
	}
	if r.Chance(1, 3) {
		w := &filtering.DNSRewriteResult{RCode: rules.RCode(vfPick(r, []int{0, 0, 3, 2}))}
		if !r.Chance(1, 6) {
			w.Response = filtering.DNSRewriteResultResponse{}
			for i, n := 0, r.Intn(4); i < n; i++ {
				switch r.Intn(5) {
				case 0:
					w.Response[dns.TypeA] = append(w.Response[dns.TypeA], net.IPv4(1, 2, 3, byte(r.Intn(256))))
				case 1:
					w.Response[dns.TypeAAAA] = append(w.Response[dns.TypeAAAA], net.ParseIP("2001:db8::4"))
				case 2:
					w.Response[dns.TypeTXT] = append(w.Response[dns.TypeTXT], vfPick(r, []string{"hello \"quoted\"", "a<b>&c", "плюс", ""}))
				case 3:
					w.Response[dns.TypeCNAME] = append(w.Response[dns.TypeCNAME], "new.example.org")
				default:
					w.Response[dns.TypePTR] = append(w.Response[dns.TypePTR], "host.example.")
				}
			}
		}
		res.DNSRewriteResult = w
	}
	return e, cls
}

func ccMarshal(t *testing.T, e *logEntry) string {
	var b bytes.Buffer
	if err := json.NewEncoder(&b).Encode(e); err != nil {
		t.Fatal(err)
	}
	return strings.TrimSuffix(b.String(), "\n")
}

// ccTerms: search terms for a line: pieces of the host, the whole host
// quoted, and pool terms (ASCII, so that case folding is ASCII).
func ccTerms(r *vfRand, host string) (qs []ccQ) {
	ascii := func(s string) bool {
		for i := 0; i < len(s); i++ {
			if s[i] >= 0x80 {
				return false
			}
		}
		return true
	}
	if len(host) >= 3 {
		i := r.Intn(len(host) - 2)
		if sub := host[i : i+3]; ascii(sub) {
			qs = append(qs, ccQ{v: sub})
		}
	}
	if ascii(host) && host != "" {
		qs = append(qs, ccQ{v: host, strict: true})
		qs = append(qs, ccQ{v: strings.ToUpper(host[:len(host)/2])})
	}
	qs = append(qs, vfPick(r, []ccQ{{v: "example"}, {v: "1.2.3"}, {v: "phone", strict: true}, {v: "kitchen"}, {v: "&b"}, {v: "<y"},
		{v: `\"`}, {v: "alices <phone>", strict: true}, {v: "zzz", a: "xn--e1afmkfd.example"}, {v: "2001:DB8"}, {v: "we<"}}))
	return qs
}

var ccHandLines = []string{
	// the package test's legacy shapes
	`{"IP":"127.0.0.1","T":"2020-11-25T18:55:56.519796+03:00","QH":"an.yandex.ru","QT":"A","QC":"IN","CP":"","Answer":"Qz+BgAABAAEAAAAAAmFuBnlhbmRleAJydQAAAQABwAwAAQABAAAACgAEAAAAAA==","Result":{"IsFiltered":true,"Reason":3,"Rule":"||an.yandex.","FilterID":1,"ReverseHosts":["example.net"],"IPList":["127.0.0.2"]},"Elapsed":837429}`,
	`{"IP":"127.0.0.1","T":"2020-11-25T18:55:56.519796+03:00","QH":"an.yandex.ru","QT":"A","QC":"IN","CP":"","Result":{"Reason":10,"ReverseHosts":["example.net","example.org."],"IPList":["127.0.0.2","::1"]},"Elapsed":837429}`,
	`{"T":"2020-11-25T18:55:56Z","QH":"h","QT":"A","QC":"IN","CP":"","IP":"1.2.3.4","Result":{"Rule":"a","FilterID":7,"Rules":[{"Text":"b","IP":"","FilterListID":2}],"Rule":"c"},"Elapsed":1}`,
	// unknown keys, also with a value that is a key name
	`{"Foo":"bar","T":"2021-01-01T00:00:00Z","QH":"x.org","Time":"2019-01-01T00:00:00Z","IP":"1.2.3.4","Elapsed":5}`,
	`{"Foo":"QH","QH":"x.org","IP":"1.2.3.4"}`,
	`{"Foo":{"QH":"inner","Bar":[1,2,{"CID":"deep"}]},"QH":"outer","IP":"1.2.3.4"}`,
	`{"Result":{"Foo":"Reason","Reason":3,"Bar":"IsFiltered"},"QH":"after.result"}`,
	// wrong types
	`{"QH":5,"QT":true,"QC":null,"Cached":"yes","AD":1,"Elapsed":"12","IP":7,"T":3,"CP":false,"Answer":1,"CID":["a"],"QH":"late"}`,
	`{"Result":{"IsFiltered":"x","Reason":"3","ServiceName":4,"CanonName":true,"Rule":1,"FilterID":"2"},"QH":"x"}`,
	// handler errors stop the decoding
	`{"QH":"before","CP":"xyz","QT":"after"}`,
	`{"QH":"before","T":"yesterday","QT":"after"}`,
	`{"QH":"before","Answer":"###","QT":"after"}`,
	`{"QH":"before","Elapsed":1.5,"QT":"after"}`,
	`{"QH":"before","Elapsed":99999999999999999999,"QT":"after"}`,
	`{"QH":"before","Result":{"Reason":1e3,"IsFiltered":true},"QT":"after"}`,
	`{"QH":"before","Result":{"FilterID":2.5,"IsFiltered":true},"QT":"after"}`,
	// a non-string where a key is expected
	`{"QH":"before"} 5 {"QT":"after"}`,
	`{"Result":{"IsFiltered":true} 5 {"Reason":3}},"QT":"A"}`,
	// rules
	// rules as the encoder before the netip migration wrote them (no "IP" member for a rule without an address)
	`{"T":"2021-03-01T10:00:00Z","QH":"old.example","QT":"A","QC":"IN","CP":"","IP":"1.2.3.4","Result":{"IsFiltered":true,"Reason":3,"Rules":[{"Text":"||old.example^","FilterListID":1},{"Text":"0.0.0.0 old.example","IP":"0.0.0.0","FilterListID":2},{"FilterListID":-4,"IP":"1.1.1.1"}]},"Elapsed":5}`,
	`{"Result":{"Rules":[{},{"Text":"x"}]}}`,
	`{"Result":{"Rules":[{"Text":"x"},{},{},{"FilterListID":3}]}}`,
	`{"Result":{"Rules":[{"Foo":"Text","Text":"t1","IP":"1.2.3.4","FilterListID":-2},{"IP":"nope","Text":5,"FilterListID":"7"},{"FilterListID":1e2}],"Reason":3}}`,
	`{"Result":{"Rules":"none","Reason":3}}`,
	`{"Result":{"Rules":{"Text":"obj"},"Reason":3},"QH":"x"}`,
	`{"Result":{"Rules":[{"Text":"a"},5,{"Text":"b"}],"Reason":3},"QH":"x"}`,
	`{"Result":{"IPList":["1.2.3.4","nope",5,{"x":1},"::1"],"Reason":9},"QH":"x"}`,
	`{"Result":{"IPList":{"a":"1.1.1.1"},"Reason":9},"QH":"x"}`,
	`{"Result":{"ReverseHosts":["a.example",5,"b.example."],"DNSRewriteResult":{"RCode":3}},"QH":"x"}`,
	`{"Result":{"DNSRewriteResult":{"RCode":3},"ReverseHosts":["a.example"]},"QH":"x"}`,
	// DNSRewriteResult
	`{"Result":{"DNSRewriteResult":{"Response":{"1":null,"16":"str","5":{"a":[1,{"b":2}]},"abc":["x"],"70000":["y"],"28":["::1",5,true,null,{"n":[1]},[2,[3]],"z"],"12":[]},"RCode":"3"},"Reason":11},"QH":"x"}`,
	`{"Result":{"DNSRewriteResult":{"RCode":3,"Response":{"1":["1.2.3.4"],"1":["5.6.7.8"]},"Foo":1,"RCode":1.5},"Reason":11},"QH":"x"}`,
	`{"Result":{"DNSRewriteResult":{"Response":["1.2.3.4",{"a":1}],"RCode":2},"Reason":11},"QH":"x"}`,
	`{"Result":{"DNSRewriteResult":{"Response":"scalar","RCode":2},"Reason":11},"QH":"x"}`,
	`{"Result":{"DNSRewriteResult":{},"Reason":11},"QH":"x"}`,
	`{"Result":{"IPList":["1.2.3.4","::1","::ffff:5.6.7.8"],"Reason":10,"DNSRewriteResult":{"Response":{"1":["9.9.9.9"]}}},"QH":"x"}`,
	// duplicates, spaces, escapes
	`{"IP":"1.2.3.4","IP":"5.6.7.8","QH":"first","QH":"last"}`,
	`{ "T" : "2021-01-01T00:00:00+01:00" , "QH" : "sp ace" ,	"IP":"1.2.3.4" , "Elapsed" : 7 }`,
	`{"QH":"e\/s\b\f\n\r\t\"\\c\u00e9\u0416\u20ac\u0000z","IP":"1.2.3.4","CID":"a\u0026b"}`,
	`{"QH":"raw é Ж € 😀 bytes","IP":"1.2.3.4"}`,
	`{"QH":"bad \q escape","IP":"1.2.3.4"}`,
	`{"QH":"bad \u12g4 escape","IP":"1.2.3.4"}`,
	"{\"QH\":\"raw control \x01 char\",\"IP\":\"1.2.3.4\"}",
	"{\"QH\":\"invalid \xff\xc3\x28 utf8 \xe2\x80 cut\",\"IP\":\"1.2.3.4\"}",
	`{"QH":"x","IP":"1.2.3.4","Cached":true,"AD":false,"Cached":nope}`,
	`{"QH":"x","IP":"1.2.3.4","Cached":tru}`,
	``,
	`{}`,
	`[]`,
}

func TestVerifC07Codec(t *testing.T) {
	out := vfOpen(t, "C07codec")
	defer out.Close()
	h := ccNew(t, out)
	// ---- prelude: hand-written lines (legacy keys, unknown keys, wrong
	// types, handler errors, rule / rewrite shapes, escapes)
	pr := vfNewRand(11)
	for _, line := range ccHandLines {
		host := readJSONValue(line, `"QH":"`)
		h.line("hand", nil, line, ccTerms(pr, host), nil)
	}
	// every host of the pool once, with terms touching the escaped characters
	for _, host := range ccHosts {
		e, cls := ccEntry(pr)
		e.QHost = host
		qs := ccTerms(pr, host)
		qs = append(qs, ccQ{v: "&b"}, ccQ{v: "<y"})
		if ccASCII(host) {
			qs = append(qs, ccQ{v: host, strict: true})
		}
		if ft := ccFoldTerms[host]; ft != nil {
			qs = append(qs, ft...)
			cls["fold-kelvin-long-s"] = true
		}
		h.line("generated", e, ccMarshal(t, e), qs, cls)
	}
	// truncated lines
	{
		e, _ := ccEntry(pr)
		e.Result.Rules = []*filtering.ResultRule{{Text: "||x^", FilterListID: 1}}
		e.Result.Reason = filtering.FilteredBlockList
		line := ccMarshal(t, e)
		for cut := 1; cut < len(line); cut += 1 + len(line)/out.Scale(40, 200) {
			h.line("truncated", nil, line[:cut], nil, nil)
		}
	}
	// nested rewrite values: real encoder, decode only
	{
		e, _ := ccEntry(pr)
		e.Result.DNSRewriteResult = &filtering.DNSRewriteResult{Response: filtering.DNSRewriteResultResponse{
			dns.TypeMX:  []rules.RRValue{&rules.DNSMX{Exchange: "mail.example", Preference: 10}},
			dns.TypeTXT: []rules.RRValue{"t"},
		}}
		h.line("nested-rewrite", nil, ccMarshal(t, e), nil, nil)
	}
	// ---- random entries
	rnd := vfNewRand(out.Seed)
	n := out.Scale(400, 2000)
	for i := 0; i < n; i++ {
		r := rnd.Fork(uint64(i))
		e, cls := ccEntry(r)
		line := ccMarshal(t, e)
		h.line("generated", e, line, ccTerms(r, e.QHost), cls)
		// the same entry as the encoder before the netip migration wrote it
		// (rules without an "IP" member)
		if old, ok := ccOldEncoder(line); ok && len(e.Result.Rules) > 0 && r.Chance(1, 3) {
			h.sameAs = line
			h.line("old-encoder", nil, old, ccTerms(r, e.QHost), map[string]bool{"legacy-rule-without-ip": true})
		}
	}
}

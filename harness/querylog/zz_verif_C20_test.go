//go:build verif

package querylog

import (
	"math"
	"bytes"
	"context"
	"fmt"
	"io"
	"os"
	"path/filepath"
	"strconv"
	"strings"
	"testing"
	"time"

	"github.com/AdguardTeam/golibs/errors"
	"github.com/AdguardTeam/golibs/logutil/slogutil"
)

// c20Line is one generated line: its exact text (without newline) and stamp.
type c20Line struct {
	text string
	ts   int64
}

// c20MakeLine builds a query-log-like JSON line of exactly max(want, minimum)
// bytes carrying timestamp ts and its index.
func c20MakeLine(idx int, ts int64, want int) c20Line {
	pre := `{"T":"` + time.Unix(0, ts).UTC().Format(time.RFC3339Nano) + `","i":` + strconv.Itoa(idx) + `,"p":"`
	suf := `"}`
	pad := want - len(pre) - len(suf)
	if pad < 0 {
		pad = 0
	}
	return c20Line{text: pre + strings.Repeat("x", pad) + suf, ts: ts}
}

// c20GenFile generates the lines of one file.  kind selects the length
// distribution; total is the approximate size wanted for the "big" kinds.
func c20GenFile(r *vfRand, kind string, n int, total int64, ts0 int64, idx0 int) (lines []c20Line, tsEnd int64) {
	ts := ts0
	gapKind := r.Intn(4)
	size := int64(0)
	for i := 0; ; i++ {
		if total > 0 {
			if size >= total {
				break
			}
		} else if i >= n {
			break
		}
		var want int
		switch kind {
		case "short":
			want = int(r.Range(40, 300))
		case "limit":
			want = maxEntrySize - 1 - r.Intn(3)
		case "large":
			if r.Chance(1, 6) {
				want = int(r.Range(40, 200))
			} else {
				want = int(r.Range(6000, maxEntrySize-1))
			}
		case "medium":
			want = int(r.Range(300, 3000))
		default: // mixed
			switch r.Intn(6) {
			case 0:
				want = 40
			case 1:
				want = maxEntrySize - 1
			case 2:
				want = int(r.Range(maxEntrySize/2-2, maxEntrySize/2+2))
			case 3:
				want = int(r.Range(1000, maxEntrySize-1))
			default:
				want = int(r.Range(40, 600))
			}
		}
		switch gapKind {
		case 0:
			ts++
		case 1:
			ts += r.Range(2, 5)
		case 2:
			ts += r.Range(1, 2_000_000_000)
		default:
			ts += vfPick(r, []int64{1, 2, 3, 1000, 1_000_000, 60_000_000_000, 86_400_000_000_000})
		}
		l := c20MakeLine(idx0+i, ts, want)
		lines = append(lines, l)
		size += int64(len(l.text)) + 1
	}
	return lines, ts
}

// c20GenExact generates mixed-length lines whose total size (with newlines)
// is exactly total (total must be at least a few hundred bytes).
func c20GenExact(r *vfRand, total int64, ts0 int64) (lines []c20Line) {
	ts := ts0
	size := int64(0)
	for i := 0; ; i++ {
		rest := total - size
		ts += r.Range(1, 1000)
		if rest <= maxEntrySize-1 {
			// the last line takes exactly what is left (incl. its newline)
			lines = append(lines, c20MakeLine(i, ts, int(rest-1)))
			return lines
		}
		var want int64
		switch r.Intn(5) {
		case 0:
			want = r.Range(60, 300)
		case 1:
			want = maxEntrySize - 1
		default:
			want = r.Range(3000, maxEntrySize-1)
		}
		if rest-want-1 < 200 {
			want = rest - 1 - 200
		}
		l := c20MakeLine(i, ts, int(want))
		lines = append(lines, l)
		size += int64(len(l.text)) + 1
	}
}

func c20Write(path string, lines []c20Line) error {
	var b bytes.Buffer
	b.Grow(int(c20Size(lines)))
	for _, l := range lines {
		b.WriteString(l.text)
		b.WriteByte('\n')
	}
	if err := os.WriteFile(path, b.Bytes(), 0o644); err != nil {
		return err
	}
	// round 6: the metadata variant in force (zz_verif_C20align_test.go)
	return c20CurMeta.apply(path, lines)
}

func c20CoqFile(lines []c20Line) string {
	items := make([]string, len(lines))
	for i, l := range lines {
		items[i] = "(" + strconv.Itoa(len(l.text)) + "," + strconv.FormatInt(l.ts, 10) + ")"
	}
	return vfList("Z * Z", items) + "%Z"
}

func c20FileErrCode(err error) int64 {
	switch {
	case err == nil:
		return 0
	case errors.Is(err, errTSTooEarly):
		return 2
	case errors.Is(err, errTSTooLate):
		return 3
	case errors.Is(err, errTSNotFound):
		if strings.Contains(err.Error(), "too high") {
			return 5
		}
		return 1
	case errors.Is(err, io.EOF):
		return 6
	case strings.Contains(err.Error(), "empty timestamp"):
		return 4
	}
	return 9
}

// c20Mon accumulates monitor failures for one case.
type c20Mon struct {
	msgs []string
	key  string
	// at is the index of the operation in progress (histories); failedAt the
	// one of the first failure.
	at, failedAt int
}

func (m *c20Mon) fail(key, format string, a ...any) {
	if m.key == "" {
		m.key = key
		m.failedAt = m.at
	}
	if len(m.msgs) < 4 {
		m.msgs = append(m.msgs, fmt.Sprintf(format, a...))
	}
}

// c20Targets returns seek targets for lines: present stamps, stamps between
// neighbours, before the first and after the last; all of them for small
// files, a sample of about max otherwise.
func c20Targets(r *vfRand, lines []c20Line, max int) (ts []int64) {
	n := len(lines)
	if n == 0 {
		return []int64{1, 1700000000000000000, math.MinInt64, c20Year1700, math.MaxInt64}
	}
	add := func(i int) {
		ts = append(ts, lines[i].ts)
		if i+1 < n {
			if b, ok := c20Between(r, lines[i].ts, lines[i+1].ts); ok {
				ts = append(ts, b)
			}
		}
	}
	if n <= max {
		for i := 0; i < n; i++ {
			add(i)
		}
	} else {
		add(0)
		add(n - 1)
		add(1)
		add(n - 2)
		for k := 0; k < max; k++ {
			add(r.Intn(n))
		}
	}
	ts = append(ts, lines[0].ts-1, lines[0].ts-r.Range(2, 1000000), lines[n-1].ts+1, lines[n-1].ts+r.Range(2, 1000000))
	// round 9: targets anywhere in the int64 nanosecond range (zz_verif_C20range_test.go)
	ts = append(ts, c20FarTargets(r, lines)...)
	vfShuffle(r, ts)
	return ts
}

// c20Rank classifies ts against strictly increasing lines: index of the line
// with that stamp, or -1 (too early), -2 (too late), -3 (between).
func c20Rank(lines []c20Line, ts int64) int {
	n := len(lines)
	if n == 0 {
		return -4
	}
	if ts < lines[0].ts {
		return -1
	}
	if ts > lines[n-1].ts {
		return -2
	}
	lo, hi := 0, n-1
	for lo <= hi {
		m := (lo + hi) / 2
		switch {
		case lines[m].ts == ts:
			return m
		case lines[m].ts < ts:
			lo = m + 1
		default:
			hi = m - 1
		}
	}
	return -3
}

// c20FileCase runs one single-file case.
func c20FileCase(t *testing.T, out *vfOut, r *vfRand, dir string, kind string, lines []c20Line, maxSeeks int, classes []string, opts ...c20FileOpt) {
	ctx := context.Background()
	logger := slogutil.NewDiscardLogger()
	var opt c20FileOpt
	if len(opts) > 0 {
		opt = opts[0]
	}
	path := opt.path
	q := opt.q
	var err error
	if q == nil {
		path = filepath.Join(dir, "f.json")
		if err = c20Write(path, lines); err != nil {
			t.Fatal(err)
		}
		defer os.Remove(path)
		q, err = newQLogFile(path)
		if err != nil {
			t.Fatal(err)
		}
		defer q.Close()
	}
	metaWrap, metaDesc := c20MetaOf(path)

	mon := &c20Mon{}
	var ops []string
	defer c20Recover(out, "file/"+kind, &ops, lines)
	cls := map[string]bool{}
	for _, c := range classes {
		cls[c] = true
	}
	n := len(lines)
	size := int64(0)
	for _, l := range lines {
		size += int64(len(l.text)) + 1
	}
	if size > bufferSize {
		cls["file-larger-than-buffer"] = true
	}
	if size > 2*maxEntrySize {
		cls["file-larger-than-probe-window"] = true
	}
	switch n {
	case 0:
		cls["empty-file"] = true
	case 1:
		cls["one-line"] = true
	}
	for _, l := range lines {
		if len(l.text) >= maxEntrySize-3 {
			cls["lines-at-limit"] = true
			break
		}
	}

	// are all lines stamped (strictly increasing)?  Files holding lines without
	// a stamp (one-byte lines, empty lines) are read backwards only.
	stamped := true
	for _, l := range lines {
		if l.ts == 0 {
			stamped = false
		}
	}
	al := c20NewAlign(lines)
	obs3 := func(line string) string {
		return "(" + strconv.Itoa(len(line)) + "," + strconv.FormatInt(q.position, 10) + "," + strconv.FormatInt(q.bufferStart, 10) + ")"
	}

	// 1. full reverse read
	p, err := q.SeekStart()
	if err != nil {
		t.Fatal(err)
	}
	ops = append(ops, vfApp("C20.FSeekStart", vfZ(p)))
	var obs []string
	k := n - 1
	inits := 0
	lastBS := int64(-1)
	var win *c20Window
	for steps := 0; steps <= n+3; steps++ {
		for _, w := range opt.windows {
			if w == k && win == nil {
				win = c20OpenWindow(q, lines, k)
			}
		}
		al.before(q)
		line, rerr := q.ReadNext()
		if rerr != nil {
			if rerr != io.EOF {
				mon.fail("read-error", "ReadNext: %v", rerr)
			}
			if win != nil {
				win.read(q, line, true)
			}
			break
		}
		if k >= 0 {
			al.after(q, k, cls)
		}
		if win != nil {
			win.read(q, line, false)
			if len(win.ops) >= c20WindowReads {
				win.emit(out, opt.sched, kind, mon, metaWrap, metaDesc)
				win = nil
			}
		}
		if q.bufferStart != lastBS {
			inits++
			lastBS = q.bufferStart
			if lastBS > 0 && lastBS < maxEntrySize {
				cls["chunk-start-in-(0,maxEntry)"] = true
			} else if lastBS >= maxEntrySize && lastBS < 2*maxEntrySize {
				cls["chunk-start-in-[maxEntry,2maxEntry)"] = true
			}
		}
		obs = append(obs, obs3(line))
		if k < 0 {
			mon.fail("reverse-extra", "reverse read returned more than %d lines", n)
		} else if line != lines[k].text {
			// byte-for-byte: where the first difference is
			mon.fail("reverse-wrong-line", "reverse read step %d: expected line %d (len %d), got len %d: %s", n-1-k, k, len(lines[k].text), len(line), c20Diff(lines[k].text, line))
		}
		k--
	}
	if win != nil && len(win.ops) > 0 {
		win.emit(out, opt.sched, kind, mon, metaWrap, metaDesc)
	}
	if k >= 0 && len(mon.msgs) == 0 {
		mon.fail("reverse-incomplete", "reverse read stopped with %d lines not returned", k+1)
	}
	if inits > 1 {
		cls["buffer-reinit"] = true
	}
	ops = append(ops, vfApp("C20.FReadAllB", vfList("Z * Z * Z", obs)+"%Z"))

	// 2a. round 6: seeks to chosen records, each followed by reads through the
	// lower end of the window the seek positions (the window of a read after a
	// seek ends at the found record's end, like the one of a re-initialisation)
	for _, at := range opt.seekThrough {
		if !stamped || at.rec < 0 || at.rec >= n {
			continue
		}
		pos, depth, serr := q.seekTS(ctx, logger, lines[at.rec].ts)
		ops = append(ops, vfApp("C20.FSeek", vfZ(lines[at.rec].ts), vfZ(c20FileErrCode(serr)), vfZ(pos), vfZ(int64(depth)), vfZ(q.position)))
		cls["seek-found"] = true
		if serr != nil {
			mon.fail("seek-present-error", "seek of present stamp of line %d/%d: %v", at.rec, n, serr)
			continue
		}
		al.afterSeek = true
		for j := 0; j < at.reads && at.rec-j >= 0; j++ {
			al.before(q)
			line, rerr := q.ReadNext()
			if rerr != nil {
				ops = append(ops, vfApp("C20.FReadB", vfOpt("Z * Z * Z", false, "")))
				mon.fail("seek-then-eof", "read %d after seek to line %d: %v", j, at.rec, rerr)
				break
			}
			al.after(q, at.rec-j, cls)
			ops = append(ops, vfApp("C20.FReadB", vfOpt("Z * Z * Z", true, obs3(line)+"%Z")))
			if line != lines[at.rec-j].text {
				mon.fail("seek-mispositioned", "read %d after seek to line %d returned another line (len %d): %s", j, at.rec, len(line), c20Diff(lines[at.rec-j].text, line))
			}
		}
		al.afterSeek = false
	}

	// 2. seeks, each followed by some reads
	var targets []int64
	if stamped && maxSeeks >= 0 {
		targets = c20Targets(r, lines, maxSeeks)
	}
	for _, ts := range targets {
		if r.Chance(1, 8) {
			// restart from the newest end after whatever the reader did before
			sp, _ := q.SeekStart()
			ops = append(ops, vfApp("C20.FSeekStart", vfZ(sp)))
			cls["seek-start-again"] = true
			for j, nr := 0, r.Intn(3); j < nr && j < n; j++ {
				line, rerr := q.ReadNext()
				if rerr != nil || line != lines[n-1-j].text {
					mon.fail("restart-wrong-line", "read %d after a second SeekStart: err %v, len %d", j, rerr, len(line))
					break
				}
				ops = append(ops, vfApp("C20.FRead", vfOpt("Z * Z", true, "("+strconv.Itoa(len(line))+","+strconv.FormatInt(q.position, 10)+")%Z")))
			}
		}
		before := q.position
		pos, depth, serr := q.seekTS(ctx, logger, ts)
		code := c20FileErrCode(serr)
		ops = append(ops, vfApp("C20.FSeek", vfZ(ts), vfZ(code), vfZ(pos), vfZ(int64(depth)), vfZ(q.position)))
		rank := c20Rank(lines, ts)
		want := map[int]int64{-1: 2, -2: 3, -3: 1, -4: 6}
		switch {
		case rank >= 0:
			cls["seek-found"] = true
			if serr != nil {
				mon.fail("seek-present-error", "seek of present stamp of line %d/%d: %v", rank, n, serr)
			}
		default:
			cls["seek-code-"+strconv.FormatInt(code, 10)] = true
			if code != want[rank] {
				mon.fail("seek-absent-class", "seek of absent stamp %d (rank %d; first stored stamp %d): class %d, want %d (%v)", ts, rank, c20FirstStamp(lines), code, want[rank], serr)
			}
			if q.position != before {
				mon.fail("seek-absent-moved", "failed seek moved the position %d -> %d", before, q.position)
			}
		}
		if depth >= 64 {
			mon.fail("seek-depth", "seek depth %d", depth)
		}
		nreads := r.Intn(3)
		if rank >= 0 && nreads == 0 && r.Bool() {
			nreads = 1
		}
		for j := 0; j < nreads; j++ {
			line, rerr := q.ReadNext()
			if rerr != nil {
				ops = append(ops, vfApp("C20.FRead", vfOpt("Z * Z", false, "")))
				if rank >= 0 && serr == nil {
					if j <= rank {
						mon.fail("seek-then-eof", "read %d after seek to line %d: %v", j, rank, rerr)
					}
				}
				break
			}
			ops = append(ops, vfApp("C20.FRead", vfOpt("Z * Z", true, "("+strconv.Itoa(len(line))+","+strconv.FormatInt(q.position, 10)+")%Z")))
			if rank >= 0 && serr == nil {
				if rank-j < 0 || line != lines[rank-j].text {
					mon.fail("seek-mispositioned", "read %d after seek to line %d returned another line (len %d)", j, rank, len(line))
				}
			}
		}
	}
	c := vfCase{
		Coq: metaWrap(vfApp("C20.CFile", vfZ(maxEntrySize), vfZ(bufferSize), c20CoqFile(lines),
			vfList("C20.fop", ops))),
		Nontrivial: n > 0,
		MonitorOK:  len(mon.msgs) == 0,
		MonitorMsg: strings.Join(mon.msgs, "; "),
		FindingKey: mon.key,
		Desc:       map[string]any{"kind": "file/" + kind, "lines": n, "size": size, "first_lens": c20Lens(lines, 8)},
	}
	if metaDesc != nil {
		c.Desc.(map[string]any)["metadata"] = metaDesc
		cls["meta-"+c20CurMeta.kind] = true
	}
	if opt.layout != nil {
		// the constructed layout: every line length, so that the file can be rebuilt
		c.Desc.(map[string]any)["layout"] = opt.layout
		c.Desc.(map[string]any)["all_lens_oldest_first_rle"] = c20LensRLE(lines)
	}
	if len(al.hits) > 0 {
		c.Desc.(map[string]any)["alignments_hit"] = al.hits
	}
	for k := range cls {
		c.Classes = append(c.Classes, k)
	}
	out.Emit(c)
}

// c20Recover turns a panic of the code under test into a failing case.
func c20Recover(out *vfOut, kind string, ops *[]string, lines []c20Line) {
	if v := recover(); v != nil {
		out.Emit(vfCase{
			Coq:        vfApp("C20.CFile", vfZ(-1), vfZ(-1), c20CoqFile(nil), vfList("C20.fop", nil)),
			Key:        "panic-" + kind + "-" + strconv.Itoa(len(*ops)),
			Nontrivial: true, MonitorOK: false,
			MonitorMsg: fmt.Sprintf("panic after %d operations: %v", len(*ops), v),
			FindingKey: "panic",
			Desc:       map[string]any{"kind": kind, "lines": len(lines), "first_lens": c20Lens(lines, 8)},
		})
	}
}

func c20Lens(lines []c20Line, max int) (l []int) {
	for i := 0; i < len(lines) && i < max; i++ {
		l = append(l, len(lines[i].text))
	}
	return l
}

// c20ReaderCase runs one multi-file case through qLogReader.
func c20ReaderCase(t *testing.T, out *vfOut, r *vfRand, dir string, kind string, files [][]c20Line, maxSeeks int, classes []string) {
	ctx := context.Background()
	logger := slogutil.NewDiscardLogger()
	var paths []string
	for i, f := range files {
		p := filepath.Join(dir, "r"+strconv.Itoa(i)+".json")
		if err := c20Write(p, f); err != nil {
			t.Fatal(err)
		}
		defer os.Remove(p)
		paths = append(paths, p)
	}
	rd, err := newQLogReader(ctx, logger, paths)
	if err != nil {
		t.Fatal(err)
	}
	defer rd.Close()

	mon := &c20Mon{}
	var ops []string
	defer c20Recover(out, "reader/"+kind, &ops, nil)
	cls := map[string]bool{}
	for _, c := range classes {
		cls[c] = true
	}
	var all []c20Line // oldest first over all files
	fileOf := []int{}
	anyEmpty := false
	for i, f := range files {
		all = append(all, f...)
		for range f {
			fileOf = append(fileOf, i)
		}
		if len(f) == 0 {
			anyEmpty = true
		}
	}
	n := len(all)
	if len(files) == 0 {
		cls["reader-no-files"] = true
	}
	for _, l := range all {
		if len(l.text) >= maxEntrySize-3 {
			cls["lines-at-limit"] = true
			break
		}
	}
	curPos := func() (int64, int64) {
		if rd.currentFile < 0 || rd.currentFile >= len(rd.qFiles) {
			return int64(rd.currentFile), 0
		}
		return int64(rd.currentFile), rd.qFiles[rd.currentFile].position
	}
	obsRead := func(line string) string {
		c, p := curPos()
		return "(" + strconv.FormatInt(c, 10) + "," + strconv.Itoa(len(line)) + "," + strconv.FormatInt(p, 10) + ")"
	}
	if err = rd.SeekStart(); err != nil {
		t.Fatal(err)
	}
	c0, p0 := curPos()
	ops = append(ops, vfApp("C20.RSeekStart", vfZ(c0), vfZ(p0)))
	var obs []string
	k := n - 1
	for steps := 0; steps <= n+3; steps++ {
		line, rerr := rd.ReadNext()
		if rerr != nil {
			if rerr != io.EOF {
				mon.fail("read-error", "ReadNext: %v", rerr)
			}
			break
		}
		obs = append(obs, obsRead(line))
		if k < 0 {
			mon.fail("reverse-extra", "reverse read returned more than %d lines", n)
		} else if line != all[k].text {
			mon.fail("reverse-wrong-line", "reader reverse read step %d: expected line %d", n-1-k, k)
		} else if k > 0 && fileOf[k] != fileOf[k-1] {
			cls["reader-file-switch"] = true
		}
		k--
	}
	if k >= 0 && len(mon.msgs) == 0 {
		mon.fail("reverse-incomplete", "reader reverse read stopped with %d lines not returned", k+1)
	}
	ops = append(ops, vfApp("C20.RReadAll", vfList("Z * Z * Z", obs)+"%Z"))

	targets := c20Targets(r, all, maxSeeks)
	// stamps in the gap between consecutive files
	for i := 0; i+1 < len(files); i++ {
		if len(files[i]) > 0 && len(files[i+1]) > 0 {
			a, b := files[i][len(files[i])-1].ts, files[i+1][0].ts
			if b-a > 1 {
				targets = append(targets, a+r.Range(1, b-a-1))
			}
		}
	}
	for _, ts := range targets {
		serr := rd.seekTS(ctx, ts)
		code := int64(0)
		switch {
		case serr == nil:
		case errors.Is(serr, errTSNotFound):
			code = 1
		default:
			code = 4
		}
		c, p := curPos()
		ops = append(ops, vfApp("C20.RSeek", vfZ(ts), vfZ(code), vfZ(c), vfZ(p), vfBool(rd.seekFellBack)))
		rank := c20Rank(all, ts)
		// is ts in a gap between two files (or after everything)?
		between := false
		if rank == -3 {
			for i := 0; i+1 < n; i++ {
				if all[i].ts < ts && ts < all[i+1].ts && fileOf[i] != fileOf[i+1] {
					between = true
				}
			}
		}
		if !anyEmpty {
			switch {
			case rank >= 0:
				cls["reader-seek-found-file-"+strconv.Itoa(len(files)-1-fileOf[rank])] = true
				if serr != nil || rd.seekFellBack {
					mon.fail("reader-seek-present", "reader seek of present stamp (line %d): err %v fellback %v", rank, serr, rd.seekFellBack)
				}
			case rank == -2 || between:
				cls["reader-fell-back"] = true
				if between {
					cls["reader-between-files"] = true
				}
				last := files[len(files)-1]
				if serr != nil || !rd.seekFellBack || int(c) != len(files)-1 || p != c20Size(last)-1 {
					mon.fail("reader-fallback", "reader seek to a stamp after a file's end: err %v fellback %v cur %d pos %d", serr, rd.seekFellBack, c, p)
				}
			case rank == -1 || rank == -3:
				cls["reader-not-found"] = true
				if code != 1 || rd.seekFellBack {
					mon.fail("reader-absent-class", "reader seek of absent stamp (rank %d): err %v fellback %v", rank, serr, rd.seekFellBack)
				}
			}
		} else {
			cls["reader-empty-file"] = true
		}
		nreads := r.Intn(3)
		if rank >= 0 && nreads == 0 {
			nreads = 1
		}
		for j := 0; j < nreads; j++ {
			line, rerr := rd.ReadNext()
			if rerr != nil {
				ops = append(ops, vfApp("C20.RRead", vfOpt("Z * Z * Z", false, "")))
				if rank >= 0 && serr == nil && j <= rank {
					mon.fail("seek-then-eof", "reader read %d after seek to line %d: %v", j, rank, rerr)
				}
				break
			}
			ops = append(ops, vfApp("C20.RRead", vfOpt("Z * Z * Z", true, obsRead(line)+"%Z")))
			if rank >= 0 && serr == nil && !anyEmpty {
				if rank-j < 0 || line != all[rank-j].text {
					mon.fail("seek-mispositioned", "reader read %d after seek to line %d returned another line", j, rank)
				}
			}
		}
	}
	fitems := make([]string, len(files))
	for i, f := range files {
		fitems[i] = c20CoqFile(f)
	}
	metaWrap, metaDesc := c20MetaOf(paths...)
	c := vfCase{
		Coq: metaWrap(vfApp("C20.CReader", vfZ(maxEntrySize), vfZ(bufferSize), vfList("list (Z * Z)", fitems),
			vfList("C20.rop", ops))),
		Nontrivial: n > 0,
		MonitorOK:  len(mon.msgs) == 0,
		MonitorMsg: strings.Join(mon.msgs, "; "),
		FindingKey: mon.key,
		Desc:       map[string]any{"kind": "reader/" + kind, "files": len(files), "lines": n},
	}
	if metaDesc != nil {
		c.Desc.(map[string]any)["metadata"] = metaDesc
		cls["meta-"+c20CurMeta.kind] = true
	}
	for k := range cls {
		c.Classes = append(c.Classes, k)
	}
	out.Emit(c)
}

func c20Size(lines []c20Line) (s int64) {
	for _, l := range lines {
		s += int64(len(l.text)) + 1
	}
	return s
}

func TestVerifC20(t *testing.T) {
	out := vfOpen(t, "C20")
	defer out.Close()
	dir := t.TempDir()
	out.Note("maxEntrySize", maxEntrySize)
	out.Note("bufferSize", bufferSize)
	const ts0 = int64(1700000000000000000)

	// Files larger than the read buffer are expensive for the evaluator: they
	// are queued and come out one after every few light cases, so that every
	// coqc shard gets its share (round 6; before, the seed-independent ones
	// all sat in the first shard).
	sched := &c20Sched{}

	// ---- prelude: one constructed representative per class (seed-independent)
	pr := vfNewRand(20)
	c20FileCase(t, out, pr, dir, "empty", nil, 10, []string{"empty-file"})
	one, _ := c20GenFile(pr, "short", 1, 0, ts0, 0)
	c20FileCase(t, out, pr, dir, "one-line", one, 10, []string{"one-line"})
	lim, _ := c20GenFile(pr, "limit", 5, 0, ts0, 0)
	c20FileCase(t, out, pr, dir, "limit", lim, 20, []string{"lines-at-limit"})
	// lines of maxEntrySize-1 bytes beyond the buffer: every window starts inside a line
	sched.add(func() {
		r := vfNewRand(2001)
		big, _ := c20GenFile(r, "limit", 0, bufferSize+5*maxEntrySize, ts0, 0)
		c20FileCase(t, out, r, dir, "limit-big", big, 30, []string{"lines-at-limit"})
	})
	// files just over one / two buffer sizes: the first 1.6 MB chunk (or the
	// re-read one) starts at a file offset in (0, maxEntrySize)
	for _, d := range []int64{1, 2, 700, 5000, 16084, 16383, 16384, 16385, 20000} {
		d := d
		sched.add(func() {
			r := vfNewRand(uint64(2100 + d))
			ex := c20GenExact(r, bufferSize+d, ts0)
			if c20Size(ex) != bufferSize+d {
				t.Fatalf("c20GenExact: size %d, want %d", c20Size(ex), bufferSize+d)
			}
			c20FileCase(t, out, r, dir, "buffer+"+strconv.FormatInt(d, 10), ex, 12, []string{"size-just-over-buffer"})
		})
	}
	for _, d := range []int64{700, 9000, 16383} {
		d := d
		sched.add(func() {
			r := vfNewRand(uint64(2200 + d))
			ex := c20GenExact(r, 2*bufferSize+d, ts0)
			c20FileCase(t, out, r, dir, "2buffer+"+strconv.FormatInt(d, 10), ex, 12, []string{"size-just-over-2-buffers"})
		})
	}
	// round 6: constructed alignments of line breaks and window boundaries
	c20AlignedPrelude(t, out, dir, sched)
	// round 6: every metadata variant on one file, one reader, one history, one
	// byte-level file; a file that grows while it is open
	{
		mf, e0 := c20GenFile(pr, "short", 12, 0, ts0, 0)
		mg, _ := c20GenFile(pr, "mixed", 9, 0, e0+1000, 12)
		for _, mk := range c20MetaKinds {
			c20CurMeta = c20MetaPolicy{kind: mk}
			mr := vfNewRand(uint64(len(mk)))
			c20FileCase(t, out, mr, dir, "meta", mf, 100, nil)
			c20ReaderCase(t, out, mr, dir, "meta", [][]c20Line{mf, mg}, 100, nil)
			c20HistoryCase(t, out, mr, dir, "meta", [][]c20Line{mf, mg}, 40, nil, nil)
			c20BytesCase(t, out, mr, dir, "meta", c20EncFile(t, mr, 8, ts0, func(int) int { return 0 }), true, 30, nil)
		}
		c20CurMeta = c20MetaPolicy{}
		// records stamped later than the file was written (clock set back, or a
		// coarse file-system clock): a fixed date after any run of this harness
		ff, _ := c20GenFile(pr, "short", 12, 0, 4_102_444_800_000_000_000, 0)
		c20FileCase(t, out, pr, dir, "stamps-after-mtime", ff, 100, []string{"meta-stamps-after-mtime"})
		c20ReaderCase(t, out, pr, dir, "stamps-after-mtime", [][]c20Line{ff[:5], ff[5:]}, 100, []string{"meta-stamps-after-mtime"})
		c20AppendCase(t, out, pr, dir, "small", [][]c20Line{mf[:4], mf[4:9], mf[9:], mg}, nil)
		c20AppendCase(t, out, pr, dir, "from-empty", [][]c20Line{nil, mf[:1], mf[1:]}, nil)
	}
	sh, _ := c20GenFile(pr, "short", 400, 0, ts0, 0)
	c20FileCase(t, out, pr, dir, "short-400", sh, 1000, nil)
	{
		f0, e0 := c20GenFile(pr, "short", 7, 0, ts0, 0)
		f1, _ := c20GenFile(pr, "mixed", 9, 0, e0+1000, 7)
		c20ReaderCase(t, out, pr, dir, "two-small", [][]c20Line{f0, f1}, 100, nil)
		c20ReaderCase(t, out, pr, dir, "no-files", nil, 4, []string{"reader-no-files"})
		c20ReaderCase(t, out, pr, dir, "empty-newest", [][]c20Line{f0, nil}, 10, nil)
		c20ReaderCase(t, out, pr, dir, "empty-oldest", [][]c20Line{nil, f1}, 10, nil)
		c20ReaderCase(t, out, pr, dir, "adjacent", [][]c20Line{f0[:3], f0[3:]}, 100, nil)
		// reader-reuse histories over 0, 1, 2 and 3 files (long, so that every
		// kind of seek meets every kind of reader state)
		// constructed: a failed seek of each absent class in the middle of a
		// run, in the newest and in the rotated file (f0: records 0-6, f1: 7-15)
		var sf0, sf1 []c20Line
		for i := 0; i < 16; i++ {
			l := c20MakeLine(i, ts0+1000*int64(i+1), 60+17*i)
			if i < 7 {
				sf0 = append(sf0, l)
			} else {
				sf1 = append(sf1, l)
			}
		}
		two := [][]c20Line{sf0, sf1}
		for i, sc := range [][]c20Step{
			{c20SStart(), c20SRead(2), c20SSeek(-1), c20SReadAll()},
			{c20SStart(), c20SRead(2), c20SSeek(-10 - 9), c20SReadAll()},
			{c20SStart(), c20SRead(11), c20SSeek(-10 - 12), c20SReadAll()},
			{c20SStart(), c20SRead(11), c20SSeek(-10 - 2), c20SReadAll()},
			{c20SStart(), c20SRead(11), c20SSeek(-1), c20SReadAll()},
			{c20SSeek(3), c20SRead(1), c20SSeek(-1), c20SSeek(-10 - 1), c20SSeek(-10 - 8), c20SReadAll(), c20SRead(1), c20SSeek(-1), c20SRead(1)},
			{c20SStart(), c20SReadAll(), c20SSeek(-10 - 10), c20SRead(2), c20SSeek(-2), c20SRead(3), c20SSeek(-10 - 6), c20SReadAll()},
			{c20SSeek(-1), c20SRead(3), c20SSeek(12), c20SRead(2), c20SSeek(-10 - 3), c20SReadAll()},
		} {
			c20HistoryCase(t, out, pr, dir, "scripted-"+strconv.Itoa(i), two, 0, sc, nil)
		}
		c20HistoryCase(t, out, pr, dir, "scripted-one-file", [][]c20Line{sf1}, 0,
			[]c20Step{c20SStart(), c20SRead(3), c20SSeek(-1), c20SRead(2), c20SSeek(-10 - 1), c20SReadAll()}, nil)
		// round 8: seekRecord (the search-level entry: seek, then step over the
		// found record) to EVERY record, on files whose stamps lie before the wall
		// clock, all after it, only the newest three after it, rotated file before
		// and current file after it
		for i, fs := range [][][]c20Line{two, c20ToFuture(two, 0, 0), c20ToFuture(two, 1, len(sf1)-3), c20ToFuture(two, 1, 0),
			c20ToFuture([][]c20Line{sf1}, 0, 0), c20ToFuture([][]c20Line{sf0[:3]}, 0, 0)} {
			n := 0
			for _, f := range fs {
				n += len(f)
			}
			c20HistoryCase(t, out, pr, dir, "seek-record-"+strconv.Itoa(i), fs, 0, c20SeekRecScript(n), nil)
		}
		// long random ones over 0, 1, 2 and 3 files (so that every kind of seek
		// meets every kind of reader state)
		c20HistoryCase(t, out, pr, dir, "no-files", nil, 12, nil, nil)
		c20HistoryCase(t, out, pr, dir, "one-file", [][]c20Line{f1}, 60, nil, nil)
		c20HistoryCase(t, out, pr, dir, "two-files", [][]c20Line{f0, f1}, 120, nil, nil)
		c20HistoryCase(t, out, pr, dir, "two-files-gaps", two, 120, nil, nil)
		c20HistoryCase(t, out, pr, dir, "two-files-b", [][]c20Line{f0[:2], f1[:3]}, 120, nil, nil)
		c20HistoryCase(t, out, pr, dir, "three-files", [][]c20Line{f0[:4], f0[4:], f1}, 120, nil, nil)
		c20HistoryCase(t, out, pr, dir, "empty-middle", [][]c20Line{f0, nil, f1}, 60, nil, nil)
		c20HistoryCase(t, out, pr, dir, "one-line-files", [][]c20Line{f0[:1], f0[1:2], f1[:1]}, 80, nil, nil)
	}

	// ---- random cases
	rnd := vfNewRand(out.Seed)
	kinds := []string{"short", "mixed", "mixed", "large", "medium", "limit"}
	nSmall := out.Scale(260, 1500)
	nBig := out.Scale(10, 40)
	// big files are spread between the light cases so that the evaluator shards
	// are balanced
	for i := 0; i < nBig; i++ {
		r := rnd.Fork(uint64(1000000 + i))
		sched.add(func() {
			kind := vfPick(r, []string{"large", "large", "mixed", "medium", "limit"})
			total := bufferSize + r.Range(1, int64(out.Scale(900_000, 4_500_000)))
			if kind == "medium" {
				total = bufferSize + r.Range(1, 400_000)
			}
			c20DrawMeta(r, 1, 4)
			lines, _ := c20GenFile(r, kind, 0, total, ts0, 0)
			c20FileCase(t, out, r, dir, kind+"-big", lines, out.Scale(60, 200), nil)
			c20CurMeta = c20MetaPolicy{}
		})
	}
	// round 6: drawn alignments (1-2 windows quick, 1-3 thorough); a big file
	// that grows while it is open
	c20AlignedRandom(t, out, rnd, dir, sched, out.Scale(4, 40), out.Scale(2, 3))
	{
		r := rnd.Fork(6100000)
		sched.add(func() {
			a, e := c20GenFile(r, "large", 0, bufferSize-r.Range(1, 40_000), ts0, 0)
			b, _ := c20GenFile(r, "mixed", 0, r.Range(50_000, 400_000), e+5, len(a))
			c20AppendCase(t, out, r, dir, "across-the-buffer-size", [][]c20Line{a, b}, sched)
		})
	}
	// round 7: the position of the T member inside the line
	c20TOffsetCases(t, out, dir, rnd, sched, out.Scale(3, 40))
	// the byte-level windows queued by the heavy cases count as heavy as well
	nLight := nSmall + out.Scale(60, 300) + out.Scale(25, 324) + out.Scale(150, 1200)
	sched.period = nLight / (2*len(sched.heavy) + 4)
	if sched.period < 1 {
		sched.period = 1
	}
	for i := 0; i < nSmall; i++ {
		sched.light()
		r := rnd.Fork(uint64(i))
		c20DrawMeta(r, 1, 6)
		kind := vfPick(r, kinds)
		var n int
		switch r.Intn(4) {
		case 0:
			n = r.Intn(6)
		case 1:
			n = int(r.Range(5, 40))
		default:
			n = int(r.Range(2, 16))
		}
		if kind == "short" {
			n *= 4
		}
		lines, _ := c20GenFile(r, kind, n, 0, ts0+r.Range(0, 1000000), 0)
		c20FileCase(t, out, r, dir, kind, lines, 40, nil)
	}
	c20CurMeta = c20MetaPolicy{}
	nRd := out.Scale(60, 300)
	for i := 0; i < nRd; i++ {
		sched.light()
		r := rnd.Fork(uint64(2000000 + i))
		c20DrawMeta(r, 1, 6)
		nf := 1 + r.Intn(3)
		if r.Chance(3, 4) {
			nf = 2
		}
		if r.Chance(1, 20) {
			nf = 0
		}
		var files [][]c20Line
		ts := ts0
		idx := 0
		for j := 0; j < nf; j++ {
			kind := vfPick(r, kinds)
			n := int(r.Range(1, 14))
			if r.Chance(1, 12) {
				n = 0
			}
			total := int64(0)
			if i%15 == 7 && j == nf-1-(i/15%2) {
				total = bufferSize + r.Range(1, 300_000)
				kind = "large"
			}
			f, e := c20GenFile(r, kind, n, total, ts+vfPick(r, []int64{0, 1, 5, 1_000_000_000}), idx)
			ts = e
			idx += len(f)
			files = append(files, f)
		}
		c20ReaderCase(t, out, r, dir, "random", files, 30, nil)
	}
	c20CurMeta = c20MetaPolicy{}

	// ---- byte-level cases (zz_verif_C20bytes_test.go)
	c20BytesCases(t, out, dir, rnd, sched)

	// ---- round 9: stamps and targets over the whole int64 range (zz_verif_C20range_test.go)
	c20RangeCases(t, out, dir, rnd, sched)

	// ---- reader-reuse histories (zz_verif_C20hist_test.go)
	nHist := out.Scale(150, 1200)
	for i := 0; i < nHist; i++ {
		sched.light()
		r := rnd.Fork(uint64(3000000 + i))
		c20DrawMeta(r, 1, 6)
		nf := vfPick(r, []int{0, 1, 1, 2, 2, 2, 2, 3})
		files := c20GenFiles(r, nf, ts0+r.Range(0, 1000000), 9, 14)
		if nf > 0 && r.Chance(1, 4) {
			// stamps after the wall clock from some record on
			ff := r.Intn(nf)
			files = c20ToFuture(files, ff, r.Intn(len(files[ff])+1))
		}
		c20HistoryCase(t, out, r, dir, "random", files, int(r.Range(6, 32)), nil, nil)
	}
	c20CurMeta = c20MetaPolicy{}
	sched.drain()
}

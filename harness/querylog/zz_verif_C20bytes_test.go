//go:build verif

package querylog

import (
	"bytes"
	"context"
	"encoding/json"
	"io"
	"net"
	"os"
	"path/filepath"
	"strconv"
	"strings"
	"testing"
	"time"

	"github.com/AdguardTeam/AdGuardHome/internal/filtering"
	"github.com/AdguardTeam/golibs/logutil/slogutil"
)

// Byte-level cases (C20.CBytes): the lines of the file are part of the case
// as bytes, the model scans them for line breaks and for the "T" marker as
// the code does (Model/QLogBytes.v), time.Parse being given as a table.
//
// Lines are (a) written by encoding/json from logEntry values, as
// flushLogBuffer does, with values that look like the marker or a whole
// decoy stamp field, backslashes, quotes, control characters (a raw line
// break in a host name included), non-ASCII, and padded up to
// maxEntrySize-1 bytes; (b) hand-written: the padded lines of the other
// cases, legacy layouts (IP first, "Time" key), and hostile ones no encoder
// writes (raw marker before T, unparsable / empty stamp).

// c20Decoys are values json.Marshal is given for QH / CID / Upstream / rule
// texts.
var c20Decoys = []string{
	`"T":"2001-01-01T00:00:00Z"`,
	`"T":"2001-01-01T00:00:00Z",`,
	`x"T":"`,
	`"T":"`,
	`\"T\":\"2001-01-01T00:00:00Z\"`,
	`\`,
	`x\`,
	`\\"T":"2001-01-01T00:00:00Z`,
	`"Time":"1999-12-31T23:59:59Z"`,
	`T":"`,
	`","T":"2001-01-01T00:00:00Z","QH":"`,
	"line\nbreak\r\n.example",
	"tab\tctl\x01\x1f.example",
	"<html>&amp;.example",
	"пример.рф",
	"sep  .example",
	"bad\xff\xfeutf8.example",
	"emoji😀.example",
	"plain.example.org",
	"",
}

// c20EncLine marshals one entry as flushLogBuffer does and returns the line
// without its line break.  pad > 0 lengthens the upstream so that the line
// has exactly pad bytes (if it is shorter).
func c20EncLine(t *testing.T, r *vfRand, ts int64, zone *time.Location, pad int) string {
	e := &logEntry{
		Time:        time.Unix(0, ts).In(zone),
		QHost:       vfPick(r, c20Decoys),
		QType:       vfPick(r, []string{"A", "AAAA", "HTTPS"}),
		QClass:      "IN",
		ClientID:    vfPick(r, c20Decoys),
		ClientProto: vfPick(r, []ClientProto{ClientProtoPlain, ClientProtoDoH, ClientProtoDoT}),
		Upstream:    "u" + vfPick(r, c20Decoys),
		IP:          net.IP{192, 168, 1, byte(r.Intn(256))},
		Elapsed:     time.Duration(r.Range(0, 5_000_000_000)),
		Cached:      r.Chance(1, 3),
	}
	if r.Chance(1, 2) {
		e.Answer = []byte(vfPick(r, c20Decoys) + "\x00\x01\n")
	}
	if r.Chance(1, 2) {
		e.Result = filtering.Result{
			IsFiltered: true,
			Reason:     filtering.FilteredBlockList,
			Rules:      []*filtering.ResultRule{{Text: vfPick(r, c20Decoys), FilterListID: 1}},
		}
	}
	enc := func() string {
		var b bytes.Buffer
		if err := json.NewEncoder(&b).Encode(e); err != nil {
			t.Fatal(err)
		}
		return strings.TrimSuffix(b.String(), "\n")
	}
	line := enc()
	if pad > len(line) {
		e.Upstream += strings.Repeat("x", pad-len(line))
		line = enc()
	}
	return line
}

// c20Pk prints a byte string packed seven bytes to a primitive integer; a
// long run of one byte (the padding of long lines) is printed as (rp b n).
func c20Pk(s string) string {
	// the longest run of one byte
	bestAt, bestLen := 0, 0
	for i := 0; i < len(s); {
		j := i
		for j < len(s) && s[j] == s[i] {
			j++
		}
		if j-i > bestLen {
			bestAt, bestLen = i, j-i
		}
		i = j
	}
	if bestLen >= 64 {
		return "(" + c20Pk(s[:bestAt]) + " ++ rp " + strconv.Itoa(int(s[bestAt])) + "%N " + strconv.Itoa(bestLen) +
			"%Z ++ " + c20Pk(s[bestAt+bestLen:]) + ")"
	}
	return c20Pk1(s)
}

func c20Pk1(s string) string {
	if len(s) == 0 {
		return "(pk I0)"
	}
	var b strings.Builder
	b.WriteString("(pk ")
	n := 0
	for i := 0; i < len(s); i += 7 {
		j := i + 7
		if j > len(s) {
			j = len(s)
		}
		var v uint64
		for k := j - 1; k >= i; k-- {
			v = v<<8 | uint64(s[k])
		}
		v = v<<3 | uint64(j-i)
		b.WriteString("(IC " + strconv.FormatUint(v, 10) + " ")
		n++
	}
	b.WriteString("I0")
	b.WriteString(strings.Repeat(")", n+1))
	return b.String()
}

// c20BytesCase runs one byte-level case.  judged: the lines carry strictly
// increasing stamps in their T field as readQLogTimestamp must see them
// (lines[i].ts), so the monitors of the property apply; otherwise only the
// correspondence is evaluated.
func c20BytesCase(t *testing.T, out *vfOut, r *vfRand, dir, kind string, lines []c20Line, judged bool, maxSeeks int, classes []string) {
	ctx := context.Background()
	logger := slogutil.NewDiscardLogger()
	path := filepath.Join(dir, "b.json")
	if err := c20Write(path, lines); err != nil {
		t.Fatal(err)
	}
	defer os.Remove(path)
	q, err := newQLogFile(path)
	if err != nil {
		t.Fatal(err)
	}
	defer q.Close()

	mon := &c20Mon{failedAt: -1}
	var ops []string
	defer c20Recover(out, "bytes/"+kind, &ops, lines)
	cls := map[string]bool{"byte-level": true}
	for _, c := range classes {
		cls[c] = true
	}
	n := len(lines)
	size := c20Size(lines)
	if size > 2*maxEntrySize {
		cls["file-larger-than-probe-window"] = true
	}
	switch n {
	case 0:
		cls["empty-file"] = true
	case 1:
		cls["one-line"] = true
	}
	idxOf := map[string]int{}
	for i, l := range lines {
		if _, dup := idxOf[l.text]; !dup {
			idxOf[l.text] = i
		}
		if len(l.text) >= maxEntrySize-3 {
			cls["lines-at-limit"] = true
		}
	}
	// time.Parse of every quote-delimited piece (the oracle of the model)
	tbl := map[string]int64{}
	var tblKeys []string
	for _, l := range lines {
		for _, piece := range strings.Split(l.text, `"`) {
			if _, seen := tbl[piece]; seen || len(piece) < 10 || len(piece) > 64 {
				continue
			}
			if tm, perr := time.Parse(time.RFC3339Nano, piece); perr == nil {
				tbl[piece] = tm.UnixNano()
				tblKeys = append(tblKeys, piece)
			}
		}
	}
	// readQLogTimestamp of every line
	for i, l := range lines {
		got := readQLogTimestamp(ctx, logger, l.text)
		ops = append(ops, vfApp("C20.BStamp", vfZ(int64(i)), vfZ(got)))
		if judged && got != l.ts {
			mon.fail("stamp-wrong-field", "readQLogTimestamp of line %d is %d, its T field holds %d", i, got, l.ts)
		}
		if strings.Count(l.text, `"T":"`) > 1 || strings.Contains(l.text, `T\":\"`) {
			cls["marker-inside-a-value"] = true
		}
		if strings.Contains(l.text, `\\"`) {
			cls["value-ends-in-backslash"] = true
		}
	}
	obsRead := func(line string) string {
		k, ok := idxOf[line]
		given := "(pk I0)"
		ki := int64(k)
		if !ok {
			ki, given = -1, c20Pk(line)
		}
		return "(" + vfZ(ki) + ", " + given + ", " + vfZ(q.position) + ")"
	}

	// 1. full reverse read
	p, err := q.SeekStart()
	if err != nil {
		t.Fatal(err)
	}
	ops = append(ops, vfApp("C20.BSeekStart", vfZ(p)))
	k := n - 1
	for steps := 0; steps <= n+3; steps++ {
		line, rerr := q.ReadNext()
		if rerr != nil {
			if rerr != io.EOF {
				mon.fail("read-error", "ReadNext: %v", rerr)
			}
			ops = append(ops, vfApp("C20.BRead", vfOpt("Z * bytes * Z", false, "")))
			break
		}
		ops = append(ops, vfApp("C20.BRead", vfOpt("Z * bytes * Z", true, obsRead(line))))
		if k < 0 {
			mon.fail("reverse-extra", "reverse read returned more than %d lines", n)
		} else if line != lines[k].text {
			mon.fail("reverse-wrong-line", "reverse read step %d: expected line %d (len %d), got len %d", n-1-k, k, len(lines[k].text), len(line))
		}
		k--
	}
	if k >= 0 && len(mon.msgs) == 0 {
		mon.fail("reverse-incomplete", "reverse read stopped with %d lines not returned", k+1)
	}

	// 2. seeks, each followed by some reads
	var targets []int64
	if judged {
		targets = c20Targets(r, lines, maxSeeks)
	} else {
		for _, l := range lines {
			targets = append(targets, l.ts, l.ts+1)
		}
		for _, v := range tbl {
			targets = append(targets, v)
		}
		targets = append(targets, 1, 1_900_000_000_000_000_000)
	}
	for _, ts := range targets {
		before := q.position
		pos, depth, serr := q.seekTS(ctx, logger, ts)
		code := c20FileErrCode(serr)
		ops = append(ops, vfApp("C20.BSeek", vfZ(ts), vfZ(code), vfZ(pos), vfZ(int64(depth)), vfZ(q.position)))
		rank := -5
		if judged {
			rank = c20Rank(lines, ts)
			want := map[int]int64{-1: 2, -2: 3, -3: 1, -4: 6}
			switch {
			case rank >= 0:
				cls["seek-found"] = true
				if serr != nil {
					mon.fail("seek-present-error", "seek of present stamp of line %d/%d: %v", rank, n, serr)
				}
			default:
				cls["seek-code-"+strconv.FormatInt(code, 10)] = true
				if code != want[rank] {
					mon.fail("seek-absent-class", "seek of absent stamp %d (rank %d; first stored stamp %d): class %d, want %d (%v)", ts, rank, c20FirstStamp(lines), code, want[rank], serr)
				}
			}
		}
		if serr != nil && q.position != before {
			mon.fail("seek-absent-moved", "failed seek moved the position %d -> %d", before, q.position)
		}
		nreads := r.Intn(3)
		if rank >= 0 && nreads == 0 {
			nreads = 1
		}
		for j := 0; j < nreads; j++ {
			line, rerr := q.ReadNext()
			if rerr != nil {
				ops = append(ops, vfApp("C20.BRead", vfOpt("Z * bytes * Z", false, "")))
				if rank >= 0 && serr == nil && j <= rank {
					mon.fail("seek-then-eof", "read %d after seek to line %d: %v", j, rank, rerr)
				}
				break
			}
			ops = append(ops, vfApp("C20.BRead", vfOpt("Z * bytes * Z", true, obsRead(line))))
			if rank >= 0 && serr == nil {
				if rank-j < 0 || line != lines[rank-j].text {
					mon.fail("seek-mispositioned", "read %d after seek to line %d returned another line (len %d)", j, rank, len(line))
				}
			}
		}
	}
	litems := make([]string, n)
	for i, l := range lines {
		litems[i] = c20Pk(l.text)
	}
	titems := make([]string, len(tblKeys))
	for i, key := range tblKeys {
		titems[i] = "(" + c20Pk1(key) + ", " + vfZ(tbl[key]) + ")"
	}
	metaWrap, metaDesc := c20MetaOf(path)
	if metaDesc != nil {
		cls["meta-"+c20CurMeta.kind] = true
	}
	c := vfCase{
		Coq: metaWrap(vfApp("C20.CBytes", vfZ(maxEntrySize), vfZ(bufferSize), vfList("bytes", litems),
			vfList("bytes * Z", titems), vfList("C20.bop", ops))),
		Nontrivial: n > 0,
		MonitorOK:  len(mon.msgs) == 0,
		MonitorMsg: strings.Join(mon.msgs, "; "),
		FindingKey: mon.key,
		Desc:       map[string]any{"kind": "bytes/" + kind, "lines": n, "size": size, "first_lens": c20Lens(lines, 8), "first_line": c20Head(lines)},
	}
	if metaDesc != nil {
		c.Desc.(map[string]any)["metadata"] = metaDesc
	}
	for k := range cls {
		c.Classes = append(c.Classes, k)
	}
	out.Emit(c)
}

func c20Head(lines []c20Line) string {
	if len(lines) == 0 {
		return ""
	}
	s := lines[0].text
	if len(s) > 300 {
		s = s[:300] + "..."
	}
	return s
}

// c20EncFile draws n marshalled lines with strictly increasing stamps; pad
// gives the wanted length of every line (0: as it comes).
func c20EncFile(t *testing.T, r *vfRand, n int, ts0 int64, pad func(i int) int) (lines []c20Line) {
	zones := []*time.Location{time.UTC, time.FixedZone("", 3*3600), time.FixedZone("", -(5*3600 + 1800))}
	ts := ts0
	for i := 0; i < n; i++ {
		ts += vfPick(r, []int64{1, 2, 1000, 1_000_000, r.Range(1, 2_000_000_000), 86_400_000_000_000})
		lines = append(lines, c20Line{text: c20EncLine(t, r, ts, vfPick(r, zones), pad(i)), ts: ts})
	}
	return lines
}

// ---- round 7: the POSITION of the T member inside the line

// c20TKeys: keys of string members that legacy and foreign-but-valid layouts
// put in front of T.
var c20TKeys = []string{"IP", "QH", "QT", "QC", "CP", "Answer", "OrigAnswer", "Upstream", "CID", "ECS", "note", "x-trace"}

// c20TOffsetLine writes a one-line JSON object in which the marker `"T":"`
// begins at byte tOff exactly (1 = T is the first member), behind nProps
// string members of varying length (fewer if they do not fit), followed by a
// few more members.  The line has tOff + ~60 bytes.
func c20TOffsetLine(t *testing.T, r *vfRand, idx int, ts int64, tOff, nProps int) c20Line {
	room := tOff - 1
	var keys []string
	for len(keys) < nProps {
		var fit []string
		for _, k := range c20TKeys {
			dup := false
			for _, x := range keys {
				dup = dup || x == k
			}
			if !dup && room-(len(k)+6) >= 0 {
				fit = append(fit, k)
			}
		}
		if len(fit) == 0 {
			break
		}
		k := vfPick(r, fit)
		keys = append(keys, k)
		room -= len(k) + 6
	}
	if len(keys) == 0 && room > 0 {
		t.Fatalf("c20TOffsetLine: offset %d cannot be reached", tOff)
	}
	// the value lengths: random cuts of the room
	lens := make([]int, len(keys))
	for i := range lens {
		if i == len(lens)-1 {
			lens[i] = room
		} else {
			lens[i] = r.Intn(room + 1)
			if r.Bool() {
				lens[i] = r.Intn(room/len(keys) + 1)
			}
		}
		room -= lens[i]
	}
	vfShuffle(r, lens)
	var b strings.Builder
	b.WriteByte('{')
	for i, k := range keys {
		// a short drawn head (sometimes an escaped decoy stamp: valid JSON, the raw
		// marker does not occur in it), then a run of one base64 character
		head := vfPick(r, []string{"", "127.0.0.1", "dGVzdA", "host-7.example.org", `\"T\":\"2001-01-01T00:00:00Z\"`, `T\":\"`, "2001-01-01T00:00:00Z"})
		if len(head) > lens[i] {
			head = ""
		}
		b.WriteString(`"` + k + `":"` + head + strings.Repeat(string("AQgw"[i%4]), lens[i]-len(head)) + `",`)
	}
	if b.Len() != tOff {
		t.Fatalf("c20TOffsetLine: marker at %d, wanted %d", b.Len(), tOff)
	}
	b.WriteString(`"T":"` + time.Unix(0, ts).UTC().Format(time.RFC3339Nano) + `"`)
	b.WriteString(`,"i":` + strconv.Itoa(idx) + `,"Elapsed":` + strconv.Itoa(r.Intn(100000)) + `}`)
	line := b.String()
	// what the property covers: a valid one-line JSON object whose top-level
	// member T is a string holding an RFC 3339 time, and in which the first raw
	// occurrence of the marker is that member (always so when the members in
	// front of it are strings, numbers or booleans: JSON escapes every quote
	// inside a string)
	var m map[string]any
	if err := json.Unmarshal([]byte(line), &m); err != nil {
		t.Fatalf("c20TOffsetLine: not valid JSON: %v", err)
	}
	tv, _ := m["T"].(string)
	tm, err := time.Parse(time.RFC3339Nano, tv)
	if err != nil || tm.UnixNano() != ts || strings.Index(line, `"T":"`) != tOff || strings.ContainsAny(line, "\n\r") || len(line) >= maxEntrySize {
		t.Fatalf("c20TOffsetLine: line outside the covered set (T %q, marker at %d, len %d)", tv, strings.Index(line, `"T":"`), len(line))
	}
	return c20Line{text: line, ts: ts}
}

// c20TOffsets: where the marker is put.
var c20TOffsets = []int{1, 17, 250, 256, 260, 480, 507, 511, 512, 513, 600, 1024, 8192, maxEntrySize - 70}

// c20TOffsetFile draws a file of lines with T at the given offsets (in this
// order, oldest first), stamps strictly increasing.
func c20TOffsetFile(t *testing.T, r *vfRand, ts0 int64, offs []int) (lines []c20Line) {
	ts := ts0
	for i, off := range offs {
		ts += vfPick(r, []int64{1, 1000, 1_000_000, r.Range(1, 2_000_000_000)})
		lines = append(lines, c20TOffsetLine(t, r, i, ts, off, 1+r.Intn(6)))
	}
	return lines
}

// c20TOffsetCases queues the constructed cases of the dimension and n drawn
// ones.  All of them are JUDGED: the seek contract and the stamp read.
func c20TOffsetCases(t *testing.T, out *vfOut, dir string, rnd *vfRand, sched *c20Sched, n int) {
	const ts0 = int64(1700000000000000000)
	cl := []string{"stamp-field-offset"}
	// every offset once, shallow to deep and deep to shallow
	sched.add(func() {
		r := vfNewRand(701)
		c20BytesCase(t, out, r, dir, "t-offset-ladder", c20TOffsetFile(t, r, ts0, c20TOffsets), true, 100, append(cl, "stamp-field-beyond-512"))
	})
	sched.add(func() {
		r := vfNewRand(702)
		rev := append([]int(nil), c20TOffsets[:len(c20TOffsets)-2]...)
		for i, j := 0, len(rev)-1; i < j; i, j = i+1, j-1 {
			rev[i], rev[j] = rev[j], rev[i]
		}
		c20BytesCase(t, out, r, dir, "t-offset-ladder-down", c20TOffsetFile(t, r, ts0, rev), true, 100, append(cl, "stamp-field-beyond-512"))
	})
	// records of the current encoder (T first) around ONE record with T deep in
	// the line, in the middle of the file: every seek whose bisection probes it
	// depends on its stamp
	sched.add(func() {
		r := vfNewRand(703)
		lines := c20EncFile(t, r, 6, ts0, func(int) int { return 0 })
		last := lines[len(lines)-1].ts
		lines = append(lines, c20TOffsetLine(t, r, 6, last+1000, 600, 3))
		more := c20EncFile(t, r, 6, last+2000, func(int) int { return 0 })
		lines = append(lines, more...)
		c20BytesCase(t, out, r, dir, "t-offset-one-deep-record", lines, true, 100, append(cl, "stamp-field-beyond-512"))
	})
	// the legacy order (IP first) with a long base64 answer in front of T
	sched.add(func() {
		r := vfNewRand(704)
		var lines []c20Line
		for i := 0; i < 7; i++ {
			ts := ts0 + int64(i+1)*1_000_000
			ans := strings.Repeat("A", []int{0, 90, 470, 471, 472, 700, 3000}[i])
			pre := `{"IP":"192.168.1.` + strconv.Itoa(i) + `","QH":"h` + strconv.Itoa(i) + `.example","QT":"A","QC":"IN","Answer":"` + ans + `",`
			lines = append(lines, c20Line{text: pre + `"T":"` + time.Unix(0, ts).UTC().Format(time.RFC3339Nano) + `","Elapsed":` + strconv.Itoa(100+i) + `}`, ts: ts})
		}
		c20BytesCase(t, out, r, dir, "t-offset-legacy-answer-first", lines, true, 100, append(cl, "stamp-field-beyond-512", "legacy-layout"))
	})
	for i := 0; i < n; i++ {
		r := rnd.Fork(uint64(4200000 + i))
		sched.add(func() {
			k := int(r.Range(2, 9))
			offs := make([]int, k)
			deep := false
			for j := range offs {
				switch r.Intn(4) {
				case 0:
					offs[j] = vfPick(r, c20TOffsets[:len(c20TOffsets)-1])
				case 1:
					offs[j] = int(r.Range(480, 540))
				case 2:
					offs[j] = vfPick(r, []int{1, 1, 17, int(r.Range(20, 300))})
				default:
					offs[j] = int(r.Range(1, 6000))
				}
				if offs[j] > 1 && offs[j] < 9 {
					offs[j] = 9 // room for the shortest member in front of T
				}
				deep = deep || offs[j] > 512
			}
			c := cl
			if deep {
				c = append(c, "stamp-field-beyond-512")
			}
			c20BytesCase(t, out, r, dir, "t-offset-random", c20TOffsetFile(t, r, ts0+r.Range(0, 1_000_000), offs), true, 40, c)
		})
	}
}

// c20BytesCases emits the byte-level cases of a run.
func c20BytesCases(t *testing.T, out *vfOut, dir string, rnd *vfRand, sched *c20Sched) {
	const ts0 = int64(1700000000000000000)
	nopad := func(int) int { return 0 }

	// ---- prelude (seed-independent)
	pr := vfNewRand(2020)
	c20BytesCase(t, out, pr, dir, "empty", nil, true, 4, nil)
	c20BytesCase(t, out, pr, dir, "enc-one", c20EncFile(t, pr, 1, ts0, nopad), true, 10, nil)
	c20BytesCase(t, out, pr, dir, "enc-small", c20EncFile(t, pr, 12, ts0, nopad), true, 40, nil)
	// lines of exactly maxEntrySize-1 / -2 bytes and around half the limit: the
	// probe window cuts lines on both sides, every stamp field must still be
	// read whole
	c20BytesCase(t, out, pr, dir, "enc-limit", c20EncFile(t, pr, 4, ts0,
		func(i int) int { return maxEntrySize - 1 - i%2 }), true, 10, nil)
	c20BytesCase(t, out, pr, dir, "enc-mixed-long", c20EncFile(t, pr, 6, ts0,
		func(i int) int { return []int{0, maxEntrySize - 1, maxEntrySize / 2, 0, maxEntrySize - 2, 0}[i] }), true, 12, nil)
	// every decoy as the host, in turn
	{
		var lines []c20Line
		for i, d := range c20Decoys {
			e := &logEntry{Time: time.Unix(0, ts0+int64(i+1)*1000).UTC(), QHost: d, QType: "A", QClass: "IN",
				ClientID: d, Upstream: d, IP: net.IP{10, 0, 0, 1}}
			var b bytes.Buffer
			if err := json.NewEncoder(&b).Encode(e); err != nil {
				t.Fatal(err)
			}
			lines = append(lines, c20Line{text: strings.TrimSuffix(b.String(), "\n"), ts: ts0 + int64(i+1)*1000})
		}
		c20BytesCase(t, out, pr, dir, "enc-every-decoy", lines, true, 60, nil)
	}
	// hand-written: the padded lines of the other cases
	{
		f, _ := c20GenFile(pr, "short", 9, 0, ts0, 0)
		c20BytesCase(t, out, pr, dir, "made-short", f, true, 30, nil)
		g, _ := c20GenFile(pr, "limit", 3, 0, ts0, 0)
		c20BytesCase(t, out, pr, dir, "made-limit", g, true, 8, nil)
	}
	// legacy layouts: IP first; the "Time" key; T empty and Time set
	{
		st := func(i int) string { return time.Unix(0, ts0+int64(i)*1_000_000).UTC().Format(time.RFC3339Nano) }
		legacy := []c20Line{
			{text: `{"IP":"127.0.0.1","T":"` + st(1) + `","QH":"a.example","QT":"A","QC":"IN","Elapsed":5}`, ts: ts0 + 1_000_000},
			{text: `{"IP":"127.0.0.1","Time":"` + st(2) + `","QH":"b.example","QT":"A"}`, ts: ts0 + 2_000_000},
			{text: `{"T":"","Time":"` + st(3) + `","QH":"c.example"}`, ts: ts0 + 3_000_000},
			{text: `{"QH":"d\"T\":\"x.example","IP":"::1","T":"` + st(4) + `"}`, ts: ts0 + 4_000_000},
			{text: `{"Time":"` + st(9) + `","T":"` + st(5) + `"}`, ts: ts0 + 5_000_000},
		}
		c20BytesCase(t, out, pr, dir, "legacy", legacy, true, 30, []string{"legacy-layout"})
		// hostile lines no encoder writes: only the correspondence is judged
		hostile := []c20Line{
			{text: `{"QH":"raw"T":"` + st(7) + `","T":"` + st(1) + `"}`, ts: ts0 + 7_000_000},
			{text: `{"T":"not a time","QH":"x"}`, ts: 0},
			{text: `{"QH":"no stamp at all"}`, ts: 0},
			{text: `{"T":"` + st(2), ts: 0},
			{text: `{"T":"","QH":"empty"}`, ts: 0},
			{text: `{"T":"` + st(3) + `","QH":"fine"}`, ts: ts0 + 3_000_000},
			{text: `"T":"`, ts: 0},
			{text: `{"Time":"","T":"1970-01-01T00:00:00Z"}`, ts: 0},
			{text: `{"T":"` + st(8) + `","QH":"last"}`, ts: ts0 + 8_000_000},
		}
		c20BytesCase(t, out, pr, dir, "hostile", hostile, false, 0, []string{"hostile-lines"})
		c20BytesCase(t, out, pr, dir, "hostile-short", hostile[1:4], false, 0, []string{"hostile-lines"})
	}

	// ---- random
	nSmall := out.Scale(24, 300)
	for i := 0; i < nSmall; i++ {
		sched.light()
		r := rnd.Fork(uint64(4000000 + i))
		c20DrawMeta(r, 1, 6)
		n := int(r.Range(0, 14))
		if r.Chance(1, 6) {
			n = r.Intn(3)
		}
		lines := c20EncFile(t, r, n, ts0+r.Range(0, 1_000_000), func(int) int {
			if r.Chance(1, 8) {
				return int(r.Range(700, 3000))
			}
			return 0
		})
		c20BytesCase(t, out, r, dir, "enc-random", lines, true, out.Scale(12, 30), nil)
	}
	c20CurMeta = c20MetaPolicy{}
	nLong := out.Scale(1, 24)
	for i := 0; i < nLong; i++ {
		sched.light()
		r := rnd.Fork(uint64(4100000 + i))
		n := int(r.Range(3, int64(out.Scale(4, 7))))
		lines := c20EncFile(t, r, n, ts0, func(int) int {
			return vfPick(r, []int{maxEntrySize - 1, maxEntrySize - 1, maxEntrySize - 2, int(r.Range(4000, maxEntrySize-1)), 0})
		})
		c20BytesCase(t, out, r, dir, "enc-long-random", lines, true, 12, nil)
	}
}

//go:build verif

package querylog

import (
	"math"
	"sort"
	"strconv"
	"testing"
)

// Round 9: record stamps and seek targets over the WHOLE int64 nanosecond
// range (1677-09-21 .. 2262-04-11).  The binary search decides by comparing a
// probed stamp with the target; the property quantifies over every target, so
// the decision must be the order of the integers also for pairs more than
// 2^63 ns apart (whose difference is not an int64).
//
//   - c20FarTargets: targets at the ends of the range, centuries away from the
//     stored stamps, and at the distances 2^63-1, 2^63, 2^63+1 from a stored
//     stamp (where a subtraction stops being representable);
//   - c20Restamp: the same files with stamps spread over the whole range, in
//     two clusters (1700s / 2200s), or all negative.
//
// The monitors are the existing ones (seek class by rank, the read after a
// seek, twin and run): they compare int64 values, never subtract them.

// c20Year1700 is 1700-01-01T00:00:00Z in Unix nanoseconds.
const c20Year1700 = int64(-8520336000000000000)

// c20Between returns a value strictly between a < b, if there is one, without
// forming b-a in int64.
func c20Between(r *vfRand, a, b int64) (int64, bool) {
	gap := uint64(b) - uint64(a) // exact: 0 < b-a < 2^64
	if b <= a || gap < 2 {
		return 0, false
	}
	return int64(uint64(a) + 1 + r.U64()%(gap-1)), true
}

// c20Mid returns the midpoint of a < b (a itself when they are adjacent).
func c20Mid(a, b int64) int64 {
	return int64(uint64(a) + (uint64(b)-uint64(a))/2)
}

// c20FarTargets returns seek targets far from the stored stamps.
func c20FarTargets(r *vfRand, lines []c20Line) (ts []int64) {
	ts = []int64{math.MinInt64, c20Year1700, math.MaxInt64}
	ts = append(ts, vfPick(r, []int64{math.MinInt64 + 1, -1, 1, math.MaxInt64 - 1,
		r.Range(math.MinInt64+2, -2), r.Range(2, math.MaxInt64-2)}))
	if len(lines) == 0 {
		return ts
	}
	// 2^63 - 1, 2^63, 2^63 + 1 away from a stored stamp, where representable
	s := vfPick(r, []int64{lines[0].ts, lines[len(lines)-1].ts, lines[r.Intn(len(lines))].ts})
	if s >= 0 {
		b := s + math.MinInt64 // s - b = 2^63
		ts = append(ts, b, b+1)
		if s >= 1 {
			ts = append(ts, b-1)
		}
	} else {
		b := s - math.MinInt64 // b - s = 2^63 (representable: s < 0)
		ts = append(ts, b, b-1)
		if s <= -2 {
			ts = append(ts, b+1)
		}
	}
	return ts
}

// c20WideStamps draws n strictly increasing stamps, none 0: mode 0 over the
// whole range, 1 two clusters (1700s and 2200s), 2 all before 1970, 3 the
// outermost values.
func c20WideStamps(r *vfRand, n int, mode int) []int64 {
	const margin = int64(4_000_000)
	seen := map[int64]bool{0: true}
	var st []int64
	for len(st) < n {
		var v int64
		switch mode {
		case 1:
			if r.Bool() {
				v = c20Year1700 + r.Range(0, 3_000_000_000_000_000_000/100)
			} else {
				v = 7_300_000_000_000_000_000 + r.Range(0, 1_800_000_000_000_000_000)
			}
		case 2:
			v = r.Range(math.MinInt64+margin, -margin)
		case 3:
			if r.Bool() {
				v = math.MinInt64 + margin + r.Range(0, 1_000_000_000)
			} else {
				v = math.MaxInt64 - margin - r.Range(0, 1_000_000_000)
			}
		default:
			v = r.Range(math.MinInt64+margin, math.MaxInt64-margin)
		}
		if !seen[v] {
			seen[v] = true
			st = append(st, v)
		}
	}
	sort.Slice(st, func(i, j int) bool { return st[i] < st[j] })
	return st
}

// c20Restamp gives the lines of files (oldest file first) new stamps, keeping
// their lengths where the text of the stamp allows it.
func c20Restamp(r *vfRand, files [][]c20Line, mode int) (res [][]c20Line) {
	n := 0
	for _, f := range files {
		n += len(f)
	}
	st := c20WideStamps(r, n, mode)
	k := 0
	for _, f := range files {
		var g []c20Line
		for _, l := range f {
			g = append(g, c20MakeLine(k, st[k], len(l.text)))
			k++
		}
		res = append(res, g)
	}
	return res
}

// c20RangeCases emits the cases of the round-9 dimension.
func c20RangeCases(t *testing.T, out *vfOut, dir string, rnd *vfRand, sched *c20Sched) {
	const ts0 = int64(1700000000000000000)
	cls := []string{"stamps-whole-int64-range"}

	// ---- prelude (seed-independent)
	pr := vfNewRand(909)
	base, _ := c20GenFile(pr, "short", 16, 0, ts0, 0)
	for mode := 0; mode < 4; mode++ {
		fs := c20Restamp(pr, [][]c20Line{base}, mode)
		c20FileCase(t, out, pr, dir, "wide-"+strconv.Itoa(mode), fs[0], 100, cls)
		two := c20Restamp(pr, [][]c20Line{base[:7], base[7:]}, mode)
		c20ReaderCase(t, out, pr, dir, "wide-"+strconv.Itoa(mode), two, 100, cls)
		c20HistoryCase(t, out, pr, dir, "wide-"+strconv.Itoa(mode), two, 60, nil, cls)
	}
	// records of 2023 (the usual ones), targets centuries before and after: a
	// failed far seek in the middle of a run, in the newest and in the rotated
	// file, then the rest of the run
	two := [][]c20Line{base[:7], base[7:]}
	for i, sc := range [][]c20Step{
		{c20SStart(), c20SRead(2), c20SSeek(-3), c20SReadAll()},
		{c20SStart(), c20SRead(2), c20SSeek(-4), c20SReadAll()},
		{c20SStart(), c20SRead(11), c20SSeek(-3), c20SReadAll()},
		{c20SStart(), c20SRead(3), c20SSeek(-5), c20SReadAll()},
		{c20SSeek(-3), c20SRead(2), c20SSeek(5), c20SRead(1), c20SSeek(-4), c20SReadAll()},
	} {
		c20HistoryCase(t, out, pr, dir, "far-scripted-"+strconv.Itoa(i), two, 0, sc, cls)
	}
	c20FileCase(t, out, pr, dir, "far-one-line", base[:1], 10, cls)
	c20BytesCase(t, out, pr, dir, "wide", c20Restamp(pr, [][]c20Line{base[:9]}, 0)[0], true, 30, cls)
	c20BytesCase(t, out, pr, dir, "wide-clusters", c20Restamp(pr, [][]c20Line{base[:6]}, 1)[0], true, 30, cls)

	// ---- random
	kinds := []string{"short", "mixed", "medium", "short"}
	nFile := out.Scale(24, 300)
	for i := 0; i < nFile; i++ {
		sched.light()
		r := rnd.Fork(uint64(9000000 + i))
		lines, _ := c20GenFile(r, vfPick(r, kinds), int(r.Range(1, 40)), 0, ts0, 0)
		fs := c20Restamp(r, [][]c20Line{lines}, r.Intn(4))
		c20FileCase(t, out, r, dir, "wide-random", fs[0], 30, cls)
	}
	nRd := out.Scale(12, 150)
	for i := 0; i < nRd; i++ {
		sched.light()
		r := rnd.Fork(uint64(9100000 + i))
		files := c20Restamp(r, c20GenFiles(r, 1+r.Intn(3), ts0, 9, 14), r.Intn(4))
		c20ReaderCase(t, out, r, dir, "wide-random", files, 20, cls)
	}
	nHist := out.Scale(24, 300)
	for i := 0; i < nHist; i++ {
		sched.light()
		r := rnd.Fork(uint64(9200000 + i))
		files := c20Restamp(r, c20GenFiles(r, vfPick(r, []int{1, 2, 2, 3}), ts0, 9, 14), r.Intn(4))
		c20HistoryCase(t, out, r, dir, "wide-random", files, int(r.Range(6, 32)), nil, cls)
	}
}

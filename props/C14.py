"""C14 hook: evidence only.  The tracing itself happens inside the harness
test binaries (each re-executes itself under strace, see harness/c14), the
cases go through the driver's ordinary shard evaluation."""
import glob
import json
import os
import re
import subprocess


def extra(ctx):
    per_pkg, traces, syscalls, smax = {}, 0, 0, 0
    for p in sorted(glob.glob(os.path.join(ctx.workdir, "h*_s*", "C14_*.dist.json"))):
        d = json.load(open(p))
        for pkg, st in (d.get("extra") or {}).items():
            a = per_pkg.setdefault(pkg, {"traces": 0, "saves": 0, "syscalls_total": 0, "syscalls_per_trace_max": 0,
                                         "size_max": 0, "byte_mode": 0, "chunk_mode": 0, "reader_polls": 0})
            for k in ("traces", "saves", "syscalls_total", "byte_mode", "chunk_mode", "reader_polls"):
                a[k] += st.get(k, 0)
            for k in ("syscalls_per_trace_max", "size_max"):
                a[k] = max(a[k], st.get(k, 0))
            traces += st.get("traces", 0)
            syscalls += st.get("syscalls_total", 0)
            smax = max(smax, st.get("size_max", 0))
    gen = os.path.join(ctx.COQ, "Gen", "Writers.v")
    rows = len(re.findall(r"^\s*mkw ", open(gen).read(), flags=re.M)) if os.path.exists(gen) else 0
    try:
        ver = subprocess.run(["strace", "-V"], capture_output=True, text=True).stdout.splitlines()[0]
    except Exception:
        ver = "strace not found"
    ctx.extra_coverage["c14"] = {
        "traces_checked": traces,
        "fs_operations_checked": syscalls,
        "largest_file_bytes": smax,
        "per_package": per_pkg,
        "writers_scanned": rows,
        "tracer": ver,
        "what_is_evaluated": "per trace, in Coq: trace_safe; no_leftovers; published versions = [old] ++ intended contents of "
                             "the successful saves (lengths; bytes when <= 512 B); byte mode also: every state enumerated by "
                             "visible_states (all instants, crash at every prefix) is a published version",
    }
    if traces == 0 and not ctx.failures:
        ctx.fail("harness", "no strace traces were produced")

"""C14 hook: evidence only.  The tracing itself happens inside the harness
test binaries (each re-executes itself under strace, see harness/c14), the
cases go through the driver's ordinary shard evaluation."""
import glob
import json
import os
import re
import subprocess


WRITERS_QUERY = """From Coq Require Import List String NArith Bool.
From AGH Require Import Model.Writers Gen.Writers.
Import ListNotations.
Definition bad := filter (fun w => negb (writer_ok w)) writers.
Definition over := filter (fun e => negb (count_ok writers e)) (exceptions ++ other_files).
Definition missing := filter (fun e => negb (site_present writers e)) expected_sites.
Eval vm_compute in (map (fun w => (w_file w, w_line w, w_func w, w_callee w, w_kind w)) bad).
Eval vm_compute in (map (fun e => match e with (f, fn, c, n, _) => (f, fn, c, n) end) over).
Eval vm_compute in missing.
Eval vm_compute in (copy_skip_pure, copy_skip_names).
"""


def writers_report(ctx):
    """Names the call sites the reflective theorem of Proofs/Writers.v rejects
    (the theorem itself only fails to compile): file, line, function, callee.
    Judged by the same writer_ok / count_ok / expected_sites, evaluated in Coq."""
    need = [os.path.join(ctx.COQ, "Model", "Writers.vo"), os.path.join(ctx.COQ, "Gen", "Writers.vo")]
    if not all(os.path.exists(p) for p in need):
        ctx.fail("proof", "writers table: Model/Writers.vo or Gen/Writers.vo was not built")
        return 0
    src = os.path.join(ctx.workdir, "writers_query.v")
    with open(src, "w") as f:
        f.write(WRITERS_QUERY)
    rc, out = ctx.run(["coqc", "-Q", ctx.COQ, "AGH", "-w", "none", src], cwd=ctx.workdir, timeout=300)
    if rc != 0:
        ctx.fail("proof", "writers table: the query over Gen/Writers.v failed", detail=out[-2000:])
        return 0
    blocks = [" ".join(b.replace("%string", "").replace("%N", "").split()) for b in re.split(r"^\s*= ", out, flags=re.M)[1:]]
    bad = re.findall(r'\("([^"]*)", (\d+), "([^"]*)", "([^"]*)", (K\w+)\)', blocks[0]) if blocks else []
    over = re.findall(r'\("([^"]*)", "([^"]*)", "([^"]*)", (\d+)', blocks[1]) if len(blocks) > 1 else []
    missing = re.findall(r'\("([^"]*)", "([^"]*)", (\d+)\)', blocks[2]) if len(blocks) > 2 else []
    k = 0
    for fl, line, fn, callee, kind in bad:
        k += 1
        what = ("file-writing call that is neither rename-based nor a listed exception: %s (%s) in %s at %s:%s"
                % (callee, kind, fn, fl, line))
        ctx.fail("property-failure", what, finding_key="writers-%s-%s-%s" % (fl, fn, callee), failing_input_found=True,
                 detail={"case": {"id": 9000 + k, "desc": {"file": fl, "line": int(line), "function": fn, "callee": callee,
                                                            "kind": kind, "judge": "Model.Writers.writer_ok = false"}}})
    for fl, fn, callee, n in over:
        k += 1
        ctx.fail("property-failure", "more %s calls in %s (%s) than the %s listed as excused" % (callee, fn, fl, n),
                 finding_key="writers-count-%s-%s-%s" % (fl, fn, callee), failing_input_found=True,
                 detail={"case": {"id": 9000 + k, "desc": {"file": fl, "function": fn, "callee": callee, "allowed": int(n)}}})
    for fl, callee, n in missing:
        k += 1
        ctx.fail("property-failure", "fewer than %s calls of %s are found in %s: a save path was removed or rewritten with other calls"
                 % (n, callee, fl),
                 finding_key="writers-missing-%s-%s" % (fl, callee), failing_input_found=True,
                 detail={"case": {"id": 9000 + k, "desc": {"file": fl, "callee": callee, "expected_at_least": int(n)}}})
    # round 8 (P): the skip list of updater.copySupportingFiles (in-place copy into the working directory)
    skip = blocks[3] if len(blocks) > 3 else ""
    if skip and not (skip.startswith("(true") and '"AdGuardHome.yaml"' in skip):
        k += 1
        ctx.fail("property-failure",
                 "updater.copySupportingFiles (in-place os.WriteFile into the working directory) does not provably skip the "
                 "configuration file: the skip condition is %s; an update package with an entry AdGuardHome.yaml is copied over the "
                 "live configuration in place" % skip[:200],
                 finding_key="writers-updater-copy-skip", failing_input_found=True,
                 detail={"case": {"id": 9000 + k, "desc": {"file": "internal/updater/updater.go", "function": "copySupportingFiles",
                                                            "skip_condition_pure_and_names": skip[:300],
                                                            "judge": "Proofs.Writers.copy_skips_protect_config"}}})
    return k


def race_reports(ctx):
    """Thorough tier: the list harness (overlapping downloads through refresh / add_url / set_url) runs under the
    race detector.  Every distinct report is a finding of its own, named by the first frame inside /repo/internal of
    each of the two accesses (harness frames excluded)."""
    seen = {}
    logs = 0
    for p in sorted(glob.glob(os.path.join(ctx.workdir, "h*_s*", "go_test.log"))):
        text = open(p, errors="replace").read()
        logs += 1
        if "WARNING: DATA RACE" not in text:
            continue
        for block in text.split("=================="):
            if "WARNING: DATA RACE" not in block:
                continue
            frames = []
            for part in re.split(r"\n\s*\n", block):
                if not re.search(r"(?m)^\s*(?:Previous )?(?:[Ww]rite|[Rr]ead|[Aa]tomic \w+) at \S+ by ", part):
                    continue
                fr = None
                for fn, f, l in re.findall(r"\n\s+(\S+)\(\)\n\s+(\S+):(\d+)", part):
                    if "/internal/" in f and "zz_verif" not in f and "AdGuardHome" in fn:
                        fr = "%s (internal/%s:%s)" % (fn.split("AdGuardHome/internal/")[-1], f.split("/internal/", 1)[1], l)
                        break
                frames.append(fr or "?")
            key = tuple(sorted(frames[:2]))
            seen.setdefault(key, (block.strip()[:4000], p))
    k = 0
    # one cause usually shows up as many pairs of program points: the first three are reported, the count is kept
    for key, (block, p) in sorted(seen.items())[:3]:
        k += 1
        ctx.fail("property-failure",
                 "data race between list downloads that overlap in time (race detector; %d distinct pairs of program points in this run): %s"
                 % (len(seen), " / ".join(key)),
                 finding_key="C14/list-download-race-" + re.sub(r"[^A-Za-z0-9]+", "-", "-".join(x.split(" ")[0] for x in key))[:80],
                 failing_input_found=True,
                 detail={"case": {"id": 9500 + k, "desc": {"race_report": block, "log": p,
                                                           "scenario": "harness/filtering/zz_verif_C14lists_test.go, free-running overlap scenarios"}}})
    return len(seen)


def extra(ctx):
    ctx.extra_coverage["c14_writers_rejected"] = writers_report(ctx)
    ctx.extra_coverage["c14_list_download_races"] = race_reports(ctx)
    # the strace parser is trusted: run its self-test (threads interleaved with unfinished/resumed lines, descriptor
    # reuse before a close is reported finished, short write + EFBIG, forked child) on every run
    rc, out = ctx.run(["python3", os.path.join(ctx.VERIF, "tools", "c14_straceparse.py"), "--selftest"], cwd=ctx.workdir, timeout=60)
    ctx.extra_coverage["c14_parser_selftest"] = "ok" if rc == 0 else "FAILED"
    if rc != 0:
        ctx.fail("harness", "tools/c14_straceparse.py fails its self-test", detail=out[-2000:])
    per_pkg, traces, syscalls, smax = {}, 0, 0, 0
    for p in sorted(glob.glob(os.path.join(ctx.workdir, "h*_s*", "C14_*.dist.json"))):
        d = json.load(open(p))
        for pkg, st in (d.get("extra") or {}).items():
            a = per_pkg.setdefault(pkg, {"traces": 0, "saves": 0, "syscalls_total": 0, "syscalls_per_trace_max": 0,
                                         "size_max": 0, "byte_mode": 0, "chunk_mode": 0, "reader_polls": 0})
            for k in ("traces", "saves", "syscalls_total", "byte_mode", "chunk_mode", "reader_polls"):
                a[k] += st.get(k, 0)
            for k in ("syscalls_per_trace_max", "size_max"):
                a[k] = max(a[k], st.get(k, 0))
            traces += st.get("traces", 0)
            syscalls += st.get("syscalls_total", 0)
            smax = max(smax, st.get("size_max", 0))
    gen = os.path.join(ctx.COQ, "Gen", "Writers.v")
    rows = len(re.findall(r"^\s*mkw ", open(gen).read(), flags=re.M)) if os.path.exists(gen) else 0
    try:
        ver = subprocess.run(["strace", "-V"], capture_output=True, text=True).stdout.splitlines()[0]
    except Exception:
        ver = "strace not found"
    ctx.extra_coverage["c14"] = {
        "traces_checked": traces,
        "fs_operations_checked": syscalls,
        "largest_file_bytes": smax,
        "per_package": per_pkg,
        "writers_scanned": rows,
        "tracer": ver,
        "what_is_evaluated": "per trace, in Coq: trace_safe; no_leftovers; published versions = [old] ++ intended contents of "
                             "the successful saves (lengths; bytes when <= 512 B); byte mode also: every state enumerated by "
                             "visible_states (all instants, crash at every prefix) is a published version",
    }
    if traces == 0 and not ctx.failures:
        ctx.fail("harness", "no strace traces were produced")

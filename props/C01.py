"""C01 hook: when the order tables extracted from the current source
(coq/Gen/PipelineTables.v, written by tools/ordertables) differ from the
literals the model is built on, the theorem C01_tables_match_source no longer
builds; this hook names the entries that moved (evaluated in Coq by
Model/PipelineNames.table_diff) and records the table sizes as coverage.  The
concrete failing input is searched for by the harness as usual."""
import json
import os
import re


def extra(ctx):
    gen = os.path.join(ctx.COQ, "Gen", "pipeline_tables.json")
    if not os.path.exists(gen):
        ctx.fail("translator", "coq/Gen/pipeline_tables.json is missing: tools/ordertables did not run")
        return
    tab = json.load(open(gen))
    ctx.extra_coverage["order_tables"] = {
        "host_checkers": tab["host_checkers"], "stages": tab["stages"], "unresolved": tab.get("unresolved") or [],
    }
    ctx.extra_obligations += 1
    ctx.trusted.append("tools/ordertables (go/parser only): finds the []hostChecker literal in filtering.New and the "
                       "[]modProcessFunc literal in (*Server).handleDNSRequest syntactically; any other shape becomes an "
                       "unresolved entry, which C01_tables_match_source rejects")
    for u in (tab.get("unresolved") or []):
        ctx.fail("translator", "order table extraction: " + u)

    src = os.path.join(ctx.workdir, "c01_tables_diff.v")
    with open(src, "w") as f:
        f.write("From Coq Require Import List String.\n"
                "From AGH Require Import Model.PipelineNames Gen.PipelineTables.\n"
                "Definition DC := Eval vm_compute in table_diff 0 expected_checkers host_checkers.\nPrint DC.\n"
                "Definition DS := Eval vm_compute in table_diff 0 expected_stages stages.\nPrint DS.\n")
    # Gen/PipelineTables.vo and Model/PipelineNames.vo do not depend on the theorem, so they build even when it fails
    ctx.coq_build(["Gen/PipelineTables.vo", "Model/PipelineNames.vo"], os.path.join(ctx.workdir, "c01_tables_build.log"))
    rc, out = ctx.run(["coqc", "-Q", ctx.COQ, "AGH", "-w", "none", src], cwd=ctx.workdir, timeout=300)
    if rc != 0:
        ctx.fail("proof", "could not evaluate the order-table difference", detail=out[-2000:])
        return
    flat = " ".join(out.split())
    moved = False
    for name, what in (("DC", "host-checker order (filtering.New)"), ("DS", "stage order (handleDNSRequest)")):
        m = re.search(r"%s = (.*?) : list" % name, flat)
        body = m.group(1) if m else ""
        ents = re.findall(r'\((\d+), "([^"]*)", "([^"]*)"\)', body)
        if ents:
            moved = True
            ctx.fail("proof", "%s differs from the model: %s" % (
                what, "; ".join("position %s: model has %s, source has %s" % e for e in ents)))
        elif body.strip() not in ("[]", "nil"):
            ctx.fail("proof", "could not read the %s difference: %s" % (what, body[:200]))
    if not moved:
        ctx.extra_discharged += 1

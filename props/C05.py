"""C05 hook: turns the regenerated lock table into findings.

The theorem C05_discipline_holds (Props/C05.v) is the check; this hook says
WHICH access site or lock pair breaks it, by evaluating the same Coq
definitions (access_ok, bad_accesses) on the regenerated table, and fills the
evidence.  Known findings (KNOWN_FINDINGS.txt keys) are reported too; the
driver prints them as KNOWN-FINDING lines.
"""
import hashlib
import json
import os
import re


def _hid(prefix, key):
    return "%s-%s" % (prefix, hashlib.sha1(key.encode()).hexdigest()[:8])


def _coq_eval(ctx):
    src = os.path.join(ctx.workdir, "c05_report.v")
    with open(src, "w") as f:
        f.write("From Coq Require Import List String Bool.\n"
                "From AGH Require Import Base.Conc Model.Guards Proofs.LockTable Gen.LockTable.\n"
                "Set Printing Depth 1000000.\n"
                "Definition BADACC := Eval vm_compute in map (fun a => (access_key a, a_pos a)) "
                "(filter (fun a => negb (access_ok_ro (never_written accesses) a)) accesses).\nPrint BADACC.\n"
                "Definition NBADORD := Eval vm_compute in List.length (bad_orders (rank_of (computed_ranks "
                "(checked_order known_keys lock_order))) known_keys lock_order).\nPrint NBADORD.\n"
                # the gate-lock criterion on the acquisition sites (abstract locks included); only
                # definitions that do not depend on the instance lemma, which fails to build when
                # the criterion is violated
                "From AGH Require Import Proofs.ConcGate Proofs.LockTableGate Gen.LockTableAcq.\n"
                "Definition NBADGATE := Eval vm_compute in List.length (ungated (rank_of acq_rank_hint) "
                "(sub_hint acq_sub_rank_hints) (checked_sites_of known_keys acquisitions)).\nPrint NBADGATE.\n"
                # round 6: lock balance per function path; the functions one of whose witness paths
                # does not end its sections, as Coq evaluates them (Proofs/LockTableBalance.v)
                "From AGH Require Import Model.LockBalance Proofs.ConcBalance Proofs.LockTableBalance Gen.LockTableBalance.\n"
                "Definition BADBAL := Eval vm_compute in map bf_fn (filter (fun f => negb (fn_ok f)) balance_fns).\nPrint BADBAL.\n")
    rc, out = ctx.run(["coqc", "-Q", ctx.COQ, "AGH", "-w", "none", src], cwd=ctx.workdir, timeout=900)
    if rc != 0:
        return None, None, None, None, out
    flat = " ".join(out.split())
    m = re.search(r"BADACC = (.*?) : list", flat)
    n = re.search(r"NBADORD = (\d+)", flat)
    g = re.search(r"NBADGATE = (\d+)", flat)
    bb = re.search(r"BADBAL = (.*?) : list", flat)
    if not m or not n or not g or not bb:
        return None, None, None, None, out
    pairs = re.findall(r'\("([^"]*)"(?:%string)?,\s*"([^"]*)"(?:%string)?\)', m.group(1))
    badbal = re.findall(r'"([^"]*)"', bb.group(1))
    return pairs, int(n.group(1)), int(g.group(1)), badbal, out


def _sccs(edges):
    """Tarjan; returns the list of strongly connected components."""
    graph = {}
    for a, b in edges:
        graph.setdefault(a, set()).add(b)
        graph.setdefault(b, set())
    index, low, on, stack, res, counter = {}, {}, set(), [], [], [0]

    def visit(v):
        work = [(v, iter(sorted(graph[v])))]
        index[v] = low[v] = counter[0]
        counter[0] += 1
        stack.append(v)
        on.add(v)
        while work:
            node, it = work[-1]
            advanced = False
            for w in it:
                if w not in index:
                    index[w] = low[w] = counter[0]
                    counter[0] += 1
                    stack.append(w)
                    on.add(w)
                    work.append((w, iter(sorted(graph[w]))))
                    advanced = True
                    break
                elif w in on:
                    low[node] = min(low[node], index[w])
            if advanced:
                continue
            work.pop()
            if work:
                low[work[-1][0]] = min(low[work[-1][0]], low[node])
            if low[node] == index[node]:
                comp = []
                while True:
                    w = stack.pop()
                    on.discard(w)
                    comp.append(w)
                    if w == node:
                        break
                res.append(comp)

    for v in sorted(graph):
        if v not in index:
            visit(v)
    return res


def _norm_fn(name):
    """One spelling for function names of the lock table ((*pkg.T).m$1) and of
    race reports (github.com/.../pkg.(*T).m.func1)."""
    name = name.split("AdGuardHome/internal/")[-1]
    name = re.sub(r"\[.*?\]", "", name)
    name = re.sub(r"\.func(\d+)", r"$\1", name)
    name = re.sub(r"\.(\d+)(?=$|\$|\.)", r"$\1", name)
    name = name.replace("(*", "").replace("(", "").replace(")", "").replace("-fm", "")
    return name


def _parse_races(text):
    """[(kindA, frameA, kindB, frameB, excerpt)] with frame = (function, file, line) of the first
    frame inside /repo/internal (harness frames excluded)."""
    res = []
    for block in text.split("=================="):
        if "WARNING: DATA RACE" not in block:
            continue
        stacks = []
        for part in re.split(r"\n\s*\n", block):
            m = re.search(r"(?m)^\s*((?:Previous )?(?:[Ww]rite|[Rr]ead|[Aa]tomic \w+)) at \S+ by (?:goroutine \d+|main goroutine):", part)
            if not m:
                continue
            top, callers = None, []
            for fn, f, l in re.findall(r"\n\s+(\S+)\(\)\n\s+(\S+):(\d+)", part):
                if "/internal/" in f and "zz_verif" not in f and "AdGuardHome" in fn:
                    fr = (fn, "internal/" + f.split("/internal/", 1)[1], int(l))
                    if top is None:
                        top = fr
                    else:
                        callers.append(fr)
            stacks.append((m.group(1).replace("Previous ", "").lower(), top, "\n".join(part.strip().splitlines()[:9]), callers))
        if len(stacks) >= 2:
            res.append(stacks[:2])
    return res


# The stress harnesses: package -> files overlaid into it.  dnsforward: DNS
# request path against the admin handlers of dnsforward / filtering / stats /
# querylog / client storage, plus Reconfigure; dhcpd: DHCPv4/v6 packet handlers
# against the static-lease API and the lease store; home: config.write and the
# SIGHUP reload against the TLS and filtering handlers.
STRESS_PKGS = {
    "dnsforward": {"internal/dnsforward/zz_verif_C05_test.go": "harness/dnsforward/zz_verif_C05_test.go",
                   # crash search in a child process (client edit sequences; query log / statistics
                   # clears and configuration updates against constant flushing)
                   "internal/dnsforward/zz_verif_C05crash_test.go": "harness/dnsforward/zz_verif_C05crash_test.go",
                   # round 4: static-lease hostnames from the admin API into PTR / A / AAAA answers (real dhcpd
                   # server behind a real started Server, queries through the socket)
                   "internal/dnsforward/zz_verif_C05lease_test.go": "harness/dnsforward/zz_verif_C05lease_test.go",
                   # round 5: hostile admin data with per-operation deadlines, stalls confirmed by a replay in a
                   # fresh process (I); scripted list server, partial failures, swallowed worker panics (J)
                   "internal/dnsforward/zz_verif_C05rig_test.go": "harness/dnsforward/zz_verif_C05rig_test.go",
                   "internal/dnsforward/zz_verif_C05scen_test.go": "harness/dnsforward/zz_verif_C05scen_test.go",
                   "internal/dnsforward/zz_verif_C05hostile_test.go": "harness/dnsforward/zz_verif_C05hostile_test.go",
                   "internal/dnsforward/zz_verif_C05deps_test.go": "harness/dnsforward/zz_verif_C05deps_test.go",
                   "internal/filtering/zz_verif_c05_shim.go": "harness/shims/filtering_verif_c05_shim.go"},
    "dhcpd": {"internal/dhcpd/zz_verif_C05_test.go": "harness/dhcpd/zz_verif_C05_test.go"},
    "home": {"internal/home/zz_verif_C05_test.go": "harness/home/zz_verif_C05_test.go",
             "internal/home/zz_verif_common_test.go": "harness/home/zz_verif_common_test.go"},
}


def _reentrant(tbl):
    """The table still has a re-entrant serverLock.RLock: the dnsforward stress keeps out of
    those paths (they are then reported by the table); otherwise it enters them on purpose."""
    sl = "dnsforward.Server.serverLock"
    return any(o["held"] == sl and o["acq"] == sl for o in tbl.get("lock_order") or [])


def _stress(ctx, tbl, known, race, millis, seed, pkg="dnsforward"):
    """Search for a failing schedule: real code paths of one package against its real
    admin handlers (harness/<pkg>/zz_verif_C05_test.go)."""
    outdir = os.path.join(ctx.workdir, "stress_%s_s%d%s" % (pkg, seed, "_race" if race else ""))
    os.makedirs(outdir, exist_ok=True)
    repl = {os.path.join(ctx.REPO, dst): os.path.join(ctx.VERIF, src) for dst, src in STRESS_PKGS[pkg].items()}
    if os.environ.get("VERIF_EXTRA_OVERLAY"):
        for dst, src in json.loads(os.environ["VERIF_EXTRA_OVERLAY"]).items():
            if dst.startswith("/repo/") and ctx.REPO != "/repo":
                dst = os.path.join(ctx.REPO, dst[len("/repo/"):])
            repl[dst] = src
    ov = os.path.join(outdir, "overlay.json")
    json.dump({"Replace": repl}, open(ov, "w"))
    env = ctx.go_env()
    env.update({"VERIF_SEED": str(seed), "VERIF_OUT": outdir, "VERIF_C05_MS": str(millis),
                "GORACE": "log_path=%s halt_on_error=0" % os.path.join(outdir, "race")})
    env.setdefault("VERIF_C05_REENTRANT", "1" if _reentrant(tbl) else "0")
    cmd = ["go", "test", "-overlay", ov, "-tags", "verif", "-count=1", "-vet=off", "-run", "^TestVerifC05(Stress|Crash|Lease|Hostile)$",
           "-timeout", "%ds" % (millis // 1000 + 240)]
    if race:
        cmd.append("-race")
    cmd.append("./internal/%s/" % pkg)
    rc, out = ctx.run(cmd, cwd=ctx.REPO, env=env, timeout=millis // 1000 + 600, logfile=os.path.join(outdir, "go_test.log"))
    stats = {"package": pkg, "race_detector": race, "millis": millis, "seed": seed}
    if "[build failed]" in out or "[setup failed]" in out:
        ctx.fail("harness", "C05 stress harness of %s no longer builds against the current tree" % pkg, detail=out[-3000:])
        return stats
    rp = os.path.join(outdir, "c05_stress.json")
    if pkg == "dnsforward" and os.path.exists(rp):
        stats["crash_search"] = _crash_search(ctx, outdir, seed, out)
        stats["lease_answers"] = _lease_answers(ctx, outdir, seed, out)
        stats["hostile_admin_data"] = _hostile_search(ctx, outdir, seed, out)
        stats["dependency_failures"] = _deps_search(ctx, outdir, seed, out)
    if not os.path.exists(rp):
        # the process died: unrecoverable runtime error (e.g. concurrent map read and map write)
        m = re.search(r"(fatal error: [^\n]*|panic: [^\n]*)", out)
        frames = re.findall(r"\n(github.com/AdguardTeam/AdGuardHome/internal/\S+)\(", out)
        where = next((f for f in frames if "TestVerifC05" not in f), "?")
        ctx.fail("property-failure", "server crashed under concurrent reconfiguration: %s in %s" % (m.group(1) if m else "test process died", _norm_fn(where)),
                 finding_key="crash:" + _norm_fn(where), failing_input_found=True,
                 detail={"case": {"id": "crash-%s-%d" % (pkg, seed), "seed": seed, "desc": {"kind": "crash", "package": pkg, "seed": seed, "output": out[-6000:]}}})
        return stats
    rep = json.load(open(rp))
    stats.update({k: rep.get(k) for k in ("queries", "admin_ops", "refused_by_access", "reconfigures", "queries_overlapping_restart_not_judged",
                                          "queries_upstream_timeout_not_judged", "queries_answered_with_block_host", "avoids_reentrant_paths",
                                          "v4_packets", "v6_packets", "admin_mutations", "admin_reads") if rep.get(k) is not None})
    if rep.get("functional_observations_total"):
        # dhcpd: outcomes of the static-lease API that differ from its answer (an accepted remove
        # whose lease is still listed, ...).  Functional behaviour of the lease table, reachable
        # without any concurrency (notes/fix-drafts/20-dhcpd-v6-rmdynamiclease-skip.msg has the
        # sequence): not a statement of C05, so recorded in the evidence and not judged.
        stats["functional_observations_not_judged"] = {"total": rep["functional_observations_total"],
                                                       "first": (rep.get("functional_observations") or [])[:5]}
    for i, p in enumerate(rep.get("panics") or []):
        frames = re.findall(r"\n(github.com/AdguardTeam/AdGuardHome/internal/\S+)\(", p)
        where = next((f for f in frames if "TestVerifC05" not in f), "?")
        ctx.fail("property-failure", "panic under concurrent reconfiguration: %s in %s" % (p.splitlines()[0], _norm_fn(where)),
                 finding_key="panic:" + _norm_fn(where), failing_input_found=True,
                 detail={"case": {"id": "panic-%s-%d-%d" % (pkg, seed, i), "seed": seed, "desc": {"kind": "panic", "package": pkg, "seed": seed, "panic": p}}})
    for i, m in enumerate(rep.get("malformed") or []):
        ctx.fail("property-failure", ("in-flight query without a well-formed response: " if pkg == "dnsforward" else "%s: malformed result under concurrent reconfiguration: " % pkg) + m,
                 finding_key="malformed", failing_input_found=True,
                 detail={"case": {"id": "malformed-%s-%d-%d" % (pkg, seed, i), "seed": seed, "desc": {"kind": "malformed", "package": pkg, "seed": seed, "what": m}}})
    if rep.get("stalled"):
        # name the lock operations the blocked goroutines wait in (deadlock participants)
        waits = sorted(set(_norm_fn(f) for f in re.findall(r"\n(github.com/AdguardTeam/AdGuardHome/internal/[^\s(]+(?:\(\*[^)]+\))?[^\s(]*)\(", rep["stalled"])
                           if "TestVerifC05" not in f))[:12]
        stats["stalled"] = True
        ctx.fail("property-failure", "stall (%s): %s; blocked in: %s" % (pkg, rep["stalled"].splitlines()[0], ", ".join(waits) or "?"),
                 finding_key="stall", failing_input_found=True,
                 detail={"case": {"id": "stall-%s-%d" % (pkg, seed), "seed": seed, "desc": {"kind": "stall", "package": pkg, "seed": seed, "goroutines": rep["stalled"]}}})
    # ---- race reports
    if race:
        text = ""
        for f in sorted(os.listdir(outdir)):
            if f.startswith("race."):
                text += open(os.path.join(outdir, f), errors="replace").read()
        bypos, byfn = {}, {}
        for a in tbl.get("accesses") or []:
            bypos.setdefault(a["pos"], set()).add(a["key"])
        for k in known:
            if "@" in k:
                byfn.setdefault(_norm_fn(k.split("@", 1)[1]), set()).add(k)
        badkeys = {a["key"] for a in tbl.get("accesses") or [] if not a["ok"]}
        gaps = []
        clusters = {}
        for st in _parse_races(text):
            sig = tuple(sorted("%s %s" % (s[0], "%s %s:%d" % (_norm_fn(s[1][0]), s[1][1], s[1][2]) if s[1] else "?") for s in st))
            clusters.setdefault(sig, [0, st])[0] += 1
        n_known = n_new = 0
        reproduced = {}
        for ci, (sig, (cnt, st)) in enumerate(sorted(clusters.items())):
            if not all(s[1] for s in st):
                continue  # a stack without a frame in /repo/internal: not ours to judge
            keys = set()
            for s in st:
                keys |= bypos.get("%s:%d" % (s[1][1], s[1][2]), set())
                keys |= byfn.get(_norm_fn(s[1][0]), set())
                # the access happens inside a callee of the flagged line (e.g. the object
                # behind an unsynchronised pointer): match the caller frames by exact position
                for fr in s[3]:
                    keys |= bypos.get("%s:%d" % (fr[1], fr[2]), set()) & badkeys
            kk = sorted(keys & known)
            # "reproduced" is stricter than "at a known site": the top frame of one of the
            # two stacks is exactly a position the table flags for that key
            for s in st:
                for k in bypos.get("%s:%d" % (s[1][1], s[1][2]), set()) & badkeys & known:
                    reproduced.setdefault(k, " vs ".join(sig))
            if kk:
                n_known += 1
                ctx.fail("property-failure", "data race (known site): " + " vs ".join(sig), finding_key=kk[0], failing_input_found=True,
                         detail={"case": {"id": "race-known-%s-%d" % (pkg, ci), "seed": seed, "desc": {"kind": "race", "package": pkg, "pair": sig}}})
            else:
                n_new += 1
                flagged = sorted(keys & badkeys)
                if not flagged:
                    gaps.append(" vs ".join(sig))
                ctx.fail("property-failure", "data race: " + " vs ".join(sig) + (
                    " (site also flagged by the lock table)" if flagged else
                    " (the lock table calls both sites safe: translator gap or field outside the guard map)"),
                         finding_key=flagged[0] if flagged else "race:" + "|".join(sig), failing_input_found=True,
                         detail={"case": {"id": _hid("race", "|".join(sig)), "seed": seed,
                                          "desc": {"kind": "race", "package": pkg, "seed": seed, "reports": cnt, "stack_pair": [s[2] for s in st]}}})
        stats.update({"race_reports": sum(c[0] for c in clusters.values()), "race_clusters": len(clusters),
                      "race_clusters_at_known_sites": n_known, "race_clusters_new": n_new,
                      "translator_gaps": gaps,
                      # goal: every known finding that is a data race is reproduced by the search
                      "known_access_findings_reproduced": reproduced})
    return stats


def _first_repo_fn(text):
    frames = re.findall(r"\n(github.com/AdguardTeam/AdGuardHome/internal/\S+)\(", "\n" + text)
    return _norm_fn(next((f for f in frames if "TestVerifC05" not in f and ".c05" not in f and "c05Rig" not in f), "?"))


def _crash_search(ctx, outdir, seed, out):
    """TestVerifC05Crash (harness/dnsforward/zz_verif_C05crash_test.go): the search ran in a child
    process; c05_crash.json says whether the child died (a panic in a goroutine nobody can recover
    from: flush goroutine of the query log, statistics flusher, ...), with its stderr trace and the
    tail of the operation journal as the replay."""
    rp = os.path.join(outdir, "c05_crash.json")
    if not os.path.exists(rp):
        ctx.fail("harness", "C05 crash search left no report (c05_crash.json)", detail=out[-3000:])
        return {"ran": False}
    rep = json.load(open(rp))
    child = rep.get("child") or {}
    res = {"ran": True, "child_exit": rep.get("child_exit"), "child_completed": rep.get("child_completed"), "millis": rep.get("millis")}
    res.update({k: child.get(k) for k in ("querylog_mem_size", "queries", "admin_ops", "client_edit_steps", "queries_after_client_edits",
                                          "querylog_clears", "stats_resets", "log_config_updates", "logs_phase_ended_by_time_cap")})
    journal = rep.get("journal_tail") or []
    for i, p in enumerate(child.get("panics") or []):
        where = _first_repo_fn(p)
        head = p.splitlines()[0]
        msg = head.rsplit("]: ", 1)[-1] if "]: " in head else head
        ctx.fail("property-failure", "panic under live reconfiguration: %s in %s, at: %s" % (msg, where, head.split(" after [")[0]),
                 finding_key="panic:" + where, failing_input_found=True,
                 detail={"case": {"id": "crashsearch-panic-%d-%d" % (seed, i), "seed": seed,
                                  "desc": {"kind": "panic (crash search, recovered in a harness goroutine)", "seed": seed,
                                           "operations_before": journal, "panic": p}}})
    for i, m in enumerate(child.get("malformed") or []):
        ctx.fail("property-failure", "in-flight query without a well-formed response: " + m, finding_key="malformed", failing_input_found=True,
                 detail={"case": {"id": "crashsearch-malformed-%d-%d" % (seed, i), "seed": seed, "desc": {"kind": "malformed", "seed": seed, "what": m}}})
    if rep.get("timed_out"):
        ctx.fail("property-failure", "stall: the crash-search child did not finish within its budget; goroutine dump in the replay",
                 finding_key="stall", failing_input_found=True,
                 detail={"case": {"id": "crashsearch-stall-%d" % seed, "seed": seed,
                                  "desc": {"kind": "stall", "seed": seed, "operations_before": journal, "goroutines": rep.get("trace")}}})
    elif rep.get("crashed") and not (child.get("panics") or []):
        trace = rep.get("trace") or ""
        m = re.search(r"(fatal error: [^\n]*|panic: [^\n]*)", trace)
        where = _first_repo_fn(trace)
        ctx.fail("property-failure", "server process died under live reconfiguration (exit %s): %s in %s; last operations: %s"
                 % (rep.get("child_exit"), m.group(1) if m else "no panic message", where, " ; ".join(journal[-3:])),
                 finding_key="crash:" + where, failing_input_found=True,
                 detail={"case": {"id": "crashsearch-died-%d" % seed, "seed": seed,
                                  "desc": {"kind": "crash (panic in a goroutine the harness did not start; child process of the search died)",
                                           "seed": seed, "exit": rep.get("child_exit"), "operations_before": journal, "trace": trace}}})
    return res


def _lease_answers(ctx, outdir, seed, out):
    """TestVerifC05Lease (harness/dnsforward/zz_verif_C05lease_test.go): static-lease add / update /
    remove with hostile hostnames through the real dhcpd handlers, then PTR / A / AAAA queries through
    the socket of a real Server wired to that dhcpd server.  A query without a reply whose response
    does not pack in-process, or a reply that does not unpack, is a failure; replay = the journal of
    admin requests before the query."""
    rp = os.path.join(outdir, "c05_lease.json")
    if not os.path.exists(rp):
        ctx.fail("harness", "C05 lease harness left no report (c05_lease.json)", detail=out[-3000:])
        return {"ran": False}
    rep = json.load(open(rp))
    res = {"ran": True}
    res.update({k: rep.get(k) for k in ("admin_ops", "admin_ops_accepted", "queries", "ptr_answers_from_leases", "address_answers_from_leases",
                                        "udp_timeouts_not_judged_alone", "sequential_hostnames", "concurrent_admin_ops", "http_statuses")})
    journal = rep.get("first_failure_journal") or rep.get("journal_tail") or []
    seen = set()
    for i, m in enumerate(rep.get("malformed") or []):
        kind = ("stored-name-invalid" if m.startswith("stored lease name") else
                "name-exceeds-255-octets" if "exceeded 255" in m else
                "cannot-be-packed" if "cannot be packed" in m else "malformed")
        # one line per kind and hostname class is enough: the replay carries all of them
        sig = (kind, re.sub(r"hostname #\d+ ", "", m)[:60])
        if kind in seen:
            continue
        seen.add(kind)
        ctx.fail("property-failure", ("the DHCP lease table holds a name that DNS answers cannot carry: " if kind == "stored-name-invalid" else
                                      "query answered from a static lease without a well-formed response: ") + m[:600],
                 finding_key="lease-answer:" + kind, failing_input_found=True,
                 detail={"case": {"id": "lease-%s-%d" % (kind, seed), "seed": seed,
                                  "desc": {"kind": "lease name from the admin API in a DNS answer", "seed": seed, "what": m,
                                           "all_failures": rep.get("malformed"), "admin_requests_before": journal}}})
    for i, p in enumerate(rep.get("panics") or []):
        where = _first_repo_fn(p)
        ctx.fail("property-failure", "panic under live reconfiguration (static leases): %s in %s" % (p.splitlines()[0][:300], where),
                 finding_key="panic:" + where, failing_input_found=True,
                 detail={"case": {"id": "lease-panic-%d-%d" % (seed, i), "seed": seed,
                                  "desc": {"kind": "panic", "seed": seed, "panic": p, "admin_requests_before": journal}}})
    if rep.get("stalled"):
        ctx.fail("property-failure", "stall (static leases against DNS queries): workers did not finish", finding_key="stall", failing_input_found=True,
                 detail={"case": {"id": "lease-stall-%d" % seed, "seed": seed, "desc": {"kind": "stall", "goroutines": rep["stalled"], "admin_requests_before": journal}}})
    return res


def _child_died(ctx, rep, seed, what, ident):
    """A child of the round-5 searches that died before writing its report: a panic in a goroutine
    nobody can recover from."""
    trace = rep.get("trace") or ""
    m = re.search(r"(fatal error: [^\n]*|panic: [^\n]*)", trace)
    where = _first_repo_fn(trace)
    journal = rep.get("journal_tail") or []
    ctx.fail("property-failure", "server process died %s (exit %s): %s in %s; last operations: %s"
             % (what, rep.get("child_exit"), m.group(1) if m else "no panic message", where, " ; ".join(journal[-3:])),
             finding_key="crash:" + where, failing_input_found=True,
             detail={"case": {"id": "%s-died-%d" % (ident, seed), "seed": seed,
                              "desc": {"kind": "crash (panic in a goroutine the harness did not start; child process of the search died)",
                                       "seed": seed, "exit": rep.get("child_exit"), "operations_before": journal, "trace": trace}}})


def _child_common(ctx, rep, child, seed, ident, what):
    journal = rep.get("journal_tail") or []
    for i, p in enumerate(child.get("panics") or []):
        where = _first_repo_fn(p)
        head = p.splitlines()[0]
        msg = head.rsplit("]: ", 1)[-1] if "]: " in head else head
        ctx.fail("property-failure", "panic %s: %s in %s, at: %s" % (what, msg, where, head.split(" after [")[0][:300]),
                 finding_key="panic:" + where, failing_input_found=True,
                 detail={"case": {"id": "%s-panic-%d-%d" % (ident, seed, i), "seed": seed,
                                  "desc": {"kind": "panic (recovered in a harness goroutine; the child ended at once)", "seed": seed,
                                           "operations_before": journal, "panic": p}}})
    for i, m in enumerate((child.get("malformed") or [])[:3]):
        ctx.fail("property-failure", "in-flight query without a well-formed response: " + m[:600], finding_key="malformed", failing_input_found=True,
                 detail={"case": {"id": "%s-malformed-%d-%d" % (ident, seed, i), "seed": seed, "desc": {"kind": "malformed", "seed": seed, "what": m,
                                                                                                    "all": child.get("malformed")}}})


def _hostile_search(ctx, outdir, seed, out):
    """TestVerifC05Hostile, child 'hostile' (harness/dnsforward/zz_verif_C05hostile_test.go): hostile payload
    pools per admin operation through the real handlers, the probe names after every request, every
    operation with a deadline.  A stall is a failure only when a REPLAY of the journal in a fresh process
    stalls in the same operation (stalls_confirmed); candidates that do not reproduce are counted."""
    rp = os.path.join(outdir, "c05_hostile.json")
    if not os.path.exists(rp):
        ctx.fail("harness", "C05 hostile-data search left no report (c05_hostile.json)", detail=out[-3000:])
        return {"ran": False}
    rep = json.load(open(rp))
    child = rep.get("child") or {}
    res = {"ran": True, "child_exit": rep.get("child_exit"), "child_completed": rep.get("child_completed"), "millis": rep.get("millis"),
           "stall_candidates": len(child.get("stall_candidates") or []), "stalls_confirmed_by_replay": len(rep.get("stalls_confirmed") or []),
           "stall_candidates_not_reproduced_discarded": rep.get("stall_candidates_not_reproduced_discarded")}
    res.update({k: child.get(k) for k in ("scenarios", "scenarios_by_pool", "admin_ops", "admin_ops_accepted", "queries", "concurrent_phase_operations",
                                          "queries_upstream_exchange_failed_not_judged",
                                          # round 6: requests shaped after the ClientID extraction's ways (pool clientid)
                                          "shaped_request_outcomes")})
    _child_common(ctx, rep, child, seed, "hostile", "with hostile admin data")
    for i, cs in enumerate(rep.get("stalls_confirmed") or []):
        spin = _first_repo_fn(cs.get("goroutines_in_replay") or cs.get("goroutines") or "")
        jr = cs.get("admin_journal") or []
        before = "requests before it" if (cs.get("scenario") or "").startswith("clientid/") else "admin requests before it"
        ctx.fail("property-failure", "stall, reproduced by a sequential replay on a fresh server: %s has no result after the deadline (scenario %s); %s: %s"
                 % (cs.get("stalled_in_replay") or cs.get("operation"), cs.get("scenario"), before, " ; ".join(jr[-4:]) or "none"),
                 finding_key="stall:" + (cs.get("scenario") or "?").split("/")[0], failing_input_found=True,
                 detail={"case": {"id": "hostile-stall-%d-%d" % (seed, i), "seed": seed,
                                  "desc": {"kind": "stall (request path does not terminate for this configuration; the goroutine keeps its locks)",
                                           "seed": seed, "operation": cs.get("operation"), "scenario": cs.get("scenario"),
                                           "admin_journal": jr, "journal_is": cs.get("journal_is"), "first_repo_frame": spin,
                                           "goroutines": cs.get("goroutines"), "goroutines_in_replay": cs.get("goroutines_in_replay")}}})
    if rep.get("timed_out"):
        ctx.fail("property-failure", "stall: the hostile-data child did not finish within its budget although every operation has a deadline; goroutine dump in the replay",
                 finding_key="stall", failing_input_found=True,
                 detail={"case": {"id": "hostile-timeout-%d" % seed, "seed": seed, "desc": {"kind": "stall", "operations_before": rep.get("journal_tail"), "goroutines": rep.get("trace")}}})
    elif rep.get("crashed") and not (child.get("panics") or []):
        _child_died(ctx, rep, seed, "with hostile admin data", "hostile")
    return res


def _deps_search(ctx, outdir, seed, out):
    """TestVerifC05Hostile, child 'deps' (harness/dnsforward/zz_verif_C05deps_test.go): filter lists behind a
    list server with scripted outcomes per request, refresh through the real handler, the real updatesLoop
    and its timer arm, concurrent queries.  failures = swallowed panic of a background worker (log marker),
    worker gone (goroutine dump), asynchronous rebuild without effect."""
    rp = os.path.join(outdir, "c05_deps.json")
    if not os.path.exists(rp):
        ctx.fail("harness", "C05 dependency-failure search left no report (c05_deps.json)", detail=out[-3000:])
        return {"ran": False}
    rep = json.load(open(rp))
    child = rep.get("child") or {}
    res = {"ran": True, "child_exit": rep.get("child_exit"), "child_completed": rep.get("child_completed"), "millis": rep.get("millis"),
           "stall_candidates_not_reproduced_discarded": rep.get("stall_candidates_not_reproduced_discarded")}
    res.update({k: child.get(k) for k in ("refresh_passes", "passes_with_some_but_not_all_lists_failing", "periodic_pass_of_the_real_updates_loop_seen",
                                          "list_server_requests", "outcomes_scripted", "worker_checks", "rebuild_waits_that_hit_the_cap_once_not_judged",
                                          "queries", "admin_ops")})
    _child_common(ctx, rep, child, seed, "deps", "while filter lists fail to download")
    journal = rep.get("journal_tail") or []
    for i, f in enumerate(child.get("failures") or []):
        kind = ("worker-panic" if "panicked" in f else "worker-gone" if "no longer exists" in f else "rebuild-without-effect")
        ctx.fail("property-failure", "background worker under partial failure of the list downloads: " + f[:900],
                 finding_key="worker:" + kind, failing_input_found=True,
                 detail={"case": {"id": "deps-%s-%d-%d" % (kind, seed, i), "seed": seed,
                                  "desc": {"kind": kind, "seed": seed, "what": f, "operations_before": journal}}})
    if child.get("stalled_in") and rep.get("stall_reproduced_by_a_second_run"):
        ctx.fail("property-failure", "stall while filter lists fail to download, reproduced by a second run: %s has no result after the deadline" % child["stalled_in"],
                 finding_key="stall:deps", failing_input_found=True,
                 detail={"case": {"id": "deps-stall-%d" % seed, "seed": seed,
                                  "desc": {"kind": "stall", "operation": child["stalled_in"], "operations_before": journal, "goroutines": child.get("goroutines")}}})
    elif rep.get("timed_out"):
        ctx.fail("property-failure", "stall: the dependency-failure child did not finish within its budget; goroutine dump in the replay",
                 finding_key="stall", failing_input_found=True,
                 detail={"case": {"id": "deps-timeout-%d" % seed, "seed": seed, "desc": {"kind": "stall", "operations_before": journal, "goroutines": rep.get("trace")}}})
    elif rep.get("crashed") and not (child.get("panics") or []):
        _child_died(ctx, rep, seed, "while filter lists fail to download", "deps")
    return res


def _reverts(ctx):
    """Which of the two (lock table, -race stress) reports the revert of each repair commit;
    measured by corpus/C05/reverts.py, not re-measured per run."""
    path = os.path.join(ctx.VERIF, "corpus", "C05", "reverts.json")
    try:
        return json.load(open(path))
    except (OSError, ValueError):
        return "not measured (corpus/C05/reverts.json missing)"


def extra(ctx):
    path = os.path.join(ctx.VERIF, "work", "locktable.json")
    tag = os.environ.get("VERIF_WORK_TAG", "")
    if tag and os.path.exists(os.path.join(ctx.VERIF, "work", tag, "locktable.json")):
        # a tagged run (bin/try-seed, mutants) reads its own copy: the shared file may have been
        # regenerated by another check in the meantime
        path = os.path.join(ctx.VERIF, "work", tag, "locktable.json")
    if any(f["kind"] == "translator" for f in ctx.failures) or not os.path.exists(path):
        if not any(f["kind"] == "translator" for f in ctx.failures):
            ctx.fail("translator", "tools/locktable produced no table (work/locktable.json missing)")
        return
    tbl = json.load(open(path))
    accesses = tbl.get("accesses") or []
    orders = tbl.get("lock_order") or []
    unresolved = tbl.get("unresolved") or []
    known = set(tbl.get("known_keys") or [])

    # ---- accesses outside their guard, as Coq evaluates them
    pairs, nbadord, nbadgate, badbal, out = _coq_eval(ctx)
    if pairs is None:
        ctx.fail("proof", "evaluation of bad_accesses on the regenerated table failed", detail=out[-3000:])
        pairs, nbadord, nbadgate, badbal = [], None, None, None
    bykeypos = {}
    for a in accesses:
        bykeypos.setdefault((a["key"], a["pos"]), a)
    json_bad = {(a["key"], a["pos"]) for a in accesses if not a["ok"]}
    if set(pairs) != json_bad:
        ctx.fail("translator", "translator's own verdicts and the Coq evaluation of access_ok disagree on %d site(s)"
                 % len(set(pairs) ^ json_bad), detail=sorted(set(pairs) ^ json_bad)[:20])
    seen = set()
    n_bad_new = 0
    for i, (key, pos) in enumerate(sorted(set(pairs))):
        a = bykeypos.get((key, pos), {})
        if key not in known:
            n_bad_new += 1
        if key in seen:
            continue
        seen.add(key)
        what = "%s of %s in %s at %s without its guard %s%s (held: %s; reached from %s)" % (
            "write" if a.get("write") else "read", a.get("field", key.split("@")[0]), a.get("fn", "?"), pos,
            " + ".join(a.get("guard") or ["?"]), " in write mode" if a.get("write") else "", ", ".join(a.get("held") or []) or "nothing", a.get("root", "?"))
        ctx.fail("property-failure", what, finding_key=key, failing_input_found=True,
                 detail={"case": {"id": _hid("access", key), "desc": {"kind": "unguarded access", "key": key, "pos": pos,
                                                                   "access": a}}})

    # ---- lock order: cycles among the pairs that are not known findings
    def okey(o):
        return "%s<%s@%s" % (o["held"], o["acq"], o["fn"])
    live = [o for o in orders if okey(o) not in known]
    comp_of = {}
    for comp in _sccs([(o["held"], o["acq"]) for o in live]):
        for v in comp:
            comp_of[v] = (tuple(sorted(comp)), len(comp))
    bad_orders = [o for o in live
                  if o["held"] == o["acq"] or (comp_of[o["held"]][0] == comp_of[o["acq"]][0] and comp_of[o["held"]][1] > 1)]
    if nbadord is not None and (nbadord > 0) != (len(bad_orders) > 0):
        ctx.fail("translator", "cycle search and the Coq ranking check disagree (Coq: %d unranked pairs, hook: %d pairs on cycles)"
                 % (nbadord, len(bad_orders)))
    seen = set()
    for i, o in enumerate(bad_orders):
        k = okey(o)
        if k in seen:
            continue
        seen.add(k)
        cyc = [] if o["held"] == o["acq"] else list(comp_of[o["held"]][0])
        what = "%s acquires %s (%s) at %s while holding %s (%s): %s (reached from %s)" % (
            o["fn"], o["acq"], "write" if o["acq_w"] else "read", o["pos"], o["held"], "write" if o["held_w"] else "read",
            "re-entrant acquisition" if o["held"] == o["acq"] else "lock-order cycle among " + ", ".join(cyc), o["root"])
        ctx.fail("property-failure", what, finding_key=k, failing_input_found=True,
                 detail={"case": {"id": _hid("order", k), "desc": {"kind": "lock order", "key": k, "pair": o, "cycle": cyc}}})
    # known order findings still present: let the driver print them
    for o in orders:
        k = okey(o)
        if k in known and k not in seen:
            seen.add(k)
            ctx.fail("property-failure", "known lock-order finding still present at %s" % o["pos"], finding_key=k,
                     failing_input_found=True, detail={"case": {"id": "order-known", "desc": {"pair": o}}})

    # ---- gate-lock criterion on the acquisition sites (abstract locks included): a cycle of
    # sites that threads can occupy all at once (no common lock held exclusively by one of them)
    gate = tbl.get("gate_violations") or []
    if nbadgate is not None and (nbadgate > 0) != (len(gate) > 0):
        ctx.fail("translator", "cycle search on the acquisition sites and the Coq gate check disagree (Coq: %d sites fail, translator: %d cycles)"
                 % (nbadgate, len(gate)))

    def short(l):
        return l.split(".", 1)[1] if l.count(".") >= 2 else l
    for gv in gate:
        cyc = gv.get("cycle") or [gv["site"]]
        # cyc[i] acquires a lock that cyc[i+1] holds; the last one acquires a lock cyc[0] holds
        acqs = [c["acquires"].rsplit(":", 1)[0] for c in cyc]
        # one key per cycle whatever site it was found from: the smallest over its rotations
        k = min("%s<%s@%s" % (acqs[i - 1], acqs[i], cyc[i]["fn"]) for i in range(len(cyc)))
        if k in seen:
            continue
        seen.add(k)
        common = None
        for c in cyc:
            hs = {h.rsplit(":", 1)[0]: h.rsplit(":", 1)[1] for h in c["held"]}
            common = hs if common is None else {l: ("W" if "W" in (m, hs[l]) else "R") for l, m in common.items() if l in hs}
        steps = "; ".join("%s takes %s while holding %s (%s; all held: %s; reached from %s)" % (
            c["fn"], a, acqs[i - 1], c["pos"], ", ".join(c["held"]) or "nothing", c["root"]) for i, (a, c) in enumerate(zip(acqs, cyc)))
        what = ("lock-order cycle that no gate excludes: %s; %s" % (
            steps,
            ("locks common to all its sites: %s, held shared by all of them, so threads can be at these sites at the same time"
             % ", ".join("%s (%s)" % (l, m) for l, m in sorted(common.items())) if common else "its sites have no lock in common")))
        ctx.fail("property-failure", what, finding_key=k, failing_input_found=True,
                 detail={"case": {"id": _hid("gate", k), "desc": {"kind": "lock-order cycle not excluded by a gate lock", "key": k,
                                                                 "cycle": cyc, "judged_site": gv["site"],
                                                                 "abstract_locks": tbl.get("abstract_locks")}}})

    # ---- unresolved
    for i, u in enumerate(unresolved):
        ctx.fail("property-failure", "lock table: %s at %s could not be resolved by the translator (the discipline is not established there)"
                 % (u[0], u[1]), finding_key="unresolved:" + u[0], failing_input_found=True,
                 detail={"case": {"id": "unresolved-%d" % i, "desc": {"kind": "unresolved", "item": u}}})

    # ---- round 6: lock balance per function path (tools/locktable/balance.go).  A row = a path of ONE
    # function from an acquisition to a return / explicit panic that does not release the lock.
    bal = tbl.get("balance") or {}
    if not bal:
        ctx.fail("translator", "tools/locktable produced no balance section (old binary? rebuild tools/bin/locktable)")
    brows = [r for r in bal.get("rows") or [] if not r.get("allowed")]
    bunres = bal.get("unresolved") or []
    bad_fns = sorted({r["fn"] for r in brows})
    if badbal is not None and sorted(set(badbal)) != bad_fns:
        ctx.fail("translator", "balance: the translator's rows and the Coq evaluation of fn_ok disagree (Coq: %s; translator: %s)"
                 % (sorted(set(badbal))[:6], bad_fns[:6]))
    byfn = {f["fn"]: f for f in bal.get("functions") or []}
    seen = set()
    for r in brows:
        k = (r["class"], r["fn"], r["lock"], r["exit_pos"])
        if k in seen:
            continue
        seen.add(k)
        mode = "write" if r["w"] else "read"
        if r["class"] == "leak":
            consequence = ("the next Lock() of it waits for ever and, a pending writer blocking new readers, so does every later RLock(): DNS serving stalls"
                           if not r["w"] else "every later Lock() / RLock() of it waits for ever")
            what = "lock leak: %s acquires %s (%s) at %s and reaches the %s at %s without releasing it (its other exits release it); %s" % (
                r["fn"], r["lock"], mode, r["acq_pos"], r["exit_kind"], r["exit_pos"], consequence)
        elif r["class"] == "undeclared-handover":
            what = "lock balance: %s: %s (%s %s, %s at %s, %s at %s)" % (r["fn"], r["what"], r["lock"], mode, "first event", r["acq_pos"], r["exit_kind"], r["exit_pos"])
        elif r["class"] == "handover-mismatch":
            what = "lock balance: %s: %s (%s at %s)" % (r["fn"], r["what"], r["exit_kind"], r["exit_pos"])
        else:
            what = "lock balance undecided (%s): %s, %s (%s) acquired / released at %s, %s at %s: %s" % (
                r["class"], r["fn"], r["lock"], mode, r["acq_pos"], r["exit_kind"], r["exit_pos"], r["what"])
        f = byfn.get(r["fn"]) or {}
        ctx.fail("property-failure", what, finding_key="balance:" + r["key"], failing_input_found=True,
                 detail={"case": {"id": _hid("balance", "|".join(k)), "desc": {
                     "kind": "a path of one function from an acquisition to an exit that does not release the lock",
                     "row": r, "function_reached_from_a_root": r.get("reached"),
                     "all_exits_of_the_function": f.get("exits"),
                     "machine": "Props/C05.v, C05_leaked_read_lock_stalls: such a thread, one writer and one later reader reach a stuck, unfinished state"}}})
    for i, u in enumerate(bunres):
        ctx.fail("property-failure", "lock balance: %s at %s could not be decided by the translator (not whitelisted in tools/locktable/handover.json)"
                 % (u[0], u[1]), finding_key="balance-" + u[0], failing_input_found=True,
                 detail={"case": {"id": "balance-unresolved-%d" % i, "desc": {"kind": "unresolved-balance", "item": u}}})

    # ---- round 7: potentially blocking channel operations reachable with a lock held (chanops.go)
    chn = tbl.get("blocking_ops") or {}
    if "rows" not in chn:
        ctx.fail("translator", "tools/locktable produced no blocking_ops section (old binary? rebuild tools/bin/locktable)")
    crows = chn.get("rows") or []
    cbad = [r for r in crows if not r.get("reason")]
    seen = set()
    for r in cbad:
        if r["key"] in seen:
            continue
        seen.add(r["key"])
        same = [x for x in cbad if x["key"] == r["key"]]
        ctx.fail("property-failure", "blocking channel operation under a lock: %s performs a %s on %s at %s while holding %s (reached from %s%s); a goroutine "
                 "that waits there keeps those locks until the other side of the channel comes, and if that side needs one of them (a pending writer counts) nobody moves; "
                 "not justified in tools/locktable/handover.json (blocking_ok)"
                 % (r["fn"], r["op"], r["chan"], r["pos"], ", ".join(r["held"]), r["root"], "; %d more contexts" % (len(same) - 1) if len(same) > 1 else ""),
                 finding_key="blocking:" + r["key"], failing_input_found=True,
                 detail={"case": {"id": _hid("blocking", r["key"]), "desc": {"kind": "potentially blocking channel operation reachable with a non-empty must-held lock set",
                                                                            "contexts": same,
                                                                            "machine": "Props/C05.v, C05_blocking_send_under_lock_deadlocks"}}})

    # ---- search for a failing schedule
    stress = []
    if ctx.tier == "thorough":
        # every package under the race detector; the three packages side by side
        import concurrent.futures as cf

        def one(pkg):
            return [_stress(ctx, tbl, known, True, 10000, sd, pkg) for sd in (ctx.seed, ctx.seed + 1)]
        with cf.ThreadPoolExecutor(max_workers=3) as ex:
            for res in ex.map(one, sorted(STRESS_PKGS)):
                stress.extend(res)
    else:
        stress.append(_stress(ctx, tbl, known, False, 1500, ctx.seed))

    # ---- evidence
    present = {a["key"] for a in accesses} | {okey(o) for o in orders}
    checked_acc = [a for a in accesses if a["key"] not in known]
    acqs_all = tbl.get("acquisitions") or []
    n_exits = bal.get("exit_states_checked") or 0
    ctx.extra_obligations += len(checked_acc) + len(live) + 1 + len(acqs_all) + n_exits + 1 + len(crows) + 1
    ctx.extra_discharged += ((len(checked_acc) - n_bad_new) + (len(live) - len(bad_orders)) + (0 if unresolved else 1) + (len(acqs_all) - (nbadgate or 0))
                             + max(0, n_exits - len(brows)) + (0 if bunres else 1) + (len(crows) - len(cbad)) + (0 if cbad else 1))
    fields = sorted({a["field"] for a in accesses})
    ctx.extra_coverage.update({
        "exhaustive": False,
        "lock_table": {
            "roots": len(tbl.get("roots") or []),
            "roots_by_kind": {k: len([r for r in tbl.get("roots") or [] if r.startswith(k + ":")]) for k in ("dns", "http", "http-direct", "auth", "go", "dhcp")},
            "functions_reached": tbl.get("functions_reached"),
            "functions_in_repo_packages": tbl.get("functions_total"),
            "guarded_fields_declared": tbl.get("guarded_fields"),
            "guarded_fields_with_accesses": len(fields),
            "access_sites": len(accesses),
            "access_sites_checked": len(checked_acc),
            "writes": len([a for a in accesses if a["write"]]),
            "acquired_while_held_pairs": len(orders),
            "pairs_checked": len(live),
            "unresolved": len(unresolved),
            "known_findings_listed": sorted(known),
            # Props/C05.v, C05_current_source_safe(_now): no race and no deadlock for threads conforming
            # to the WHOLE table + acyclic order, in force when nothing is listed
            "whole_table_theorem_in_force": not known,
            # round 4: external blocking resources as abstract locks + gate-lock criterion
            "abstract_locks": tbl.get("abstract_locks") or {},
            "acquisition_sites": len(acqs_all),
            "acquisition_sites_with_an_abstract_lock": len([x for x in acqs_all if x["acq"] in (tbl.get("abstract_locks") or {})
                                                            or any(h.rsplit(":", 1)[0] in (tbl.get("abstract_locks") or {}) for h in x.get("held") or [])]),
            "sites_outside_the_global_ranking_judged_against_compatible_sites": tbl.get("acquisitions_outside_rank_hint") or [],
            "gate_violations": len(gate),
            "bbolt_read_transactions_left_out": tbl.get("bbolt_read_transactions_left_out") or {},
            "atomic_fields": tbl.get("atomic_fields") or [],
            "fresh_receiver_helpers": sorted((tbl.get("fresh_receiver_helpers") or {}).keys()),
            "fresh_receiver_accesses_skipped": sorted((tbl.get("fresh_receiver_accesses_skipped") or {}).keys()),
            "known_findings_still_present": sorted(known & present),
            "known_findings_no_longer_present": sorted(known - present),
            # round 7: potentially blocking channel operations reachable with a lock held
            "blocking_ops_under_a_lock": {
                "sites": len(crows), "not_justified": len(cbad),
                "justified": sorted({(r["key"], r["reason"][:160]) for r in crows if r.get("reason")}),
                "justifications_not_needed": chn.get("blocking_ok_entries_not_needed") or [],
            },
            # round 6: lock balance per function path
            "balance": {
                "functions_analysed": bal.get("functions_analysed"),
                "functions_with_lock_events": bal.get("functions_with_lock_events"),
                "exit_states_checked": n_exits,
                "of_which_at_explicit_panics": bal.get("panic_exits_checked"),
                "rows_not_balanced": len(brows),
                "unresolved": len(bunres),
                "declared_handovers": [{"fn": h.get("fn"), "releases": h.get("releases"), "acquires": h.get("acquires")} for h in bal.get("handovers_declared") or []],
                "declared_handovers_not_called": bal.get("handovers_declared_but_not_called") or [],
                "closures_whose_effects_count_in_their_callers": bal.get("closures_whose_effects_count_in_their_callers") or [],
                "whitelist_entries_used": bal.get("allowed_entries_used") or [],
                "whitelist_entries_not_needed": bal.get("allowed_entries_not_needed") or [],
            },
        },
        "stress": stress,
        "reverted_repairs": _reverts(ctx),
        "stress_known_access_findings_not_reproduced": (sorted(
            k for k in known & present if "<" not in k
            and not any(k in (x.get("known_access_findings_reproduced") or {}) for x in stress))
            if any(x.get("race_detector") for x in stress) else "n/a (quick tier: no race detector)"),
        "evaluations": sum((x.get("queries") or 0) + (x.get("admin_ops") or 0)
                           + sum((x.get("crash_search") or {}).get(k) or 0 for k in ("queries", "admin_ops", "client_edit_steps"))
                           + sum((x.get("lease_answers") or {}).get(k) or 0 for k in ("queries", "admin_ops"))
                           + sum((x.get("hostile_admin_data") or {}).get(k) or 0 for k in ("queries", "admin_ops"))
                           + sum((x.get("dependency_failures") or {}).get(k) or 0 for k in ("queries", "admin_ops", "refresh_passes")) for x in stress),
        "samples": [{"root": a["root"], "fn": a["fn"], "field": a["field"], "write": a["write"], "held": a["held"], "pos": a["pos"]}
                    for a in accesses[:: max(1, len(accesses) // 5)][:5]],
    })

"""C05 hook: turns the regenerated lock table into findings.

The theorem C05_discipline_holds (Props/C05.v) is the check; this hook says
WHICH access site or lock pair breaks it, by evaluating the same Coq
definitions (access_ok, bad_accesses) on the regenerated table, and fills the
evidence.  Known findings (KNOWN_FINDINGS.txt keys) are reported too; the
driver prints them as KNOWN-FINDING lines.
"""
import json
import os
import re


def _coq_eval(ctx):
    src = os.path.join(ctx.workdir, "c05_report.v")
    with open(src, "w") as f:
        f.write("From Coq Require Import List String Bool.\n"
                "From AGH Require Import Base.Conc Model.Guards Proofs.LockTable Gen.LockTable.\n"
                "Set Printing Depth 1000000.\n"
                "Definition BADACC := Eval vm_compute in map (fun a => (access_key a, a_pos a)) "
                "(filter (fun a => negb (access_ok a)) accesses).\nPrint BADACC.\n"
                "Definition NBADORD := Eval vm_compute in List.length (bad_orders (rank_of (computed_ranks "
                "(checked_order known_keys lock_order))) known_keys lock_order).\nPrint NBADORD.\n")
    rc, out = ctx.run(["coqc", "-Q", ctx.COQ, "AGH", "-w", "none", src], cwd=ctx.workdir, timeout=900)
    if rc != 0:
        return None, None, out
    flat = " ".join(out.split())
    m = re.search(r"BADACC = (.*?) : list", flat)
    n = re.search(r"NBADORD = (\d+)", flat)
    if not m or not n:
        return None, None, out
    pairs = re.findall(r'\("([^"]*)"(?:%string)?,\s*"([^"]*)"(?:%string)?\)', m.group(1))
    return pairs, int(n.group(1)), out


def _sccs(edges):
    """Tarjan; returns the list of strongly connected components."""
    graph = {}
    for a, b in edges:
        graph.setdefault(a, set()).add(b)
        graph.setdefault(b, set())
    index, low, on, stack, res, counter = {}, {}, set(), [], [], [0]

    def visit(v):
        work = [(v, iter(sorted(graph[v])))]
        index[v] = low[v] = counter[0]
        counter[0] += 1
        stack.append(v)
        on.add(v)
        while work:
            node, it = work[-1]
            advanced = False
            for w in it:
                if w not in index:
                    index[w] = low[w] = counter[0]
                    counter[0] += 1
                    stack.append(w)
                    on.add(w)
                    work.append((w, iter(sorted(graph[w]))))
                    advanced = True
                    break
                elif w in on:
                    low[node] = min(low[node], index[w])
            if advanced:
                continue
            work.pop()
            if work:
                low[work[-1][0]] = min(low[work[-1][0]], low[node])
            if low[node] == index[node]:
                comp = []
                while True:
                    w = stack.pop()
                    on.discard(w)
                    comp.append(w)
                    if w == node:
                        break
                res.append(comp)

    for v in sorted(graph):
        if v not in index:
            visit(v)
    return res


def extra(ctx):
    path = os.path.join(ctx.VERIF, "work", "locktable.json")
    if any(f["kind"] == "translator" for f in ctx.failures) or not os.path.exists(path):
        if not any(f["kind"] == "translator" for f in ctx.failures):
            ctx.fail("translator", "tools/locktable produced no table (work/locktable.json missing)")
        return
    tbl = json.load(open(path))
    accesses = tbl.get("accesses") or []
    orders = tbl.get("lock_order") or []
    unresolved = tbl.get("unresolved") or []
    known = set(tbl.get("known_keys") or [])

    # ---- accesses outside their guard, as Coq evaluates them
    pairs, nbadord, out = _coq_eval(ctx)
    if pairs is None:
        ctx.fail("proof", "evaluation of bad_accesses on the regenerated table failed", detail=out[-3000:])
        pairs, nbadord = [], None
    bykeypos = {}
    for a in accesses:
        bykeypos.setdefault((a["key"], a["pos"]), a)
    json_bad = {(a["key"], a["pos"]) for a in accesses if not a["ok"]}
    if set(pairs) != json_bad:
        ctx.fail("translator", "translator's own verdicts and the Coq evaluation of access_ok disagree on %d site(s)"
                 % len(set(pairs) ^ json_bad), detail=sorted(set(pairs) ^ json_bad)[:20])
    seen = set()
    n_bad_new = 0
    for i, (key, pos) in enumerate(sorted(set(pairs))):
        a = bykeypos.get((key, pos), {})
        if key not in known:
            n_bad_new += 1
        if key in seen:
            continue
        seen.add(key)
        what = "%s of %s in %s at %s without its guard %s%s (held: %s; reached from %s)" % (
            "write" if a.get("write") else "read", a.get("field", key.split("@")[0]), a.get("fn", "?"), pos,
            " + ".join(a.get("guard") or ["?"]), " in write mode" if a.get("write") else "", ", ".join(a.get("held") or []) or "nothing", a.get("root", "?"))
        ctx.fail("property-failure", what, finding_key=key, failing_input_found=True,
                 detail={"case": {"id": "access-%d" % i, "desc": {"kind": "unguarded access", "key": key, "pos": pos,
                                                                   "access": a}}})

    # ---- lock order: cycles among the pairs that are not known findings
    def okey(o):
        return "%s<%s@%s" % (o["held"], o["acq"], o["fn"])
    live = [o for o in orders if okey(o) not in known]
    comp_of = {}
    for comp in _sccs([(o["held"], o["acq"]) for o in live]):
        for v in comp:
            comp_of[v] = (tuple(sorted(comp)), len(comp))
    bad_orders = [o for o in live
                  if o["held"] == o["acq"] or (comp_of[o["held"]][0] == comp_of[o["acq"]][0] and comp_of[o["held"]][1] > 1)]
    if nbadord is not None and (nbadord > 0) != (len(bad_orders) > 0):
        ctx.fail("translator", "cycle search and the Coq ranking check disagree (Coq: %d unranked pairs, hook: %d pairs on cycles)"
                 % (nbadord, len(bad_orders)))
    seen = set()
    for i, o in enumerate(bad_orders):
        k = okey(o)
        if k in seen:
            continue
        seen.add(k)
        cyc = [] if o["held"] == o["acq"] else list(comp_of[o["held"]][0])
        what = "%s acquires %s (%s) at %s while holding %s (%s): %s (reached from %s)" % (
            o["fn"], o["acq"], "write" if o["acq_w"] else "read", o["pos"], o["held"], "write" if o["held_w"] else "read",
            "re-entrant acquisition" if o["held"] == o["acq"] else "lock-order cycle among " + ", ".join(cyc), o["root"])
        ctx.fail("property-failure", what, finding_key=k, failing_input_found=True,
                 detail={"case": {"id": "order-%d" % i, "desc": {"kind": "lock order", "key": k, "pair": o, "cycle": cyc}}})
    # known order findings still present: let the driver print them
    for o in orders:
        k = okey(o)
        if k in known and k not in seen:
            seen.add(k)
            ctx.fail("property-failure", "known lock-order finding still present at %s" % o["pos"], finding_key=k,
                     failing_input_found=True, detail={"case": {"id": "order-known", "desc": {"pair": o}}})

    # ---- unresolved
    for i, u in enumerate(unresolved):
        ctx.fail("property-failure", "lock table: %s at %s could not be resolved by the translator (the discipline is not established there)"
                 % (u[0], u[1]), finding_key="unresolved:" + u[0], failing_input_found=True,
                 detail={"case": {"id": "unresolved-%d" % i, "desc": {"kind": "unresolved", "item": u}}})

    # ---- evidence
    present = {a["key"] for a in accesses} | {okey(o) for o in orders}
    checked_acc = [a for a in accesses if a["key"] not in known]
    ctx.extra_obligations += len(checked_acc) + len(live) + 1
    ctx.extra_discharged += (len(checked_acc) - n_bad_new) + (len(live) - len(bad_orders)) + (0 if unresolved else 1)
    fields = sorted({a["field"] for a in accesses})
    ctx.extra_coverage.update({
        "exhaustive": False,
        "lock_table": {
            "roots": len(tbl.get("roots") or []),
            "roots_by_kind": {k: len([r for r in tbl.get("roots") or [] if r.startswith(k + ":")]) for k in ("dns", "http", "go", "dhcp")},
            "functions_reached": tbl.get("functions_reached"),
            "functions_in_repo_packages": tbl.get("functions_total"),
            "guarded_fields_declared": tbl.get("guarded_fields"),
            "guarded_fields_with_accesses": len(fields),
            "access_sites": len(accesses),
            "access_sites_checked": len(checked_acc),
            "writes": len([a for a in accesses if a["write"]]),
            "acquired_while_held_pairs": len(orders),
            "pairs_checked": len(live),
            "unresolved": len(unresolved),
            "known_findings_listed": sorted(known),
            "known_findings_still_present": sorted(known & present),
            "known_findings_no_longer_present": sorted(known - present),
        },
        "samples": [{"root": a["root"], "fn": a["fn"], "field": a["field"], "write": a["write"], "held": a["held"], "pos": a["pos"]}
                    for a in accesses[:: max(1, len(accesses) // 5)][:5]],
    })

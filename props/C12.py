"""C12 hook: names what tools/routes found when the limiter keys of
handleLogin / newCookie are no longer the TCP peer address (the table theorem
C12_limiter_keys_code then fails with a bare unification error).  The concrete
failing input is found by the harness (handleLogin histories with proxy
headers naming addresses inside trusted_proxies)."""
import json
import os


def extra(ctx):
    gen = os.path.join(ctx.COQ, "Gen", "routes.json")
    if not os.path.exists(gen):
        ctx.fail("translator", "coq/Gen/routes.json is missing: tools/routes did not run")
        return
    lg = (json.load(open(gen)).get("login")) or {}
    ctx.extra_coverage["limiter_keys"] = {"check": lg.get("check_key"), "count": lg.get("count_key"), "at": lg.get("pos")}
    ctx.extra_obligations += 2
    bad = [k for k in ("check_key", "count_key") if not (lg.get("found") and lg.get(k) == "Peer")]
    ctx.extra_discharged += 2 - len(bad)
    if bad:
        why = "; ".join(lg.get("notes") or []) or "the idiom of handleLogin / newCookie was not recognised"
        ctx.failures.insert(0, {
            "kind": "proof",
            "what": "C12_limiter_keys_code fails: the limiter is no longer asked about and updated under the address of the TCP peer "
                    "(netutil.SplitHost(r.RemoteAddr)): " + why + " (see C12_key_mismatch_refuted for what a header-derived key allows)",
            "detail": lg, "finding_key": "limiter-keys:" + ",".join(bad), "failing_input_found": False})
    sk = (json.load(open(gen)).get("sessions")) or {}
    flags = ["check_as_sent", "remove_as_sent", "remove_decodes", "cookie_value"]
    ctx.extra_coverage["session_keys"] = {k: sk.get(k) for k in flags}
    ctx.extra_obligations += len(flags)
    badk = [k for k in flags if not (sk.get("found") and sk.get(k))]
    ctx.extra_discharged += len(flags) - len(badk)
    if badk:
        why = "; ".join(sk.get("notes") or []) or "the idiom of checkSession / removeSession was not recognised"
        ctx.failures.insert(0, {
            "kind": "proof",
            "what": "C12_session_keys_code fails: the session table is no longer keyed the way Model/Session.v says (map by the cookie string "
                    "as sent on both the check and the removal side, bucket by its hex decoding): " + why + " (see C12_key_slips_refuted)",
            "detail": sk, "finding_key": "session-keys:" + ",".join(badk), "failing_input_found": False})
    lm = (json.load(open(gen)).get("limiter")) or {}
    lflags = ["cond_both_positive", "built_from_config", "reaches_auth", "ctor_stores_params", "ttl_is_one_minute"]
    ctx.extra_coverage["limiter_construction"] = dict({k: lm.get(k) for k in lflags}, cond=lm.get("cond"), at=lm.get("pos"))
    ctx.extra_obligations += len(lflags)
    badl = [k for k in lflags if not (lm.get("found") and lm.get(k))]
    ctx.extra_discharged += len(lflags) - len(badl)
    if badl:
        why = "; ".join(lm.get("notes") or []) or "the idiom of initUsers / InitAuth / newAuthRateLimiter was not recognised"
        ctx.failures.insert(0, {
            "kind": "proof",
            "what": "C12_limiter_construction_code fails: home.go initUsers no longer builds the login limiter the way Model/RateLimit.v mk_limiter says "
                    "(present iff auth_attempts > 0 and block_auth_min > 0, block_auth_min minutes, auth_attempts as the limit, stored in Auth.rateLimiter): "
                    + why + " (see C12_limiter_condition_slip_refuted for what a narrower condition allows)",
            "detail": lm, "finding_key": "limiter-construction:" + ",".join(badl), "failing_input_found": False})
    ctx.trusted.append("tools/routes (go/types): reads the arguments of rateLimiter.check / newCookie / inc / remove off handleLogin and "
                       "newCookie; an unrecognised idiom yields None, which C12_limiter_keys_code rejects")

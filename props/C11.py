"""C11 hook: names the routes / bindings / muxes / servers that make the table
theorem C11_all_routes_guarded fail on the current tree, and reports the size
of the table as coverage.  The concrete failing input (an unauthenticated
request that reaches the handler) is searched for by the harness, which probes
every route of coq/Gen/routes.json on the real mux without credentials."""
import json
import os
import re


def _indices(out, name):
    flat = " ".join(out.split())
    m = re.search(r"%s = (\[.*?\]|nil)\s*:" % name, flat)
    if not m:
        return None
    body = m.group(1)
    return [int(x) for x in re.findall(r"\d+", body)] if body not in ("[]", "nil") else []


def extra(ctx):
    # coq/Gen is shared with every other run in this tree (other properties,
    # runs against a scratch worktree or an overlay) and the "gen" lock is
    # released once the theorems are built: the table this hook names entries
    # of is extracted once more, into the work directory of this run.
    priv = os.path.join(ctx.workdir, "gen")
    pgen = os.path.join(priv, "coq", "Gen")
    os.makedirs(pgen, exist_ok=True)
    env = ctx.go_env()
    env.update({"VERIF_REPO": ctx.REPO, "VERIF_DIR": priv})
    rc, out = ctx.run([os.path.join(ctx.VERIF, "tools", "bin", "routes")], cwd=ctx.VERIF, env=env, timeout=600)
    gen = os.path.join(pgen, "routes.json")
    if rc != 0 or not os.path.exists(gen):
        ctx.fail("translator", "the route translator failed in the hook: " + " ".join(out.split())[-300:])
        return
    rc, out = ctx.run(["coqc", "-Q", ctx.COQ, "AGH", "-Q", pgen, "C11Priv", "-w", "none", os.path.join(pgen, "Routes.v")], cwd=pgen, timeout=600)
    if rc != 0:
        ctx.fail("proof", "the extracted route table does not compile: " + " ".join(out.split())[:300], detail=out[-2000:])
        return
    rc, out = ctx.run(["coqc", "-Q", ctx.COQ, "AGH", "-Q", pgen, "C11Priv", "-w", "none", os.path.join(pgen, "RoutesMux.v")], cwd=pgen, timeout=600)
    if rc != 0:
        ctx.fail("proof", "the extracted mux table does not compile: " + " ".join(out.split())[:300], detail=out[-2000:])
        return
    tab = json.load(open(gen))
    routes = tab["routes"]
    kinds = {}
    for r in routes:
        kinds[r["kind"]] = kinds.get(r["kind"], 0) + 1
    ctx.extra_coverage["route_table"] = {
        "routes": len(routes), "by_kind": kinds, "register_bindings": len(tab["bindings"]),
        "muxes": len(tab["muxes"]), "servers": len(tab["servers"]),
        "httpRegister_chain": [w["kind"] + (" " + w["arg"] if w.get("arg") else "") for w in (tab["reg_method"] or [])],
    }
    ctx.extra_obligations += len(routes)
    ctx.trusted.append("tools/routes (go/packages + go/types): recognises route registrations by the TYPE of the callee "
                       "(aghhttp.RegisterFunc, home.httpRegister, (*http.ServeMux).Handle/HandleFunc); anything it cannot "
                       "resolve becomes an Unresolved entry, which the table theorem rejects; GOOS=linux and GOOS=windows builds, merged")

    src = os.path.join(ctx.workdir, "c11_offending.v")
    with open(src, "w") as f:
        f.write("From AGH Require Import Base.Run Model.AuthHttp Proofs.AuthHttp.\nFrom C11Priv Require Import Routes.\n"
                "Definition idx {A} (ok : A -> bool) (l : list A) : list nat :=\n"
                "  map fst (List.filter (fun p => negb (ok (snd p))) (combine (seq 0 (length l)) l)).\n"
                "Definition OR := Eval vm_compute in idx (route_ok reg_empty reg_method) routes.\nPrint OR.\n"
                "Definition OB := Eval vm_compute in idx binding_ok bindings.\nPrint OB.\n"
                "Definition OM := Eval vm_compute in idx mux_ok muxes.\nPrint OM.\n"
                "Definition OS := Eval vm_compute in idx server_ok servers.\nPrint OS.\n"
                "From AGH Require Import Proofs.AuthCreds.\n"
                "Definition ON := Eval vm_compute in idx (fun rt => exception rt || blind_before_auth (chain_of reg_method rt)) routes.\nPrint ON.\n"
                "From AGH Require Import Proofs.AuthMethod.\n"
                "Definition OC := Eval vm_compute in idx route_method_ok routes.\nPrint OC.\n"
                "From AGH Require Import Model.AuthLife Proofs.AuthLife.\n"
                "Definition OA := Eval vm_compute in idx (route_after_setup_ok reg_method) routes.\nPrint OA.\n"
                "From AGH Require Import Model.AuthMux.\nFrom C11Priv Require Import RoutesMux.\n"
                "Definition OX := Eval vm_compute in idx row_private mux_rows.\nPrint OX.\n"
                "Definition OE := Eval vm_compute in idx escape_ok mux_escapes.\nPrint OE.\n")
    rc, out = ctx.run(["coqc", "-Q", ctx.COQ, "AGH", "-Q", pgen, "C11Priv", "-w", "none", src], cwd=ctx.workdir, timeout=600)
    if rc != 0:
        ctx.fail("proof", "the route table could not be evaluated: " + " ".join(out.split())[:300], detail=out[-2000:])
        return
    found = []
    mx = tab.get("mux") or {}
    regs = mx.get("default_registrants") or []
    ctx.extra_coverage["mux_identity"] = {
        "servers": [{"pos": r["pos"], "mux": r["mux"], "kind": r["kind"]} for r in mx.get("rows") or []],
        "escapes": ["%s -> %s at %s" % (e["mux"], e["callee"], e["pos"]) for e in mx.get("escapes") or []],
        "default_mux_mentions": mx.get("default_mentions") or [], "pprof_calls": mx.get("pprof_calls") or [],
        "deps_files_scanned": mx.get("deps_scanned"),
        "packages_registering_on_DefaultServeMux": ["%s (%s, %s): %s" % (r["pkg"], r["pos"], "init" if r["in_init"] else "func " + r["func"], " ".join(r["patterns"])) for r in regs],
    }
    ctx.extra_obligations += len(mx.get("rows") or []) + len(mx.get("escapes") or []) + 2
    onmux = "; ".join("%s registers %s in %s (%s)" % (r["pkg"], ", ".join(r["patterns"]), "an init function" if r["in_init"] else "func " + r["func"], r["pos"]) for r in regs) \
        or "no linked package registers on it today, any future dependency may"
    lists = {"OR": routes, "OB": tab["bindings"], "OM": tab["muxes"], "OS": tab["servers"], "ON": routes, "OC": routes, "OA": routes,
             "OX": mx.get("rows") or [], "OE": mx.get("escapes") or []}
    for name, items in lists.items():
        ix = _indices(out, name)
        if ix is None:
            ctx.fail("proof", "could not read %s from the table evaluation" % name, detail=out[-1000:])
            return
        for i in ix:
            it = items[i]
            if name == "OR":
                chain = " ".join(w["kind"] for w in (it.get("chain") or [])) or "-"
                found.append({"what": "route %s %s registered at %s (%s%s, mux %s, chain: %s) is not behind the guarded chain and is not a listed exception"
                                      % (it.get("method") or "*", it["pattern"], it["pos"], it["kind"],
                                         ": " + it["why"] if it.get("why") else "", it.get("mux"), chain),
                              "detail": it, "key": "route:" + it["pattern"]})
            elif name == "ON":
                chain = " ".join(w["kind"] for w in (it.get("chain") or [])) or "-"
                found.append({"what": "route %s %s registered at %s (chain: %s): a wrapper that reads the method or a header stands in front of optionalAuth, "
                                      "so the refusal of an unauthenticated request may depend on them"
                                      % (it.get("method") or "*", it["pattern"], it["pos"], chain),
                              "detail": it, "key": "route-not-blind:" + it["pattern"]})
            elif name == "OC":
                decl = it.get("method") or " ".join(w.get("arg") or "" for w in (it.get("chain") or []) if w["kind"] == "Ensure") or "-"
                found.append({"what": "route %s registered at %s declares the method %r / the pattern %r: a declared method must be GET, POST, PUT or DELETE "
                                      "(ensure decides state-changing by modifiesData on exactly POST/PUT/DELETE: any other spelling gets neither the JSON "
                                      "gate nor the control lock) and a pattern must be a plain path (a method inside the pattern makes the mux answer 405 before the guard)"
                                      % (it["pattern"], it["pos"], decl, it["pattern"]),
                              "detail": it, "key": "route-method:" + it["pattern"]})
            elif name == "OA":
                chain = " ".join(w["kind"] for w in (it.get("chain") or [])) or "-"
                found.append({"what": "route %s %s registered at %s (chain: %s): after set-up (firstRun false, an account exists) it is neither closed by preInstall "
                                      "nor guarded nor one of the five routes that are meant to be open (login, mobileconfig, /dns-query); a pattern of the wizard "
                                      "(/install.html, /control/install/...) must have preInstall in front"
                                      % (it.get("method") or "*", it["pattern"], it["pos"], chain),
                              "detail": it, "key": "route-after-setup:" + it["pattern"]})
            elif name == "OB":
                found.append({"what": "a RegisterFunc value is bound to %s at %s, which is not home.httpRegister" % (it["text"], it["pos"]),
                              "detail": it, "key": "binding:" + it["pos"]})
            elif name == "OX":
                how = {"default": "which is http.DefaultServeMux", "nil": "i.e. no handler of its own: net/http serves http.DefaultServeMux",
                       "unknown": "whose origin the translator cannot establish", "fresh": "a fresh mux, but neither the admin mux nor the loopback profiling mux"}[it["kind"]]
                found.append({"what": "the server at %s (%s in %s, listening on %s) serves the mux %s, %s%s; on the process-global default mux: %s: "
                                      "such paths are answered on that server without any wrapper of package home in front (see C11_default_mux_refuted)"
                                      % (it["pos"], it["what"], it["func"], it.get("addr") or "?", it["mux"], how,
                                         " (" + it["why"] + ")" if it.get("why") else "", onmux),
                              "detail": it, "key": "mux-not-private:" + it["pos"]})
            elif name == "OE":
                found.append({"what": "the mux %s is handed to %s at %s (in %s): that code can register handlers on it which no wrapper of package home stands in front of; "
                                      "only the profiling server's own mux may go to httputil.RoutePprof" % (it["mux"], it["callee"], it["pos"], it["func"]),
                              "detail": it, "key": "mux-escape:" + it["pos"]})
            elif name == "OM":
                found.append({"what": "an http.ServeMux is created at %s in %s (assigned to %s): not the admin mux nor the profiling mux"
                                      % (it["Pos"], it["Func"], it["Target"]), "detail": it, "key": "mux:" + it["Pos"]})
            else:
                found.append({"what": "the server at %s (%s, listening on %s) serves %s: neither the admin mux alone nor the profiling mux on localhost"
                                      % (it["pos"], it["what"], it.get("addr") or "?", ", ".join(it["leaves"])),
                              "detail": it, "key": "server:" + it["pos"]})
    for m in mx.get("default_mentions") or []:
        found.append({"what": "the module mentions http.DefaultServeMux at %s; on that mux: %s" % (m, onmux), "detail": m, "key": "mux-default-mention:" + m.split(" ")[0]})
    if not mx.get("pprof_guarded") and any(r["func"].endswith(".startPprof") for r in mx.get("rows") or []):
        found.append({"what": "the profiling server (runtime profiles without authentication on the loopback address) is not started under `if ...Pprof.Enabled` only: " + "; ".join(mx.get("pprof_calls") or ["no call of startPprof found"]),
                      "detail": mx.get("pprof_calls"), "key": "mux-pprof-unguarded"})
    if not any(r["mux"] == "globalContext.mux" for r in mx.get("rows") or []):
        found.append({"what": "no server of the module serves globalContext.mux any more: the translator does not know where the admin routes are served", "detail": None, "key": "mux-no-admin-server"})
    exp = ["PostInstall", "OptionalAuth", "Gzip", "Ensure"]
    got = [w["kind"] for w in (tab["reg_method"] or [])]
    if got != exp or [w["kind"] for w in (tab["reg_empty"] or [])] != ["PostInstall"]:
        found.append({"what": "home.httpRegister no longer builds the chain postInstall(optionalAuth(gzip(ensure(method, h)))): it builds %s (and %s for the empty method)"
                              % (got, [w["kind"] for w in (tab["reg_empty"] or [])]), "detail": tab["reg_method"], "key": "httpRegister-chain"})
    su = tab.get("startup") or {}
    flags = ["nil_checked", "fail_ret_err", "run_fatal", "fatal_exits", "assigns_ok"]
    ctx.extra_coverage["startup_glue"] = {k: su.get(k) for k in flags + ["assigns", "init_users_pos", "run_assign_pos"]}
    ctx.extra_obligations += len(flags)
    bad = [k for k in flags if not (su.get("found") and su.get(k))]
    ctx.extra_discharged += len(flags) - len(bad)
    if bad:
        why = "; ".join(su.get("notes") or []) or "the start-up idiom was not recognised (%s)" % ", ".join(bad)
        found.append({"what": "start-up glue: " + why + ": with users configured and an unreadable data/sessions.db the server "
                              "would start with globalContext.auth == nil and optionalAuth lets every request through "
                              "(C11_startup_code fails; see C11_startup_slips_refuted)",
                      "detail": su, "key": "startup:" + ",".join(bad)})
    # round 5: when do the wrapper constructors look at the state?
    wl = (tab.get("life") or {}).get("wrappers") or []
    ctx.extra_coverage["wrapper_constructors"] = {w["name"]: w["lazy"] for w in wl}
    ctx.extra_obligations += len(wl)
    need = {"postInstall", "preInstall", "optionalAuth", "ensure"}
    for w in wl:
        if w["lazy"]:
            ctx.extra_discharged += 1
        else:
            found.append({"what": "wrapper constructor %s (%s): %s: a route wrapped during the first run (or before an account exists) keeps that decision "
                                  "after the wizard has completed (see C11_wrap_time_decision_refuted)"
                                  % (w["name"], w.get("pos") or "?", w.get("note") or "not recognised as lazy"),
                          "detail": w, "key": "wrapper-not-lazy:" + w["name"]})
    for n in sorted(need - {w["name"] for w in wl}):
        found.append({"what": "wrapper constructor %s was not found in package home" % n, "detail": None, "key": "wrapper-not-lazy:" + n})
    cc = (tab.get("life") or {}).get("configure") or {}
    cflags = ["order", "err_branches", "no_other_write", "writers_ok"]
    ctx.extra_coverage["configure_skeleton"] = {k: cc.get(k) for k in cflags + ["first_run_writers", "pos"]}
    ctx.extra_obligations += len(cflags)
    cbad = [k for k in cflags if not (cc.get("found") and cc.get(k))]
    ctx.extra_discharged += len(cflags) - len(cbad)
    if cbad:
        found.append({"what": "handleInstallConfigure / writers of globalContext.firstRun: " + ("; ".join(cc.get("notes") or []) or "idiom not recognised (%s)" % ", ".join(cbad)),
                      "detail": cc, "key": "configure:" + ",".join(cbad)})
    ctx.extra_discharged += len(mx.get("rows") or []) + len(mx.get("escapes") or []) + 2 - len([f for f in found if f["key"].startswith("mux-")])
    if not found:
        ctx.extra_discharged += len(routes)
        return
    ctx.extra_discharged += len(routes) - len([f for f in found if f["key"].startswith("route:")])
    # put the precise statements first, so that the replay file names them
    fails = [{"kind": "proof", "what": ("C11_startup_code fails: " if f["key"].startswith("startup:") else "C11_routes_refusal_uniform fails: " if f["key"].startswith("route-not-blind:") else "C11_routes_methods_canonical fails: " if f["key"].startswith("route-method:") else "C11_wrappers_code fails: " if f["key"].startswith("wrapper-not-lazy:") else "C11_configure_code fails: " if f["key"].startswith("configure:") else "C11_routes_after_setup fails: " if f["key"].startswith("route-after-setup:") else "C11_admin_muxes_private fails: " if f["key"].startswith("mux-") else "C11_all_routes_guarded fails: ") + f["what"], "detail": f["detail"],
              "finding_key": f["key"], "failing_input_found": False} for f in found]
    ctx.failures[:0] = fails

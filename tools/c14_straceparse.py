#!/usr/bin/env python3
"""strace output -> abstract file-system operations (Base/FS.v) for C14.

Input: the `strace -f` log of a harness test binary, the side file the
harness wrote (one record per bracketed case), the traced root directory.
Output: <out>/C14_<pkg>.cases.jsonl and .dist.json in the driver's format; the
Coq term of a case is `Run.C14.CTrace dst keep boot-files ops ...`.

Only calls touching paths below the root are kept; descriptors are resolved
to paths through the openat that returned them (one table per process: the
harness is a single process whose threads share it).  Read-only opens (the
polling reader) are counted and dropped.  Anything the model has no operation
for (hard links, dup of a tracked descriptor, splice into a tracked file, ...)
makes the case fail on the monitor side instead of being skipped.
"""
import argparse
import hashlib
import zlib
import json
import os
import re
import sys

LINE = re.compile(r"^(\d+)\s+(.*)$")
CALL = re.compile(r"^([a-z0-9_]+)\((.*)\)\s+= (-?\d+|\?)(?:\s+(E[A-Z]+).*)?$", re.S)
SMALL = 512
VIS = SMALL + 64          # what strace -s shows of one call


_ESC = re.compile(r"\\(x[0-9a-fA-F]{2}|[0-7]{1,3}|.)", re.S)
_ESC_MAP = {"n": 10, "t": 9, "r": 13, "\\": 92, '"': 34, "f": 12, "v": 11}


def _esc(m):
    g = m.group(1)
    if g[0] == "x" and len(g) == 3:
        return chr(int(g[1:], 16))
    if g[0] in "01234567":
        return chr(int(g, 8) & 255)
    return chr(_ESC_MAP.get(g, ord(g) & 255))


def unescape(s):
    """C-style escapes of strace (octal, \\xHH and the usual letters)."""
    if "\\" not in s:
        return s.encode("latin-1", "replace")
    return _ESC.sub(_esc, s).encode("latin-1", "replace")


def unescape_slow(s):
    """Reference implementation (self-test compares the two)."""
    out = bytearray()
    i = 0
    while i < len(s):
        c = s[i]
        if c != "\\":
            out += c.encode("latin-1", "replace")
            i += 1
            continue
        n = s[i + 1]
        if n == "x":
            out.append(int(s[i + 2:i + 4], 16))
            i += 4
        elif n in "01234567":
            j = i + 1
            while j < len(s) and j < i + 4 and s[j] in "01234567":
                j += 1
            out.append(int(s[i + 1:j], 8))
            i = j
        else:
            out.append({"n": 10, "t": 9, "r": 13, "\\": 92, '"': 34, "f": 12, "v": 11}.get(n, ord(n)))
            i += 2
    return bytes(out)


def split_args(s):
    """Top-level comma split, respecting quotes, brackets and braces."""
    args, cur, depth, q, i = [], [], 0, False, 0
    while i < len(s):
        c = s[i]
        if q:
            cur.append(c)
            if c == "\\":
                cur.append(s[i + 1])
                i += 1
            elif c == '"':
                q = False
        elif c == '"':
            q = True
            cur.append(c)
        elif c in "([{":
            depth += 1
            cur.append(c)
        elif c in ")]}":
            depth -= 1
            cur.append(c)
        elif c == "," and depth == 0:
            args.append("".join(cur).strip())
            cur = []
        else:
            cur.append(c)
        i += 1
    if cur:
        args.append("".join(cur).strip())
    return args


def cstr(a):
    """("bytes", complete?) of a quoted strace string argument."""
    m = re.match(r'^"(.*)"(\.\.\.)?$', a, re.S)
    if not m:
        return None, False
    return unescape(m.group(1)), m.group(2) is None


def read_calls(path):
    """Yield (lineno, pid, name, args, ret, errno) in order of completion."""
    pending = {}
    with open(path, errors="replace") as f:
        for ln, line in enumerate(f, 1):
            m = LINE.match(line.rstrip("\n"))
            if not m:
                continue
            pid, rest = int(m.group(1)), m.group(2)
            if rest.startswith("+++") or rest.startswith("---"):
                continue
            if rest.endswith("<unfinished ...>"):
                head = rest[:-len("<unfinished ...>")].rstrip()
                mc = re.match(r"^close\((\d+)$", head)
                if mc:
                    # A descriptor is released somewhere between entry and exit of
                    # close; another thread may get the same number back before
                    # the exit is logged.  The entry is always logged first, so
                    # the table is updated there.
                    yield ln, pid, "close", [mc.group(1)], 0, None
                    pending[pid] = None
                else:
                    pending[pid] = head
                continue
            r = re.match(r"^<\.\.\. ([a-z0-9_]+) resumed>\s*(.*)$", rest, re.S)
            if r:
                head = pending.pop(pid, r.group(1) + "(")
                if head is None:
                    continue
                rest = head + r.group(2)
            c = CALL.match(rest)
            if not c:
                continue
            ret = None if c.group(3) == "?" else int(c.group(3))
            yield ln, pid, c.group(1), split_args(c.group(2)), ret, c.group(4)


class Seg:
    def __init__(self, seg):
        self.seg = seg
        self.ops = []          # tuples, paths as strings
        self.unsupported = []
        self.ro_opens = 0
        self.syscalls = 0
        self.first_line = None
        self.tids = set()      # threads that contributed an operation
        self.save_marks = []   # index in ops at which the k-th save of the case starts


def forked_children(trace):
    """Thread ids in the log that are processes of their own."""
    foreign, entry, first = set(), {}, True
    pat = re.compile(r"^(\d+)\s+(?:(clone3?|fork|vfork|execve)\((.*)|<\.\.\. (clone3?|fork|vfork|execve) resumed>(.*))$", re.S)
    with open(trace, errors="replace") as f:
        for line in f:
            if "clone" not in line and "fork" not in line and "execve" not in line:
                first = False
                continue
            m = pat.match(line.rstrip("\n"))
            if not m:
                first = False
                continue
            pid = int(m.group(1))
            name = m.group(2) or m.group(4)
            text = m.group(3) if m.group(2) else entry.pop(pid, "") + (m.group(5) or "")
            if text.endswith("<unfinished ...>"):
                entry[pid] = text[:-len("<unfinished ...>")]
                first = False
                continue
            r = re.search(r"\)\s+= (-?\d+)", text)
            ret = int(r.group(1)) if r else -1
            if name == "execve":
                if ret == 0 and not first:
                    foreign.add(pid)
            elif ret > 0 and "CLONE_THREAD" not in text:
                foreign.add(ret)
            first = False
    return foreign


def parse(trace, root):
    fdt = {}                   # fd -> (path, tracked)
    segs, cur = {}, None
    root = root.rstrip("/")

    def inroot(p):
        return p is not None and (p == root or p.startswith(root + "/"))

    def resolve(dirfd, p):
        if p is None:
            return None
        p = p.decode("utf-8", "surrogateescape")
        if p.startswith("/"):
            return os.path.normpath(p)
        if dirfd == "AT_FDCWD":
            return os.path.normpath(os.path.join(os.getcwd(), p))  # outside root anyway
        try:
            base = fdt.get(int(dirfd))
        except ValueError:
            base = None
        return os.path.normpath(os.path.join(base[0], p)) if base else None

    # Threads share one descriptor table: every thread id is attributed to the
    # traced test process unless it is a forked child (a process of its own,
    # with a copy of the table).  Forked children are found by a first pass
    # over the log (the return value of a clone/fork/vfork without
    # CLONE_THREAD, or a thread id that calls execve after the first line): a
    # child's first calls may be logged before the parent's return value is.
    # They are set aside; one that touches the traced root makes the case
    # fail as unsupported.
    foreign = forked_children(trace)
    for ln, pid, name, a, ret, errno in read_calls(trace):
        ok = ret is not None and ret >= 0
        if name in ("@fork-entry", "clone", "clone3", "fork", "vfork", "execve"):
            continue
        if pid in foreign:
            strs = [cstr(x)[0] for x in a if x.startswith('"')]
            if cur is not None and any(inroot(resolve("AT_FDCWD", b)) for b in strs if b):
                cur.unsupported.append("line %d: a forked process (%d) calls %s on a path below the traced root" % (ln, pid, name))
            continue

        def emit(*op):
            if cur is not None:
                cur.ops.append(op)
                cur.syscalls += 1
                cur.tids.add(pid)

        def unsupported(what):
            if cur is not None:
                cur.unsupported.append("line %d: %s" % (ln, what))

        if name in ("unlink", "unlinkat"):
            dirfd, pa, fl = ("AT_FDCWD", a[0], "0") if name == "unlink" else (a[0], a[1], a[2] if len(a) > 2 else "0")
            p = resolve(dirfd, cstr(pa)[0])
            if p and "/VERIF_MARK/" in p:
                m = re.search(r"(begin|end)-(\d+)$", p)
                if m and m.group(1) == "begin":
                    cur = segs.setdefault(int(m.group(2)), Seg(int(m.group(2))))
                    cur.first_line = ln
                elif m:
                    cur = None
                elif cur is not None and re.search(r"save-(\d+)$", p):
                    cur.save_marks.append(len(cur.ops))
                continue
            if ok and inroot(p) and "AT_REMOVEDIR" not in fl:
                emit("U", p)
        elif name in ("open", "openat", "creat", "openat2"):
            if name == "open":
                dirfd, pa, fl = "AT_FDCWD", a[0], a[1]
            elif name == "creat":
                dirfd, pa, fl = "AT_FDCWD", a[0], "O_CREAT|O_WRONLY|O_TRUNC"
            else:
                dirfd, pa, fl = a[0], a[1], a[2]
            p = resolve(dirfd, cstr(pa)[0])
            if not ok:
                continue
            fdt.pop(ret, None)
            if not inroot(p):
                continue
            flags = set(re.findall(r"O_[A-Z_]+", fl))
            if "O_DIRECTORY" in flags or "O_PATH" in flags:
                fdt[ret] = (p, False)
                continue
            if name == "openat2":
                unsupported("openat2 on " + p)
            if not flags & {"O_WRONLY", "O_RDWR", "O_CREAT", "O_TRUNC", "O_APPEND"}:
                fdt[ret] = (p, False)
                if cur is not None:
                    cur.ro_opens += 1
                continue
            fdt[ret] = (p, True, cur)
            emit("O", ret, p, "O_CREAT" in flags, "O_EXCL" in flags, "O_TRUNC" in flags,
                 bool(flags & {"O_WRONLY", "O_RDWR"}), "O_APPEND" in flags)
        elif name == "close":
            try:
                fd = int(a[0])
            except ValueError:
                continue
            ent = fdt.pop(fd, None)     # the descriptor is gone even when close reports an error
            # A descriptor opened in an earlier segment and released only now
            # (a finalizer of the runtime, a deferred close of an earlier
            # case: when it runs depends on the load of the machine) is not
            # an operation of this segment's saves: a close changes no name
            # and no content.
            if ent and ent[1] and ent[2] is cur:
                emit("C", fd)
        elif name in ("write", "pwrite64"):
            fd = int(a[0])
            ent = fdt.get(fd)
            if not (ok and ent and ent[1]):
                continue
            data, complete = cstr(a[1])
            vis = data[:ret] if data is not None else b""
            if data is not None and complete and len(data) >= ret:
                data = data[:ret]
            else:
                data = None             # not fully visible: chunk mode
            if name == "write":
                emit("W", fd, ret, data, vis)
            else:
                emit("PW", fd, int(a[3]), ret, data, vis)
        elif name in ("fsync", "fdatasync"):
            ent = fdt.get(int(a[0]))
            if ok and ent and ent[1]:
                emit("S", int(a[0]))
        elif name in ("rename", "renameat", "renameat2"):
            if name == "rename":
                pa, pb, fl = resolve("AT_FDCWD", cstr(a[0])[0]), resolve("AT_FDCWD", cstr(a[1])[0]), "0"
            else:
                pa, pb = resolve(a[0], cstr(a[1])[0]), resolve(a[2], cstr(a[3])[0])
                fl = a[4] if len(a) > 4 else "0"
            if not ok or not (inroot(pa) or inroot(pb)):
                continue
            if "RENAME_EXCHANGE" in fl or "RENAME_WHITEOUT" in fl:
                unsupported("renameat2 flags " + fl)
            if inroot(pa) != inroot(pb):
                unsupported("rename across the traced root: %s -> %s" % (pa, pb))
            emit("R", pa, pb)
        elif name == "ftruncate":
            ent = fdt.get(int(a[0]))
            if ok and ent and ent[1]:
                emit("FT", int(a[0]), int(a[1]))
        elif name == "truncate":
            p = resolve("AT_FDCWD", cstr(a[0])[0])
            if ok and inroot(p):
                emit("TP", p, int(a[1]))
        elif name in ("link", "linkat", "symlink", "symlinkat"):
            strs = [resolve("AT_FDCWD", cstr(x)[0]) for x in a if x.startswith('"')]
            if ok and any(inroot(p) for p in strs):
                unsupported("%s %s" % (name, strs))
        elif name in ("dup", "dup2", "dup3"):
            ent = fdt.get(int(a[0])) if a and a[0].lstrip("-").isdigit() else None
            if ok:
                fdt.pop(ret, None)
                if ent and ent[1]:
                    unsupported("%s of a descriptor open for writing on %s" % (name, ent[0]))
        elif name in ("writev", "pwritev", "pwritev2", "fallocate", "sync_file_range"):
            ent = fdt.get(int(a[0])) if a and a[0].isdigit() else None
            if ok and ent and ent[1] and name != "sync_file_range":
                unsupported("%s on %s" % (name, ent[0]))
        elif name in ("sendfile", "splice", "copy_file_range"):
            idx = {"sendfile": 0, "splice": 2, "copy_file_range": 2}[name]
            ent = fdt.get(int(a[idx])) if len(a) > idx and a[idx].isdigit() else None
            if ok and ent and ent[1]:
                unsupported("%s into %s" % (name, ent[0]))
    return segs


# ---------------------------------------------------------------- Gallina

def gb(b):
    return "true" if b else "false"


def gdata(bs):
    if len(bs) > 1000:
        # a literal of tens of thousands of elements overflows coqc's stack
        return "(concat [%s])" % "; ".join(gdata(bs[i:i + 1000]) for i in range(0, len(bs), 1000))
    return "[" + ";".join(str(x) for x in bs) + "]" if len(bs) else "[]"


def gdu(xs):
    """Chunk-mode elements as primitive integer literals (see DU in Run/C14.v)."""
    if not xs:
        return "[]"
    if len(xs) > 1000:
        return "(DU (concat [%s])%%uint63)" % "; ".join(
            "[" + ";".join(str(x) for x in xs[i:i + 1000]) + "]" for i in range(0, len(xs), 1000))
    return "(DU [%s]%%uint63)" % ";".join(str(x) for x in xs)


def glist(items):
    return "[" + "; ".join(items) + "]"


def gopt(v):
    return "None" if v is None else "(Some %s)" % v


def python_verdict(ops, dst, boot_paths):
    """The property's rule stated directly on the operation list, independent
    of the Coq checker: dst (and whatever file was ever published there) is
    never opened for writing, written or truncated; never unlinked or renamed
    away; a file renamed onto dst has no write after its last fsync."""
    names = {p: "boot:" + p for p in boot_paths}     # path -> file object
    fds, dirty, was_dst = {}, set(), set()
    nxt = [0]
    if dst in names:
        was_dst.add(names[dst])
    for k, op in enumerate(ops):
        t = op[0]
        if t == "O":
            _, fd, p, creat, excl, trunc, wr, app = op
            if p in names:
                if creat and excl:
                    continue
            else:
                if not creat:
                    continue
                if p == dst:
                    return "op %d creates %s in place" % (k, os.path.basename(dst))
                nxt[0] += 1
                names[p] = "new%d" % nxt[0]
            o = names[p]
            if o in was_dst and (wr or trunc or app):
                return "op %d opens %s for writing/truncation in place" % (k, os.path.basename(p))
            if trunc:
                dirty.add(o)
            fds[fd] = o
        elif t in ("W", "PW", "FT"):
            o = fds.get(op[1])
            if o is None:
                return "op %d uses an unknown descriptor" % k
            if o in was_dst:
                return "op %d modifies the file at %s in place" % (k, os.path.basename(dst))
            dirty.add(o)
        elif t == "S":
            dirty.discard(fds.get(op[1]))
        elif t == "C":
            fds.pop(op[1], None)
        elif t == "R":
            _, a, b = op
            if a == dst:
                return "op %d renames %s away" % (k, os.path.basename(dst))
            o = names.get(a)
            if o is None:
                continue
            if b == dst:
                if o in dirty:
                    return "op %d renames a file onto %s that has writes not yet fsynced" % (k, os.path.basename(dst))
                was_dst.add(o)
            names[b] = o
            names.pop(a, None)
        elif t == "U":
            if op[1] == dst:
                return "op %d unlinks %s" % (k, os.path.basename(dst))
            names.pop(op[1], None)
        elif t == "TP":
            if names.get(op[1]) in was_dst:
                return "op %d truncates %s in place" % (k, os.path.basename(op[1]))
    return None


def max_open_writers(ops):
    """Largest number of files open for writing at the same time (distinct
    descriptors): 2 or more means that two saves really overlapped."""
    cur, best = set(), 0
    for op in ops:
        if op[0] == "O" and op[6]:
            cur.add(op[1])
            best = max(best, len(cur))
        elif op[0] == "C":
            cur.discard(op[1])
    return best


def elem(n, vis):
    """One write call in chunk mode: CRC-32 of the bytes strace shows (at most
    the first SMALL+64 of the call) and the length, packed into one number."""
    if not n:
        return []
    return [(zlib.crc32(vis[:VIS]) << 30) | n]


def ref_content(v, want_dir):
    """Reference bytes of a version: intended content when the harness knows
    it, else what it read back.  None when not available."""
    hx = v.get("want_hex") if v.get("has_want") else v.get("hex")
    ln = v.get("want_len", 0) if v.get("has_want") else v.get("len", 0)
    if ln <= SMALL and hx is not None:
        return bytes.fromhex(hx)
    name = v.get("want_sha")
    if name and want_dir:
        try:
            with open(os.path.join(want_dir, name + ".bin"), "rb") as f:
                return f.read()
        except OSError:
            return None
    return None


def published_chunks(ops, dst):
    """The write calls (length, visible bytes) that made up each file renamed
    onto dst, in the order of publication.  Sequential writes only."""
    fd_path, content, pubs = {}, {}, []
    for op in ops:
        t = op[0]
        if t == "O":
            fd_path[op[1]] = op[2]
            if op[3] and op[2] not in content or op[5]:
                content[op[2]] = []
            content.setdefault(op[2], [])
        elif t == "W":
            p = fd_path.get(op[1])
            if p is not None:
                content.setdefault(p, []).append((op[2], op[4]))
        elif t == "C":
            fd_path.pop(op[1], None)
        elif t == "R":
            c = content.pop(op[1], None)
            if c is not None:
                content[op[2]] = c
                if op[2] == dst:
                    pubs.append(list(c))
            for fd, p in list(fd_path.items()):
                if p == op[1]:
                    fd_path[fd] = op[2]
        elif t == "U":
            content.pop(op[1], None)
    return pubs


def slice_elems(ref, chunks):
    """The reference content cut at the boundaries of the recorded write
    calls, as chunk-mode elements.  A content of another length gives another
    list (the rest, if any, becomes one more element)."""
    out, off = [], 0
    for n, _ in chunks:
        out += elem(len(ref[off:off + n]), ref[off:off + n])
        off += n
    if off < len(ref):
        out += elem(len(ref) - off, ref[off:])
    return out


FAULT_CODE = {"": 0, "nofile": 1, "fsync": 2, "rename": 3}


def saves_term(seg, rec, P, dst):
    """What the save model of Model/SaveLoop.v is asked to reproduce: per save
    of an ordered case its kind, descriptor and temporary name (from the
    trace), ending and injected fault (from the harness), and the reported
    result."""
    ops, versions = seg.ops, rec["versions"]
    nsaves = len(versions) - 1
    left = []       # temporary files the model says are left behind
    if rec.get("unordered") or len(seg.save_marks) != nsaves:
        return (["SAny %d" % len(ops)] if ops else []), left
    bounds = list(seg.save_marks) + [len(ops)]
    terms = []
    if bounds[0] > 0:
        terms.append("SAny %d" % bounds[0])
    probe_expected = not (rec.get("tmpdir") or "").endswith("no-such-dir")
    for k in range(nsaves):
        v = versions[k + 1]
        part = ops[bounds[k]:bounds[k + 1]]
        kind = v.get("kind") or ""
        fault = v.get("fault") or ""
        if kind not in ("writefile", "update", "migrate"):
            if part:
                terms.append("SAny %d" % len(part))
            continue
        mres = 2 if v.get("err") else (1 if v.get("skipped") else 0)
        if kind == "migrate" and (v.get("mig_state", 0) != 0 or fault in ("nodir", "nofile")):
            # nothing to migrate / legacy file not usable / the temporary file cannot be created:
            # the model predicts no operation at all
            terms.append("SMigrate %d %d 0 0 0 %d %d" % (v.get("mig_state", 0), P(v["mig_old"]),
                                                        1 if fault == "nodir" else 0, mres))
            continue
        if fault == "nofile":
            # no temporary file, no probe file: the model predicts no operation at all
            # (anything recorded in this part is then a mismatch)
            terms.append("SSave %s 0 0 0 1 2" % gb(kind == "update"))
            continue
        i = 0
        if probe_expected:
            # renameio.TempDir: two O_EXCL files, closed at once
            if len(part) >= 4 and [o[0] for o in part[:4]] == ["O", "C", "O", "C"]:
                terms.append("SProbe %d %d %d %d %s" % (part[0][1], P(part[0][2]), part[2][1], P(part[2][2]),
                                                        gb(fault == "rename" or rec.get("inject") == "rename")))
                i = 6
            else:
                terms.append("SProbe 0 0 0 0 false")        # expected and not found: mismatch in Coq
        main = part[i:]
        fd, tmp = 0, 0
        if main and main[0][0] == "O":
            fd, tmp = main[0][1], P(main[0][2])
        if fault == "limit" or fault == "source" or (v.get("expect_err") and fault not in FAULT_CODE) or (
                v.get("err") and fault == ""):
            ending = 2      # no injected fault and an error: the source, the reader or the parser failed
        elif v.get("skipped"):
            ending = 1
        else:
            ending = 0
        res = 2 if v.get("err") else (1 if v.get("skipped") else 0)
        if kind == "migrate":
            terms.append("SMigrate 0 %d %d %d %d %d %d" % (P(v["mig_old"]), fd, tmp, 2 if fault == "limit" else 0,
                                                           FAULT_CODE.get(fault, 0), mres))
            continue
        terms.append("SSave %s %d %d %d %d %d" % (gb(kind == "update"), fd, tmp, ending, FAULT_CODE.get(fault, 0), res))
        if kind == "update" and fault in ("fsync", "rename") and tmp:
            # finalizeUpdate returns the error of CloseReplace without a Cleanup
            left.append(tmp)
    return terms, left


def build_case(seg, rec, root, want_dir=None):
    dst = rec["dst"]
    versions = rec["versions"]
    initial = rec.get("initial") or {}
    ops = seg.ops
    # paths -> numbers: dst = 1
    pid = {dst: 1}

    def P(p):
        if p not in pid:
            pid[p] = len(pid) + 1
        return pid[p]

    used = set()
    for op in ops:
        if op[0] == "O":
            used.add(op[2])
        elif op[0] == "R":
            used.update(op[1:3])
        elif op[0] in ("U", "TP"):
            used.add(op[1])
    used.add(dst)
    # round 6 (K): a scenario with migrateDB calls is judged on two paths
    mig_old = next((v.get("mig_old") for v in versions[1:] if v.get("kind") == "migrate"), None)
    if mig_old:
        used.add(mig_old)
    boot_paths = sorted(p for p in initial if p in used and initial[p].get("exists"))
    all_small = all(v["len"] <= SMALL and v.get("want_len", 0) <= SMALL for v in versions) and all(initial[p]["len"] <= SMALL for p in boot_paths)
    writes_visible = all((op[3] if op[0] == "W" else op[4]) is not None for op in ops if op[0] in ("W", "PW"))
    bm = all_small and writes_visible

    def wdata(n, data, vis):
        return gdata(list(data)) if bm else gdu(elem(n, vis))

    def boot_elem(v):
        # chunk mode: a file present at the start is one element (length only)
        return [v["len"]] if v["len"] else []

    ents = []
    for p in boot_paths:
        v = initial[p]
        d = list(bytes.fromhex(v.get("hex", ""))) if bm else boot_elem(v)
        ents.append("(%d, %s)" % (P(p), gdata(d)))
    segs_out, terms = [], []

    def flush():
        if terms:
            segs_out.append(glist(terms))
            terms.clear()

    k = 0
    while k < len(ops):
        op = ops[k]
        t = op[0]
        if t == "W" and not bm:
            j = k
            while j < len(ops) and ops[j][0] == "W" and ops[j][1] == op[1] and j - k < 1000:
                j += 1
            if j - k >= 4:
                flush()
                segs_out.append("WH %d [%s]%%uint63" % (op[1], ";".join(str((elem(o[2], o[4]) or [0])[0]) for o in ops[k:j])))
                k = j
                continue
        k += 1
        if t == "O":
            terms.append("O %d %d %s" % (op[1], P(op[2]), " ".join(gb(x) for x in op[3:8])))
        elif t == "W":
            terms.append("W %d %s" % (op[1], wdata(op[2], op[3], op[4])))
        elif t == "PW":
            # byte mode: real offset; chunk mode has no byte offsets: a positional
            # write is kept only to be judged by the checker (it never occurs
            # in the rename-based writers)
            terms.append("PW %d %d %s" % (op[1], op[2], wdata(op[3], op[4], op[5])))
        elif t in ("S", "C"):
            terms.append("%s %d" % (t, op[1]))
        elif t == "R":
            terms.append("R %d %d" % (P(op[1]), P(op[2])))
        elif t == "U":
            terms.append("U %d" % P(op[1]))
        elif t == "FT":
            terms.append("FT %d %d" % (op[1], op[2]))
        elif t == "TP":
            terms.append("TP %d %d" % (P(op[1]), op[2]))
    flush()
    trace_term = segs_out[0] if len(segs_out) == 1 else "(concat %s)" % glist(segs_out or ["[]"])
    # versions the harness saw: before the first save, after every SUCCESSFUL save
    # that replaced the file (a failed or skipped save publishes nothing)
    pub = [versions[0]] + [v for v in versions[1:]
                            if not v.get("err") and not v.get("skipped") and not v.get("expect_err")]
    # where the harness knows the intended content independently, that is what
    # the published version is compared with, not what was read back
    def vlen(v):
        return v.get("want_len", 0) if v.get("has_want") else v["len"]

    def vhex(v):
        return v.get("want_hex", "") if v.get("has_want") else v.get("hex", "")

    lens = [gopt("%d" % vlen(v)) if v["exists"] or v.get("has_want") else "None" for v in pub]
    vers = []
    if bm:
        vers = [gopt(gdata(list(bytes.fromhex(vhex(v))))) if v["exists"] or v.get("has_want") else "None" for v in pub]
    else:
        # chunk mode: the reference contents cut at the boundaries of the
        # recorded write calls; each element carries the CRC of what strace
        # showed of the call, so a file of the right length with other bytes
        # in it is a mismatch, and so is a cut one
        pubs = published_chunks(ops, dst)
        v0 = versions[0]
        vers = [gopt(gdata(boot_elem(v0))) if v0["exists"] else "None"]
        if not rec.get("unordered"):
            for k, v in enumerate(pub[1:]):
                ref = ref_content(v, want_dir)
                if ref is None:
                    vers.append("(Some [0])")       # no reference content: reported as a mismatch
                    continue
                chunks = pubs[k] if k < len(pubs) else [(len(ref), None)]
                vers.append(gopt(gdu(slice_elems(ref, chunks))))
        else:
            for v in pub[1:]:
                ref = ref_content(v, want_dir)
                if ref is None:
                    continue
                for chunks in pubs:
                    if sum(n for n, _ in chunks) == len(ref):
                        vers.append(gopt(gdu(slice_elems(ref, chunks))))
    keep = [str(P(p)) for p in rec.get("keep") or []]
    saves, left = saves_term(seg, rec, P, dst)
    keep += [str(n) for n in left]
    rec["_tmp_left_behind"] = len(left)
    head = "CMigTrace %d" % P(mig_old) if mig_old else "CTrace"
    coq = "(%s 1 %s %s %s %s %s %s %s %s)%%N" % (
        head, glist(keep), glist(ents), trace_term, gb(bm), gb(not rec.get("unordered")), glist(lens), glist(vers),
        glist(saves))
    return coq, bm, pid


SELFTEST_LOG = """\
100 execve("/x/test", ["test"], 0x7ffd /* 10 vars */) = 0
100 clone(child_stack=0xc000, flags=CLONE_VM|CLONE_FS|CLONE_FILES|CLONE_SIGHAND|CLONE_THREAD|CLONE_SYSVSEM|CLONE_SETTLS, tls=0xc0) = 101
100 clone(child_stack=0xc000, flags=CLONE_VM|CLONE_FS|CLONE_FILES|CLONE_SIGHAND|CLONE_THREAD|CLONE_SYSVSEM|CLONE_SETTLS, tls=0xc0) = 102
100 unlinkat(AT_FDCWD, "/r/VERIF_MARK/begin-1", 0) = -1 ENOENT (No such file or directory)
101 openat(AT_FDCWD, "/r/d/.tmpA", O_RDWR|O_CREAT|O_EXCL|O_CLOEXEC, 0600) = 6
102 openat(AT_FDCWD, "/r/d/.tmpB", O_RDWR|O_CREAT|O_EXCL|O_CLOEXEC, 0600 <unfinished ...>
101 write(6, "aa\\naa", 5 <unfinished ...>
102 <... openat resumed>)             = 7
101 <... write resumed>)              = 5
102 write(7, "bbbbbb", 6)             = 3
102 write(7, "bbb", 3)                = -1 EFBIG (File too large)
102 --- SIGXFSZ {si_signo=SIGXFSZ, si_code=SI_USER, si_pid=100, si_uid=0} ---
101 fsync(6)                          = 0
101 close(6 <unfinished ...>
100 openat(AT_FDCWD, "/r/d/dst", O_RDONLY|O_CLOEXEC) = 6
101 <... close resumed>)              = 0
100 close(6)                          = 0
101 renameat(AT_FDCWD, "/r/d/.tmpA", AT_FDCWD, "/r/d/dst") = 0
102 close(7)                          = 0
102 unlinkat(AT_FDCWD, "/r/d/.tmpB", 0) = 0
100 clone(child_stack=NULL, flags=CLONE_VM|CLONE_VFORK|SIGCHLD <unfinished ...>
200 close(6)                          = 0
200 openat(AT_FDCWD, "/r/d/dst", O_WRONLY|O_TRUNC) = 3
200 execve("/bin/true", ["true"], 0x7ffd /* 10 vars */) = 0
100 <... clone resumed>)              = 200
100 unlinkat(AT_FDCWD, "/r/VERIF_MARK/end-1", 0) = -1 ENOENT (No such file or directory)
101 openat(AT_FDCWD, "/r/d/after", O_WRONLY|O_CREAT|O_TRUNC, 0644) = 8
"""


def selftest():
    """The parser on a constructed log: calls of two threads interleaved with
    unfinished/resumed pairs, a descriptor number handed out again before the
    close that released it is reported as finished, a short write followed by
    EFBIG, a forked child with a descriptor table of its own."""
    import tempfile
    with tempfile.NamedTemporaryFile("w", suffix=".trace", delete=False) as f:
        f.write(SELFTEST_LOG)
        name = f.name
    try:
        segs = parse(name, "/r")
    finally:
        os.unlink(name)
    want = [("O", 6, "/r/d/.tmpA", True, True, False, True, False),
            ("O", 7, "/r/d/.tmpB", True, True, False, True, False),
            ("W", 6, 5, b"aa\naa", b"aa\naa"),
            ("W", 7, 3, b"bbb", b"bbb"),
            ("S", 6), ("C", 6),
            ("R", "/r/d/.tmpA", "/r/d/dst"),
            ("C", 7), ("U", "/r/d/.tmpB")]
    seg = segs.get(1)
    errs = []
    if seg is None or list(segs) != [1]:
        errs.append("segments: %r" % list(segs))
    else:
        if seg.ops != want:
            errs.append("operations:\n  got  %r\n  want %r" % (seg.ops, want))
        if seg.ro_opens != 1:
            errs.append("read-only opens dropped: %d, want 1" % seg.ro_opens)
        if seg.tids != {101, 102}:
            errs.append("threads: %r" % seg.tids)
        if len(seg.unsupported) != 1 or "forked process (200)" not in seg.unsupported[0]:
            errs.append("forked child: %r" % seg.unsupported)
        if max_open_writers(seg.ops) != 2:
            errs.append("max_open_writers: %d" % max_open_writers(seg.ops))
        pv = python_verdict(seg.ops, "/r/d/dst", ["/r/d/dst"])
        if pv is not None:
            errs.append("verdict on the good trace: %r" % pv)
        bad = python_verdict([("R", "/r/d/dst", "/r/d/dst.bak")] + seg.ops, "/r/d/dst", ["/r/d/dst"])
        if not bad or "renames dst away" not in bad:
            errs.append("verdict on rename-away: %r" % bad)
    if errs:
        print("c14_straceparse selftest FAILED:\n" + "\n".join(errs))
        return 1
    print("c14_straceparse selftest ok")
    return 0


def main():
    if "--selftest" in sys.argv[1:]:
        sys.exit(selftest())
    ap = argparse.ArgumentParser()
    for k in ("trace", "meta", "root", "out", "pkg", "seed", "tier"):
        ap.add_argument("--" + k, required=True)
    ap.add_argument("--only", default="")
    ap.add_argument("--inject", default="")
    ap.add_argument("--want", default="")
    a = ap.parse_args()
    tag = a.pkg + ("_" + a.inject if a.inject else "")
    segs = parse(a.trace, a.root)
    recs = [json.loads(l) for l in open(a.meta)] if os.path.exists(a.meta) else []
    only = int(a.only) if a.only.strip() else -1
    cases, classes, distinct, samples, fails = [], {}, set(), [], 0
    stats = {"traces": 0, "syscalls_per_trace": [], "sizes": [], "reader_polls": 0, "ro_opens_dropped": 0,
             "byte_mode": 0, "chunk_mode": 0, "saves": 0}
    for rec in recs:
        seg = segs.get(rec["seg"])
        # ids unique across the three packages (replay files are named by id)
        # (the runs with an injected system-call failure: +700 fsync, +800 rename)
        cid = ({"dhcpd": 1000, "filtering": 2000, "home": 3000, "rulelist": 4000}.get(a.pkg, 0)
               + {"": 0, "fsync": 700, "rename": 800}.get(a.inject, 900) + rec["seg"])
        if only >= 0 and cid != only:
            continue
        if seg is None:
            seg = Seg(cid)
            seg.unsupported.append("no begin marker found in the trace")
        coq, bm, pid = build_case(seg, rec, a.root, a.want)
        msgs = []
        if rec.get("reader_bad"):
            msgs.append(("reader", rec["reader_bad"]))
        if rec.get("content_bad"):
            msgs.append(("content", rec["content_bad"]))
        pv = python_verdict(seg.ops, rec["dst"], [p for p, v in (rec.get("initial") or {}).items() if v.get("exists")])
        if pv:
            msgs.append(("trace", "system-call trace of %s is not crash-safe for %s: %s" % (
                rec["name"], os.path.basename(rec["dst"]), pv)))
        if seg.unsupported:
            msgs.append(("unsupported", "trace of %s uses operations outside the model: %s" % (
                rec["name"], "; ".join(seg.unsupported[:3]))))
        for v in rec["versions"][1:]:
            if v.get("err") and not v.get("expect_err") and not v.get("may_fail"):
                msgs.append(("save-error", "save %s of %s failed: %s" % (v.get("label"), rec["name"], v["err"])))
        cls = list(rec.get("classes") or [])
        cls.append("byte-mode" if bm else "chunk-mode")
        mow = max_open_writers(seg.ops)
        if rec.get("unordered"):
            cls.append("concurrent-saves")
            if mow >= 2:
                cls.append("concurrent-overlap")
        if rec.get("reader_distinct", 0) > 1:
            cls.append("reader-saw-several-versions")
        if any(op[0] == "U" for op in seg.ops):
            cls.append("unlink-in-trace")
        if rec.get("_tmp_left_behind"):
            # finalizeUpdate does not clean up after a failed CloseReplace (mirrored by the model)
            cls.append("tmp-left-behind")
        nsaves = len(rec["versions"]) - 1
        rel = {p: n for p, n in pid.items()}
        desc = {"pkg": a.pkg, "case": rec["name"], "trace_file": os.path.basename(a.trace), "injected": a.inject,
                "save_labels": [v.get("label") for v in rec["versions"][1:]],
 "dst": os.path.relpath(rec["dst"], a.root), "saves": nsaves,
                "sizes": [v["len"] for v in rec["versions"]], "ops": len(seg.ops), "mode": "bytes" if bm else "chunks",
                "tmpdir": os.path.relpath(rec.get("tmpdir") or a.root, a.root),
                "paths": {os.path.relpath(p, a.root): n for p, n in rel.items()},
                "reader_polls": rec.get("reader_polls"), "info": rec.get("info"),
                "trace_lines_from": seg.first_line, "max_open_writers": mow,
                "threads": len(seg.tids)}
        if any(v.get("kind") == "migrate" for v in rec["versions"][1:]):
            desc["legacy_path"] = os.path.relpath(next(v["mig_old"] for v in rec["versions"][1:] if v.get("mig_old")), a.root)
            desc["save_faults"] = [v.get("fault") or "none" for v in rec["versions"][1:]]
            desc["save_errors"] = [v.get("err") or "" for v in rec["versions"][1:]]
        ok = not msgs
        c = {"id": cid, "coq": coq, "key": hashlib.sha256(coq.encode()).hexdigest()[:16],
             "nontrivial": any(op[0] in ("R", "U", "W") for op in seg.ops), "classes": cls,
             "monitor_ok": ok, "desc": desc}
        if not ok:
            kind, msg = msgs[0]
            c["monitor_msg"] = msg
            c["finding_key"] = "%s-%s-%s" % (a.pkg, kind, re.sub(r"[^a-z]+", "-", rec["name"].split("-")[0]))
            fails += 1
        cases.append(c)
        for cl in cls:
            classes[cl] = classes.get(cl, 0) + 1
        if c["nontrivial"]:
            distinct.add(c["key"])
        if len(samples) < 3:
            samples.append(desc)
        stats["traces"] += 1
        stats["syscalls_per_trace"].append(len(seg.ops))
        stats["sizes"] += [v["len"] for v in rec["versions"][1:]]
        stats["reader_polls"] += rec.get("reader_polls", 0)
        stats["ro_opens_dropped"] += seg.ro_opens
        stats["byte_mode" if bm else "chunk_mode"] += 1
        stats["saves"] += nsaves
    sp = stats.pop("syscalls_per_trace")
    sz = stats.pop("sizes")
    extra = {tag: dict(stats, syscalls_per_trace_min=min(sp or [0]), syscalls_per_trace_max=max(sp or [0]),
                         syscalls_total=sum(sp), size_min=min(sz or [0]), size_max=max(sz or [0]))}
    name = "C14_" + tag
    with open(os.path.join(a.out, name + ".cases.jsonl"), "w") as f:
        for c in cases:
            f.write(json.dumps(c) + "\n")
    with open(os.path.join(a.out, name + ".dist.json"), "w") as f:
        json.dump({"evaluations": len(cases), "distinct_nontrivial": len(distinct), "monitor_failures": fails,
                   "classes": classes, "samples": samples, "seed": int(a.seed), "tier": a.tier, "extra": extra}, f, indent=1)
    print("C14 %s: %d traces, %d monitor failures" % (tag, len(cases), fails))


if __name__ == "__main__":
    main()

// Command c14writers lists every call (or mention) of a function that
// creates, truncates, writes, renames or removes a path in the non-test
// files of the packages that own the configuration file, the DHCP lease
// database and the filter-list files, as Gallina data in coq/Gen/Writers.v.
// The theorem over the table (coq/Proofs/Writers.v) demands that every row is
// a rename-based writer, an explicitly listed exception, or explicitly listed
// as not touching one of the three kinds of file; anything else fails.
//
// Source: VERIF_REPO (default /repo), working tree; VERIF_EXTRA_OVERLAY
// replacements are honoured (self-tests).  Syntax only (go/parser, go/ast):
// package names are resolved through the file's imports, an identifier that
// is declared in the file (a variable shadowing a package) is not a package.
// Files whose name or //go:build line excludes linux/amd64 are listed as
// skipped and not judged.  What is recognised:
//
//	os.WriteFile Create CreateTemp OpenFile(write/create/trunc/append or
//	non-literal flag) Rename Remove RemoveAll Truncate Link Symlink Mkdir
//	MkdirAll MkdirTemp CopyFS NewFile OpenRoot OpenInRoot; ioutil.WriteFile
//	TempFile TempDir; every function of renameio, renameio/maybe,
//	aghrenameio; bbolt.Open; a lumberjack.Logger literal; the raw system
//	calls of syscall and golang.org/x/sys/unix that create, open for
//	writing, write, truncate, rename, link or remove (Open Openat Creat
//	Write Pwrite Writev Pwritev Truncate Ftruncate Fallocate Rename Renameat
//	Renameat2 Link Linkat Symlink Symlinkat Unlink Unlinkat Rmdir Mkdir
//	Mkdirat Sendfile Splice CopyFileRange, and Syscall/Syscall6/RawSyscall*
//	as such); the methods CloseAtomicallyReplace, CloseReplace, Cleanup (no
//	arguments), Truncate, and, on any receiver that is not a package, the
//	os.Root-style methods Create, OpenFile, Remove, RemoveAll, Rename, Mkdir,
//	MkdirAll, WriteFile.
//
// Writes through an *os.File need an os.Create/OpenFile/CreateTemp first and
// are therefore covered at the opening call.
//
// Hand-rolled sequences: a function that both opens/creates a file for
// writing (os.OpenFile with a write flag, os.Create, os.CreateTemp, a raw
// open) and renames (os.Rename, a raw rename) additionally gets one row
// "<hand-rolled>.open+rename" (KHandRolled) at the position of the open: a
// home-made atomic writer has to be looked at as a whole (own temporary name
// per save? O_EXCL? fsync before the rename? cleanup on failure?) and cannot
// be excused call by call.
package main

import (
	"encoding/json"
	"fmt"
	"go/ast"
	"go/build"
	"go/parser"
	"go/token"
	"io"
	"os"
	"path/filepath"
	"regexp"
	"sort"
	"strings"
)

var pkgDirs = []string{
	"internal/home",
	"internal/dhcpd",
	"internal/filtering",
	"internal/filtering/rulelist",
	"internal/aghrenameio",
	"internal/configmigrate",
	"internal/aghos",
	// further owners / handlers of the same kinds of file: the lease database
	// of the new DHCP service, the configuration manager of the next API, the
	// updater (reads the configuration file for its backup)
	"internal/dhcpsvc",
	"internal/next/configmgr",
	"internal/updater",
}

// import path -> tag used in the callee column
var apiPkgs = map[string]string{
	"os":                                  "os",
	"io/ioutil":                           "ioutil",
	"github.com/google/renameio/v2":       "renameio",
	"github.com/google/renameio/v2/maybe": "maybe",
	"github.com/AdguardTeam/AdGuardHome/internal/aghrenameio": "aghrenameio",
	"go.etcd.io/bbolt":                    "bbolt",
	"gopkg.in/natefinch/lumberjack.v2":    "lumberjack",
	"syscall":                             "syscall",
	"golang.org/x/sys/unix":               "unix",
}

var osKind = map[string]string{
	"WriteFile": "KWriteFile", "Create": "KCreate", "CreateTemp": "KCreate", "TempFile": "KCreate",
	"Rename": "KRename", "Remove": "KRemove", "RemoveAll": "KRemove", "Truncate": "KTruncate",
	"Link": "KOther", "Symlink": "KOther",
	"Mkdir": "KMkdir", "MkdirAll": "KMkdir", "MkdirTemp": "KMkdir", "TempDir": "KMkdir",
	"CopyFS": "KOther", "NewFile": "KOther", "OpenRoot": "KOther", "OpenInRoot": "KOther",
}

// raw system calls (packages syscall and golang.org/x/sys/unix)
var sysCalls = map[string]bool{
	"Open": true, "Openat": true, "Openat2": true, "Creat": true,
	"Write": true, "Pwrite": true, "Writev": true, "Pwritev": true, "Pwritev2": true,
	"Truncate": true, "Ftruncate": true, "Fallocate": true,
	"Rename": true, "Renameat": true, "Renameat2": true,
	"Link": true, "Linkat": true, "Symlink": true, "Symlinkat": true,
	"Unlink": true, "Unlinkat": true, "Rmdir": true, "Mkdir": true, "Mkdirat": true,
	"Sendfile": true, "Splice": true, "CopyFileRange": true,
	"Syscall": true, "Syscall6": true, "RawSyscall": true, "RawSyscall6": true, "SyscallNoError": true,
}

// os.Root-style methods: flagged on any receiver that is not an imported package
var rootMethods = map[string]string{
	"Create": "KCreate", "OpenFile": "KOpenWrite", "Remove": "KRemove", "RemoveAll": "KRemove",
	"Rename": "KRename", "Mkdir": "KMkdir", "MkdirAll": "KMkdir", "WriteFile": "KWriteFile",
}

type row struct {
	file, fn, callee, kind string
	line                   int
}

var versionElem = regexp.MustCompile(`^v[0-9]+$`)

func defaultName(path string) string {
	parts := strings.Split(path, "/")
	last := parts[len(parts)-1]
	if versionElem.MatchString(last) && len(parts) > 1 {
		last = parts[len(parts)-2]
	}
	if i := strings.Index(last, "."); i > 0 && strings.HasPrefix(path, "gopkg.in/") {
		last = last[:i]
	}
	return last
}

func flagKind(e ast.Expr) (writer bool) {
	names := map[string]bool{}
	literalOnly := true
	ast.Inspect(e, func(n ast.Node) bool {
		switch x := n.(type) {
		case *ast.SelectorExpr:
			names[x.Sel.Name] = true
			return false
		case *ast.Ident:
			literalOnly = false // a variable or constant we cannot see through
		case *ast.CallExpr:
			literalOnly = false
		}
		return true
	})
	for _, w := range []string{"O_WRONLY", "O_RDWR", "O_CREATE", "O_TRUNC", "O_APPEND"} {
		if names[w] {
			return true
		}
	}
	return !(literalOnly && names["O_RDONLY"])
}

func main() {
	repo := os.Getenv("VERIF_REPO")
	if repo == "" {
		repo = "/repo"
	}
	verif := os.Getenv("VERIF_DIR")
	if verif == "" {
		verif = "/verif"
	}
	overlay := map[string]string{}
	if ov := os.Getenv("VERIF_EXTRA_OVERLAY"); ov != "" {
		_ = json.Unmarshal([]byte(ov), &overlay)
	}
	src := func(p string) string {
		if o, ok := overlay[p]; ok {
			return o
		}
		return p
	}
	ctxt := build.Default
	ctxt.GOOS, ctxt.GOARCH, ctxt.CgoEnabled = "linux", "amd64", false
	ctxt.BuildTags = nil
	ctxt.OpenFile = func(p string) (io.ReadCloser, error) { return os.Open(src(p)) }

	var rows []row
	var scanned, skipped []string
	fset := token.NewFileSet()
	for _, d := range pkgDirs {
		dir := filepath.Join(repo, d)
		names, _ := filepath.Glob(filepath.Join(dir, "*.go"))
		if len(names) == 0 {
			rows = append(rows, row{d, "<package missing>", "missing.package", "KUnresolved", 0})
			continue
		}
		sort.Strings(names)
		for _, n := range names {
			base := filepath.Base(n)
			if strings.HasSuffix(base, "_test.go") {
				continue
			}
			rel, _ := filepath.Rel(repo, n)
			if ok, err := ctxt.MatchFile(dir, base); err != nil || !ok {
				skipped = append(skipped, rel)
				continue
			}
			f, err := parser.ParseFile(fset, src(n), nil, 0)
			if err != nil {
				rows = append(rows, row{rel, "<parse error>", "parse.error", "KUnresolved", 0})
				continue
			}
			scanned = append(scanned, rel)
			rows = append(rows, scanFile(fset, f, rel)...)
		}
	}

	var b strings.Builder
	b.WriteString("(* GENERATED by tools/c14writers from the working tree of the repository; do not edit. *)\n")
	b.WriteString("From Coq Require Import List String NArith.\nFrom AGH Require Import Model.Writers.\n")
	b.WriteString("Import ListNotations.\nLocal Open Scope string_scope.\nLocal Open Scope N_scope.\n\n")
	list := func(name string, xs []string) {
		b.WriteString("Definition " + name + " : list string := [\n")
		for i, x := range xs {
			sep := ";"
			if i == len(xs)-1 {
				sep = ""
			}
			fmt.Fprintf(&b, "  %q%s\n", x, sep)
		}
		b.WriteString("].\n\n")
	}
	list("scanned_packages", pkgDirs)
	list("scanned_files", scanned)
	list("skipped_files", skipped)
	b.WriteString("Definition writers : list wcall := [\n")
	for i, r := range rows {
		sep := ";"
		if i == len(rows)-1 {
			sep = ""
		}
		fmt.Fprintf(&b, "  mkw %q %q %q %s %d%s\n", r.file, r.fn, r.callee, r.kind, r.line, sep)
	}
	b.WriteString("].\n")
	// round 8 (P): the names updater.copySupportingFiles skips (its in-place copy
	// must never have the configuration file as its destination)
	skipNames, skipPure := skipGuard(fset, src(filepath.Join(repo, "internal/updater/updater.go")))
	b.WriteString("\n")
	list("copy_skip_names", skipNames)
	fmt.Fprintf(&b, "Definition copy_skip_pure : bool := %v.\n", skipPure)
	out := filepath.Join(verif, "coq", "Gen", "Writers.v")
	_ = os.MkdirAll(filepath.Dir(out), 0o755)
	if old, err := os.ReadFile(out); err != nil || string(old) != b.String() {
		if err := os.WriteFile(out, []byte(b.String()), 0o644); err != nil {
			fmt.Fprintln(os.Stderr, "c14writers:", err)
			os.Exit(1)
		}
	}
	fmt.Printf("c14writers: %d rows, %d files scanned, %d skipped (not linux)\n", len(rows), len(scanned), len(skipped))
	for _, r := range rows {
		if r.kind != "KRenameio" && r.kind != "KPendingMethod" {
			fmt.Printf("  raw %s:%d: %s in %s (%s)\n", r.file, r.line, r.callee, r.fn, r.kind)
		}
	}
}

func scanFile(fset *token.FileSet, f *ast.File, rel string) (rows []row) {
	imp := map[string]string{} // local name -> tag
	for _, is := range f.Imports {
		path := strings.Trim(is.Path.Value, "\"`")
		tag, ok := apiPkgs[path]
		if !ok {
			continue
		}
		name := defaultName(path)
		if is.Name != nil {
			name = is.Name.Name
		}
		if name == "." {
			rows = append(rows, row{rel, "<imports>", "dot-import." + tag, "KUnresolved", fset.Position(is.Pos()).Line})
			continue
		}
		imp[name] = tag
	}
	add := func(fn string, pos token.Pos, callee, kind string) {
		rows = append(rows, row{rel, fn, callee, kind, fset.Position(pos).Line})
	}
	visit := func(fn string, root ast.Node) {
		first := len(rows)
		defer func() {
			// a function that opens a file for writing AND renames: one extra row
			var open *row
			rename := false
			for i := first; i < len(rows); i++ {
				r := &rows[i]
				switch {
				case r.kind == "KOpenWrite" || r.kind == "KCreate" ||
					r.kind == "KRawSyscall" && (strings.HasSuffix(r.callee, ".Open") || strings.HasSuffix(r.callee, ".Openat") || strings.HasSuffix(r.callee, ".Creat")):
					if open == nil {
						open = r
					}
				case r.kind == "KRename" || r.kind == "KRawSyscall" && strings.Contains(r.callee, ".Rename"):
					rename = true
				}
			}
			if open != nil && rename {
				rows = append(rows, row{rel, fn, "<hand-rolled>.open+rename", "KHandRolled", open.line})
			}
		}()
		seen := map[*ast.SelectorExpr]bool{}
		ast.Inspect(root, func(n ast.Node) bool {
			switch x := n.(type) {
			case *ast.CallExpr:
				sel, ok := x.Fun.(*ast.SelectorExpr)
				if !ok {
					return true
				}
				seen[sel] = true
				if id, ok := sel.X.(*ast.Ident); ok && id.Obj == nil && imp[id.Name] != "" {
					pkgFunc(add, fn, sel, imp[id.Name], x.Args, true)
					return true
				}
				switch sel.Sel.Name {
				case "CloseAtomicallyReplace", "CloseReplace", "Cleanup":
					if len(x.Args) == 0 {
						add(fn, sel.Pos(), "<pending>."+sel.Sel.Name, "KPendingMethod")
					}
				case "Truncate":
					add(fn, sel.Pos(), "<file>.Truncate", "KTruncate")
				default:
					if k, ok := rootMethods[sel.Sel.Name]; ok && !isLocalPackage(sel.X, f) {
						add(fn, sel.Pos(), "<recv>."+sel.Sel.Name, k)
					}
				}
			case *ast.SelectorExpr:
				// a function value mentioned without being called
				if id, ok := x.X.(*ast.Ident); ok && !seen[x] && id.Obj == nil && imp[id.Name] != "" {
					pkgFunc(add, fn, x, imp[id.Name], nil, false)
				}
			case *ast.CompositeLit:
				if sel, ok := x.Type.(*ast.SelectorExpr); ok {
					if id, ok := sel.X.(*ast.Ident); ok && id.Obj == nil && imp[id.Name] == "lumberjack" && sel.Sel.Name == "Logger" {
						seen[sel] = true
						add(fn, sel.Pos(), "lumberjack.Logger", "KOther")
					}
				}
			}
			return true
		})
	}
	for _, d := range f.Decls {
		switch x := d.(type) {
		case *ast.FuncDecl:
			if x.Body != nil {
				visit(x.Name.Name, x.Body)
			}
		case *ast.GenDecl:
			if x.Tok == token.VAR || x.Tok == token.CONST {
				visit("<file scope>", x)
			}
		}
	}
	return rows
}

func pkgFunc(add func(string, token.Pos, string, string), fn string, sel *ast.SelectorExpr, tag string, args []ast.Expr, called bool) {
	name := sel.Sel.Name
	switch tag {
	case "os", "ioutil":
		if name == "OpenFile" {
			if !called || len(args) < 2 || flagKind(args[1]) {
				add(fn, sel.Pos(), tag+".OpenFile", "KOpenWrite")
			}
			return
		}
		if k, ok := osKind[name]; ok {
			add(fn, sel.Pos(), tag+"."+name, k)
		}
	case "renameio", "maybe", "aghrenameio":
		if ast.IsExported(name) && !isTypeName(name) {
			add(fn, sel.Pos(), tag+"."+name, "KRenameio")
		}
	case "syscall", "unix":
		if sysCalls[name] {
			add(fn, sel.Pos(), tag+"."+name, "KRawSyscall")
		}
	case "bbolt":
		if name == "Open" {
			add(fn, sel.Pos(), "bbolt.Open", "KOther")
		}
	}
}

// isLocalPackage: x is an identifier that names an imported package (any
// package, not only the recognised ones), i.e. x.F is a package function.
func isLocalPackage(x ast.Expr, f *ast.File) bool {
	id, ok := x.(*ast.Ident)
	if !ok || id.Obj != nil {
		return false
	}
	for _, is := range f.Imports {
		path := strings.Trim(is.Path.Value, "\"`")
		name := defaultName(path)
		if is.Name != nil {
			name = is.Name.Name
		}
		if name == id.Name {
			return true
		}
	}
	return false
}

// type names of the rename-based packages that occur in declarations
func isTypeName(n string) bool {
	return n == "PendingFile" || n == "Option"
}

// skipGuard reads the skip condition of updater.copySupportingFiles: the first
// `if` of the loop body whose body is a lone `continue`.  names: the string
// literals the base name is compared with; pure: the condition is nothing but
// a disjunction of `name == "literal"` on the variable that filepath.Split
// gave, and the loop has no other statement before it that could copy.
func skipGuard(fset *token.FileSet, path string) (names []string, pure bool) {
	f, err := parser.ParseFile(fset, path, nil, 0)
	if err != nil {
		return nil, false
	}
	for _, decl := range f.Decls {
		fd, ok := decl.(*ast.FuncDecl)
		if !ok || fd.Name.Name != "copySupportingFiles" || fd.Body == nil {
			continue
		}
		for _, st := range fd.Body.List {
			rng, ok := st.(*ast.RangeStmt)
			if !ok || len(rng.Body.List) < 2 {
				continue
			}
			// first statement: _, name := filepath.Split(f)
			as, ok := rng.Body.List[0].(*ast.AssignStmt)
			if !ok || len(as.Lhs) != 2 || len(as.Rhs) != 1 {
				return nil, false
			}
			nameVar, ok := as.Lhs[1].(*ast.Ident)
			call, ok2 := as.Rhs[0].(*ast.CallExpr)
			if !ok || !ok2 {
				return nil, false
			}
			if sel, ok := call.Fun.(*ast.SelectorExpr); !ok || sel.Sel.Name != "Split" {
				return nil, false
			}
			ifs, ok := rng.Body.List[1].(*ast.IfStmt)
			if !ok || ifs.Init != nil || ifs.Else != nil || len(ifs.Body.List) != 1 {
				return nil, false
			}
			if br, ok := ifs.Body.List[0].(*ast.BranchStmt); !ok || br.Tok != token.CONTINUE {
				return nil, false
			}
			pure = true
			var walk func(e ast.Expr)
			walk = func(e ast.Expr) {
				switch x := e.(type) {
				case *ast.ParenExpr:
					walk(x.X)
				case *ast.BinaryExpr:
					if x.Op == token.LOR {
						walk(x.X)
						walk(x.Y)
						return
					}
					id, okI := x.X.(*ast.Ident)
					lit, okL := x.Y.(*ast.BasicLit)
					if x.Op == token.EQL && okI && okL && id.Name == nameVar.Name && lit.Kind == token.STRING {
						names = append(names, strings.Trim(lit.Value, "\"`"))
						return
					}
					pure = false
				default:
					pure = false
				}
			}
			walk(ifs.Cond)
			return names, pure
		}
	}
	return nil, false
}

#!/usr/bin/env python3
"""C14 program-level supplement: lists every call in the anchored files that
creates, writes, truncates, renames or removes a file into coq/Gen/Writers.v.
The theorem over the table (Proofs/Writers.v) states that each is one of the
rename-based writers or an explicitly listed exception.

Source of truth is the working tree at $VERIF_REPO (default /repo).  Comments
and string literals are blanked before matching; package aliases are read from
the import block.  What counts as a file-modifying call:
  os.WriteFile / ioutil.WriteFile, os.Create, os.CreateTemp / ioutil.TempFile,
  os.OpenFile with a write/create/truncate/append flag (or a non-literal flag),
  os.Rename, os.Remove, os.RemoveAll, os.Truncate, os.Link, os.Symlink,
  <x>.Truncate(, every function of renameio, renameio/maybe and aghrenameio,
  and the pending-file methods CloseAtomicallyReplace / CloseReplace / Cleanup.
"""
import json
import os
import re
import sys

REPO = os.environ.get("VERIF_REPO", "/repo")
VERIF = os.environ.get("VERIF_DIR") or os.path.dirname(os.path.dirname(os.path.abspath(__file__)))

FILES = [
    "internal/home/config.go",
    "internal/dhcpd/db.go",
    "internal/dhcpd/migrate.go",
    "internal/filtering/filter.go",
    "internal/aghrenameio/renameio.go",
    "internal/aghrenameio/renameio_unix.go",
    "internal/configmigrate/v1.go",
]

PKGS = {
    "os": "os",
    "io/ioutil": "ioutil",
    "github.com/google/renameio/v2": "renameio",
    "github.com/google/renameio/v2/maybe": "maybe",
    "github.com/AdguardTeam/AdGuardHome/internal/aghrenameio": "aghrenameio",
}

OS_KIND = {
    "WriteFile": "KWriteFile", "Create": "KCreate", "CreateTemp": "KCreate", "TempFile": "KCreate",
    "Rename": "KRename", "Remove": "KRemove", "RemoveAll": "KRemove", "Truncate": "KTruncate",
    "Link": "KOther", "Symlink": "KOther",
}


def blank(src):
    """Replace comments and string/rune literals by spaces (same length, newlines kept)."""
    out, i, n = [], 0, len(src)
    while i < n:
        c = src[i]
        two = src[i:i + 2]
        if two == "//":
            j = src.find("\n", i)
            j = n if j < 0 else j
            out.append(" " * (j - i))
            i = j
        elif two == "/*":
            j = src.find("*/", i + 2)
            j = n if j < 0 else j + 2
            out.append("".join(ch if ch == "\n" else " " for ch in src[i:j]))
            i = j
        elif c in "\"'`":
            j = i + 1
            while j < n and src[j] != c:
                if src[j] == "\\" and c != "`":
                    j += 1
                j += 1
            j = min(j + 1, n)
            out.append(c + "".join(ch if ch == "\n" else " " for ch in src[i + 1:j - 1]) + c)
            i = j
        else:
            out.append(c)
            i += 1
    return "".join(out)


def imports(src):
    """local name -> canonical package tag, for the packages of interest."""
    res = {}
    for m in re.finditer(r'^\s*(?:import\s+)?(?:([A-Za-z_.][A-Za-z0-9_]*)\s+)?"([^"]+)"\s*$', src, flags=re.M):
        alias, path = m.group(1), m.group(2)
        if path in PKGS:
            res[alias or PKGS[path]] = PKGS[path]
    return res


def call_args(text, start):
    depth, i = 0, start
    while i < len(text):
        if text[i] == "(":
            depth += 1
        elif text[i] == ")":
            depth -= 1
            if depth == 0:
                return text[start + 1:i]
        i += 1
    return text[start + 1:]


def source_path(rel):
    """Scratch mutations of the self-tests (VERIF_EXTRA_OVERLAY) are honoured."""
    p = os.path.join(REPO, rel)
    try:
        ov = json.loads(os.environ.get("VERIF_EXTRA_OVERLAY") or "{}")
    except ValueError:
        ov = {}
    return ov.get(p, p)


def scan(rel):
    raw = open(source_path(rel)).read()
    imp = imports(raw)
    txt = blank(raw)
    if 'build windows' in raw.split("package", 1)[0]:
        return []
    funcs = [(m.start(), m.group(1)) for m in re.finditer(r"^func\s+(?:\([^)]*\)\s*)?([A-Za-z_][A-Za-z0-9_]*)", txt, flags=re.M)]
    res = []

    def encl(pos):
        name = "<file scope>"
        for p, n in funcs:
            if p <= pos:
                name = n
        return name

    for m in re.finditer(r"\b([A-Za-z_][A-Za-z0-9_]*)\.([A-Za-z_][A-Za-z0-9_]*)\s*\(", txt):
        q, f = m.group(1), m.group(2)
        line = txt.count("\n", 0, m.start()) + 1
        pkg = imp.get(q)
        kind = None
        if pkg in ("os", "ioutil"):
            if f == "OpenFile":
                args = call_args(txt, m.end() - 1)
                flag = args.split(",")[1] if args.count(",") >= 1 else ""
                if re.search(r"O_(WRONLY|RDWR|CREATE|TRUNC|APPEND)", flag) or not re.search(r"O_RDONLY", flag):
                    kind = "KOpenWrite"
            else:
                kind = OS_KIND.get(f)
        elif pkg in ("renameio", "maybe", "aghrenameio"):
            kind = "KRenameio"
        elif f in ("CloseAtomicallyReplace", "CloseReplace", "Cleanup"):
            kind, pkg = "KPendingMethod", "method"
        elif f == "Truncate" and pkg is None:
            kind, pkg = "KTruncate", "method"
        if kind:
            res.append((rel, encl(m.start()), "%s.%s" % (pkg if pkg != "method" else "<pending>", f), kind, line))
    return res


def main():
    rows = []
    for rel in FILES:
        p = os.path.join(REPO, rel)
        if not os.path.exists(p):
            # an anchored file that disappeared is listed, the theorem then fails
            rows.append((rel, "<file missing>", "missing.file", "KOther", 0))
            continue
        rows += scan(rel)
    out = os.path.join(VERIF, "coq", "Gen", "Writers.v")
    os.makedirs(os.path.dirname(out), exist_ok=True)
    body = ";\n".join('  mkw "%s" "%s" "%s" %s %d' % r for r in rows)
    txt = ("(* GENERATED by tools/c14_writers.py from the working tree of the repository; do not edit. *)\n"
           "From Coq Require Import List String NArith.\nFrom AGH Require Import Model.Writers.\n"
           "Import ListNotations.\nLocal Open Scope string_scope.\nLocal Open Scope N_scope.\n\n"
           "Definition scanned_files : list string := [\n" + ";\n".join('  "%s"' % f for f in FILES) + "\n].\n\n"
           "Definition writers : list wcall := [\n" + body + "\n].\n")
    old = open(out).read() if os.path.exists(out) else None
    if old != txt:
        with open(out, "w") as f:
            f.write(txt)
    print("c14_writers: %d file-modifying calls in %d files" % (len(rows), len(FILES)))


if __name__ == "__main__":
    main()

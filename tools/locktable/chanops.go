// Blocking channel operations as wait-for edges of the lock table (C05, round 7).
//
// A goroutine that blocks in a channel send or receive while it holds a mutex
// keeps that mutex for as long as the other side of the channel does not come;
// if the other side needs the mutex (directly, or behind a pending writer of an
// RWMutex), nobody moves.  The lock machine of Base/Conc.v has no channels: a
// thread is a finite list of lock and access events, and an operation whose
// completion depends on ANOTHER thread's progress is not such an event.  So the
// translator keeps channel waits out of critical sections altogether: every
// potentially blocking operation
//
//	ch <- v                         (send)
//	<-ch, v, ok := <-ch, range ch   (receive)
//	select { ... } without default  (blocking select)
//	(*sync.WaitGroup).Wait
//
// that is reachable from a root with a NON-EMPTY must-held lock set is a row
// (function, operation, channel, locks held, position, root).  A send or
// receive that is a case of a select WITH default is not blocking and is not a
// row.  sync.Cond.Wait is left out: it releases its own L while it waits (the
// only Cond of the tree, home.httpsServer.cond, is used under its L and under
// no other lock).  Rows are failures unless tools/locktable/handover.json lists
// the pair function@channel under "blocking_ok" with the reason why the wait
// ends without the held locks.  Output: coq/Gen/LockTableChan.v.
package main

import (
	"fmt"
	"go/token"
	"path/filepath"
	"sort"
	"strings"

	"golang.org/x/tools/go/ssa"
)

// chanName: a name for the channel value: the struct field it is kept in, else
// the variable / call it comes from.
func (a *analysis) chanName(v ssa.Value, depth int) string {
	if depth > 6 {
		return "?"
	}
	switch x := v.(type) {
	case *ssa.UnOp:
		if x.Op == token.MUL {
			if fa, ok := x.X.(*ssa.FieldAddr); ok {
				if k := a.fieldKey(fa); k != "" {
					return k
				}
			}
			return a.chanName(x.X, depth+1)
		}
	case *ssa.Field:
		if k := a.structFieldKey(x.X.Type(), x.Field); k != "" {
			return k
		}
	case *ssa.FieldAddr:
		if k := a.fieldKey(x); k != "" {
			return k
		}
	case *ssa.Parameter:
		return "parameter " + x.Name()
	case *ssa.FreeVar:
		return "variable " + x.Name()
	case *ssa.Alloc:
		if x.Comment == "complit" || x.Comment == "new" || x.Comment == "" {
			t := x.Type().String()
			return "local " + strings.TrimPrefix(t, "*")
		}
		return "variable " + x.Comment
	case *ssa.Global:
		return a.short(x.Pkg.Pkg.Path()) + "." + x.Name()
	case *ssa.Call:
		if f := x.Call.StaticCallee(); f != nil {
			return "result of " + a.short(f.String())
		}
		if x.Call.IsInvoke() {
			return "result of " + a.short(x.Call.Value.Type().String()) + "." + x.Call.Method.Name()
		}
	case *ssa.MakeChan:
		return "channel made at " + a.posStr(x.Pos())
	case *ssa.ChangeType:
		return a.chanName(x.X, depth+1)
	case *ssa.Phi:
		var ns []string
		for _, e := range x.Edges {
			ns = append(ns, a.chanName(e, depth+1))
		}
		sort.Strings(ns)
		return strings.Join(ns, " | ")
	}
	return "value " + v.Name()
}

// blockingOps records the potentially blocking operation an instruction is.
func (a *analysis) blockingOps(fi *fnInfo, st relState, ins ssa.Instruction, rec func(site)) {
	emit := func(op, ch string) {
		rec(site{kind: siteBlock, st: st, pos: insPos(ins), field: ch, note: op})
	}
	switch x := ins.(type) {
	case *ssa.Send:
		emit("send", a.chanName(x.Chan, 0))
	case *ssa.UnOp:
		if x.Op == token.ARROW {
			emit("receive", a.chanName(x.X, 0))
		}
	case *ssa.Select:
		if x.Blocking {
			var ns []string
			for _, s := range x.States {
				d := "receive "
				if s.Dir == 1 { // types.SendOnly
					d = "send "
				}
				ns = append(ns, d+a.chanName(s.Chan, 0))
			}
			emit("select without default", strings.Join(ns, ", "))
		}
	case *ssa.Call:
		if f := x.Call.StaticCallee(); f != nil && f.String() == "(*sync.WaitGroup).Wait" && len(x.Call.Args) > 0 {
			emit("WaitGroup.Wait", a.chanName(x.Call.Args[0], 0))
		}
	}
}

type blockOut struct {
	Root   string   `json:"root"`
	Fn     string   `json:"fn"`
	Op     string   `json:"op"`
	Chan   string   `json:"chan"`
	Held   []string `json:"held"`
	Pos    string   `json:"pos"`
	Key    string   `json:"key"`
	Reason string   `json:"reason,omitempty"`
}

type chanOut struct {
	Rows        []*blockOut `json:"rows"`
	Unjustified int         `json:"unjustified"`
	Unused      []string    `json:"blocking_ok_entries_not_needed"`
}

func runChanOps(a *analysis, verif string, blocks map[string]*blockOut) (*chanOut, error) {
	cfg, err := readBalConfig(verif)
	if err != nil {
		return nil, err
	}
	ok := map[string]*balAllow{}
	for _, d := range cfg.BlockingOK {
		ok[d.Key] = d
	}
	out := &chanOut{}
	for _, r := range blocks {
		r.Key = r.Fn + "@" + r.Chan
		if d := ok[r.Key]; d != nil {
			d.used = true
			r.Reason = d.Reason
		} else {
			out.Unjustified++
		}
		out.Rows = append(out.Rows, r)
	}
	sort.Slice(out.Rows, func(i, j int) bool {
		x, y := out.Rows[i], out.Rows[j]
		return fmt.Sprint(x.Fn, x.Pos, x.Op, x.Held, x.Root) < fmt.Sprint(y.Fn, y.Pos, y.Op, y.Held, y.Root)
	})
	for _, d := range cfg.BlockingOK {
		if !d.used {
			out.Unused = append(out.Unused, d.Key)
		}
	}
	var sb strings.Builder
	sb.WriteString("(* GENERATED by tools/locktable (chanops.go) from the current source; do not edit. *)\n")
	sb.WriteString("From Coq Require Import List String.\nFrom AGH Require Import Base.Conc Model.LockBalance.\nImport ListNotations.\nLocal Open Scope string_scope.\n\n")
	sb.WriteString("(* every potentially blocking channel operation (send, receive, select without default,\n   WaitGroup.Wait) reachable from a root with a non-empty must-held lock set *)\n")
	sb.WriteString("Definition chan_rows : list chan_row := [\n")
	for i, r := range out.Rows {
		var hs []string
		for _, h := range r.Held {
			l, w := heldLock(h)
			hs = append(hs, "("+coqStr(l)+", "+coqMode(w)+")")
		}
		sep := ";"
		if i == len(out.Rows)-1 {
			sep = ""
		}
		fmt.Fprintf(&sb, "  ChanRow %s %s %s [%s] %s %s%s\n", coqStr(r.Fn), coqStr(r.Op), coqStr(r.Chan), strings.Join(hs, "; "), coqStr(r.Pos), coqStr(r.Root), sep)
	}
	sb.WriteString("].\n\n(* the justified pairs function@channel (tools/locktable/handover.json, blocking_ok): key, reason *)\n")
	sb.WriteString("Definition chan_justified : list (string * string) := [\n")
	var js []string
	for _, d := range cfg.BlockingOK {
		if d.used {
			js = append(js, fmt.Sprintf("  (%s, %s)", coqStr(d.Key), coqStr(d.Reason)))
		}
	}
	sb.WriteString(strings.Join(js, ";\n"))
	if len(js) > 0 {
		sb.WriteString("\n")
	}
	sb.WriteString("].\n")
	writeIfChanged(filepath.Join(verif, "coq/Gen/LockTableChan.v"), sb.String())
	return out, nil
}

// Command locktable extracts the lock/field access table of C05 from the
// current source of AdGuard Home (VERIF_REPO, default /repo) and writes it as
// a Coq file (coq/Gen/LockTable.v) plus a JSON side file (work/locktable.json).
//
// Over go/ssa it computes, for a set of roots (DNS request path, admin HTTP
// handlers, goroutines), the locks that are certainly held at every access to
// a guarded struct field (guard map read from coq/Model/Guards.v), the
// acquired-while-held pairs, and what it could not resolve.
//
// Round 4: an external blocking resource is an ABSTRACT lock of the table.  A
// bbolt write transaction holds the database's single writer lock
// (bbolt.DB.rwlock, a sync.Mutex) from db.Begin(true) to tx.Commit() /
// tx.Rollback(); db.Update(fn) / db.Batch(fn) hold it around fn; db.Close()
// takes and drops it.  The abstract lock is named after the field that holds
// the database ("stats.StatsCtx.db.writer", "home.Auth.db.writer", ...) and is
// used in write mode only.  Read transactions (Begin(false), View) do not take
// the writer lock and are left out (they hold bbolt's mmap lock in read mode,
// which a committing writer needs only when the file has to grow); they are
// counted in the side output.  A transaction or database value the translator
// cannot trace back to a field is reported as unresolved ("bbolt-tx@fn").
// Besides the acquired-while-held PAIRS (sync mutexes only, as before) the
// translator now emits every ACQUISITION SITE with the complete set of locks
// held there, abstract ones included (coq/Gen/LockTableAcq.v): that is what
// the gate-lock criterion of Proofs/LockTableGate.v is evaluated on.
//
// Round 6: lock BALANCE per function path (balance.go): for every function a
// path-sensitive may-held analysis; at every return and explicit panic the
// locks acquired in the function must have been released (or the function is a
// hand-over declared in handover.json).  Output coq/Gen/LockTableBalance.v and
// the "balance" section of the JSON side file.
//
// Approximations (all named in DESIGN.md, C05): locks and fields are identified
// by (named struct type, field name), i.e. all instances of a type are
// conflated; function values are resolved field-/parameter-based; code outside
// the repository's packages is assumed not to touch repository locks except by
// calling closures passed to it, synchronously.
package main

import (
	"encoding/json"
	"fmt"
	"go/token"
	"go/types"
	"os"
	"path/filepath"
	"regexp"
	"sort"
	"strings"

	"golang.org/x/tools/go/packages"
	"golang.org/x/tools/go/ssa"
	"golang.org/x/tools/go/ssa/ssautil"
)

const modPrefix = "github.com/AdguardTeam/AdGuardHome/internal/"

// ---------------------------------------------------------------- lock sets

type lm struct {
	Lock string
	W    bool
}

var (
	lmIDs   = map[lm]int{}
	lmByID  []lm
	allLMs  set
	verbose = os.Getenv("LOCKTABLE_DEBUG") != ""
)

func lmID(x lm) int {
	if id, ok := lmIDs[x]; ok {
		return id
	}
	id := len(lmByID)
	if id >= 192 {
		panic("too many distinct locks")
	}
	lmIDs[x] = id
	lmByID = append(lmByID, x)
	return id
}

type set [3]uint64

func (s set) has(i int) bool    { return s[i/64]&(1<<(uint(i)%64)) != 0 }
func (s set) with(i int) set    { s[i/64] |= 1 << (uint(i) % 64); return s }
func (s set) without(i int) set { s[i/64] &^= 1 << (uint(i) % 64); return s }
func (s set) inter(t set) set   { return set{s[0] & t[0], s[1] & t[1], s[2] & t[2]} }
func (s set) union(t set) set   { return set{s[0] | t[0], s[1] | t[1], s[2] | t[2]} }
func (s set) minus(t set) set   { return set{s[0] &^ t[0], s[1] &^ t[1], s[2] &^ t[2]} }
func (s set) empty() bool       { return s[0]|s[1]|s[2] == 0 }
func (s set) elems() (r []int) {
	for i := 0; i < 192; i++ {
		if s.has(i) {
			r = append(r, i)
		}
	}
	return r
}

// relState is the lock state at a program point relative to the function's
// entry: held = (entry \ rem) ∪ add.  def = defer instructions that may have
// been executed.  ok=false is "unreached" (top).
type relState struct {
	add, rem, def set
	ok            bool
}

func join(a, b relState) relState {
	if !a.ok {
		return b
	}
	if !b.ok {
		return a
	}
	return relState{add: a.add.inter(b.add), rem: a.rem.union(b.rem), def: a.def.union(b.def), ok: true}
}

func (st relState) acquire(id int) relState { st.add = st.add.with(id); return st }
func (st relState) release(id int) relState {
	if st.add.has(id) {
		st.add = st.add.without(id)
	} else {
		st.rem = st.rem.with(id)
	}
	return st
}
func (st relState) applySummary(sum relState) relState {
	if !sum.ok {
		return st
	}
	for _, r := range sum.rem.elems() {
		st = st.release(r)
	}
	st.add = st.add.union(sum.add)
	return st
}
func held(entry set, st relState) set { return entry.minus(st.rem).union(st.add) }

// ---------------------------------------------------------------- program

type siteKind int

const (
	siteAccess siteKind = iota
	siteCall
	siteGo
	siteAcquire
	siteBlock // a potentially blocking channel operation / WaitGroup.Wait (chanops.go)
)

type site struct {
	kind    siteKind
	st      relState // state before the instruction
	pos     token.Pos
	field   string // access
	write   bool
	note    string
	callees []*ssa.Function // call / go
	acq     int             // acquire
	// fresh-receiver propagation: the access goes through the function's own
	// receiver (viaRecv); the call is a static method call whose receiver is an
	// object allocated in the caller and not published by it (recvFresh) or the
	// caller's own receiver (recvPass)
	viaRecv, recvFresh, recvPass bool
}

type fnInfo struct {
	fn       *ssa.Function
	defers   []*ssa.Defer
	deferIdx map[*ssa.Defer]int
	in       map[*ssa.BasicBlock]relState
	exit     relState
	sites    []site
	// abstract transaction locks this function acquires itself (Begin(true)):
	// a second Commit / Rollback of such a transaction (`defer tx.Rollback()`
	// after an explicit Commit) is a no-op in bbolt and must not count as the
	// release of a lock of the caller
	txLocal set
}

type analysis struct {
	prog      *ssa.Program
	fset      *token.FileSet
	repoDir   string
	repoPkgs  map[*types.Package]bool
	fns       map[*ssa.Function]*fnInfo
	order     []*ssa.Function
	guards    map[string][]string // field -> locks
	mutators  map[string]bool
	namedTys  []types.Type // repo named non-interface types (T and *T)
	invokeMem map[string][]*ssa.Function
	// function-value flow (field-, parameter-, free-variable-, global-based)
	fvFlow      map[string]map[*ssa.Function]bool
	fvChanged   bool
	ptrBind     map[*ssa.Parameter]map[string]bool // pointer parameter -> guarded fields it may point to
	lockBind    map[*ssa.Parameter]map[string]bool // mutex parameter -> locks passed for it
	txBind      map[*ssa.Parameter]map[string]bool // *bbolt.Tx / *bbolt.DB parameter -> abstract locks passed for it
	abstract    map[string]string                  // abstract lock -> what it stands for
	readTxns    map[string]string                  // read transactions met (left out), by position
	addrEscapes map[string]string
	byStruct    map[string][]string // "pkg.Type" -> guarded field keys
	unresolved  map[string]string   // key -> description
	collecting  bool
}

func (a *analysis) short(s string) string {
	s = strings.ReplaceAll(s, modPrefix, "")
	s = strings.ReplaceAll(s, "github.com/AdguardTeam/", "")
	s = strings.ReplaceAll(s, " ", "")
	return s
}

func (a *analysis) fnName(fn *ssa.Function) string { return a.short(fn.String()) }

func (a *analysis) posStr(p token.Pos) string {
	if !p.IsValid() {
		return "?"
	}
	ps := a.fset.Position(p)
	f := ps.Filename
	if rel, err := filepath.Rel(a.repoDir, f); err == nil && !strings.HasPrefix(rel, "..") {
		f = rel
	}
	return fmt.Sprintf("%s:%d", f, ps.Line)
}

func (a *analysis) typesPkgOf(fn *ssa.Function) *types.Package {
	for f := fn; f != nil; f = f.Parent() {
		if f.Pkg != nil {
			return f.Pkg.Pkg
		}
		if o := f.Object(); o != nil && o.Pkg() != nil {
			return o.Pkg()
		}
		if f.Origin() != nil && f.Origin() != f {
			return a.typesPkgOf(f.Origin())
		}
	}
	return nil
}

func (a *analysis) inRepo(fn *ssa.Function) bool {
	if fn == nil || len(fn.Blocks) == 0 {
		return false
	}
	p := a.typesPkgOf(fn)
	return p != nil && a.repoPkgs[p]
}

func (a *analysis) info(fn *ssa.Function) *fnInfo {
	if fi, ok := a.fns[fn]; ok {
		return fi
	}
	if !a.inRepo(fn) {
		a.fns[fn] = nil
		return nil
	}
	fi := &fnInfo{fn: fn, deferIdx: map[*ssa.Defer]int{}, in: map[*ssa.BasicBlock]relState{}}
	for _, b := range fn.Blocks {
		for _, ins := range b.Instrs {
			if d, ok := ins.(*ssa.Defer); ok {
				fi.deferIdx[d] = len(fi.defers)
				fi.defers = append(fi.defers, d)
			}
		}
	}
	if len(fi.defers) > 190 {
		panic("too many defers in " + fn.String())
	}
	a.fns[fn] = fi
	a.order = append(a.order, fn)
	return fi
}

// fieldKey names a struct field by its named struct type: "pkg.Type.field".
func (a *analysis) fieldKey(fa *ssa.FieldAddr) string {
	pt, ok := fa.X.Type().Underlying().(*types.Pointer)
	if !ok {
		return ""
	}
	return a.structFieldKey(pt.Elem(), fa.Field)
}

func (a *analysis) structFieldKey(t types.Type, idx int) string {
	st, ok := t.Underlying().(*types.Struct)
	if !ok {
		return ""
	}
	name := ""
	switch n := types.Unalias(t).(type) {
	case *types.Named:
		o := n.Obj()
		if o.Pkg() != nil {
			name = a.short(o.Pkg().Path()) + "." + o.Name()
		} else {
			name = o.Name()
		}
	default:
		return ""
	}
	return name + "." + st.Field(idx).Name()
}

// ---------------------------------------------------------------- lock ops

type lockOp int

const (
	opNone lockOp = iota
	opLock
	opRLock
	opUnlock
	opRUnlock
	opTry
)

func lockOpOf(c *ssa.CallCommon) lockOp {
	fn := c.StaticCallee()
	if fn == nil {
		return opNone
	}
	switch fn.String() {
	case "(*sync.Mutex).Lock", "(*sync.RWMutex).Lock":
		return opLock
	case "(*sync.RWMutex).RLock":
		return opRLock
	case "(*sync.Mutex).Unlock", "(*sync.RWMutex).Unlock":
		return opUnlock
	case "(*sync.RWMutex).RUnlock":
		return opRUnlock
	case "(*sync.Mutex).TryLock", "(*sync.RWMutex).TryLock", "(*sync.RWMutex).TryRLock":
		return opTry
	}
	return opNone
}

func (a *analysis) resolveLock(v ssa.Value) string {
	switch x := v.(type) {
	case *ssa.FieldAddr:
		return a.fieldKey(x)
	case *ssa.UnOp:
		if x.Op == token.MUL {
			switch y := x.X.(type) {
			case *ssa.FieldAddr:
				return a.fieldKey(y)
			case *ssa.Global:
				return a.short(y.Pkg.Pkg.Path()) + "." + y.Name()
			}
		}
	case *ssa.Global:
		return a.short(x.Pkg.Pkg.Path()) + "." + x.Name()
	case *ssa.Parameter:
		// a mutex passed as an argument: resolved when every call site passes the same lock
		if m := a.lockBind[x]; len(m) == 1 {
			for k := range m {
				return k
			}
		}
	}
	return ""
}

// ---------------------------------------------------------------- bbolt transactions (abstract locks)

const bboltPkg = "go.etcd.io/bbolt"

type bboltOp int

const (
	bbNone bboltOp = iota
	bbBegin
	bbCommit
	bbRollback
	bbUpdate
	bbBatch
	bbView
	bbClose
)

func bboltOpOf(c *ssa.CallCommon) bboltOp {
	fn := c.StaticCallee()
	if fn == nil {
		return bbNone
	}
	switch fn.String() {
	case "(*" + bboltPkg + ".DB).Begin":
		return bbBegin
	case "(*" + bboltPkg + ".Tx).Commit":
		return bbCommit
	case "(*" + bboltPkg + ".Tx).Rollback":
		return bbRollback
	case "(*" + bboltPkg + ".DB).Update":
		return bbUpdate
	case "(*" + bboltPkg + ".DB).Batch":
		return bbBatch
	case "(*" + bboltPkg + ".DB).View":
		return bbView
	case "(*" + bboltPkg + ".DB).Close":
		return bbClose
	}
	return bbNone
}

func isBboltPtr(t types.Type, name string) bool {
	pt, ok := t.Underlying().(*types.Pointer)
	if !ok {
		return false
	}
	return pt.Elem().String() == bboltPkg+"."+name
}

// cellStores: the values stored into a local variable kept in memory (captured
// by a closure or address-taken); al is the cell, possibly seen from a closure
// as a free variable.
func cellStores(v ssa.Value) (vals []ssa.Value, ok bool) {
	switch x := v.(type) {
	case *ssa.Alloc:
		if x.Referrers() == nil {
			return nil, false
		}
		for _, r := range *x.Referrers() {
			if st, isStore := r.(*ssa.Store); isStore && st.Addr == ssa.Value(x) {
				vals = append(vals, st.Val)
			}
		}
		return vals, true
	case *ssa.FreeVar:
		fn := x.Parent()
		par := fn.Parent()
		if par == nil {
			return nil, false
		}
		idx := -1
		for i, fv := range fn.FreeVars {
			if fv == x {
				idx = i
			}
		}
		found := false
		for _, b := range par.Blocks {
			for _, ins := range b.Instrs {
				mc, isMC := ins.(*ssa.MakeClosure)
				if !isMC || mc.Fn != ssa.Value(fn) || idx < 0 || idx >= len(mc.Bindings) {
					continue
				}
				vs, ok := cellStores(mc.Bindings[idx])
				if !ok {
					return nil, false
				}
				vals = append(vals, vs...)
				found = true
			}
		}
		return vals, found
	}
	return nil, false
}

// agree: all non-empty names are the same one.
func agree(names []string) string {
	res := ""
	for _, n := range names {
		if n == "" || (res != "" && n != res) {
			return ""
		}
		res = n
	}
	return res
}

// resolveDB names the abstract writer lock of the bbolt database denoted by v:
// the struct field the database is kept in (directly, or behind an
// atomic.Pointer read with Load / Swap), followed through local variables,
// captured variables and parameters bound at every call site to one database.
func (a *analysis) resolveDB(v ssa.Value, depth int) string {
	if depth > 8 {
		return ""
	}
	name := func(fa *ssa.FieldAddr) string {
		k := a.fieldKey(fa)
		if k == "" {
			return ""
		}
		k += ".writer"
		if a.abstract != nil {
			a.abstract[k] = "bbolt write transaction on the database kept in " + strings.TrimSuffix(k, ".writer") + " (bbolt.DB.rwlock: Begin(true) / Update / Batch until Commit / Rollback; Close)"
		}
		return k
	}
	switch x := v.(type) {
	case *ssa.Call:
		if f := x.Call.StaticCallee(); f != nil && len(x.Call.Args) > 0 {
			fs := f.String()
			mn := f.Name()
			if i := strings.Index(mn, "["); i > 0 { // instantiated generic: Load[bbolt.DB]
				mn = mn[:i]
			}
			if strings.HasPrefix(fs, "(*sync/atomic.Pointer["+bboltPkg+".DB]).") && (mn == "Load" || mn == "Swap") {
				if fa, ok := x.Call.Args[0].(*ssa.FieldAddr); ok {
					return name(fa)
				}
			}
		}
	case *ssa.UnOp:
		if x.Op != token.MUL {
			return ""
		}
		switch y := x.X.(type) {
		case *ssa.FieldAddr:
			return name(y)
		case *ssa.Alloc, *ssa.FreeVar:
			vals, ok := cellStores(y)
			if !ok || len(vals) == 0 {
				return ""
			}
			var ns []string
			for _, w := range vals {
				if c, isConst := w.(*ssa.Const); isConst && c.IsNil() {
					continue
				}
				ns = append(ns, a.resolveDB(w, depth+1))
			}
			return agree(ns)
		}
	case *ssa.Phi:
		var ns []string
		for _, e := range x.Edges {
			if c, isConst := e.(*ssa.Const); isConst && c.IsNil() {
				continue
			}
			ns = append(ns, a.resolveDB(e, depth+1))
		}
		return agree(ns)
	case *ssa.Parameter:
		if m := a.txBind[x]; len(m) == 1 {
			for k := range m {
				return k
			}
		}
	}
	return ""
}

// resolveTx names the abstract lock held by the transaction v: found through
// the Begin call that created it.  ro: v is a read transaction (no lock).
func (a *analysis) resolveTx(v ssa.Value, depth int) (name string, ro bool) {
	if depth > 8 {
		return "", false
	}
	many := func(vals []ssa.Value) (string, bool) {
		var ns []string
		allRO := len(vals) > 0
		for _, w := range vals {
			if c, isConst := w.(*ssa.Const); isConst && c.IsNil() {
				continue
			}
			n, r := a.resolveTx(w, depth+1)
			if !r {
				allRO = false
				ns = append(ns, n)
			}
		}
		if allRO {
			return "", true
		}
		return agree(ns), false
	}
	switch x := v.(type) {
	case *ssa.Extract:
		call, ok := x.Tuple.(*ssa.Call)
		if !ok || x.Index != 0 || bboltOpOf(call.Common()) != bbBegin || len(call.Call.Args) < 2 {
			return "", false
		}
		if c, isConst := call.Call.Args[1].(*ssa.Const); isConst && c.Value != nil {
			if c.Value.ExactString() == "false" {
				return "", true
			}
			return a.resolveDB(call.Call.Args[0], depth+1), false
		}
		return "", false
	case *ssa.UnOp:
		if x.Op != token.MUL {
			return "", false
		}
		switch y := x.X.(type) {
		case *ssa.Alloc, *ssa.FreeVar:
			vals, ok := cellStores(y)
			if !ok {
				return "", false
			}
			return many(vals)
		}
	case *ssa.Phi:
		return many(x.Edges)
	case *ssa.Parameter:
		if m := a.txBind[x]; len(m) == 1 {
			for k := range m {
				return k, false
			}
		}
	}
	return "", false
}

// bindTxParams: which abstract lock a *bbolt.Tx / *bbolt.DB parameter denotes
// (`finishTxn(tx, commit)`): context-insensitive, to a fixpoint; a parameter
// that receives transactions of two databases stays unresolved.
func (a *analysis) bindTxParams() {
	a.txBind = map[*ssa.Parameter]map[string]bool{}
	for changed, iter := true, 0; changed && iter < 10; iter++ {
		changed = false
		for _, fn := range a.order {
			for _, b := range fn.Blocks {
				for _, ins := range b.Instrs {
					ci, ok := ins.(ssa.CallInstruction)
					if !ok {
						continue
					}
					c := ci.Common()
					var targets []*ssa.Function
					if g := c.StaticCallee(); g != nil && !c.IsInvoke() {
						targets = []*ssa.Function{g}
					} else if !c.IsInvoke() {
						if _, isBuiltin := c.Value.(*ssa.Builtin); !isBuiltin {
							fs, _ := a.funcsOf(c.Value, 0)
							for g := range fs {
								targets = append(targets, g)
							}
						}
					}
					for _, g := range targets {
						if !a.inRepo(g) {
							continue
						}
						for i, arg := range c.Args {
							if i >= len(g.Params) {
								break
							}
							name := ""
							switch {
							case isBboltPtr(arg.Type(), "Tx"):
								name, _ = a.resolveTx(arg, 0)
							case isBboltPtr(arg.Type(), "DB"):
								name = a.resolveDB(arg, 0)
							default:
								continue
							}
							if name == "" {
								continue
							}
							prm := g.Params[i]
							if a.txBind[prm] == nil {
								a.txBind[prm] = map[string]bool{}
							}
							if !a.txBind[prm][name] {
								a.txBind[prm][name] = true
								changed = true
							}
						}
					}
				}
			}
		}
	}
}

// ---------------------------------------------------------------- function values

func (a *analysis) flowAdd(key string, fs map[*ssa.Function]bool) {
	if len(fs) == 0 {
		return
	}
	m := a.fvFlow[key]
	if m == nil {
		m = map[*ssa.Function]bool{}
		a.fvFlow[key] = m
	}
	for f := range fs {
		if !m[f] {
			m[f] = true
			a.fvChanged = true
		}
	}
}

func paramKey(p *ssa.Parameter) string { return fmt.Sprintf("P:%p", p) }
func freeKey(p *ssa.FreeVar) string    { return fmt.Sprintf("V:%p", p) }
func allocKey(p *ssa.Alloc) string     { return fmt.Sprintf("A:%p", p) }

func isFuncType(t types.Type) bool {
	_, ok := t.Underlying().(*types.Signature)
	return ok
}

// containerKeys: flow keys standing for "the elements of" a slice, array or map
// value (local literal, global, struct field, parameter).
func (a *analysis) containerKeys(v ssa.Value, depth int) (keys []string) {
	if depth > 6 {
		return nil
	}
	switch x := v.(type) {
	case *ssa.Alloc:
		return []string{"E:" + allocKey(x)}
	case *ssa.MakeMap, *ssa.MakeSlice:
		return []string{fmt.Sprintf("E:M:%p", x)}
	case *ssa.Slice:
		return a.containerKeys(x.X, depth+1)
	case *ssa.Parameter:
		return []string{"E:" + paramKey(x)}
	case *ssa.FreeVar:
		return []string{"E:" + freeKey(x)}
	case *ssa.Global:
		return []string{"E:G:" + x.String()}
	case *ssa.FieldAddr:
		if k := a.fieldKey(x); k != "" {
			return []string{"E:F:" + k}
		}
	case *ssa.Field:
		if k := a.structFieldKey(x.X.Type(), x.Field); k != "" {
			return []string{"E:F:" + k}
		}
	case *ssa.ChangeType:
		return a.containerKeys(x.X, depth+1)
	case *ssa.Phi:
		for _, e := range x.Edges {
			keys = append(keys, a.containerKeys(e, depth+1)...)
		}
		return keys
	case *ssa.UnOp:
		if x.Op == token.MUL {
			return a.containerKeys(x.X, depth+1)
		}
	case *ssa.Call:
		if b, ok := x.Call.Value.(*ssa.Builtin); ok && b.Name() == "append" {
			for _, arg := range x.Call.Args {
				keys = append(keys, a.containerKeys(arg, depth+1)...)
			}
			return keys
		}
	}
	return nil
}

func elemIsFunc(t types.Type) bool {
	switch u := t.Underlying().(type) {
	case *types.Slice:
		return isFuncType(u.Elem())
	case *types.Array:
		return isFuncType(u.Elem())
	case *types.Map:
		return isFuncType(u.Elem())
	case *types.Pointer:
		return elemIsFunc(u.Elem())
	}
	return false
}

// funcsOf: the functions a func-typed value may denote (nil map = unknown).
func (a *analysis) funcsOf(v ssa.Value, depth int) (res map[*ssa.Function]bool, known bool) {
	res = map[*ssa.Function]bool{}
	if depth > 6 {
		return res, false
	}
	merge := func(k string) {
		for f := range a.fvFlow[k] {
			res[f] = true
		}
	}
	switch x := v.(type) {
	case *ssa.Function:
		res[x] = true
		return res, true
	case *ssa.MakeClosure:
		res[x.Fn.(*ssa.Function)] = true
		return res, true
	case *ssa.Parameter:
		merge(paramKey(x))
		return res, true
	case *ssa.FreeVar:
		merge(freeKey(x))
		return res, true
	case *ssa.ChangeType:
		return a.funcsOf(x.X, depth+1)
	case *ssa.Const:
		return res, true // nil func
	case *ssa.Phi:
		known = true
		for _, e := range x.Edges {
			r, k := a.funcsOf(e, depth+1)
			for f := range r {
				res[f] = true
			}
			known = known && k
		}
		return res, known
	case *ssa.Field:
		if k := a.structFieldKey(x.X.Type(), x.Field); k != "" {
			merge("F:" + k)
			return res, true
		}
	case *ssa.Lookup:
		if ks := a.containerKeys(x.X, 0); len(ks) > 0 {
			for _, k := range ks {
				merge(k)
			}
			return res, true
		}
	case *ssa.Extract:
		if lk, ok := x.Tuple.(*ssa.Lookup); ok && x.Index == 0 {
			return a.funcsOf(lk, depth+1)
		}
	case *ssa.UnOp:
		if x.Op == token.MUL {
			switch y := x.X.(type) {
			case *ssa.IndexAddr:
				if ks := a.containerKeys(y.X, 0); len(ks) > 0 {
					for _, k := range ks {
						merge(k)
					}
					return res, true
				}
			case *ssa.FieldAddr:
				if k := a.fieldKey(y); k != "" {
					merge("F:" + k)
					return res, true
				}
			case *ssa.Global:
				merge("G:" + y.String())
				return res, true
			case *ssa.Alloc:
				merge(allocKey(y))
				return res, true
			case *ssa.FreeVar: // captured variable holding a func
				merge(freeKey(y))
				return res, true
			}
		}
	}
	return res, false
}

// flowConstraints scans one function for assignments of function values.
func (a *analysis) flowConstraints(fn *ssa.Function) {
	for _, b := range fn.Blocks {
		for _, ins := range b.Instrs {
			switch x := ins.(type) {
			case *ssa.MapUpdate:
				if isFuncType(x.Value.Type()) {
					fs, _ := a.funcsOf(x.Value, 0)
					for _, k := range a.containerKeys(x.Map, 0) {
						a.flowAdd(k, fs)
					}
				}
			case *ssa.Store:
				if elemIsFunc(x.Val.Type()) {
					// container of functions assigned: elements flow
					for _, dk := range a.containerKeys(x.Addr, 0) {
						for _, sk := range a.containerKeys(x.Val, 0) {
							if dk != sk {
								a.flowAdd(dk, a.fvFlow[sk])
							}
						}
					}
					continue
				}
				if !isFuncType(x.Val.Type()) {
					continue
				}
				fs, _ := a.funcsOf(x.Val, 0)
				switch ad := x.Addr.(type) {
				case *ssa.IndexAddr:
					for _, k := range a.containerKeys(ad.X, 0) {
						a.flowAdd(k, fs)
					}
				case *ssa.FieldAddr:
					if k := a.fieldKey(ad); k != "" {
						a.flowAdd("F:"+k, fs)
					}
				case *ssa.Global:
					a.flowAdd("G:"+ad.String(), fs)
				case *ssa.Alloc:
					a.flowAdd(allocKey(ad), fs)
				case *ssa.FreeVar:
					a.flowAdd(freeKey(ad), fs)
				}
			case *ssa.MakeClosure:
				cf := x.Fn.(*ssa.Function)
				for i, bnd := range x.Bindings {
					if i >= len(cf.FreeVars) {
						break
					}
					if isFuncType(bnd.Type()) {
						fs, _ := a.funcsOf(bnd, 0)
						a.flowAdd(freeKey(cf.FreeVars[i]), fs)
					} else if al, ok := bnd.(*ssa.Alloc); ok {
						// variable captured by reference: alias the cell
						if pt, ok := al.Type().Underlying().(*types.Pointer); ok && isFuncType(pt.Elem()) {
							a.flowAdd(freeKey(cf.FreeVars[i]), a.fvFlow[allocKey(al)])
						}
					}
				}
			case ssa.CallInstruction:
				c := x.Common()
				for _, g := range a.staticTargets(c) {
					if len(g.Blocks) == 0 {
						continue
					}
					args := c.Args
					params := g.Params
					if c.IsInvoke() {
						// receiver is params[0]
						if len(params) > 0 {
							params = params[1:]
						}
					}
					for i, arg := range args {
						if i < len(params) && isFuncType(arg.Type()) {
							fs, _ := a.funcsOf(arg, 0)
							a.flowAdd(paramKey(params[i]), fs)
						} else if i < len(params) && elemIsFunc(arg.Type()) {
							for _, sk := range a.containerKeys(arg, 0) {
								a.flowAdd("E:"+paramKey(params[i]), a.fvFlow[sk])
							}
						}
					}
				}
			}
		}
	}
}

// staticTargets: callees known without function-value flow (static or CHA over
// the repository's types for interface calls).
func (a *analysis) staticTargets(c *ssa.CallCommon) []*ssa.Function {
	if c.IsInvoke() {
		return a.invokeTargets(c)
	}
	if f := c.StaticCallee(); f != nil {
		return []*ssa.Function{f}
	}
	return nil
}

func (a *analysis) invokeTargets(c *ssa.CallCommon) []*ssa.Function {
	iface, ok := c.Value.Type().Underlying().(*types.Interface)
	if !ok {
		return nil
	}
	key := c.Value.Type().String() + "." + c.Method.Name()
	if r, ok := a.invokeMem[key]; ok {
		return r
	}
	var res []*ssa.Function
	for _, t := range a.namedTys {
		if !types.Implements(t, iface) {
			continue
		}
		sel := a.prog.MethodSets.MethodSet(t).Lookup(c.Method.Pkg(), c.Method.Name())
		if sel == nil {
			continue
		}
		if f := a.prog.MethodValue(sel); f != nil {
			res = append(res, f)
		}
	}
	// T and *T both implement: keep distinct functions only
	seen := map[*ssa.Function]bool{}
	out := res[:0]
	for _, f := range res {
		if !seen[f] {
			seen[f] = true
			out = append(out, f)
		}
	}
	a.invokeMem[key] = out
	return out
}

// callees of a call site: repo functions with bodies that may run during the
// call.  sync=false results (external callee given closures) are included too.
func (a *analysis) calleesOf(fn *ssa.Function, ins ssa.Instruction, c *ssa.CallCommon) []*ssa.Function {
	var res []*ssa.Function
	add := func(f *ssa.Function) {
		if a.inRepo(f) {
			res = append(res, f)
		}
	}
	if c.IsInvoke() {
		for _, f := range a.invokeTargets(c) {
			add(f)
		}
	} else if f := c.StaticCallee(); f != nil {
		add(f)
		if !a.inRepo(f) {
			// external function: closures passed to it are assumed to run during the call
			for _, arg := range c.Args {
				if isFuncType(arg.Type()) {
					fs, _ := a.funcsOf(arg, 0)
					for g := range fs {
						add(g)
					}
				}
			}
		}
	} else if _, isBuiltin := c.Value.(*ssa.Builtin); !isBuiltin {
		fs, known := a.funcsOf(c.Value, 0)
		for g := range fs {
			add(g)
		}
		if a.collecting && !known && !externalFuncType[c.Value.Type().String()] {
			k := "call-via-func-value@" + a.fnName(fn) + "@" + a.short(c.Value.Name()+":"+c.Value.Type().String())
			a.unresolved[k] = a.posStr(ins.Pos())
		}
	}
	sort.Slice(res, func(i, j int) bool { return res[i].String() < res[j].String() })
	return res
}

// func types whose values come from outside the repository
// (context cancellation) or are pure helpers that touch no guarded state (the
// IP anonymiser stored in an atomic.Value, the DNS message id generator)
var externalFuncType = map[string]bool{
	"context.CancelFunc":           true,
	modPrefix + "aghnet.IPMutFunc": true,
	"func() uint16":                true,
}

// ---------------------------------------------------------------- transfer

func (a *analysis) summary(f *ssa.Function) relState {
	if fi := a.info(f); fi != nil {
		return fi.exit
	}
	return relState{}
}

func (a *analysis) applyCall(fi *fnInfo, st relState, ins ssa.Instruction, c *ssa.CallCommon, rec func(site)) relState {
	txHeld := -1 // abstract lock held around the closures of db.Update / db.Batch
	if bop := bboltOpOf(c); bop != bbNone {
		unres := func(what string) {
			if a.collecting {
				a.unresolved["bbolt-tx@"+a.fnName(fi.fn)+"@"+what] = a.posStr(ins.Pos())
			}
		}
		switch bop {
		case bbBegin:
			if len(c.Args) < 2 {
				return st
			}
			wr, isConst := c.Args[1].(*ssa.Const)
			if !isConst || wr.Value == nil {
				unres("Begin with a writable flag that is not a constant")
				return st
			}
			if wr.Value.ExactString() == "false" {
				if a.collecting {
					a.readTxns[a.posStr(ins.Pos())] = a.fnName(fi.fn)
				}
				return st
			}
			name := a.resolveDB(c.Args[0], 0)
			if name == "" {
				unres("Begin(true) on a database that is not traced to a field")
				return st
			}
			id := lmID(lm{name, true})
			fi.txLocal = fi.txLocal.with(id)
			if rec != nil {
				rec(site{kind: siteAcquire, st: st, pos: ins.Pos(), acq: id})
			}
			return st.acquire(id)
		case bbCommit, bbRollback:
			name, ro := a.resolveTx(c.Args[0], 0)
			if ro {
				return st
			}
			if name == "" {
				unres("Commit / Rollback of a transaction that is not traced to its Begin")
				return st
			}
			return st.release(lmID(lm{name, true}))
		case bbView:
			if a.collecting {
				a.readTxns[a.posStr(ins.Pos())] = a.fnName(fi.fn)
			}
			// the closure runs during the call: generic handling below
		case bbClose:
			name := a.resolveDB(c.Args[0], 0)
			if name == "" {
				unres("Close of a database that is not traced to a field")
				return st
			}
			// waits for the writer lock and drops it again
			if rec != nil {
				rec(site{kind: siteAcquire, st: st, pos: ins.Pos(), acq: lmID(lm{name, true})})
			}
			return st
		case bbUpdate, bbBatch:
			name := a.resolveDB(c.Args[0], 0)
			if name == "" {
				unres("Update / Batch on a database that is not traced to a field")
				return st
			}
			txHeld = lmID(lm{name, true})
			if rec != nil {
				rec(site{kind: siteAcquire, st: st, pos: ins.Pos(), acq: txHeld})
			}
			st = st.acquire(txHeld)
		}
	}
	if txHeld >= 0 {
		out := a.applyCallRest(fi, st, ins, c, rec)
		return out.release(txHeld)
	}
	return a.applyCallRest(fi, st, ins, c, rec)
}

func (a *analysis) applyCallRest(fi *fnInfo, st relState, ins ssa.Instruction, c *ssa.CallCommon, rec func(site)) relState {
	switch op := lockOpOf(c); op {
	case opNone:
	case opTry:
		return st
	default:
		name := ""
		if len(c.Args) > 0 {
			name = a.resolveLock(c.Args[0])
		}
		if name == "" {
			if a.collecting {
				a.unresolved["lock-receiver@"+a.fnName(fi.fn)] = a.posStr(ins.Pos())
			}
			return st
		}
		switch op {
		case opLock:
			id := lmID(lm{name, true})
			if rec != nil {
				rec(site{kind: siteAcquire, st: st, pos: ins.Pos(), acq: id})
			}
			return st.acquire(id)
		case opRLock:
			id := lmID(lm{name, false})
			if rec != nil {
				rec(site{kind: siteAcquire, st: st, pos: ins.Pos(), acq: id})
			}
			return st.acquire(id)
		case opUnlock:
			return st.release(lmID(lm{name, true}))
		case opRUnlock:
			return st.release(lmID(lm{name, false}))
		}
	}
	if rec != nil {
		a.callAccesses(fi, st, ins, c, rec)
	}
	cs := a.calleesOf(fi.fn, ins, c)
	if rec != nil && len(cs) > 0 {
		cst := site{kind: siteCall, st: st, pos: ins.Pos(), callees: cs}
		if f := c.StaticCallee(); f != nil && !c.IsInvoke() && len(cs) == 1 && cs[0] == f && f.Signature.Recv() != nil && len(c.Args) > 0 {
			if _, isCall := ins.(*ssa.Call); isCall { // not for deferred calls
				switch r := c.Args[0].(type) {
				case *ssa.Alloc:
					cst.recvFresh = r.Heap && unpublished(r)
				case *ssa.Parameter:
					cst.recvPass = fi.fn.Signature.Recv() != nil && len(fi.fn.Params) > 0 && r == fi.fn.Params[0]
				}
			}
		}
		rec(cst)
	}
	if len(cs) == 0 {
		return st
	}
	var out relState
	static := c.StaticCallee()
	if static == nil || !a.inRepo(static) || len(cs) > 1 {
		out = st // may also not be called / other implementations
	}
	for _, g := range cs {
		out = join(out, st.applySummary(a.summary(g)))
	}
	return out
}

func (a *analysis) transfer(fi *fnInfo, st relState, ins ssa.Instruction, rec func(site)) relState {
	switch x := ins.(type) {
	case *ssa.Call:
		if rec != nil {
			a.blockingOps(fi, st, ins, rec)
		}
		return a.applyCall(fi, st, x, x.Common(), rec)
	case *ssa.Defer:
		st.def = st.def.with(fi.deferIdx[x])
		return st
	case *ssa.Go:
		if rec != nil {
			cs := a.calleesOf(fi.fn, x, x.Common())
			if len(cs) > 0 {
				rec(site{kind: siteGo, st: st, pos: x.Pos(), callees: cs})
			}
		}
		return st
	case *ssa.RunDefers:
		for i := len(fi.defers) - 1; i >= 0; i-- {
			if st.def.has(i) {
				d := fi.defers[i]
				st = a.applyCall(fi, st, d, d.Common(), rec)
			}
		}
		st.def = set{}
		return st
	}
	if rec != nil {
		a.accesses(fi, st, ins, rec)
		a.blockingOps(fi, st, ins, rec)
	}
	return st
}

// analyze computes the block in-states and the exit summary; reports whether
// the summary changed.
func (a *analysis) analyze(fi *fnInfo, rec func(site)) bool {
	fn := fi.fn
	fi.in = map[*ssa.BasicBlock]relState{fn.Blocks[0]: {ok: true}}
	var exit relState
	for iter := 0; iter < 50; iter++ {
		changed := false
		exit = relState{}
		for _, b := range fn.Blocks {
			st, ok := fi.in[b]
			if !ok || !st.ok {
				continue
			}
			for _, ins := range b.Instrs {
				if _, isRet := ins.(*ssa.Return); isRet {
					exit = join(exit, st)
				}
				st = a.transfer(fi, st, ins, nil)
			}
			tryID := a.tryLockCond(b)
			nilID, nilEdge := a.nilGuardedLock(b)
			txID, txErrEdge := a.beginErrCond(b)
			for si, s := range b.Succs {
				old := fi.in[s]
				sst := st
				if tryID >= 0 && si == 0 {
					sst = sst.acquire(tryID)
				} else if tryID <= -2 && si == 1 {
					sst = sst.acquire(-tryID - 2)
				}
				if nilID >= 0 && si == nilEdge {
					sst = sst.acquire(nilID)
				}
				if txID >= 0 && si == txErrEdge && sst.add.has(txID) {
					// `tx, err := db.Begin(true); if err != nil {...}`: no
					// transaction, no writer lock on the error branch
					sst.add = sst.add.without(txID)
				}
				nw := join(old, sst)
				if nw != old {
					fi.in[s] = nw
					changed = true
				}
			}
		}
		if !changed {
			break
		}
	}
	if rec != nil {
		for _, b := range fn.Blocks {
			st, ok := fi.in[b]
			if !ok || !st.ok {
				continue
			}
			for _, ins := range b.Instrs {
				st = a.transfer(fi, st, ins, rec)
			}
		}
	}
	exit.def = set{}
	exit.rem = exit.rem.minus(fi.txLocal)
	ch := exit != fi.exit
	fi.exit = exit
	return ch
}

// tryLockCond: the block ends in `if mu.TryLock()` (result id >= 0: acquired on
// the true branch) or `if !mu.TryLock()` (result -id-2: acquired on the false
// branch); -1 otherwise.
func (a *analysis) tryLockCond(b *ssa.BasicBlock) int {
	if len(b.Instrs) == 0 {
		return -1
	}
	iff, ok := b.Instrs[len(b.Instrs)-1].(*ssa.If)
	if !ok {
		return -1
	}
	cond := iff.Cond
	neg := false
	if u, ok := cond.(*ssa.UnOp); ok && u.Op == token.NOT {
		cond, neg = u.X, true
	}
	if u, ok := cond.(*ssa.UnOp); ok && u.Op == token.MUL {
		// named result: `*ok = TryLock(); if *ok` within the block
		if al, isAlloc := u.X.(*ssa.Alloc); isAlloc {
			for i := len(b.Instrs) - 1; i >= 0; i-- {
				if st, isStore := b.Instrs[i].(*ssa.Store); isStore && st.Addr == al {
					cond = st.Val
					break
				}
			}
		}
	}
	call, ok := cond.(*ssa.Call)
	if !ok || lockOpOf(call.Common()) != opTry || len(call.Call.Args) == 0 {
		return -1
	}
	name := a.resolveLock(call.Call.Args[0])
	if name == "" {
		return -1
	}
	w := !strings.HasSuffix(call.Common().StaticCallee().Name(), "TryRLock")
	id := lmID(lm{name, w})
	if neg {
		return -id - 2
	}
	return id
}

// beginErrCond: the block ends in `if err != nil` (or `== nil`) where err is the
// error result of a db.Begin(true) call of this block: returns the abstract
// lock and the index of the successor taken when Begin failed; -1 otherwise.
func (a *analysis) beginErrCond(b *ssa.BasicBlock) (id, errEdge int) {
	if len(b.Instrs) == 0 || len(b.Succs) != 2 {
		return -1, 0
	}
	iff, ok := b.Instrs[len(b.Instrs)-1].(*ssa.If)
	if !ok {
		return -1, 0
	}
	cmp, ok := iff.Cond.(*ssa.BinOp)
	if !ok || (cmp.Op != token.NEQ && cmp.Op != token.EQL) {
		return -1, 0
	}
	v := cmp.X
	if c, isConst := cmp.Y.(*ssa.Const); !isConst || !c.IsNil() {
		if c, isConst = cmp.X.(*ssa.Const); !isConst || !c.IsNil() {
			return -1, 0
		}
		v = cmp.Y
	}
	if u, isLoad := v.(*ssa.UnOp); isLoad && u.Op == token.MUL {
		// err kept in memory (named result, captured): the last store of the block
		al, isAlloc := u.X.(*ssa.Alloc)
		if !isAlloc {
			return -1, 0
		}
		v = nil
		for i := len(b.Instrs) - 1; i >= 0; i-- {
			if st, isStore := b.Instrs[i].(*ssa.Store); isStore && st.Addr == ssa.Value(al) {
				v = st.Val
				break
			}
		}
		if v == nil {
			return -1, 0
		}
	}
	ex, ok := v.(*ssa.Extract)
	if !ok || ex.Index != 1 {
		return -1, 0
	}
	call, ok := ex.Tuple.(*ssa.Call)
	if !ok || call.Block() != b || bboltOpOf(call.Common()) != bbBegin || len(call.Call.Args) < 2 {
		return -1, 0
	}
	if c, isConst := call.Call.Args[1].(*ssa.Const); !isConst || c.Value == nil || c.Value.ExactString() != "true" {
		return -1, 0
	}
	name := a.resolveDB(call.Call.Args[0], 0)
	if name == "" {
		return -1, 0
	}
	if cmp.Op == token.NEQ {
		return lmID(lm{name, true}), 0
	}
	return lmID(lm{name, true}), 1
}

// nilGuardedLock recognises `if mu != nil { mu.Lock(); defer mu.Unlock() }`
// (also RLock, and `if mu == nil {} else {...}`): the lock is taken whenever
// there is one.  By the convention of that idiom a nil mutex means "object not
// shared yet", so the branch that skips the lock is treated as holding it too
// (id = the lock taken in the other branch, edge = index of the skipping
// successor); -1 if the block does not end that way.
func (a *analysis) nilGuardedLock(b *ssa.BasicBlock) (id, edge int) {
	if len(b.Instrs) == 0 || len(b.Succs) != 2 {
		return -1, 0
	}
	iff, ok := b.Instrs[len(b.Instrs)-1].(*ssa.If)
	if !ok {
		return -1, 0
	}
	cmp, ok := iff.Cond.(*ssa.BinOp)
	if !ok || (cmp.Op != token.NEQ && cmp.Op != token.EQL) {
		return -1, 0
	}
	v := cmp.X
	if c, isConst := cmp.Y.(*ssa.Const); !isConst || !c.IsNil() {
		if c, isConst = cmp.X.(*ssa.Const); !isConst || !c.IsNil() {
			return -1, 0
		}
		v = cmp.Y
	}
	pt, ok := v.Type().Underlying().(*types.Pointer)
	if !ok {
		return -1, 0
	}
	if tn := pt.Elem().String(); tn != "sync.Mutex" && tn != "sync.RWMutex" {
		return -1, 0
	}
	name := a.resolveLock(v)
	if name == "" {
		return -1, 0
	}
	locking := 0 // successor taken when the mutex is there
	if cmp.Op == token.EQL {
		locking = 1
	}
	for _, ins := range b.Succs[locking].Instrs {
		call, ok := ins.(*ssa.Call)
		if !ok || len(call.Call.Args) == 0 || a.resolveLock(call.Call.Args[0]) != name {
			continue
		}
		switch lockOpOf(call.Common()) {
		case opLock:
			return lmID(lm{name, true}), 1 - locking
		case opRLock:
			return lmID(lm{name, false}), 1 - locking
		}
	}
	return -1, 0
}

// ---------------------------------------------------------------- accesses

// baseFresh: the address is derived from an object allocated in this function.
func baseFresh(v ssa.Value) bool {
	for i := 0; i < 20; i++ {
		switch x := v.(type) {
		case *ssa.FieldAddr:
			v = x.X
		case *ssa.IndexAddr:
			v = x.X
		case *ssa.Alloc:
			return true
		default:
			return false
		}
	}
	return false
}

// recvBased: the address (or the value loaded from a field) designates memory
// inside the object the function's receiver points to, without following a
// pointer stored in it.
func recvBased(v ssa.Value, fn *ssa.Function) bool {
	if fn == nil || fn.Signature.Recv() == nil || len(fn.Params) == 0 {
		return false
	}
	for i := 0; i < 20; i++ {
		switch x := v.(type) {
		case *ssa.FieldAddr:
			v = x.X
		case *ssa.IndexAddr:
			if fa := loadedFrom(x.X); fa != nil {
				v = fa
				continue
			}
			v = x.X
		case *ssa.UnOp:
			// the value of a field of the receiver (a map, slice, interface
			// stored in it): only as the first step
			if fa, ok := x.X.(*ssa.FieldAddr); ok && x.Op == token.MUL && i == 0 {
				v = fa
				continue
			}
			return false
		case *ssa.Parameter:
			return x == fn.Params[0]
		default:
			return false
		}
	}
	return false
}

// unpublished: the object allocated by al is, within the allocating function,
// only initialised, handed to its own methods as their receiver and returned;
// it is not stored anywhere, passed as an ordinary argument, captured by a
// closure or given to a goroutine.
func unpublished(al *ssa.Alloc) bool {
	if al.Referrers() == nil {
		return false
	}
	onlyReturned := func(v ssa.Value) bool {
		if v.Referrers() == nil {
			return false
		}
		for _, r := range *v.Referrers() {
			switch x := r.(type) {
			case *ssa.Return, *ssa.DebugRef:
			case *ssa.Store:
				// a named result kept in memory because the function defers
				// (a local that no closure captures: not a heap cell)
				if res, ok := x.Addr.(*ssa.Alloc); !ok || res.Heap {
					return false
				}
			default:
				return false
			}
		}
		return true
	}
	for _, r := range *al.Referrers() {
		switch x := r.(type) {
		case *ssa.FieldAddr, *ssa.IndexAddr, *ssa.Return, *ssa.DebugRef:
		case *ssa.Store:
			if x.Val == ssa.Value(al) {
				return false
			}
		case *ssa.MakeInterface:
			if !onlyReturned(x) {
				return false
			}
		case *ssa.Call:
			c := x.Common()
			f := c.StaticCallee()
			if c.IsInvoke() || f == nil || f.Signature.Recv() == nil || len(c.Args) == 0 || c.Args[0] != ssa.Value(al) {
				return false
			}
			for _, arg := range c.Args[1:] {
				if arg == ssa.Value(al) {
					return false
				}
			}
		default:
			return false
		}
	}
	return true
}

// loadedFrom: v is the value loaded from a struct field; returns the FieldAddr.
func loadedFrom(v ssa.Value) *ssa.FieldAddr {
	if u, ok := v.(*ssa.UnOp); ok && u.Op == token.MUL {
		if fa, ok := u.X.(*ssa.FieldAddr); ok {
			return fa
		}
	}
	return nil
}

// addrTargets: the guarded fields (wholly or partly) designated by an address.
func (a *analysis) addrTargets(addr ssa.Value) (keys []string) {
	if baseFresh(addr) {
		return nil
	}
	v := addr
	for i := 0; i < 20; i++ {
		switch x := v.(type) {
		case *ssa.FieldAddr:
			if k := a.fieldKey(x); k != "" && len(a.guards[k]) > 0 {
				keys = append(keys, k)
			}
			v = x.X
			continue
		case *ssa.IndexAddr:
			if fa := loadedFrom(x.X); fa != nil { // element of a slice stored in a field
				if k := a.fieldKey(fa); k != "" && len(a.guards[k]) > 0 && !baseFresh(fa) {
					keys = append(keys, k)
				}
				return keys
			}
			if u, ok := x.X.(*ssa.UnOp); ok && u.Op == token.MUL {
				if p, ok := u.X.(*ssa.Parameter); ok { // (*param)[i]
					return append(keys, a.boundKeys(p)...)
				}
				if ph, ok := u.X.(*ssa.Phi); ok { // (*p)[i] with p a choice of field addresses
					return append(keys, a.addrTargets(ph)...)
				}
			}
			v = x.X
			continue
		case *ssa.Parameter:
			return append(keys, a.boundKeys(x)...)
		case *ssa.Phi:
			// `p := &s.a; if c { p = &s.b }`: either
			if i < 3 {
				for _, e := range x.Edges {
					if _, again := e.(*ssa.Phi); !again {
						keys = append(keys, a.addrTargets(e)...)
					}
				}
			}
			return keys
		}
		break
	}
	return keys
}

func (a *analysis) boundKeys(p *ssa.Parameter) (keys []string) {
	for k := range a.ptrBind[p] {
		keys = append(keys, k)
	}
	sort.Strings(keys)
	return keys
}

// bindPointerParams: which guarded fields a pointer parameter may point to
// (`refreshFiltersArray(&d.conf.Filters, ...)`, `setProtectedBool(d.confMu,
// &d.conf.ParentalEnabled, ...)`) and which lock a mutex parameter denotes;
// context-insensitive, to a fixpoint.
func (a *analysis) bindPointerParams() {
	a.ptrBind = map[*ssa.Parameter]map[string]bool{}
	a.lockBind = map[*ssa.Parameter]map[string]bool{}
	isMutexPtr := func(t types.Type) bool {
		pt, ok := t.Underlying().(*types.Pointer)
		if !ok {
			return false
		}
		s := pt.Elem().String()
		return s == "sync.Mutex" || s == "sync.RWMutex"
	}
	for changed, iter := true, 0; changed && iter < 10; iter++ {
		changed = false
		for _, fn := range a.order {
			for _, b := range fn.Blocks {
				for _, ins := range b.Instrs {
					ci, ok := ins.(ssa.CallInstruction)
					if !ok {
						continue
					}
					c := ci.Common()
					g := c.StaticCallee()
					if g == nil || !a.inRepo(g) || c.IsInvoke() {
						continue
					}
					for i, arg := range c.Args {
						if i >= len(g.Params) {
							break
						}
						prm := g.Params[i]
						if isMutexPtr(arg.Type()) {
							if name := a.resolveLock(arg); name != "" {
								if a.lockBind[prm] == nil {
									a.lockBind[prm] = map[string]bool{}
								}
								if !a.lockBind[prm][name] {
									a.lockBind[prm][name] = true
									changed = true
								}
							}
							continue
						}
						if _, isPtr := arg.Type().Underlying().(*types.Pointer); !isPtr {
							continue
						}
						var keys []string
						switch arg.(type) {
						case *ssa.FieldAddr, *ssa.IndexAddr, *ssa.Parameter:
							keys = a.addrTargets(arg)
						}
						for _, k := range keys {
							if a.ptrBind[prm] == nil {
								a.ptrBind[prm] = map[string]bool{}
							}
							if !a.ptrBind[prm][k] {
								a.ptrBind[prm][k] = true
								changed = true
							}
						}
					}
				}
			}
		}
	}
}

// wholeStruct: addr points to a whole struct (not freshly allocated here) of a
// named type some of whose fields are guarded: `*c = *d.conf` reads and writes
// all of them.
func (a *analysis) wholeStruct(addr ssa.Value) []string {
	if len(a.byStruct) == 0 || baseFresh(addr) {
		return nil
	}
	pt, ok := addr.Type().Underlying().(*types.Pointer)
	if !ok {
		return nil
	}
	n, ok := types.Unalias(pt.Elem()).(*types.Named)
	if !ok || n.Obj().Pkg() == nil {
		return nil
	}
	if _, isStruct := n.Underlying().(*types.Struct); !isStruct {
		return nil
	}
	return a.byStruct[a.short(n.Obj().Pkg().Path())+"."+n.Obj().Name()]
}

func (a *analysis) guardedLoad(v ssa.Value) string {
	if u, ok := v.(*ssa.UnOp); ok && u.Op == token.MUL {
		if p, ok := u.X.(*ssa.Parameter); ok {
			if ks := a.boundKeys(p); len(ks) > 0 {
				return ks[0]
			}
		}
		if ph, ok := u.X.(*ssa.Phi); ok {
			if ks := a.addrTargets(ph); len(ks) > 0 {
				return ks[0]
			}
		}
	}
	fa := loadedFrom(v)
	if fa == nil || baseFresh(fa) {
		return ""
	}
	k := a.fieldKey(fa)
	if k == "" || len(a.guards[k]) == 0 {
		return ""
	}
	return k
}

// insPos: position of an instruction, or of its first operand that has one,
// or of the enclosing function.
func insPos(ins ssa.Instruction) token.Pos {
	if p := ins.Pos(); p.IsValid() {
		return p
	}
	var buf [8]*ssa.Value
	for _, op := range ins.Operands(buf[:0]) {
		if op == nil || *op == nil {
			continue
		}
		if p := (*op).Pos(); p.IsValid() {
			return p
		}
		if u, ok := (*op).(*ssa.UnOp); ok {
			if p := u.X.Pos(); p.IsValid() {
				return p
			}
		}
	}
	return ins.Parent().Pos()
}

func (a *analysis) accesses(fi *fnInfo, st relState, ins ssa.Instruction, rec func(site)) {
	var via ssa.Value // the address / loaded value the access goes through
	emit := func(k string, w bool, note string) {
		rec(site{kind: siteAccess, st: st, pos: insPos(ins), field: k, write: w, note: note, viaRecv: via != nil && recvBased(via, fi.fn)})
	}
	switch x := ins.(type) {
	case *ssa.Store:
		via = x.Addr
		for _, k := range a.addrTargets(x.Addr) {
			emit(k, true, "store")
		}
		for _, k := range a.wholeStruct(x.Addr) {
			emit(k, true, "struct-store")
		}
	case *ssa.UnOp:
		if x.Op == token.MUL {
			via = x.X
			for _, k := range a.addrTargets(x.X) {
				emit(k, false, "load")
			}
			for _, k := range a.wholeStruct(x.X) {
				emit(k, false, "struct-load")
			}
		}
	case *ssa.MapUpdate:
		via = x.Map
		if k := a.guardedLoad(x.Map); k != "" {
			emit(k, true, "map-update")
		}
	case *ssa.Lookup:
		via = x.X
		if k := a.guardedLoad(x.X); k != "" {
			emit(k, false, "lookup")
		}
	case *ssa.Range:
		via = x.X
		if k := a.guardedLoad(x.X); k != "" {
			emit(k, false, "range")
		}
	case *ssa.Index:
		via = x.X
		if k := a.guardedLoad(x.X); k != "" {
			emit(k, false, "index")
		}
	case *ssa.Slice:
		via = x.X
		if k := a.guardedLoad(x.X); k != "" {
			emit(k, false, "slice")
		}
	}
}

// callAccesses: accesses performed by a call on values loaded from guarded
// fields (builtins delete/clear/copy/len/cap/append; methods named as mutators)
// and guarded field addresses passed to calls.
func (a *analysis) callAccesses(fi *fnInfo, st relState, ins ssa.Instruction, c *ssa.CallCommon, rec func(site)) {
	var via ssa.Value
	emit := func(k string, w bool, note string) {
		rec(site{kind: siteAccess, st: st, pos: insPos(ins), field: k, write: w, note: note, viaRecv: via != nil && recvBased(via, fi.fn)})
	}
	if b, ok := c.Value.(*ssa.Builtin); ok {
		for i, arg := range c.Args {
			via = arg
			if k := a.guardedLoad(arg); k != "" {
				w := false
				switch b.Name() {
				case "delete", "clear":
					w = true
				case "copy":
					w = i == 0
				}
				emit(k, w, "builtin-"+b.Name())
			}
		}
		return
	}
	name := ""
	isMethod := false
	if c.IsInvoke() {
		name = c.Method.Name()
	} else if f := c.StaticCallee(); f != nil {
		name = f.Name()
		if i := strings.Index(name, "["); i > 0 { // instantiated generic: Push[*T]
			name = name[:i]
		}
		isMethod = f.Signature.Recv() != nil || strings.HasPrefix(f.String(), "(")
	}
	args := c.Args
	if c.IsInvoke() {
		// the field holds an interface: the object behind it synchronises itself
		via = c.Value
		if k := a.guardedLoad(c.Value); k != "" {
			emit(k, false, "method-"+name)
		}
	}
	for i, arg := range args {
		via = arg
		if k := a.guardedLoad(arg); k != "" {
			// receiver (first argument of a method call) or plain argument
			isRecv := i == 0 && !c.IsInvoke() && isMethod
			if !(isRecv && a.mutators[name]) && isPlainValue(arg.Type()) {
				// a struct / array / basic value passed by value: the callee
				// works on a copy; the field itself was read where the value
				// was loaded (`v := s.f` under the lock, `use(v)` after it)
				continue
			}
			emit(k, isRecv && a.mutators[name], "arg-"+name)
			continue
		}
		if fa, ok := arg.(*ssa.FieldAddr); ok && !baseFresh(fa) {
			for _, k := range a.addrTargets(fa) {
				isRecv := i == 0 && !c.IsInvoke() && isMethod
				if isRecv {
					emit(k, a.mutators[name], "addr-recv-"+name)
				} else {
					// taking the address is not an access; what the callee does
					// through the pointer is not tracked (counted in the evidence)
					a.addrEscapes[k+"@"+a.fnName(fi.fn)] = a.posStr(ins.Pos())
				}
			}
		}
	}
}

// isPlainValue: values of this type are copied when passed (no sharing at the
// top level): structs, arrays, basic types.  Maps, slices, pointers, channels,
// functions and interfaces alias the memory behind the field they were loaded
// from.
func isPlainValue(t types.Type) bool {
	switch t.Underlying().(type) {
	case *types.Struct, *types.Array, *types.Basic:
		return true
	}
	return false
}

// ---------------------------------------------------------------- guards file

var guardRe = regexp.MustCompile(`\(\s*"([^"]+)"\s*,\s*\[([^\]]*)\]\s*\)`)

func readGuards(path string) (map[string][]string, map[string]bool, error) {
	b, err := os.ReadFile(path)
	if err != nil {
		return nil, nil, err
	}
	txt := regexp.MustCompile(`(?s)\(\*.*?\*\)`).ReplaceAllString(string(b), " ")
	section := func(name string) string {
		i := strings.Index(txt, "Definition "+name)
		if i < 0 {
			return ""
		}
		j := strings.Index(txt[i:], "].")
		if j < 0 {
			return ""
		}
		return txt[i : i+j]
	}
	g := map[string][]string{}
	for _, m := range guardRe.FindAllStringSubmatch(section("guard_table"), -1) {
		for _, l := range regexp.MustCompile(`"([^"]+)"`).FindAllStringSubmatch(m[2], -1) {
			g[m[1]] = append(g[m[1]], l[1])
		}
	}
	mut := map[string]bool{}
	for _, m := range regexp.MustCompile(`"([^"]+)"`).FindAllStringSubmatch(section("mutating_methods"), -1) {
		mut[m[1]] = true
	}
	if len(g) == 0 {
		return nil, nil, fmt.Errorf("no guard_table entries in %s", path)
	}
	return g, mut, nil
}

// ---------------------------------------------------------------- roots

type root struct {
	name  string
	fn    *ssa.Function
	entry set
	kind  string
}

// goroutines that only run the start-up sequence (initialisation is assumed to
// be complete before requests are served; their own goroutines are roots)
var startupRoots = map[string]bool{"go:home.run": true, "go:home.run$1": true}

func (a *analysis) findRoots(controlLock int) []root {
	var roots []root
	seen := map[string]bool{}
	addRoot := func(r root) {
		if r.fn == nil || !a.inRepo(r.fn) || seen[r.name] || startupRoots[r.name] {
			return
		}
		seen[r.name] = true
		roots = append(roots, r)
	}
	// explicit entry points called by code outside the repository
	explicit := map[string]string{
		"(*dnsforward.Server).handleDNSRequest": "dns",
		"(*dnsforward.Server).HandleBefore":     "dns",
		"(*dhcpd.v4Server).packetHandler":       "dhcp",
		"(*dhcpd.v6Server).packetHandler":       "dhcp",
		// DNS-over-HTTPS entry (registered with an empty method under /dns-query)
		"(*dnsforward.Server).handleDoH": "dns",
		// the authentication middleware runs for every HTTP request, outside
		// home.controlLock: its session / user look-ups (the wrapper itself,
		// optionalAuth$1, is not a root: following its handler argument would
		// reach every admin handler without the control lock it really holds)
		"home.optionalAuthThird":         "auth",
		"(*home.Auth).checkSession":      "auth",
		"(*home.Auth).authRequired":      "auth",
		"(*home.Auth).getCurrentUser":    "auth",
		// routes registered directly on the mux (not through httpRegister)
		"(*home.webAPI).handleVersionJSON": "http-direct",
		"home.handleMobileConfigDoH":       "http-direct",
		"home.handleMobileConfigDoT":       "http-direct",
	}
	// registered directly as ensureHandler(POST, ...): runs under home.controlLock
	explicitLocked := map[string]string{
		"home.handleLogin": "http:POST:/control/login",
	}
	for _, fn := range a.order {
		if k, ok := explicit[a.fnName(fn)]; ok {
			addRoot(root{name: k + ":" + a.fnName(fn), fn: fn, kind: k})
		}
		if n, ok := explicitLocked[a.fnName(fn)]; ok {
			r := root{name: n, fn: fn, kind: "http"}
			r.entry = r.entry.with(controlLock)
			addRoot(r)
		}
	}
	// HTTP handlers: calls f(method, "/control/...", handler)
	for _, fn := range a.order {
		for _, b := range fn.Blocks {
			for _, ins := range b.Instrs {
				ci, ok := ins.(ssa.CallInstruction)
				if !ok {
					continue
				}
				c := ci.Common()
				switch ins.(type) {
				case *ssa.Go:
					for _, g := range a.calleesOf(fn, ins, c) {
						addRoot(root{name: "go:" + a.fnName(g), fn: g, kind: "go"})
					}
					continue
				}
				if f := c.StaticCallee(); f != nil && f.String() == "time.AfterFunc" && len(c.Args) == 2 {
					fs, _ := a.funcsOf(c.Args[1], 0)
					for g := range fs {
						addRoot(root{name: "go:" + a.fnName(g), fn: g, kind: "go"})
					}
				}
				if len(c.Args) < 3 {
					continue
				}
				n := len(c.Args)
				m, ok1 := c.Args[n-3].(*ssa.Const)
				p, ok2 := c.Args[n-2].(*ssa.Const)
				if !ok1 || !ok2 || m.Value == nil || p.Value == nil || !isFuncType(c.Args[n-1].Type()) {
					continue
				}
				ms, ps := strings.Trim(m.Value.ExactString(), `"`), strings.Trim(p.Value.ExactString(), `"`)
				if !strings.HasPrefix(ps, "/control/") && !strings.HasPrefix(ps, "/apple/") {
					continue
				}
				fs, _ := a.funcsOf(c.Args[n-1], 0)
				for g := range fs {
					r := root{name: "http:" + ms + ":" + ps, fn: g, kind: "http"}
					if ms == "POST" || ms == "PUT" || ms == "DELETE" {
						r.entry = r.entry.with(controlLock)
					}
					addRoot(r)
				}
			}
		}
	}
	sort.Slice(roots, func(i, j int) bool { return roots[i].name < roots[j].name })
	return roots
}

// ---------------------------------------------------------------- output

type accessOut struct {
	Root  string   `json:"root"`
	Fn    string   `json:"fn"`
	Field string   `json:"field"`
	Write bool     `json:"write"`
	Held  []string `json:"held"`
	Pos   string   `json:"pos"`
	Note  string   `json:"note"`
	Guard []string `json:"guard"`
	OK    bool     `json:"ok"`
	Key   string   `json:"key"`
	held  set
}

// acqOut: one acquisition site with everything held there (abstract locks
// included).
type acqOut struct {
	Root string   `json:"root"`
	Fn   string   `json:"fn"`
	Held []string `json:"held"` // "lock:W" / "lock:R"
	Acq  string   `json:"acq"`
	AW   bool     `json:"acq_w"`
	Pos  string   `json:"pos"`
	held set
}

type orderOut struct {
	Root string `json:"root"`
	Fn   string `json:"fn"`
	Held string `json:"held"`
	HW   bool   `json:"held_w"`
	Acq  string `json:"acq"`
	AW   bool   `json:"acq_w"`
	Pos  string `json:"pos"`
}

func coqStr(s string) string { return `"` + strings.ReplaceAll(s, `"`, `""`) + `"` }
func coqMode(w bool) string {
	if w {
		return "W"
	}
	return "R"
}
func coqBool(b bool) string {
	if b {
		return "true"
	}
	return "false"
}

func heldLock(hs string) (string, bool) {
	i := strings.LastIndex(hs, ":")
	return hs[:i], hs[i+1:] == "W"
}

// heldConflict mirrors Proofs/ConcGate.v [conflicts]: a common lock, held in
// write mode in at least one of the two sets.
func heldConflict(a, b []string) bool {
	for _, x := range a {
		xl, xw := heldLock(x)
		for _, y := range b {
			yl, yw := heldLock(y)
			if xl == yl && (xw || yw) {
				return true
			}
		}
	}
	return false
}

// rankSites adds the sites in order to an acyclic acquired-while-held relation
// and ranks its locks by longest path.  out: the sites that would have closed a
// cycle; cycle: for the first of them, that site followed by sites of the
// accepted relation leading from the lock it acquires back to a lock it holds.
func rankSites(sites []*acqOut) (ranks map[string]int, out []*acqOut, cycle []*acqOut) {
	type edge struct {
		to  string
		via *acqOut
	}
	adj := map[string][]edge{}
	known := map[string]bool{}
	// path from `from` to any lock of targets through accepted sites
	var path func(from string, targets map[string]bool, seen map[string]bool) ([]*acqOut, bool)
	path = func(from string, targets map[string]bool, seen map[string]bool) ([]*acqOut, bool) {
		if targets[from] {
			return nil, true
		}
		if seen[from] {
			return nil, false
		}
		seen[from] = true
		for _, e := range adj[from] {
			if p, ok := path(e.to, targets, seen); ok {
				return append([]*acqOut{e.via}, p...), true
			}
		}
		return nil, false
	}
	for _, o := range sites {
		targets := map[string]bool{}
		for _, h := range o.Held {
			l, _ := heldLock(h)
			targets[l] = true
		}
		known[o.Acq] = true
		if len(targets) > 0 {
			if p, closes := path(o.Acq, targets, map[string]bool{}); closes {
				if len(out) == 0 {
					cycle = append([]*acqOut{o}, p...)
				}
				out = append(out, o)
				continue
			}
		}
		for y := range targets {
			known[y] = true
			adj[y] = append(adj[y], edge{o.Acq, o})
		}
	}
	preds := map[string][]string{}
	for y, es := range adj {
		for _, e := range es {
			preds[e.to] = append(preds[e.to], y)
		}
	}
	ranks = map[string]int{}
	var rankOf func(l string) int
	rankOf = func(l string) int {
		if r, ok := ranks[l]; ok {
			return r
		}
		ranks[l] = 1 // the accepted relation is acyclic; this only guards the recursion
		r := 1
		for _, y := range preds[l] {
			if x := rankOf(y) + 1; x > r {
				r = x
			}
		}
		ranks[l] = r
		return r
	}
	for l := range known {
		rankOf(l)
	}
	return ranks, out, cycle
}

func writeIfChanged(out, text string) {
	os.MkdirAll(filepath.Dir(out), 0o755)
	old, _ := os.ReadFile(out)
	if string(old) == text {
		return
	}
	tmp := fmt.Sprintf("%s.tmp%d", out, os.Getpid())
	err := os.WriteFile(tmp, []byte(text), 0o644)
	if err == nil {
		err = os.Rename(tmp, out) // readers see the old or the new table, never a partial one
	}
	if err != nil {
		fmt.Fprintln(os.Stderr, "locktable:", err)
		os.Exit(2)
	}
}

func main() {
	repo := os.Getenv("VERIF_REPO")
	if repo == "" {
		repo = "/repo"
	}
	verif := os.Getenv("VERIF_DIR")
	if verif == "" {
		verif, _ = os.Getwd()
	}
	guards, mutators, err := readGuards(filepath.Join(verif, "coq/Model/Guards.v"))
	if err != nil {
		fmt.Fprintln(os.Stderr, "locktable:", err)
		os.Exit(2)
	}
	cfg := &packages.Config{Mode: packages.LoadAllSyntax, Dir: repo, Overlay: map[string][]byte{}}
	if ov := os.Getenv("VERIF_EXTRA_OVERLAY"); ov != "" {
		m := map[string]string{}
		if err := json.Unmarshal([]byte(ov), &m); err != nil {
			fmt.Fprintln(os.Stderr, "locktable: VERIF_EXTRA_OVERLAY:", err)
			os.Exit(2)
		}
		for dst, src := range m {
			b, err := os.ReadFile(src)
			if err != nil {
				fmt.Fprintln(os.Stderr, "locktable:", err)
				os.Exit(2)
			}
			if strings.HasPrefix(dst, "/repo/") && repo != "/repo" {
				dst = filepath.Join(repo, strings.TrimPrefix(dst, "/repo/"))
			}
			cfg.Overlay[dst] = b
		}
	}
	pkgs, err := packages.Load(cfg, "./internal/...")
	if err != nil {
		fmt.Fprintln(os.Stderr, "locktable: load:", err)
		os.Exit(2)
	}
	nerr := 0
	packages.Visit(pkgs, nil, func(p *packages.Package) {
		for _, e := range p.Errors {
			if nerr < 10 {
				fmt.Fprintln(os.Stderr, "locktable: package error:", e)
			}
			nerr++
		}
	})
	if nerr > 0 {
		os.Exit(2)
	}
	prog, _ := ssautil.AllPackages(pkgs, ssa.InstantiateGenerics)
	prog.Build()

	a := &analysis{prog: prog, fset: prog.Fset, repoDir: repo, repoPkgs: map[*types.Package]bool{},
		fns: map[*ssa.Function]*fnInfo{}, guards: guards, mutators: mutators,
		invokeMem: map[string][]*ssa.Function{}, fvFlow: map[string]map[*ssa.Function]bool{},
		unresolved: map[string]string{}, addrEscapes: map[string]string{}, byStruct: map[string][]string{},
		abstract: map[string]string{}, readTxns: map[string]string{}}
	for k := range guards {
		if i := strings.LastIndex(k, "."); i > 0 {
			a.byStruct[k[:i]] = append(a.byStruct[k[:i]], k)
		}
	}
	for _, v := range a.byStruct {
		sort.Strings(v)
	}
	var kept []*packages.Package
	for _, p := range pkgs {
		// test helpers and the separate experimental code base are not part of the server
		if strings.Contains(p.PkgPath, "/aghtest") || strings.Contains(p.PkgPath, "/internal/next") {
			continue
		}
		a.repoPkgs[p.Types] = true
		kept = append(kept, p)
	}
	pkgs = kept
	// named types of the repository (for interface calls)
	for _, p := range pkgs {
		sc := p.Types.Scope()
		names := sc.Names()
		for _, n := range names {
			tn, ok := sc.Lookup(n).(*types.TypeName)
			if !ok || tn.IsAlias() {
				continue
			}
			t := tn.Type()
			if _, isIface := t.Underlying().(*types.Interface); isIface {
				continue
			}
			if nt, ok := t.(*types.Named); ok && nt.TypeParams().Len() > 0 {
				continue
			}
			a.namedTys = append(a.namedTys, t, types.NewPointer(t))
		}
	}
	// A guarded field whose type comes from sync/atomic (atomic.Pointer[T],
	// atomic.Bool, ...) synchronises itself: every access goes through the
	// type's methods.  The guard declared for it is not required (listed in
	// the side output as atomic_fields); what is stored behind an
	// atomic.Pointer is not followed.
	var atomicFields []string
	for _, p := range pkgs {
		sc := p.Types.Scope()
		for _, n := range sc.Names() {
			tn, ok := sc.Lookup(n).(*types.TypeName)
			if !ok || tn.IsAlias() {
				continue
			}
			st, ok := tn.Type().Underlying().(*types.Struct)
			if !ok {
				continue
			}
			for i := 0; i < st.NumFields(); i++ {
				k := a.structFieldKey(tn.Type(), i)
				if k == "" || len(guards[k]) == 0 {
					continue
				}
				if nt, ok := types.Unalias(st.Field(i).Type()).(*types.Named); ok && nt.Obj().Pkg() != nil && nt.Obj().Pkg().Path() == "sync/atomic" {
					atomicFields = append(atomicFields, k)
					delete(guards, k)
				}
			}
		}
	}
	sort.Strings(atomicFields)
	for k := range a.byStruct {
		delete(a.byStruct, k)
	}
	for k := range guards {
		if i := strings.LastIndex(k, "."); i > 0 {
			a.byStruct[k[:i]] = append(a.byStruct[k[:i]], k)
		}
	}
	for _, v := range a.byStruct {
		sort.Strings(v)
	}
	// all functions of the repository, in a deterministic order
	all := ssautil.AllFunctions(prog)
	var fl []*ssa.Function
	for f := range all {
		if a.inRepo(f) {
			fl = append(fl, f)
		}
	}
	sort.Slice(fl, func(i, j int) bool {
		if fl[i].String() != fl[j].String() {
			return fl[i].String() < fl[j].String()
		}
		return fl[i].Pos() < fl[j].Pos()
	})
	for _, f := range fl {
		a.info(f)
	}
	if d := os.Getenv("LOCKTABLE_DUMP"); d != "" {
		for _, f := range a.order {
			if a.fnName(f) == d {
				f.WriteTo(os.Stdout)
			}
		}
	}
	a.bindPointerParams()
	// function-value flow to a fixpoint
	for i := 0; i < 20; i++ {
		a.fvChanged = false
		for _, f := range a.order {
			a.flowConstraints(f)
		}
		if !a.fvChanged {
			break
		}
	}
	a.bindTxParams()
	// summaries to a fixpoint
	stable := false
	for i := 0; i < 30 && !stable; i++ {
		stable = true
		for _, f := range a.order {
			if a.analyze(a.fns[f], nil) {
				stable = false
			}
		}
	}
	if !stable {
		a.unresolved["summaries-not-stable"] = "?"
	}
	// collect sites
	a.collecting = true
	for _, f := range a.order {
		fi := a.fns[f]
		fi.sites = nil
		a.analyze(fi, func(s site) { fi.sites = append(fi.sites, s) })
	}
	a.collecting = false

	controlLock := lmID(lm{"home.homeContext.controlLock", true})
	// state-changing admin handlers start under home.controlLock only as long as
	// the wrapper home.ensure still takes it
	ensureLocks := false
	for _, f := range a.order {
		if a.fnName(f) == "home.ensure$1" {
			for _, st := range a.fns[f].sites {
				if st.kind == siteAcquire && st.acq == controlLock {
					ensureLocks = true
				}
			}
		}
	}
	roots := a.findRoots(controlLock)
	if !ensureLocks {
		for i := range roots {
			roots[i].entry = set{}
		}
	}

	// propagation: contexts are (function, entry lock set)
	type ctxKey struct {
		fn    *ssa.Function
		entry set
		fresh bool // the receiver is an object its constructor has not published yet
	}
	accs := map[string]*accessOut{}
	ords := map[string]*orderOut{}
	acqs := map[string]*acqOut{}
	blocks := map[string]*blockOut{}
	reachedFns := map[*ssa.Function]bool{}
	unbalanced := map[string]string{}
	freshCalls := map[string]string{}   // helper methods entered on an unpublished receiver
	freshSkipped := map[string]string{} // accesses skipped there
	for _, r := range roots {
		seen := map[ctxKey]bool{}
		work := []ctxKey{{r.fn, r.entry, false}}
		if fi := a.fns[r.fn]; fi != nil && fi.exit.ok && (!fi.exit.add.empty() || !fi.exit.rem.empty()) {
			unbalanced[a.fnName(r.fn)] = a.posStr(r.fn.Pos())
		}
		for len(work) > 0 {
			c := work[len(work)-1]
			work = work[:len(work)-1]
			if seen[c] {
				continue
			}
			seen[c] = true
			fi := a.fns[c.fn]
			if fi == nil {
				continue
			}
			reachedFns[c.fn] = true
			for _, s := range fi.sites {
				h := held(c.entry, s.st)
				switch s.kind {
				case siteCall:
					for _, g := range s.callees {
						fresh := s.recvFresh || (s.recvPass && c.fresh)
						if fresh {
							freshCalls[a.fnName(g)] = a.posStr(s.pos)
						}
						work = append(work, ctxKey{g, h, fresh})
					}
				case siteGo:
					// separate thread: a root of its own (found by findRoots)
				case siteBlock:
					if !h.empty() {
						bo := &blockOut{Root: r.name, Fn: a.fnName(c.fn), Op: s.note, Chan: s.field, Pos: a.posStr(s.pos)}
						for _, id := range h.elems() {
							x := lmByID[id]
							bo.Held = append(bo.Held, x.Lock+":"+coqMode(x.W))
						}
						k := fmt.Sprint(bo.Fn, bo.Op, bo.Chan, bo.Pos, bo.Held)
						if _, ok := blocks[k]; !ok {
							blocks[k] = bo
						}
					}
				case siteAcquire:
					{
						al := lmByID[s.acq]
						ao := &acqOut{Root: r.name, Fn: a.fnName(c.fn), Acq: al.Lock, AW: al.W, Pos: a.posStr(s.pos), held: h}
						for _, id := range h.elems() {
							x := lmByID[id]
							ao.Held = append(ao.Held, x.Lock+":"+coqMode(x.W))
						}
						k := fmt.Sprint(ao.Fn, ao.Held, ao.Acq, ao.AW, ao.Pos)
						if _, ok := acqs[k]; !ok {
							acqs[k] = ao
						}
					}
					for _, id := range h.elems() {
						hl, al := lmByID[id], lmByID[s.acq]
						if a.abstract[hl.Lock] != "" || a.abstract[al.Lock] != "" {
							// pairs with an abstract lock are judged on the acquisition
							// sites (gate criterion), the pair table stays sync-only
							continue
						}
						o := &orderOut{Root: r.name, Fn: a.fnName(c.fn), Held: hl.Lock, HW: hl.W, Acq: al.Lock, AW: al.W, Pos: a.posStr(s.pos)}
						k := fmt.Sprint(o.Fn, o.Held, o.HW, o.Acq, o.AW, o.Pos)
						if _, ok := ords[k]; !ok {
							ords[k] = o
						}
					}
				case siteAccess:
					if c.fresh && s.viaRecv {
						// initialisation of an object that no other thread can reach yet
						freshSkipped[s.field+"@"+a.fnName(c.fn)] = a.posStr(s.pos)
						continue
					}
					o := &accessOut{Root: r.name, Fn: a.fnName(c.fn), Field: s.field, Write: s.write, Pos: a.posStr(s.pos), Note: s.note, held: h}
					for _, id := range h.elems() {
						x := lmByID[id]
						o.Held = append(o.Held, x.Lock+":"+coqMode(x.W))
					}
					k := fmt.Sprint(o.Fn, o.Field, o.Write, o.Held, o.Pos)
					if _, ok := accs[k]; !ok {
						accs[k] = o
					}
				}
			}
		}
	}
	// unresolved items only count when in a reached function
	reachedNames := map[string]bool{}
	for f := range reachedFns {
		reachedNames[a.fnName(f)] = true
	}
	var unres [][2]string
	for k, p := range a.unresolved {
		parts := strings.Split(k, "@")
		if len(parts) >= 2 && !reachedNames[parts[1]] {
			continue
		}
		unres = append(unres, [2]string{k, p})
	}
	for k, p := range unbalanced {
		unres = append(unres, [2]string{"unbalanced-root@" + k, p})
	}
	sort.Slice(unres, func(i, j int) bool { return unres[i][0] < unres[j][0] })

	written := map[string]bool{} // fields with at least one write site
	for _, o := range accs {
		if o.Write {
			written[o.Field] = true
		}
	}
	var al []*accessOut
	for _, o := range accs {
		o.Guard = guards[o.Field]
		o.Key = o.Field + "@" + o.Fn
		has := func(l string, w bool) bool {
			id, ok := lmIDs[lm{l, w}]
			return ok && o.held.has(id)
		}
		if o.Write {
			o.OK = len(o.Guard) > 0
			for _, g := range o.Guard {
				o.OK = o.OK && has(g, true)
			}
		} else {
			o.OK = !written[o.Field] // nobody writes it: reads need no lock
			for _, g := range o.Guard {
				o.OK = o.OK || has(g, true) || has(g, false)
			}
		}
		al = append(al, o)
	}
	sort.Slice(al, func(i, j int) bool {
		x, y := al[i], al[j]
		if x.Pos != y.Pos {
			return x.Pos < y.Pos
		}
		if x.Field != y.Field {
			return x.Field < y.Field
		}
		if x.Write != y.Write {
			return !x.Write
		}
		if x.Fn != y.Fn {
			return x.Fn < y.Fn
		}
		if hx, hy := strings.Join(x.Held, ","), strings.Join(y.Held, ","); hx != hy {
			return hx < hy
		}
		return x.Note < y.Note
	})
	var ol []*orderOut
	for _, o := range ords {
		ol = append(ol, o)
	}
	sort.Slice(ol, func(i, j int) bool {
		x, y := ol[i], ol[j]
		return fmt.Sprint(x.Held, x.Acq, x.Pos, x.HW, x.AW) < fmt.Sprint(y.Held, y.Acq, y.Pos, y.HW, y.AW)
	})

	var aql []*acqOut
	for _, o := range acqs {
		aql = append(aql, o)
	}
	sort.Slice(aql, func(i, j int) bool {
		x, y := aql[i], aql[j]
		// per site, the contexts with fewer locks first (they make the shorter witnesses)
		return fmt.Sprintf("%v %v %v %v %04d %v", x.Acq, x.Pos, x.AW, x.Fn, len(x.Held), x.Held) < fmt.Sprintf("%v %v %v %v %04d %v", y.Acq, y.Pos, y.AW, y.Fn, len(y.Held), y.Held)
	})
	// keys of the known findings of C05 (KNOWN_FINDINGS.txt is only read)
	var known []string
	if b, err := os.ReadFile(filepath.Join(verif, "KNOWN_FINDINGS.txt")); err == nil {
		re := regexp.MustCompile(`(?m)^finding:\s+property=C05\s+key=(\S+)`)
		for _, m := range re.FindAllStringSubmatch(string(b), -1) {
			known = append(known, m[1])
		}
	}
	sort.Strings(known)
	knownSet := map[string]bool{}
	for _, k := range known {
		knownSet[k] = true
	}
	// the sites the gate criterion is checked on: those without a listed pair
	// (Proofs/LockTableGate.v, checked_sites_of)
	var aqlChecked []*acqOut
	for _, o := range aql {
		listed := false
		for _, h := range o.Held {
			l, _ := heldLock(h)
			if knownSet[l+"<"+o.Acq+"@"+o.Fn] {
				listed = true
			}
		}
		if !listed {
			aqlChecked = append(aqlChecked, o)
		}
	}

	// Ranking hints for the gate criterion (Proofs/LockTableGate.v).  Coq only
	// CHECKS them (a wrong or useless hint makes the check fail, never pass);
	// the rankings themselves are too expensive to compute inside Coq.
	//   global: the sites are added one by one to an acyclic sub-relation; a
	//   site that would close a cycle is left out.  Ranks = longest path.
	//   per left-out site d: the same for the sub-table {d} + sites compatible
	//   with d (no common lock held in write mode by one of the two); if that
	//   sub-table has a cycle the criterion is violated and one cycle is
	//   reported with its sites.
	globalRanks, leftOutSites, _ := rankSites(aqlChecked)
	var leftOut []string
	type subHint struct {
		site  *acqOut
		ranks map[string]int
	}
	var subHints []subHint
	var gateViolations []map[string]any
	for _, d := range leftOutSites {
		leftOut = append(leftOut, d.Fn+"@"+d.Pos)
		sub := []*acqOut{d}
		for _, o := range aqlChecked {
			if !heldConflict(d.Held, o.Held) {
				sub = append(sub, o)
			}
		}
		ranks, out, cyc := rankSites(sub)
		subHints = append(subHints, subHint{d, ranks})
		if len(out) > 0 {
			var steps []map[string]any
			for _, c := range cyc {
				steps = append(steps, map[string]any{"fn": c.Fn, "pos": c.Pos, "root": c.Root, "held": c.Held, "acquires": c.Acq + ":" + coqMode(c.AW)})
			}
			gateViolations = append(gateViolations, map[string]any{
				"site":  map[string]any{"fn": d.Fn, "pos": d.Pos, "root": d.Root, "held": d.Held, "acquires": d.Acq + ":" + coqMode(d.AW)},
				"cycle": steps,
			})
		}
	}
	var rankNames []string
	for l := range globalRanks {
		rankNames = append(rankNames, l)
	}
	sort.Strings(rankNames)
	rankOf := func(l string) int { return globalRanks[l] }

	var absNames []string
	for k := range a.abstract {
		absNames = append(absNames, k)
	}
	sort.Strings(absNames)
	{
		var ab strings.Builder
		ab.WriteString("(* GENERATED by tools/locktable from the current source; do not edit. *)\n")
		ab.WriteString("From Coq Require Import List String.\nFrom AGH Require Import Base.Conc Model.Guards.\nImport ListNotations.\nLocal Open Scope string_scope.\n\n")
		ab.WriteString("(* locks that are not sync mutexes of the repository: what they stand for *)\n")
		ab.WriteString("Definition abstract_locks : list (string * string) := [\n")
		for i, k := range absNames {
			sep := ";"
			if i == len(absNames)-1 {
				sep = ""
			}
			fmt.Fprintf(&ab, "  (%s, %s)%s\n", coqStr(k), coqStr(a.abstract[k]), sep)
		}
		ab.WriteString("].\n\n(* ranking hint (checked, not trusted): longest path in an acyclic sub-relation *)\n")
		ab.WriteString("Definition acq_rank_hint : list (string * nat) := [\n")
		for i, l := range rankNames {
			sep := ";"
			if i == len(rankNames)-1 {
				sep = ""
			}
			fmt.Fprintf(&ab, "  (%s, %d)%s\n", coqStr(l), rankOf(l), sep)
		}
		ab.WriteString("].\n\n(* ranking hints for the sub-tables of the sites the global hint leaves out (checked, not trusted) *)\n")
		ab.WriteString("Definition acq_sub_rank_hints : list (acq_site * list (string * nat)) := [\n")
		for i, h := range subHints {
			var hs []string
			for _, id := range h.site.held.elems() {
				x := lmByID[id]
				hs = append(hs, "("+coqStr(x.Lock)+", "+coqMode(x.W)+")")
			}
			var names []string
			for l := range h.ranks {
				names = append(names, l)
			}
			sort.Strings(names)
			var rs []string
			for _, l := range names {
				rs = append(rs, fmt.Sprintf("(%s, %d)", coqStr(l), h.ranks[l]))
			}
			sep := ";"
			if i == len(subHints)-1 {
				sep = ""
			}
			fmt.Fprintf(&ab, "  (AcqSite %s %s [%s] (%s, %s) %s,\n   [%s])%s\n", coqStr(h.site.Root), coqStr(h.site.Fn), strings.Join(hs, "; "),
				coqStr(h.site.Acq), coqMode(h.site.AW), coqStr(h.site.Pos), strings.Join(rs, "; "), sep)
		}
		ab.WriteString("].\n\n(* every acquisition site reachable from a root, with ALL locks held there *)\n")
		ab.WriteString("Definition acquisitions : list acq_site := [\n")
		for i, o := range aql {
			var hs []string
			for _, id := range o.held.elems() {
				x := lmByID[id]
				hs = append(hs, "("+coqStr(x.Lock)+", "+coqMode(x.W)+")")
			}
			sep := ";"
			if i == len(aql)-1 {
				sep = ""
			}
			fmt.Fprintf(&ab, "  AcqSite %s %s [%s] (%s, %s) %s%s\n", coqStr(o.Root), coqStr(o.Fn), strings.Join(hs, "; "), coqStr(o.Acq), coqMode(o.AW), coqStr(o.Pos), sep)
		}
		ab.WriteString("].\n")
		writeIfChanged(filepath.Join(verif, "coq/Gen/LockTableAcq.v"), ab.String())
	}

	// ---- Coq
	var sb strings.Builder
	sb.WriteString("(* GENERATED by tools/locktable from the current source; do not edit. *)\n")
	sb.WriteString("From Coq Require Import List String.\nFrom AGH Require Import Base.Conc Model.Guards.\nImport ListNotations.\nLocal Open Scope string_scope.\n\n")
	sb.WriteString("Definition accesses : list access := [\n")
	for i, o := range al {
		var hs []string
		for _, id := range o.held.elems() {
			x := lmByID[id]
			hs = append(hs, "("+coqStr(x.Lock)+", "+coqMode(x.W)+")")
		}
		sep := ";"
		if i == len(al)-1 {
			sep = ""
		}
		fmt.Fprintf(&sb, "  Access %s %s %s %s [%s] %s%s\n", coqStr(o.Root), coqStr(o.Fn), coqStr(o.Field), coqBool(o.Write), strings.Join(hs, "; "), coqStr(o.Pos), sep)
	}
	sb.WriteString("].\n\nDefinition lock_order : list order_pair := [\n")
	for i, o := range ol {
		sep := ";"
		if i == len(ol)-1 {
			sep = ""
		}
		fmt.Fprintf(&sb, "  OrderPair %s %s (%s, %s) (%s, %s) %s%s\n", coqStr(o.Root), coqStr(o.Fn), coqStr(o.Held), coqMode(o.HW), coqStr(o.Acq), coqMode(o.AW), coqStr(o.Pos), sep)
	}
	sb.WriteString("].\n\nDefinition unresolved : list (string * string) := [\n")
	for i, u := range unres {
		sep := ";"
		if i == len(unres)-1 {
			sep = ""
		}
		fmt.Fprintf(&sb, "  (%s, %s)%s\n", coqStr(u[0]), coqStr(u[1]), sep)
	}
	sb.WriteString("].\n\nDefinition known_keys : list string := [\n")
	for i, k := range known {
		sep := ";"
		if i == len(known)-1 {
			sep = ""
		}
		fmt.Fprintf(&sb, "  %s%s\n", coqStr(k), sep)
	}
	sb.WriteString("].\n\nDefinition roots : list string := [\n")
	for i, r := range roots {
		sep := ";"
		if i == len(roots)-1 {
			sep = ""
		}
		fmt.Fprintf(&sb, "  %s%s\n", coqStr(r.name+" = "+a.fnName(r.fn)), sep)
	}
	sb.WriteString("].\n")
	writeIfChanged(filepath.Join(verif, "coq/Gen/LockTable.v"), sb.String())
	// ---- lock balance per function path (balance.go): coq/Gen/LockTableBalance.v
	bal, err := runBalance(a, verif, reachedFns)
	if err != nil {
		fmt.Fprintln(os.Stderr, "locktable: balance:", err)
		os.Exit(2)
	}
	// ---- blocking channel operations under a lock (chanops.go): coq/Gen/LockTableChan.v
	chn, err := runChanOps(a, verif, blocks)
	if err != nil {
		fmt.Fprintln(os.Stderr, "locktable: chanops:", err)
		os.Exit(2)
	}
	// ---- JSON side output
	var rn []string
	for _, r := range roots {
		rn = append(rn, r.name+" = "+a.fnName(r.fn))
	}
	js := map[string]any{"known_keys": known, "accesses": al, "lock_order": ol, "unresolved": unres, "roots": rn,
		"address_escapes": a.addrEscapes, "atomic_fields": atomicFields, "fresh_receiver_helpers": freshCalls, "fresh_receiver_accesses_skipped": freshSkipped, "functions_reached": len(reachedFns), "functions_total": len(a.order), "guarded_fields": len(guards),
		"acquisitions": aql, "abstract_locks": a.abstract, "acquisitions_outside_rank_hint": leftOut, "gate_violations": gateViolations, "bbolt_read_transactions_left_out": a.readTxns,
		"balance": bal, "blocking_ops": chn}
	// the side file, and a copy of its own for a tagged run (bin/try-seed, mutant
	// runs): another check regenerating the shared file meanwhile must not change
	// what this run's hook reads
	jsPaths := []string{filepath.Join(verif, "work", "locktable.json")}
	if tag := os.Getenv("VERIF_WORK_TAG"); tag != "" {
		jsPaths = append(jsPaths, filepath.Join(verif, "work", tag, "locktable.json"))
	}
	for _, jp := range jsPaths {
		os.MkdirAll(filepath.Dir(jp), 0o755)
		f, err := os.Create(jp + ".tmp")
		if err == nil {
			enc := json.NewEncoder(f)
			enc.SetIndent("", " ")
			enc.Encode(js)
			f.Close()
			os.Rename(jp+".tmp", jp)
		}
	}
	bad := 0
	for _, o := range al {
		if !o.OK {
			bad++
			if verbose {
				fmt.Printf("UNGUARDED %s %v %s held=%v root=%s note=%s\n", o.Key, o.Write, o.Pos, o.Held, o.Root, o.Note)
			}
		}
	}
	fmt.Printf("locktable: %d roots, %d/%d functions reached, %d accesses (%d not under their guard), %d order pairs, %d acquisition sites, %d abstract locks, %d unresolved\n",
		len(roots), len(reachedFns), len(a.order), len(al), bad, len(ol), len(aql), len(absNames), len(unres))
	fmt.Printf("locktable: blocking operations under a lock: %d sites, %d justified (handover.json), %d not\n", len(chn.Rows), len(chn.Rows)-chn.Unjustified, chn.Unjustified)
	if verbose {
		for _, r := range chn.Rows {
			fmt.Printf("BLOCKING %s %s on %s at %s holding %v (root %s) justified=%v\n", r.Fn, r.Op, r.Chan, r.Pos, r.Held, r.Root, r.Reason != "")
		}
	}
	nlive := 0
	for _, r := range bal.Rows {
		if r.Allowed == "" {
			nlive++
			if verbose {
				fmt.Printf("BALANCE %s %s %s:%s acquired %s, %s at %s\n", r.Class, r.Fn, r.Lock, coqMode(r.W), r.AcqPos, r.ExitKind, r.ExitPos)
			}
		}
	}
	fmt.Printf("locktable: balance: %d functions analysed, %d with lock events, %d exit states (%d at panics), %d rows not balanced, %d unresolved, %d declared hand-overs, %d closures inlined\n",
		bal.FnTotal, bal.FnWithEvents, bal.ExitsChecked, bal.PanicExits, nlive, len(bal.Unresolved), len(bal.Handovers), len(bal.ClosuresInlined))
}

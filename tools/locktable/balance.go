// Lock BALANCE per function path (C05, round 6).
//
// The must-held analysis of main.go intersects the lock sets at joins: a lock
// that stays held on ONE path to a return is simply dropped there, so a leaked
// lock was invisible.  This file adds the dual, a path-sensitive MAY analysis:
// for every function of the repository's packages (reached from a root or not)
// the set of lock states that can reach each program point, a state being
//
//	held  the locks this function (or a hand-over callee, see below) acquired
//	      and has not released yet, with their acquisition sites,
//	rem   releases of locks the function did not acquire,
//	def   the defer instructions executed so far,
//
// propagated over the SSA control-flow graph without joining (a block keeps the
// SET of distinct states; branch conditions are not interpreted, except
// `if mu.TryLock()` and the error branch of `tx, err := db.Begin(true)`).  At
// every return (after the deferred calls) and every explicit panic (deferred
// calls run there too) the state must be neutral: nothing held, nothing
// released that was not acquired.  Otherwise:
//
//	leak                 some exit leaves a lock held that another exit releases
//	undeclared-handover  EVERY return leaves the same non-neutral effect
//	                     (a lock()/unlock() helper, a function that returns
//	                     with the lock held by contract): must be declared in
//	                     handover.json with a reason; the declared effect is
//	                     then applied at every call site, so the CALLER has to
//	                     balance it
//	unresolved-balance   the function both leaves a lock held on one exit and
//	                     releases the same lock without holding it on another
//	                     (locking correlated with a flag or with two names for
//	                     one mutex), a lock operation through sync.Locker or a
//	                     method value, a lock-releasing defer inside a loop, or
//	                     too many states: a failure unless whitelisted with a
//	                     reason in handover.json
//
// Anonymous closures need no declaration: the effects of a closure
// (`defer func() { ...; mu.Unlock() }()`, `db.Update(func ...)`) are computed
// and applied where the closure is called, deferred or passed to a function
// outside the repository (assumed to call it synchronously, as in main.go).  A
// non-neutral closure that is started with `go` or is never consumed that way
// is a failure.
//
// Lock identity: the type-based name of main.go ("dnsforward.Server.serverLock")
// plus, within a function, the access path of the mutex value ("s.serverLock",
// "c.mu"): a release matches the most recent acquisition of the same name and
// mode with the same path (or with an unknown path); `a.mu.Lock(); b.mu.Unlock()`
// does not balance.
//
// Output: coq/Gen/LockTableBalance.v (one row per function with lock events:
// per distinct exit state ONE witness path as a list of Acq / Rel events of the
// machine of Base/Conc.v; Coq re-evaluates `sections_end` on every witness) and
// the "balance" section of work/locktable.json.
package main

import (
	"encoding/json"
	"fmt"
	"go/constant"
	"go/token"
	"go/types"
	"os"
	"path/filepath"
	"sort"
	"strings"

	"golang.org/x/tools/go/ssa"
)

type balLock struct {
	name string
	w    bool
	path string
}

func (l balLock) String() string { return l.name + ":" + coqMode(l.w) }

type balEv struct {
	acq  bool
	soft bool // a release that is a no-op when the lock is not held (Rollback after Commit of a local transaction)
	l    balLock
	pos  token.Pos
	via  string // "" = the function's own instruction; otherwise the hand-over callee / closure
}

type balTrace struct {
	prev *balTrace
	ev   balEv
}

type balHeld struct {
	l    balLock
	pos  token.Pos
	soft bool
}

type balState struct {
	held []balHeld
	rem  []balHeld
	def  set
	tr   *balTrace
	vals map[ssa.Value]bool // known values of boolean flags (see "boolean flags" below)
}

func (st balState) key() string {
	var hs, rs []string
	for _, h := range st.held {
		hs = append(hs, fmt.Sprintf("%s|%v|%s|%d", h.l.name, h.l.w, h.l.path, h.pos))
	}
	for _, h := range st.rem {
		rs = append(rs, fmt.Sprintf("%s|%v|%s|%d", h.l.name, h.l.w, h.l.path, h.pos))
	}
	sort.Strings(hs)
	sort.Strings(rs)
	var vs []string
	for f, v := range st.vals {
		vs = append(vs, fmt.Sprintf("%s=%v", f.Name(), v))
	}
	sort.Strings(vs)
	return strings.Join(hs, ",") + "/" + strings.Join(rs, ",") + "/" + fmt.Sprint(st.def) + "/" + strings.Join(vs, ",")
}

func (st balState) neutral() bool { return len(st.held) == 0 && len(st.rem) == 0 }

// apply: the state after the event.  inClosure: an unmatched soft release is
// kept (the closure's caller may hold the lock); in a named function it is the
// no-op bbolt makes of it.
func (st balState) apply(ev balEv, inClosure bool) balState {
	if ev.acq {
		st.held = append(append([]balHeld(nil), st.held...), balHeld{ev.l, ev.pos, false})
		st.tr = &balTrace{st.tr, ev}
		return st
	}
	match := -1
	for pass := 0; pass < 2 && match < 0; pass++ {
		for i := len(st.held) - 1; i >= 0; i-- {
			h := st.held[i].l
			if h.name != ev.l.name || h.w != ev.l.w {
				continue
			}
			if (pass == 0 && h.path == ev.l.path) || (pass == 1 && (h.path == "" || ev.l.path == "")) {
				match = i
				break
			}
		}
	}
	if match < 0 {
		if ev.soft && !inClosure {
			return st
		}
		st.rem = append(append([]balHeld(nil), st.rem...), balHeld{ev.l, ev.pos, ev.soft})
		st.tr = &balTrace{st.tr, ev}
		return st
	}
	nh := append([]balHeld(nil), st.held[:match]...)
	st.held = append(nh, st.held[match+1:]...)
	st.tr = &balTrace{st.tr, ev}
	return st
}

// dropAcq: the most recent acquisition of the lock named name did not happen
// (db.Begin(true) failed): state and witness without it.
func (st balState) dropAcq(name string) balState {
	idx := -1
	for i := len(st.held) - 1; i >= 0; i-- {
		if st.held[i].l.name == name {
			idx = i
			break
		}
	}
	if idx < 0 {
		return st
	}
	nh := append([]balHeld(nil), st.held[:idx]...)
	st.held = append(nh, st.held[idx+1:]...)
	var evs []balEv // newest first
	for t := st.tr; t != nil; t = t.prev {
		evs = append(evs, t.ev)
	}
	last := -1
	for i, e := range evs {
		if e.acq && e.l.name == name {
			last = i
			break
		}
	}
	var tr *balTrace
	for i := len(evs) - 1; i >= 0; i-- {
		if i == last {
			continue
		}
		tr = &balTrace{tr, evs[i]}
	}
	st.tr = tr
	return st
}

func (st balState) events() []balEv {
	var evs []balEv
	for t := st.tr; t != nil; t = t.prev {
		evs = append(evs, t.ev)
	}
	for i, j := 0, len(evs)-1; i < j; i, j = i+1, j-1 {
		evs[i], evs[j] = evs[j], evs[i]
	}
	return evs
}

type balExit struct {
	kind string // "return" | "panic"
	pos  token.Pos
	st   balState
}

type balFn struct {
	fn       *ssa.Function
	exits    []balExit
	notes    map[string]token.Pos // unresolved-balance items found inside the function
	done     bool
	consumed bool // effects applied at a call / defer site of another function
	goRoot   bool // started with `go`
}

// effects: the distinct net effects of the function's RETURNS as event lists
// (releases first, then acquisitions).
func (bf *balFn) effects() [][]balEv {
	seen := map[string]bool{}
	var res [][]balEv
	for _, x := range bf.exits {
		if x.kind != "return" {
			continue
		}
		var evs []balEv
		var ks []string
		for _, r := range x.st.rem {
			evs = append(evs, balEv{l: r.l, pos: r.pos, soft: r.soft})
			ks = append(ks, "rel "+r.l.String())
		}
		for _, h := range x.st.held {
			evs = append(evs, balEv{acq: true, l: h.l, pos: h.pos})
			ks = append(ks, "acq "+h.l.String())
		}
		k := fmt.Sprint(ks)
		if !seen[k] {
			seen[k] = true
			res = append(res, evs)
		}
	}
	return res
}

// ---------------------------------------------------------------- declarations

type balDecl struct {
	Fn       string   `json:"fn"`
	Releases []string `json:"releases"` // "lock:W" held by the caller at entry, released here
	Acquires []string `json:"acquires"` // "lock:W" held at return by contract
	Reason   string   `json:"reason"`
	used     bool
}

type balAllow struct {
	Key    string `json:"key"` // class@function@lock
	Reason string `json:"reason"`
	used   bool
}

type balConfig struct {
	Handovers []*balDecl  `json:"handovers"`
	Allowed   []*balAllow `json:"allowed"`
	// round 7: blocking channel operations that may run under a lock (key
	// function@channel), each with the reason why the wait ends (chanops.go)
	BlockingOK []*balAllow `json:"blocking_ok"`
}

func readBalConfig(verif string) (*balConfig, error) {
	cfg := &balConfig{}
	path := os.Getenv("LOCKTABLE_HANDOVER")
	if path == "" {
		path = filepath.Join(verif, "tools", "locktable", "handover.json")
	}
	b, err := os.ReadFile(path)
	if err != nil {
		if os.IsNotExist(err) {
			return cfg, nil
		}
		return nil, err
	}
	if err := json.Unmarshal(b, cfg); err != nil {
		return nil, fmt.Errorf("%s: %w", path, err)
	}
	for _, d := range cfg.Handovers {
		if strings.TrimSpace(d.Reason) == "" {
			return nil, fmt.Errorf("%s: hand-over %s has no reason", path, d.Fn)
		}
	}
	for _, d := range cfg.Allowed {
		if strings.TrimSpace(d.Reason) == "" {
			return nil, fmt.Errorf("%s: allowed item %s has no reason", path, d.Key)
		}
	}
	for _, d := range cfg.BlockingOK {
		if strings.TrimSpace(d.Reason) == "" {
			return nil, fmt.Errorf("%s: blocking_ok item %s has no reason", path, d.Key)
		}
	}
	return cfg, nil
}

func parseHeldLock(s string) balLock {
	l, w := heldLock(s)
	return balLock{name: l, w: w}
}

// ---------------------------------------------------------------- analysis

type balance struct {
	a         *analysis
	cfg       *balConfig
	decl      map[string]*balDecl
	memo      map[string]*balFn        // (function, flag context) -> result
	own       map[*ssa.Function]*balFn // the context-free result: the function's row
	inLoop    map[*ssa.BasicBlock]bool
	trackMemo map[ssa.Value]bool
	relMemo   map[*ssa.Function]map[ssa.Value]bool
}

// balPath: a name for the mutex VALUE within one function (and its closures):
// parameters, captured and local variables by their names, fields by their
// names, anything else by its SSA register.
func (b *balance) balPath(v ssa.Value, depth int) string {
	if depth > 12 {
		return ""
	}
	switch x := v.(type) {
	case *ssa.Parameter:
		return x.Name()
	case *ssa.FreeVar:
		return x.Name()
	case *ssa.Global:
		return x.Pkg.Pkg.Name() + "." + x.Name()
	case *ssa.Alloc:
		if x.Comment != "" && !strings.Contains(x.Comment, " ") {
			return x.Comment
		}
		return x.Parent().Name() + "/" + x.Name()
	case *ssa.FieldAddr:
		st, ok := x.X.Type().Underlying().(*types.Pointer)
		if !ok {
			return ""
		}
		s, ok := st.Elem().Underlying().(*types.Struct)
		if !ok {
			return ""
		}
		p := b.balPath(x.X, depth+1)
		if p == "" {
			return ""
		}
		return p + "." + s.Field(x.Field).Name()
	case *ssa.Field:
		s, ok := x.X.Type().Underlying().(*types.Struct)
		if !ok {
			return ""
		}
		p := b.balPath(x.X, depth+1)
		if p == "" {
			return ""
		}
		return p + "." + s.Field(x.Field).Name()
	case *ssa.UnOp:
		if x.Op == token.MUL {
			return b.balPath(x.X, depth+1)
		}
	case *ssa.IndexAddr:
		p := b.balPath(x.X, depth+1)
		if p == "" {
			return ""
		}
		return p + "[" + b.balPath(x.Index, depth+1) + "]"
	case *ssa.Const:
		if x.Value != nil {
			return x.Value.ExactString()
		}
		return "nil"
	case *ssa.ChangeType:
		return b.balPath(x.X, depth+1)
	}
	if v.Parent() != nil {
		return v.Parent().Name() + "/" + v.Name()
	}
	return v.Name()
}

func (b *balance) lockOf(fi *fnInfo, v ssa.Value) balLock {
	name := b.a.resolveLock(v)
	path := b.balPath(v, 0)
	if name == "" {
		// not traceable to a field or global: the value itself is the identity
		name = "~" + b.a.fnName(fi.fn) + ":" + path
	}
	return balLock{name: name, path: path}
}

// ---------------------------------------------------------------- boolean flags

// A little constant propagation over booleans makes the two idioms of the tree
// decidable instead of "unresolved":
//
//	needRollback := true
//	defer func() { if needRollback { tx.Rollback() } }()
//	...
//	needRollback = false
//	err = tx.Commit()
//
// and `locked := false; if c { mu.Lock(); locked = true }; ...; if locked {
// mu.Unlock() }`.  Tracked: boolean local variables kept in memory (captured by
// a closure) that are only stored to, loaded and captured, and boolean phi
// nodes; only those that decide an `if` here or in a capturing closure.  A
// state knows the value of a flag after a store of a constant (or of a known
// value) and along the phi edge it came by; an `if` on a known flag is followed
// on one side only.  A closure is analysed once per assignment of the flags it
// captures (its context); a closure that stores to a flag makes the flag
// unknown in its caller, and a flag whose storing closure is not only called or
// deferred directly is not tracked at all.

func isBoolType(t types.Type) bool {
	bt, ok := t.Underlying().(*types.Basic)
	return ok && bt.Info()&types.IsBoolean != 0
}

// closureBindings: the MakeClosure bindings of closure g in its parent.
func closureBindings(g *ssa.Function) []ssa.Value {
	par := g.Parent()
	if par == nil {
		return nil
	}
	var res []ssa.Value
	n := 0
	for _, blk := range par.Blocks {
		for _, ins := range blk.Instrs {
			if mc, ok := ins.(*ssa.MakeClosure); ok && mc.Fn == ssa.Value(g) {
				n++
				res = mc.Bindings
			}
		}
	}
	if n != 1 {
		return nil
	}
	return res
}

// storesToFreeVar: the free variables (by index) the closure assigns to.
func storesToFreeVars(g *ssa.Function) map[int]bool {
	res := map[int]bool{}
	for _, blk := range g.Blocks {
		for _, ins := range blk.Instrs {
			if st, ok := ins.(*ssa.Store); ok {
				for i, fv := range g.FreeVars {
					if st.Addr == ssa.Value(fv) {
						res[i] = true
					}
				}
			}
		}
	}
	return res
}

func (b *balance) trackable(cell ssa.Value) bool {
	if t, ok := b.trackMemo[cell]; ok {
		return t
	}
	ok := b.trackable1(cell)
	b.trackMemo[cell] = ok
	return ok
}

func (b *balance) trackable1(cell ssa.Value) bool {
	pt, isPtr := cell.Type().Underlying().(*types.Pointer)
	if !isPtr || !isBoolType(pt.Elem()) || cell.Referrers() == nil {
		return false
	}
	for _, r := range *cell.Referrers() {
		switch x := r.(type) {
		case *ssa.DebugRef:
		case *ssa.UnOp:
			if x.Op != token.MUL {
				return false
			}
		case *ssa.Store:
			if x.Addr != cell {
				return false
			}
		case *ssa.MakeClosure:
			g := x.Fn.(*ssa.Function)
			for i, bnd := range x.Bindings {
				if bnd != cell || i >= len(g.FreeVars) {
					continue
				}
				if !b.trackable(g.FreeVars[i]) {
					return false
				}
				if storesToFreeVars(g)[i] {
					// the closure changes the flag: only when we see every run of it
					if x.Referrers() == nil {
						return false
					}
					for _, mr := range *x.Referrers() {
						ci, isCall := mr.(ssa.CallInstruction)
						if _, isGo := mr.(*ssa.Go); !isCall || isGo || ci.Common().Value != ssa.Value(x) {
							return false
						}
					}
				}
			}
		default:
			return false
		}
	}
	return true
}

// decides: v (a load of a flag, a phi, possibly negated) and the flag behind it.
func flagOf(v ssa.Value) ssa.Value {
	for i := 0; i < 4; i++ {
		switch x := v.(type) {
		case *ssa.UnOp:
			if x.Op == token.NOT {
				v = x.X
				continue
			}
			if x.Op == token.MUL {
				switch x.X.(type) {
				case *ssa.Alloc, *ssa.FreeVar:
					return x.X
				}
			}
			return nil
		case *ssa.Phi:
			if isBoolType(x.Type()) {
				return x
			}
			return nil
		default:
			return nil
		}
	}
	return nil
}

// relevantFlags: the flags that decide an `if` of fn, or of a closure of fn that
// captures them.
func (b *balance) relevantFlags(fn *ssa.Function) map[ssa.Value]bool {
	if r, ok := b.relMemo[fn]; ok {
		return r
	}
	res := map[ssa.Value]bool{}
	b.relMemo[fn] = res
	for _, blk := range fn.Blocks {
		if len(blk.Instrs) == 0 {
			continue
		}
		if iff, ok := blk.Instrs[len(blk.Instrs)-1].(*ssa.If); ok {
			if f := flagOf(iff.Cond); f != nil {
				if _, isPhi := f.(*ssa.Phi); isPhi || b.trackable(f) {
					res[f] = true
				}
			}
		}
		for _, ins := range blk.Instrs {
			mc, ok := ins.(*ssa.MakeClosure)
			if !ok {
				continue
			}
			g := mc.Fn.(*ssa.Function)
			gr := b.relevantFlags(g)
			for i, bnd := range mc.Bindings {
				if i < len(g.FreeVars) && gr[g.FreeVars[i]] && b.trackable(bnd) {
					res[bnd] = true
				}
			}
		}
	}
	// a phi fed by another bool phi: that one matters too
	for changed := true; changed; {
		changed = false
		for f := range res {
			if ph, ok := f.(*ssa.Phi); ok {
				for _, e := range ph.Edges {
					if g := flagOf(e); g != nil && !res[g] {
						if _, isPhi := g.(*ssa.Phi); isPhi || b.trackable(g) {
							res[g] = true
							changed = true
						}
					}
				}
			}
		}
	}
	return res
}

func (st balState) boolVal(v ssa.Value) (val, known bool) {
	switch x := v.(type) {
	case *ssa.Const:
		if x.Value != nil && x.Value.Kind() == constant.Bool {
			return constant.BoolVal(x.Value), true
		}
	case *ssa.UnOp:
		if x.Op == token.NOT {
			val, known = st.boolVal(x.X)
			return !val, known
		}
		if x.Op == token.MUL {
			val, known = st.vals[x.X]
			return val, known
		}
	case *ssa.Phi:
		val, known = st.vals[x]
		return val, known
	}
	return false, false
}

func (st balState) setVal(f ssa.Value, val, known bool) balState {
	if cur, have := st.vals[f]; have == known && (!known || cur == val) {
		return st
	}
	nv := make(map[ssa.Value]bool, len(st.vals)+1)
	for k, v := range st.vals {
		nv[k] = v
	}
	if known {
		nv[f] = val
	} else {
		delete(nv, f)
	}
	st.vals = nv
	return st
}

// ---------------------------------------------------------------- calls

type balAlt struct {
	evs   []balEv
	inval []ssa.Value // flags of the caller the callee may have changed
}

// callAlts: the alternative event lists a call (or a deferred call, when it
// runs) may contribute to the caller's lock state st.
func (b *balance) callAlts(bf *balFn, fi *fnInfo, st balState, ins ssa.Instruction, c *ssa.CallCommon) []balAlt {
	a := b.a
	none := []balAlt{{}}
	one := func(ev balEv) []balAlt { return []balAlt{{evs: []balEv{ev}}} }
	pos := insPos(ins)
	if bop := bboltOpOf(c); bop != bbNone {
		switch bop {
		case bbBegin:
			if len(c.Args) < 2 {
				return none
			}
			wr, isConst := c.Args[1].(*ssa.Const)
			if !isConst || wr.Value == nil || wr.Value.ExactString() == "false" {
				return none
			}
			name := a.resolveDB(c.Args[0], 0)
			if name == "" {
				return none // reported as bbolt-tx@... by the table
			}
			return one(balEv{acq: true, l: balLock{name: name, w: true}, pos: pos})
		case bbCommit, bbRollback:
			name, ro := a.resolveTx(c.Args[0], 0)
			if ro || name == "" {
				return none
			}
			// a second Commit / Rollback of a transaction begun in this function or
			// in the function this closure belongs to is a no-op in bbolt
			id := lmID(lm{name, true})
			soft := false
			for f := fi.fn; f != nil; f = f.Parent() {
				if pfi := a.info(f); pfi != nil && pfi.txLocal.has(id) {
					soft = true
				}
			}
			return one(balEv{l: balLock{name: name, w: true}, pos: pos, soft: soft})
		case bbClose:
			return none
		}
		// Update / Batch / View: the writer lock is taken and dropped inside the
		// call; the closure runs during it (handled below like any callee)
	}
	switch op := lockOpOf(c); op {
	case opNone:
	case opTry:
		return none // acquired on the edge of the `if`
	default:
		if len(c.Args) == 0 {
			return none
		}
		l := b.lockOf(fi, c.Args[0])
		l.w = op == opLock || op == opUnlock
		return one(balEv{acq: op == opLock || op == opRLock, l: l, pos: pos})
	}
	if c.IsInvoke() {
		switch mn := c.Method.Name(); mn {
		case "Lock", "Unlock", "RLock", "RUnlock":
			// sync.Locker (the L of a sync.Cond): identified by the path of the value
			if ts := c.Value.Type().String(); ts == "sync.Locker" {
				path := b.balPath(c.Value, 0)
				if path == "" {
					bf.notes["lock-through-interface@"+a.fnName(fi.fn)+"@"+ts+"."+mn] = pos
					return none
				}
				return one(balEv{acq: mn == "Lock" || mn == "RLock", l: balLock{name: "sync.Locker(" + path + ")", w: mn == "Lock" || mn == "Unlock", path: path}, pos: pos})
			}
		}
	} else if f := c.StaticCallee(); f != nil {
		if fs := f.String(); (strings.Contains(fs, "sync.Mutex)") || strings.Contains(fs, "sync.RWMutex)")) && f.Synthetic != "" {
			bf.notes["lock-through-method-value@"+a.fnName(fi.fn)+"@"+fs] = pos
		}
	}
	cs := a.calleesOf(fi.fn, ins, c)
	if len(cs) == 0 {
		return none
	}
	var alts []balAlt
	seen := map[string]bool{}
	add := func(evs []balEv, inval []ssa.Value) {
		k := fmt.Sprint(evs, len(inval))
		if !seen[k] {
			seen[k] = true
			alts = append(alts, balAlt{evs, inval})
		}
	}
	static := c.StaticCallee()
	if static == nil || !a.inRepo(static) || len(cs) > 1 {
		add(nil, nil) // may also not be called / other implementations
	}
	for _, g := range cs {
		name := a.fnName(g)
		if d := b.decl[name]; d != nil {
			d.used = true
			var evs []balEv
			for _, r := range d.Releases {
				evs = append(evs, balEv{l: parseHeldLock(r), pos: pos, via: name})
			}
			for _, r := range d.Acquires {
				evs = append(evs, balEv{acq: true, l: parseHeldLock(r), pos: pos, via: name})
			}
			add(evs, nil)
			continue
		}
		if g.Parent() != nil { // anonymous closure: its effects count where it runs
			// the flags it captures, as this state knows them
			ctx := map[ssa.Value]bool{}
			var inval []ssa.Value
			if bnds := closureBindings(g); bnds != nil {
				rel := b.relevantFlags(g)
				stores := storesToFreeVars(g)
				for i, bnd := range bnds {
					if i >= len(g.FreeVars) {
						break
					}
					if v, known := st.vals[bnd]; known && rel[g.FreeVars[i]] {
						ctx[g.FreeVars[i]] = v
					}
					if stores[i] {
						inval = append(inval, bnd)
					}
				}
			}
			b.analyze(g, nil) // the row of the closure itself
			gb := b.analyze(g, ctx)
			if gb == nil { // recursion
				add(nil, inval)
				continue
			}
			effs := gb.effects()
			if len(effs) == 0 {
				add(nil, inval) // never returns
			}
			for _, evs := range effs {
				if len(evs) > 0 {
					if own := b.memo[b.memoKey(g, nil)]; own != nil {
						own.consumed = true
					}
				}
				var out []balEv
				for _, e := range evs {
					e.via = name
					out = append(out, e)
				}
				add(out, inval)
			}
			continue
		}
		add(nil, nil) // a named function: judged on its own row
	}
	return alts
}

func (b *balance) tryLockEdge(fi *fnInfo, blk *ssa.BasicBlock) (l balLock, edge int, ok bool) {
	id := b.a.tryLockCond(blk)
	if id == -1 {
		return l, 0, false
	}
	edge = 0
	if id <= -2 {
		id, edge = -id-2, 1
	}
	x := lmByID[id]
	l = balLock{name: x.Lock, w: x.W}
	// the path of the mutex value: the TryLock call of the block
	for _, ins := range blk.Instrs {
		if call, isCall := ins.(*ssa.Call); isCall && lockOpOf(call.Common()) == opTry && len(call.Call.Args) > 0 {
			l.path = b.balPath(call.Call.Args[0], 0)
		}
	}
	return l, edge, true
}

const balMaxStates = 256

func (b *balance) memoKey(fn *ssa.Function, ctx map[ssa.Value]bool) string {
	var ks []string
	for v, x := range ctx {
		ks = append(ks, fmt.Sprintf("%s=%v", v.Name(), x))
	}
	sort.Strings(ks)
	return fmt.Sprintf("%p|%s", fn, strings.Join(ks, ","))
}

// analyze: the exit states of fn, entered with the flag values ctx (free
// variables of a closure; nil for "nothing known", the function's own row).
func (b *balance) analyze(fn *ssa.Function, ctx map[ssa.Value]bool) *balFn {
	mk := b.memoKey(fn, ctx)
	if bf, ok := b.memo[mk]; ok {
		if !bf.done {
			return nil
		}
		return bf
	}
	bf := &balFn{fn: fn, notes: map[string]token.Pos{}}
	b.memo[mk] = bf
	if len(ctx) == 0 {
		b.own[fn] = bf
	}
	fi := b.a.info(fn)
	if fi == nil || len(fn.Blocks) == 0 {
		bf.done = true
		return bf
	}
	a := b.a
	rel := b.relevantFlags(fn)
	st0 := balState{}
	for v, x := range ctx {
		if rel[v] {
			st0 = st0.setVal(v, x, true)
		}
	}
	in := map[*ssa.BasicBlock]map[string]balState{fn.Blocks[0]: {st0.key(): st0}}
	order := map[*ssa.BasicBlock][]string{fn.Blocks[0]: {st0.key()}}
	done := map[*ssa.BasicBlock]map[string]bool{}
	work := []*ssa.BasicBlock{fn.Blocks[0]}
	exitSeen := map[string]bool{}
	overflow := false
	applyAlt := func(st balState, alt balAlt, via string) balState {
		for _, ev := range alt.evs {
			if via != "" {
				if ev.via == "" {
					ev.via = via
				} else {
					ev.via = via + " " + ev.via
				}
			}
			st = st.apply(ev, fn.Parent() != nil)
		}
		for _, f := range alt.inval {
			st = st.setVal(f, false, false)
		}
		return st
	}
	runDefers := func(sts []balState) []balState {
		for i := len(fi.defers) - 1; i >= 0; i-- {
			d := fi.defers[i]
			var next []balState
			for _, st := range sts {
				if !st.def.has(i) {
					next = append(next, st)
					continue
				}
				for _, alt := range b.callAlts(bf, fi, st, d, d.Common()) {
					next = append(next, applyAlt(st, alt, "defer"))
				}
			}
			sts = next
		}
		for i := range sts {
			sts[i].def = set{}
		}
		return sts
	}
	addExit := func(kind string, ins ssa.Instruction, st balState) {
		pos := ins.Pos()
		if !pos.IsValid() {
			if syn := fn.Syntax(); syn != nil {
				pos = syn.End() - 1
			} else {
				pos = fn.Pos()
			}
		}
		st.vals = nil
		k := fmt.Sprint(kind, pos, st.key())
		if exitSeen[k] {
			return
		}
		exitSeen[k] = true
		bf.exits = append(bf.exits, balExit{kind: kind, pos: pos, st: st})
	}
	for len(work) > 0 {
		blk := work[len(work)-1]
		work = work[:len(work)-1]
		if done[blk] == nil {
			done[blk] = map[string]bool{}
		}
		for _, k := range order[blk] {
			if done[blk][k] {
				continue
			}
			done[blk][k] = true
			sts := []balState{in[blk][k]}
			for _, ins := range blk.Instrs {
				switch x := ins.(type) {
				case *ssa.Call:
					var next []balState
					for _, st := range sts {
						for _, alt := range b.callAlts(bf, fi, st, x, x.Common()) {
							next = append(next, applyAlt(st, alt, ""))
						}
					}
					sts = next
				case *ssa.Store:
					if rel[x.Addr] {
						for i := range sts {
							v, known := sts[i].boolVal(x.Val)
							sts[i] = sts[i].setVal(x.Addr, v, known)
						}
					}
				case *ssa.Defer:
					idx := fi.deferIdx[x]
					if b.inLoop[blk] {
						// the same defer may run several times: only a problem when it moves a lock
						for _, alt := range b.callAlts(bf, fi, balState{}, x, x.Common()) {
							if len(alt.evs) > 0 {
								bf.notes["defer-in-loop@"+a.fnName(fn)+"@"+alt.evs[0].l.name] = insPos(x)
							}
						}
					}
					for i := range sts {
						sts[i].def = sts[i].def.with(idx)
					}
				case *ssa.Go:
					for _, g := range a.calleesOf(fn, x, x.Common()) {
						b.analyze(g, nil)
						if own := b.own[g]; own != nil {
							own.goRoot = true
						}
					}
				case *ssa.RunDefers:
					sts = runDefers(sts)
				case *ssa.Return:
					for _, st := range sts {
						addExit("return", x, st)
					}
				case *ssa.Panic:
					for _, st := range runDefers(sts) {
						addExit("panic", x, st)
					}
				}
				if len(sts) > balMaxStates {
					overflow = true
					sts = sts[:balMaxStates]
				}
			}
			tl, tedge, tok := b.tryLockEdge(fi, blk)
			txID, txErrEdge := a.beginErrCond(blk)
			var iff *ssa.If
			if n := len(blk.Instrs); n > 0 {
				iff, _ = blk.Instrs[n-1].(*ssa.If)
			}
			for si, s := range blk.Succs {
				// which predecessor of s are we (a block may be both successors of an `if`)
				pi, npi := -1, 0
				for i, p := range s.Preds {
					if p == blk {
						pi = i
						npi++
					}
				}
				for _, st := range sts {
					if len(st.held) > 6 || len(st.rem) > 6 {
						overflow = true
						continue
					}
					if iff != nil && len(blk.Succs) == 2 && blk.Succs[0] != blk.Succs[1] {
						if f := flagOf(iff.Cond); f != nil && rel[f] && !storedAfterLoad(blk, iff.Cond) {
							if v, known := st.boolVal(iff.Cond); known && v != (si == 0) {
								continue // this side is not taken with the flag as it is
							}
						}
					}
					if tok && si == tedge {
						st = st.apply(balEv{acq: true, l: tl, pos: insPos(blk.Instrs[len(blk.Instrs)-1])}, false)
					}
					if txID >= 0 && si == txErrEdge {
						st = st.dropAcq(lmByID[txID].Lock)
					}
					// phi nodes of s take the value of our edge (all at once)
					old := st
					for _, ins := range s.Instrs {
						ph, isPhi := ins.(*ssa.Phi)
						if !isPhi {
							break
						}
						if !rel[ph] {
							continue
						}
						if npi != 1 {
							st = st.setVal(ph, false, false)
							continue
						}
						v, known := old.boolVal(ph.Edges[pi])
						st = st.setVal(ph, v, known)
					}
					sk := st.key()
					if in[s] == nil {
						in[s] = map[string]balState{}
					}
					if _, have := in[s][sk]; have {
						continue
					}
					if len(in[s]) >= balMaxStates {
						overflow = true
						continue
					}
					in[s][sk] = st
					order[s] = append(order[s], sk)
					work = append(work, s)
				}
			}
		}
	}
	if overflow {
		bf.notes["too-many-lock-states@"+a.fnName(fn)] = fn.Pos()
	}
	bf.done = true
	return bf
}

// storedAfterLoad: cond is (the negation of) a load of a flag and the block
// stores to the flag after that load: the loaded value is not the flag's
// value at the end of the block.
func storedAfterLoad(blk *ssa.BasicBlock, cond ssa.Value) bool {
	for i := 0; i < 3; i++ {
		if u, ok := cond.(*ssa.UnOp); ok && u.Op == token.NOT {
			cond = u.X
		}
	}
	ld, ok := cond.(*ssa.UnOp)
	if !ok || ld.Op != token.MUL {
		return false
	}
	if ld.Block() != blk {
		return true
	}
	after := false
	for _, ins := range blk.Instrs {
		if ins == ssa.Instruction(ld) {
			after = true
			continue
		}
		if !after {
			continue
		}
		if st, isStore := ins.(*ssa.Store); isStore && st.Addr == ld.X {
			return true
		}
		if _, isCall := ins.(ssa.CallInstruction); isCall {
			return true // a closure run in between may change it
		}
	}
	return false
}

// blocksInLoops: the blocks that can reach themselves.
func blocksInLoops(fn *ssa.Function) map[*ssa.BasicBlock]bool {
	res := map[*ssa.BasicBlock]bool{}
	for _, b := range fn.Blocks {
		seen := map[*ssa.BasicBlock]bool{}
		stack := append([]*ssa.BasicBlock(nil), b.Succs...)
		for len(stack) > 0 {
			x := stack[len(stack)-1]
			stack = stack[:len(stack)-1]
			if x == b {
				res[b] = true
				break
			}
			if seen[x] {
				continue
			}
			seen[x] = true
			stack = append(stack, x.Succs...)
		}
	}
	return res
}

// ---------------------------------------------------------------- output

type balEvOut struct {
	Op   string `json:"op"` // acq | rel
	Lock string `json:"lock"`
	W    bool   `json:"w"`
	Path string `json:"path,omitempty"`
	Pos  string `json:"pos"`
	Via  string `json:"via,omitempty"`
}

type balLeftOut struct {
	Lock   string `json:"lock"`
	W      bool   `json:"w"`
	Path   string `json:"path,omitempty"`
	AcqPos string `json:"acq_pos"`
}

type balExitOut struct {
	Kind   string       `json:"kind"`
	Pos    string       `json:"pos"`
	Events []balEvOut   `json:"events"`
	Left   []balLeftOut `json:"left,omitempty"`     // still held at this exit
	Rem    []balLeftOut `json:"released,omitempty"` // released here without having been acquired here
}

type balFnOut struct {
	Fn       string       `json:"fn"`
	Pos      string       `json:"pos"`
	Kind     string       `json:"kind"` // function | handover | closure-inlined
	Releases []string     `json:"releases,omitempty"`
	Acquires []string     `json:"acquires,omitempty"`
	Reason   string       `json:"reason,omitempty"`
	Exits    []balExitOut `json:"exits"`
	Reached  bool         `json:"reached"`
	// kind "allowed": the whitelist entries (handover.json) that cover its rows
	AllowedKeys []string `json:"allowed_keys,omitempty"`
}

type balRowOut struct {
	Class    string `json:"class"` // leak | undeclared-handover | unresolved-balance | handover-mismatch | closure-not-consumed
	Fn       string `json:"fn"`
	Lock     string `json:"lock"`
	W        bool   `json:"w"`
	Path     string `json:"path,omitempty"`
	AcqPos   string `json:"acq_pos"`
	ExitPos  string `json:"exit_pos"`
	ExitKind string `json:"exit_kind"`
	What     string `json:"what"`
	Key      string `json:"key"`
	Allowed  string `json:"allowed,omitempty"` // the reason of the whitelist entry
	Reached  bool   `json:"reached"`
}

type balOut struct {
	Functions       []balFnOut  `json:"functions"`
	Rows            []balRowOut `json:"rows"`
	Unresolved      [][2]string `json:"unresolved"`
	Handovers       []*balDecl  `json:"handovers_declared"`
	HandoversUnused []string    `json:"handovers_declared_but_not_called"`
	AllowedUnused   []string    `json:"allowed_entries_not_needed"`
	AllowedUsed     [][2]string `json:"allowed_entries_used"`
	FnTotal         int         `json:"functions_analysed"`
	FnWithEvents    int         `json:"functions_with_lock_events"`
	ExitsChecked    int         `json:"exit_states_checked"`
	PanicExits      int         `json:"panic_exits_checked"`
	ClosuresInlined []string    `json:"closures_whose_effects_count_in_their_callers"`
}

func (b *balance) evOut(e balEv) balEvOut {
	op := "rel"
	if e.acq {
		op = "acq"
	}
	return balEvOut{Op: op, Lock: e.l.name, W: e.l.w, Path: e.l.path, Pos: b.a.posStr(e.pos), Via: e.via}
}

// runBalance analyses every function and writes coq/Gen/LockTableBalance.v;
// returns the section for the JSON side file.
func runBalance(a *analysis, verif string, reachedFns map[*ssa.Function]bool) (*balOut, error) {
	cfg, err := readBalConfig(verif)
	if err != nil {
		return nil, err
	}
	b := &balance{a: a, cfg: cfg, decl: map[string]*balDecl{}, memo: map[string]*balFn{}, own: map[*ssa.Function]*balFn{}, inLoop: map[*ssa.BasicBlock]bool{},
		trackMemo: map[ssa.Value]bool{}, relMemo: map[*ssa.Function]map[ssa.Value]bool{}}
	for _, d := range cfg.Handovers {
		b.decl[d.Fn] = d
	}
	allowed := map[string]*balAllow{}
	for _, d := range cfg.Allowed {
		allowed[d.Key] = d
	}
	for _, f := range a.order {
		for blk := range blocksInLoops(f) {
			b.inLoop[blk] = true
		}
	}
	wasCollecting := a.collecting
	a.collecting = false
	for _, f := range a.order {
		if f.Synthetic != "" {
			continue
		}
		b.analyze(f, nil)
	}
	a.collecting = wasCollecting

	out := &balOut{Handovers: cfg.Handovers}
	rowSeen := map[string]bool{}
	addRow := func(r balRowOut) {
		r.Key = r.Class + "@" + r.Fn + "@" + r.Lock
		if k := fmt.Sprint(r.Key, r.W, r.AcqPos, r.ExitKind, r.ExitPos); rowSeen[k] {
			return
		} else {
			rowSeen[k] = true
		}
		if al := allowed[r.Key]; al != nil {
			al.used = true
			r.Allowed = al.Reason
		}
		out.Rows = append(out.Rows, r)
	}
	left := func(hs []balHeld) (res []balLeftOut) {
		for _, h := range hs {
			res = append(res, balLeftOut{Lock: h.l.name, W: h.l.w, Path: h.l.path, AcqPos: a.posStr(h.pos)})
		}
		return res
	}
	var fns []*balFn
	for _, f := range a.order {
		if bf := b.own[f]; bf != nil && bf.done && f.Synthetic == "" {
			fns = append(fns, bf)
		}
	}
	for _, bf := range fns {
		out.FnTotal++
		name := a.fnName(bf.fn)
		reached := reachedFns[bf.fn]
		for k, p := range bf.notes {
			kk := "unresolved-balance@" + k
			if al := allowed[kk]; al != nil {
				al.used = true
				continue
			}
			out.Unresolved = append(out.Unresolved, [2]string{kk, a.posStr(p)})
		}
		hasEv := false
		for _, x := range bf.exits {
			if x.st.tr != nil {
				hasEv = true
			}
		}
		if !hasEv {
			continue
		}
		out.FnWithEvents++
		fo := balFnOut{Fn: name, Pos: a.posStr(bf.fn.Pos()), Kind: "function", Reached: reached}
		decl := b.decl[name]
		// what every RETURN of the function is expected to leave behind
		var wantRem, wantHeld []balLock
		if decl != nil {
			fo.Kind, fo.Releases, fo.Acquires, fo.Reason = "handover", decl.Releases, decl.Acquires, decl.Reason
			for _, r := range decl.Releases {
				wantRem = append(wantRem, parseHeldLock(r))
			}
			for _, r := range decl.Acquires {
				wantHeld = append(wantHeld, parseHeldLock(r))
			}
		}
		nonNeutral := false
		for _, x := range bf.exits {
			if !x.st.neutral() {
				nonNeutral = true
			}
		}
		inlined := bf.fn.Parent() != nil && decl == nil && nonNeutral && bf.consumed && !bf.goRoot
		if inlined {
			fo.Kind = "closure-inlined"
			out.ClosuresInlined = append(out.ClosuresInlined, name)
		}
		// classification of a non-neutral function that is neither declared nor inlined
		effs := bf.effects()
		nret := 0
		for _, x := range bf.exits {
			if x.kind == "return" {
				nret++
			}
		}
		uniform := len(effs) == 1 && len(effs[0]) > 0 && nret > 0
		leftNames, remNames := map[string]bool{}, map[string]bool{}
		for _, x := range bf.exits {
			for _, h := range x.st.held {
				leftNames[h.l.name] = true
			}
			for _, h := range x.st.rem {
				remNames[h.l.name] = true
			}
		}
		for _, x := range bf.exits {
			xo := balExitOut{Kind: x.kind, Pos: a.posStr(x.pos), Left: left(x.st.held), Rem: left(x.st.rem)}
			for _, e := range x.st.events() {
				xo.Events = append(xo.Events, b.evOut(e))
			}
			fo.Exits = append(fo.Exits, xo)
			out.ExitsChecked++
			if x.kind == "panic" {
				out.PanicExits++
			}
			if inlined {
				continue
			}
			if decl != nil {
				if !sameLocks(x.st.rem, wantRem) || !sameLocks(x.st.held, wantHeld) {
					if x.kind == "panic" && x.st.neutral() {
						continue
					}
					addRow(balRowOut{Class: "handover-mismatch", Fn: name, Lock: firstLock(x.st, wantRem, wantHeld), ExitPos: a.posStr(x.pos), ExitKind: x.kind, Reached: reached,
						What: fmt.Sprintf("declared hand-over (releases %v, returns holding %v) but this exit releases %v and holds %v", decl.Releases, decl.Acquires, lockNames(x.st.rem), lockNames(x.st.held))})
				}
				continue
			}
			for _, h := range x.st.held {
				r := balRowOut{Fn: name, Lock: h.l.name, W: h.l.w, Path: h.l.path, AcqPos: a.posStr(h.pos), ExitPos: a.posStr(x.pos), ExitKind: x.kind, Reached: reached}
				switch {
				case bf.fn.Parent() != nil && !bf.goRoot && !bf.consumed && uniform:
					r.Class = "closure-not-consumed"
					r.What = "the closure returns with the lock held and no call site of it is known"
				case remNames[h.l.name]:
					r.Class = "unresolved-balance"
					r.What = "the lock stays held on this exit (acquired as " + h.l.path + ") and a lock of the same name is released without being held: locking correlated with a condition, or two names / two instances for one mutex"
				case uniform && x.kind == "return":
					r.Class = "undeclared-handover"
					r.What = "every return leaves the lock held: a hand-over to the caller that is not declared in tools/locktable/handover.json"
				default:
					r.Class = "leak"
					r.What = "the lock acquired at " + r.AcqPos + " is still held at this " + x.kind
				}
				addRow(r)
			}
			for _, h := range x.st.rem {
				r := balRowOut{Fn: name, Lock: h.l.name, W: h.l.w, Path: h.l.path, AcqPos: a.posStr(h.pos), ExitPos: a.posStr(x.pos), ExitKind: x.kind, Reached: reached}
				switch {
				case bf.fn.Parent() != nil && !bf.goRoot && !bf.consumed && uniform:
					r.Class = "closure-not-consumed"
					r.What = "the closure releases a lock it did not acquire and no call site of it is known"
				case leftNames[h.l.name]:
					continue // reported with the exit that keeps the lock
				case uniform && x.kind == "return":
					r.Class = "undeclared-handover"
					r.What = "every return has released a lock the function did not acquire: a hand-over from the caller that is not declared in tools/locktable/handover.json"
				default:
					r.Class = "unresolved-balance"
					r.What = "released at " + r.AcqPos + " on this path without having been acquired in the function"
				}
				addRow(r)
			}
		}
		if fo.Kind == "function" {
			nrows, nallowed := 0, 0
			var keys []string
			for _, r := range out.Rows {
				if r.Fn == name {
					nrows++
					if r.Allowed != "" {
						nallowed++
						keys = append(keys, r.Key)
					}
				}
			}
			if nrows > 0 && nrows == nallowed {
				fo.Kind = "allowed"
				fo.AllowedKeys = keys
			}
		}
		out.Functions = append(out.Functions, fo)
	}
	for _, d := range cfg.Handovers {
		if !d.used {
			out.HandoversUnused = append(out.HandoversUnused, d.Fn)
		}
		if bf := b.memoByName(d.Fn); bf == nil {
			out.Unresolved = append(out.Unresolved, [2]string{"unresolved-balance@declared-handover-not-found@" + d.Fn, "tools/locktable/handover.json"})
		}
	}
	for _, d := range cfg.Allowed {
		if d.used {
			out.AllowedUsed = append(out.AllowedUsed, [2]string{d.Key, d.Reason})
		} else {
			out.AllowedUnused = append(out.AllowedUnused, d.Key)
		}
	}
	sort.Slice(out.Unresolved, func(i, j int) bool { return out.Unresolved[i][0] < out.Unresolved[j][0] })
	sort.Slice(out.Rows, func(i, j int) bool {
		x, y := out.Rows[i], out.Rows[j]
		return fmt.Sprint(x.Fn, x.ExitPos, x.Lock, x.Class) < fmt.Sprint(y.Fn, y.ExitPos, y.Lock, y.Class)
	})
	sort.Strings(out.ClosuresInlined)
	writeBalanceCoq(verif, out)
	return out, nil
}

func (b *balance) memoByName(name string) *balFn {
	for f, bf := range b.own {
		if b.a.fnName(f) == name {
			return bf
		}
	}
	return nil
}

func lockNames(hs []balHeld) (res []string) {
	for _, h := range hs {
		res = append(res, h.l.String())
	}
	sort.Strings(res)
	return res
}

func sameLocks(hs []balHeld, want []balLock) bool {
	var w []string
	for _, l := range want {
		w = append(w, l.String())
	}
	sort.Strings(w)
	return fmt.Sprint(lockNames(hs)) == fmt.Sprint(w)
}

func firstLock(st balState, lists ...[]balLock) string {
	for _, h := range st.held {
		return h.l.name
	}
	for _, h := range st.rem {
		return h.l.name
	}
	for _, l := range lists {
		for _, x := range l {
			return x.name
		}
	}
	return "?"
}

// writeBalanceCoq: one row per function with lock events.  bf_entry = what the
// caller holds and the function releases (declared hand-over), bf_exit = what
// it returns holding; for an inlined closure both are what this witness leaves
// (its effects are judged in the caller's row).  Coq checks for every witness
// that  map Acq entry ++ events ++ map Rel exit  is a list of sections that end.
func writeBalanceCoq(verif string, out *balOut) {
	var sb strings.Builder
	sb.WriteString("(* GENERATED by tools/locktable (balance.go) from the current source; do not edit. *)\n")
	sb.WriteString("From Coq Require Import List String.\nFrom AGH Require Import Base.Conc Model.LockBalance.\nImport ListNotations.\nLocal Open Scope string_scope.\n\n")
	held := func(ls []string) string {
		var hs []string
		for _, s := range ls {
			l, w := heldLock(s)
			hs = append(hs, "("+coqStr(l)+", "+coqMode(w)+")")
		}
		return "[" + strings.Join(hs, "; ") + "]"
	}
	sb.WriteString("(* every function of the repository's packages with a lock event on some path:\n   per exit and distinct lock state one witness path *)\n")
	sb.WriteString("Definition balance_fns : list bal_fn := [\n")
	for i, f := range out.Functions {
		fmt.Fprintf(&sb, "  BalFn %s %s %s [\n", coqStr(f.Fn), coqStr(f.Kind), coqStr(f.Pos))
		for j, x := range f.Exits {
			entry, exit := f.Releases, f.Acquires
			if f.Kind == "closure-inlined" || f.Kind == "allowed" {
				entry, exit = nil, nil
				for _, r := range x.Rem {
					entry = append(entry, r.Lock+":"+coqMode(r.W))
				}
				for _, r := range x.Left {
					exit = append(exit, r.Lock+":"+coqMode(r.W))
				}
			}
			if f.Kind == "handover" && x.Kind == "panic" && len(x.Left) == 0 && len(x.Rem) == 0 {
				entry, exit = nil, nil
			}
			var evs []string
			for _, e := range x.Events {
				c := "Rel"
				if e.Op == "acq" {
					c = "Acq"
				}
				evs = append(evs, fmt.Sprintf("%s %s %s", c, coqStr(e.Lock), coqMode(e.W)))
			}
			sep := ";"
			if j == len(f.Exits)-1 {
				sep = ""
			}
			fmt.Fprintf(&sb, "    BalExit %s %s %s %s [%s]%s\n", coqStr(x.Kind), coqStr(x.Pos), held(entry), held(exit), strings.Join(evs, "; "), sep)
		}
		sep := ";"
		if i == len(out.Functions)-1 {
			sep = ""
		}
		fmt.Fprintf(&sb, "  ]%s\n", sep)
	}
	sb.WriteString("].\n\n(* rows the translator reports (none on a tree whose sections all end): class, function, lock, acquisition site, exit *)\n")
	sb.WriteString("Definition balance_leaks : list bal_leak := [\n")
	var live []balRowOut
	for _, r := range out.Rows {
		if r.Allowed == "" {
			live = append(live, r)
		}
	}
	for i, r := range live {
		sep := ";"
		if i == len(live)-1 {
			sep = ""
		}
		fmt.Fprintf(&sb, "  BalLeak %s %s (%s, %s) %s %s%s\n", coqStr(r.Class), coqStr(r.Fn), coqStr(r.Lock), coqMode(r.W), coqStr(r.AcqPos), coqStr(r.ExitKind+" at "+r.ExitPos), sep)
	}
	sb.WriteString("].\n\n(* what the balance analysis could not decide and no whitelist entry covers *)\n")
	sb.WriteString("Definition balance_unresolved : list (string * string) := [\n")
	for i, u := range out.Unresolved {
		sep := ";"
		if i == len(out.Unresolved)-1 {
			sep = ""
		}
		fmt.Fprintf(&sb, "  (%s, %s)%s\n", coqStr(u[0]), coqStr(u[1]), sep)
	}
	sb.WriteString("].\n\n(* declared hand-overs (tools/locktable/handover.json): function, releases, returns holding, reason *)\n")
	sb.WriteString("Definition balance_handovers : list (string * held * held * string) := [\n")
	for i, d := range out.Handovers {
		sep := ";"
		if i == len(out.Handovers)-1 {
			sep = ""
		}
		fmt.Fprintf(&sb, "  (%s, %s, %s, %s)%s\n", coqStr(d.Fn), held(d.Releases), held(d.Acquires), coqStr(d.Reason), sep)
	}
	sb.WriteString("].\n\n(* whitelist entries in use (tools/locktable/handover.json): function, key, reason *)\n")
	sb.WriteString("Definition balance_allowed : list (string * string * string) := [\n")
	var als []string
	for _, f := range out.Functions {
		if f.Kind != "allowed" {
			continue
		}
		for _, k := range f.AllowedKeys {
			reason := ""
			for _, d := range out.AllowedUsed {
				if d[0] == k {
					reason = d[1]
				}
			}
			als = append(als, fmt.Sprintf("  (%s, %s, %s)", coqStr(f.Fn), coqStr(k), coqStr(reason)))
		}
	}
	sb.WriteString(strings.Join(als, ";\n"))
	if len(als) > 0 {
		sb.WriteString("\n")
	}
	sb.WriteString("].\n")
	fmt.Fprintf(&sb, "\n(* %d functions analysed, %d with lock events, %d exit states (%d at explicit panics) *)\n", out.FnTotal, out.FnWithEvents, out.ExitsChecked, out.PanicExits)
	writeIfChanged(filepath.Join(verif, "coq/Gen/LockTableBalance.v"), sb.String())
}

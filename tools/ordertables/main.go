// Command ordertables reads two order tables of the DNS filtering pipeline
// out of the CURRENT source (VERIF_REPO, default /repo; files replaced through
// VERIF_EXTRA_OVERLAY are honoured) and writes them as Gallina data to
// coq/Gen/PipelineTables.v (and as JSON to coq/Gen/pipeline_tables.json):
//
//   - the host checkers: the elements of the []hostChecker composite literal
//     assigned to d.hostCheckers in filtering.New (function value of `check:`
//     and the string of `name:`), in source order;
//   - the request stages: the elements of the []modProcessFunc composite
//     literal `mods` in (*Server).handleDNSRequest, in source order.
//
// Anything that is not of the expected syntactic shape (no or several such
// literals, an element that is not a plain function / method value, a name
// that is not a string literal) is listed as unresolved; the table theorem
// requires that list to be empty.  Only the standard library's parser is used.
package main

import (
	"encoding/json"
	"fmt"
	"go/ast"
	"go/parser"
	"go/token"
	"os"
	"path/filepath"
	"strconv"
	"strings"
)

var unresolved = []string{}

func parseDir(dir string, overlay map[string]string) (fset *token.FileSet, files []*ast.File) {
	names, err := filepath.Glob(filepath.Join(dir, "*.go"))
	if err != nil || len(names) == 0 {
		fmt.Fprintln(os.Stderr, "ordertables: no sources in", dir)
		os.Exit(1)
	}
	fset = token.NewFileSet()
	for _, n := range names {
		if strings.HasSuffix(n, "_test.go") {
			continue
		}
		src := n
		if o, ok := overlay[n]; ok {
			src = o
		}
		f, perr := parser.ParseFile(fset, src, nil, 0)
		if perr != nil {
			fmt.Fprintln(os.Stderr, "ordertables:", perr)
			os.Exit(1)
		}
		// files excluded by a build tag other than the default build are not of interest here
		files = append(files, f)
	}
	return fset, files
}

// funcName renders a function or method value: f, x.f, x.y.f -> "f", "f", "y.f"
// (the receiver variable itself is dropped).
func funcName(e ast.Expr) (string, bool) {
	switch v := e.(type) {
	case *ast.Ident:
		return v.Name, true
	case *ast.SelectorExpr:
		switch x := v.X.(type) {
		case *ast.Ident:
			_ = x
			return v.Sel.Name, true
		case *ast.SelectorExpr:
			if _, ok := x.X.(*ast.Ident); ok {
				return x.Sel.Name + "." + v.Sel.Name, true
			}
		}
	}
	return "", false
}

func sliceOf(cl *ast.CompositeLit, elt string) bool {
	at, ok := cl.Type.(*ast.ArrayType)
	if !ok || at.Len != nil {
		return false
	}
	id, ok := at.Elt.(*ast.Ident)
	return ok && id.Name == elt
}

// literalsIn finds the composite literals of type []elt inside the function
// (recv == "" for a plain function).
func literalsIn(files []*ast.File, recv, fn, elt string) (lits []*ast.CompositeLit) {
	for _, f := range files {
		for _, d := range f.Decls {
			fd, ok := d.(*ast.FuncDecl)
			if !ok || fd.Body == nil || fd.Name.Name != fn {
				continue
			}
			if (recv == "") != (fd.Recv == nil) {
				continue
			}
			if recv != "" {
				t := fd.Recv.List[0].Type
				if st, isStar := t.(*ast.StarExpr); isStar {
					t = st.X
				}
				if id, isID := t.(*ast.Ident); !isID || id.Name != recv {
					continue
				}
			}
			ast.Inspect(fd.Body, func(n ast.Node) bool {
				if cl, isCL := n.(*ast.CompositeLit); isCL && sliceOf(cl, elt) {
					lits = append(lits, cl)
				}
				return true
			})
		}
	}
	return lits
}

func coqList(ss []string) string {
	if len(ss) == 0 {
		return "[]"
	}
	q := make([]string, len(ss))
	for i, s := range ss {
		q[i] = "\"" + strings.ReplaceAll(s, "\"", "\"\"") + "\""
	}
	return "[" + strings.Join(q, "; ") + "]"
}

func main() {
	repo := os.Getenv("VERIF_REPO")
	if repo == "" {
		repo = "/repo"
	}
	verif := os.Getenv("VERIF_DIR")
	if verif == "" {
		verif = "/verif"
	}
	overlay := map[string]string{}
	if ov := os.Getenv("VERIF_EXTRA_OVERLAY"); ov != "" {
		_ = json.Unmarshal([]byte(ov), &overlay)
	}

	// --- host checkers
	_, ffiles := parseDir(filepath.Join(repo, "internal", "filtering"), overlay)
	var checkers, checkerNames []string
	lits := literalsIn(ffiles, "", "New", "hostChecker")
	if len(lits) != 1 {
		unresolved = append(unresolved, fmt.Sprintf("filtering.New: %d []hostChecker literals, want 1", len(lits)))
	}
	for _, cl := range lits {
		for i, e := range cl.Elts {
			el, ok := e.(*ast.CompositeLit)
			if !ok {
				unresolved = append(unresolved, fmt.Sprintf("hostCheckers[%d]: not a composite literal", i))
				continue
			}
			fn, name := "", ""
			for _, kv := range el.Elts {
				p, isKV := kv.(*ast.KeyValueExpr)
				if !isKV {
					unresolved = append(unresolved, fmt.Sprintf("hostCheckers[%d]: positional field", i))
					continue
				}
				k, _ := p.Key.(*ast.Ident)
				switch {
				case k != nil && k.Name == "check":
					if s, ok := funcName(p.Value); ok {
						fn = s
					}
				case k != nil && k.Name == "name":
					if bl, isLit := p.Value.(*ast.BasicLit); isLit && bl.Kind == token.STRING {
						name, _ = strconv.Unquote(bl.Value)
					}
				}
			}
			if fn == "" {
				unresolved = append(unresolved, fmt.Sprintf("hostCheckers[%d]: check is not a plain function or method value", i))
			}
			if name == "" {
				unresolved = append(unresolved, fmt.Sprintf("hostCheckers[%d]: name is not a string literal", i))
			}
			checkers = append(checkers, fn)
			checkerNames = append(checkerNames, name)
		}
	}

	// --- request stages
	_, dfiles := parseDir(filepath.Join(repo, "internal", "dnsforward"), overlay)
	var stages []string
	slits := literalsIn(dfiles, "Server", "handleDNSRequest", "modProcessFunc")
	if len(slits) != 1 {
		unresolved = append(unresolved, fmt.Sprintf("handleDNSRequest: %d []modProcessFunc literals, want 1", len(slits)))
	}
	for _, cl := range slits {
		for i, e := range cl.Elts {
			s, ok := funcName(e)
			if !ok {
				unresolved = append(unresolved, fmt.Sprintf("mods[%d]: not a plain function or method value", i))
			}
			stages = append(stages, s)
		}
	}

	var b strings.Builder
	b.WriteString("(* Generated by tools/ordertables from internal/filtering (filtering.New) and\n")
	b.WriteString("   internal/dnsforward (handleDNSRequest); do not edit. *)\n")
	b.WriteString("From Coq Require Import List String.\nImport ListNotations.\nLocal Open Scope string_scope.\n\n")
	b.WriteString("Definition host_checkers : list string :=\n  " + coqList(checkers) + ".\n\n")
	b.WriteString("Definition host_checker_names : list string :=\n  " + coqList(checkerNames) + ".\n\n")
	b.WriteString("Definition stages : list string :=\n  " + coqList(stages) + ".\n\n")
	b.WriteString("Definition unresolved : list string :=\n  " + coqList(unresolved) + ".\n")

	gen := filepath.Join(verif, "coq", "Gen")
	_ = os.MkdirAll(gen, 0o755)
	write := func(name string, data []byte) {
		p := filepath.Join(gen, name)
		if old, err := os.ReadFile(p); err == nil && string(old) == string(data) {
			return
		}
		if err := os.WriteFile(p, data, 0o644); err != nil {
			fmt.Fprintln(os.Stderr, "ordertables:", err)
			os.Exit(1)
		}
	}
	write("PipelineTables.v", []byte(b.String()))
	js, _ := json.MarshalIndent(map[string]any{
		"host_checkers": checkers, "host_checker_names": checkerNames, "stages": stages, "unresolved": unresolved,
	}, "", " ")
	write("pipeline_tables.json", js)
}

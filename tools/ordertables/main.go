// Command ordertables reads two order tables of the DNS filtering pipeline
// out of the CURRENT source (VERIF_REPO, default /repo; files replaced through
// VERIF_EXTRA_OVERLAY are honoured) and writes them as Gallina data to
// coq/Gen/PipelineTables.v (and as JSON to coq/Gen/pipeline_tables.json):
//
//   - the host checkers: the elements of the []hostChecker composite literal
//     assigned to d.hostCheckers in filtering.New (function value of `check:`
//     and the string of `name:`), in source order;
//   - the request stages: the elements of the []modProcessFunc composite
//     literal `mods` in (*Server).handleDNSRequest, in source order;
//   - the guard tables: the early-exit structure (if arms ending in return /
//     break / continue, switch clauses, remaining returns) of the functions
//     the pipeline model mirrors, see "Guard tables" below.
//
// A listed function that is missing, declared several times or has no body is
// unresolved as well.
//
// Anything that is not of the expected syntactic shape (no or several such
// literals, an element that is not a plain function / method value, a name
// that is not a string literal) is listed as unresolved; the table theorem
// requires that list to be empty.  Only the standard library's parser is used.
package main

import (
	"encoding/json"
	"fmt"
	"go/ast"
	"go/parser"
	"go/printer"
	"go/token"
	"os"
	"path/filepath"
	"strconv"
	"strings"
)

var unresolved = []string{}

func parseDir(dir string, overlay map[string]string) (fset *token.FileSet, files []*ast.File) {
	names, err := filepath.Glob(filepath.Join(dir, "*.go"))
	if err != nil || len(names) == 0 {
		fmt.Fprintln(os.Stderr, "ordertables: no sources in", dir)
		os.Exit(1)
	}
	fset = token.NewFileSet()
	for _, n := range names {
		if strings.HasSuffix(n, "_test.go") {
			continue
		}
		src := n
		if o, ok := overlay[n]; ok {
			src = o
		}
		f, perr := parser.ParseFile(fset, src, nil, 0)
		if perr != nil {
			fmt.Fprintln(os.Stderr, "ordertables:", perr)
			os.Exit(1)
		}
		// files excluded by a build tag other than the default build are not of interest here
		files = append(files, f)
	}
	return fset, files
}

// funcName renders a function or method value: f, x.f, x.y.f -> "f", "f", "y.f"
// (the receiver variable itself is dropped).
func funcName(e ast.Expr) (string, bool) {
	switch v := e.(type) {
	case *ast.Ident:
		return v.Name, true
	case *ast.SelectorExpr:
		switch x := v.X.(type) {
		case *ast.Ident:
			_ = x
			return v.Sel.Name, true
		case *ast.SelectorExpr:
			if _, ok := x.X.(*ast.Ident); ok {
				return x.Sel.Name + "." + v.Sel.Name, true
			}
		}
	}
	return "", false
}

func sliceOf(cl *ast.CompositeLit, elt string) bool {
	at, ok := cl.Type.(*ast.ArrayType)
	if !ok || at.Len != nil {
		return false
	}
	id, ok := at.Elt.(*ast.Ident)
	return ok && id.Name == elt
}

// literalsIn finds the composite literals of type []elt inside the function
// (recv == "" for a plain function).
func literalsIn(files []*ast.File, recv, fn, elt string) (lits []*ast.CompositeLit) {
	for _, f := range files {
		for _, d := range f.Decls {
			fd, ok := d.(*ast.FuncDecl)
			if !ok || fd.Body == nil || fd.Name.Name != fn {
				continue
			}
			if (recv == "") != (fd.Recv == nil) {
				continue
			}
			if recv != "" {
				t := fd.Recv.List[0].Type
				if st, isStar := t.(*ast.StarExpr); isStar {
					t = st.X
				}
				if id, isID := t.(*ast.Ident); !isID || id.Name != recv {
					continue
				}
			}
			ast.Inspect(fd.Body, func(n ast.Node) bool {
				if cl, isCL := n.(*ast.CompositeLit); isCL && sliceOf(cl, elt) {
					lits = append(lits, cl)
				}
				return true
			})
		}
	}
	return lits
}

// ---------------------------------------------------------------------------
// Guard tables
//
// For a fixed list of functions the early-exit structure of the body is
// recorded as a list of entries (kind, path, text, term, setsRes, clauses):
//
//   kind "if":     one arm of a top-level if / else-if chain in which at least
//                  one arm ends in return / break / continue.  text is the arm
//                  label ("if [INIT; ]COND", "else if …", "else"), term the
//                  last statement of the arm ("return X, Y", "break",
//                  "continue" or "" when the arm falls through), setsRes
//                  whether the arm assigns to something whose last selector
//                  is .Res.
//   kind "switch": a switch / type switch; text is "switch [INIT; ]TAG", and
//                  clauses lists, per case clause, the case expressions in
//                  order (empty = default), the clause's last statement as
//                  above and its setsRes.
//   kind "return": a return statement that is not the last statement of a
//                  recorded arm or clause (e.g. the function's final return).
//   kind "setres": an assignment to ….Res outside every if arm and switch
//                  clause (text is the assignment).
//
// path names the enclosing statements ("for range X / if COND / case A, B"),
// joined by " / ".  Loops are entered without counting as nesting; if arms
// and switch clauses are entered one level deep (a guard inside a guard).
// Expressions are printed by a small printer of our own, so that line breaks
// and spacing of the source do not matter.

type clause struct {
	Cases   []string `json:"cases"`
	Term    string   `json:"term"`
	SetsRes bool     `json:"sets_res"`
}

type guard struct {
	Kind    string   `json:"kind"`
	Path    string   `json:"path"`
	Text    string   `json:"text"`
	Term    string   `json:"term"`
	SetsRes bool     `json:"sets_res"`
	Clauses []clause `json:"clauses"`
}

type funcGuards struct {
	Name   string  `json:"name"`
	Guards []guard `json:"guards"`
}

var guardFset *token.FileSet

// fallbackText prints a node with go/printer and collapses white space.
func fallbackText(n ast.Node) string {
	var b strings.Builder
	if err := printer.Fprint(&b, guardFset, n); err != nil {
		unresolved = append(unresolved, fmt.Sprintf("guards: cannot print %T", n))
		return "?"
	}
	return strings.Join(strings.Fields(b.String()), " ")
}

func exprList(es []ast.Expr) string {
	ss := make([]string, len(es))
	for i, e := range es {
		ss[i] = exprText(e)
	}
	return strings.Join(ss, ", ")
}

// exprText is the normalised text of an expression.
func exprText(e ast.Expr) string {
	switch v := e.(type) {
	case nil:
		return ""
	case *ast.Ident:
		return v.Name
	case *ast.BasicLit:
		return v.Value
	case *ast.SelectorExpr:
		return exprText(v.X) + "." + v.Sel.Name
	case *ast.CallExpr:
		s := exprText(v.Fun) + "(" + exprList(v.Args)
		if v.Ellipsis.IsValid() {
			s += "..."
		}
		return s + ")"
	case *ast.BinaryExpr:
		return exprText(v.X) + " " + v.Op.String() + " " + exprText(v.Y)
	case *ast.UnaryExpr:
		return v.Op.String() + exprText(v.X)
	case *ast.ParenExpr:
		return "(" + exprText(v.X) + ")"
	case *ast.StarExpr:
		return "*" + exprText(v.X)
	case *ast.CompositeLit:
		return exprText(v.Type) + "{" + exprList(v.Elts) + "}"
	case *ast.KeyValueExpr:
		return exprText(v.Key) + ": " + exprText(v.Value)
	case *ast.IndexExpr:
		return exprText(v.X) + "[" + exprText(v.Index) + "]"
	case *ast.IndexListExpr:
		return exprText(v.X) + "[" + exprList(v.Indices) + "]"
	case *ast.SliceExpr:
		s := exprText(v.X) + "[" + exprText(v.Low) + ":" + exprText(v.High)
		if v.Slice3 {
			s += ":" + exprText(v.Max)
		}
		return s + "]"
	case *ast.TypeAssertExpr:
		if v.Type == nil {
			return exprText(v.X) + ".(type)"
		}
		return exprText(v.X) + ".(" + exprText(v.Type) + ")"
	case *ast.ArrayType:
		return "[" + exprText(v.Len) + "]" + exprText(v.Elt)
	case *ast.MapType:
		return "map[" + exprText(v.Key) + "]" + exprText(v.Value)
	case *ast.Ellipsis:
		return "..." + exprText(v.Elt)
	}
	return fallbackText(e)
}

// simpleStmtText prints the init statement of an if / switch.
func simpleStmtText(s ast.Stmt) string {
	switch v := s.(type) {
	case nil:
		return ""
	case *ast.AssignStmt:
		return exprList(v.Lhs) + " " + v.Tok.String() + " " + exprList(v.Rhs)
	case *ast.ExprStmt:
		return exprText(v.X)
	case *ast.IncDecStmt:
		return exprText(v.X) + v.Tok.String()
	}
	return fallbackText(s)
}

func withInit(kw string, init ast.Stmt, rest string) string {
	s := kw
	if init != nil {
		s += " " + simpleStmtText(init) + ";"
	}
	if rest != "" {
		s += " " + rest
	}
	return s
}

// termOf describes the last statement of a statement list when it leaves the
// list: "return …", "break", "continue", "goto L", "fallthrough"; "" otherwise.
func termOf(list []ast.Stmt) string {
	if len(list) == 0 {
		return ""
	}
	switch v := list[len(list)-1].(type) {
	case *ast.ReturnStmt:
		if len(v.Results) == 0 {
			return "return"
		}
		return "return " + exprList(v.Results)
	case *ast.BranchStmt:
		if v.Label != nil {
			return v.Tok.String() + " " + v.Label.Name
		}
		return v.Tok.String()
	}
	return ""
}

// setsRes reports whether the statements assign to x.….Res somewhere (function
// literals included).
func setsRes(list []ast.Stmt) (found bool) {
	for _, s := range list {
		ast.Inspect(s, func(n ast.Node) bool {
			if as, ok := n.(*ast.AssignStmt); ok {
				for _, l := range as.Lhs {
					if se, isSel := l.(*ast.SelectorExpr); isSel && se.Sel.Name == "Res" {
						found = true
					}
				}
			}
			return !found
		})
	}
	return found
}

const maxGuardNesting = 2

type guardWalker struct {
	out []guard
}

func joinPath(path, label string) string {
	if path == "" {
		return label
	}
	return path + " / " + label
}

// walk records the guards of a statement list.  level counts the if arms and
// switch clauses around the list; last tells whether a trailing return of the
// list is already recorded as the term of the enclosing arm / clause.
func (w *guardWalker) walk(list []ast.Stmt, path string, level int, termRecorded bool) {
	for i, st := range list {
		for {
			ls, ok := st.(*ast.LabeledStmt)
			if !ok {
				break
			}
			st = ls.Stmt
		}
		switch v := st.(type) {
		case *ast.ReturnStmt:
			if termRecorded && i == len(list)-1 {
				continue
			}
			w.out = append(w.out, guard{Kind: "return", Path: path, Term: termOf([]ast.Stmt{v}), Clauses: []clause{}})
		case *ast.AssignStmt:
			// an unconditional (level 0) assignment of the response
			if level == 0 && setsRes([]ast.Stmt{v}) {
				w.out = append(w.out, guard{Kind: "setres", Path: path, Text: simpleStmtText(v), SetsRes: true, Clauses: []clause{}})
			}
		case *ast.IfStmt:
			w.walkIf(v, path, level)
		case *ast.SwitchStmt:
			w.walkSwitch(withInit("switch", v.Init, exprText(v.Tag)), v.Body, path, level)
		case *ast.TypeSwitchStmt:
			w.walkSwitch(withInit("switch", v.Init, simpleStmtText(v.Assign)), v.Body, path, level)
		case *ast.RangeStmt:
			w.walk(v.Body.List, joinPath(path, "for range "+exprText(v.X)), level, false)
		case *ast.ForStmt:
			w.walk(v.Body.List, joinPath(path, withInit("for", nil, exprText(v.Cond))), level, false)
		case *ast.BlockStmt:
			w.walk(v.List, path, level, false)
		}
	}
}

func (w *guardWalker) walkIf(first *ast.IfStmt, path string, level int) {
	if level >= maxGuardNesting {
		return
	}
	type arm struct {
		label string
		body  []ast.Stmt
	}
	var arms []arm
	kw := "if"
	for cur := first; cur != nil; {
		arms = append(arms, arm{withInit(kw, cur.Init, exprText(cur.Cond)), cur.Body.List})
		switch e := cur.Else.(type) {
		case *ast.IfStmt:
			cur, kw = e, "else if"
		case *ast.BlockStmt:
			arms = append(arms, arm{"else", e.List})
			cur = nil
		default:
			cur = nil
		}
	}
	leaves := false
	for _, a := range arms {
		if termOf(a.body) != "" {
			leaves = true
		}
	}
	for _, a := range arms {
		if leaves {
			w.out = append(w.out, guard{Kind: "if", Path: path, Text: a.label, Term: termOf(a.body),
				SetsRes: setsRes(a.body), Clauses: []clause{}})
		}
		w.walk(a.body, joinPath(path, a.label), level+1, leaves)
	}
}

func (w *guardWalker) walkSwitch(label string, body *ast.BlockStmt, path string, level int) {
	if level >= maxGuardNesting {
		return
	}
	g := guard{Kind: "switch", Path: path, Text: label, Clauses: []clause{}}
	type sub struct {
		label string
		body  []ast.Stmt
	}
	var subs []sub
	for _, s := range body.List {
		cc, ok := s.(*ast.CaseClause)
		if !ok {
			continue
		}
		cases := []string{}
		for _, e := range cc.List {
			cases = append(cases, exprText(e))
		}
		g.Clauses = append(g.Clauses, clause{Cases: cases, Term: termOf(cc.Body), SetsRes: setsRes(cc.Body)})
		l := "default"
		if len(cases) > 0 {
			l = "case " + strings.Join(cases, ", ")
		}
		subs = append(subs, sub{l, cc.Body})
	}
	w.out = append(w.out, g)
	for _, s := range subs {
		w.walk(s.body, joinPath(joinPath(path, label), s.label), level+1, true)
	}
}

// funcDecls finds the declarations of recv.fn (recv == "" for a plain function).
func funcDecls(files []*ast.File, recv, fn string) (fds []*ast.FuncDecl) {
	for _, f := range files {
		for _, d := range f.Decls {
			fd, ok := d.(*ast.FuncDecl)
			if !ok || fd.Name.Name != fn {
				continue
			}
			if (recv == "") != (fd.Recv == nil) {
				continue
			}
			if recv != "" {
				if len(fd.Recv.List) != 1 {
					continue
				}
				t := fd.Recv.List[0].Type
				if st, isStar := t.(*ast.StarExpr); isStar {
					t = st.X
				}
				if id, isID := t.(*ast.Ident); !isID || id.Name != recv {
					continue
				}
			}
			fds = append(fds, fd)
		}
	}
	return fds
}

type guardTarget struct{ recv, fn string }

var dnsforwardGuardTargets = []guardTarget{
	{"Server", "handleDNSRequest"},
	{"Server", "processInitial"},
	{"Server", "processDDRQuery"},
	{"Server", "processDHCPHosts"},
	{"Server", "processDHCPAddrs"},
	{"Server", "processFilteringBeforeRequest"},
	{"Server", "processUpstream"},
	{"Server", "processFilteringAfterResponse"},
	{"Server", "filterAfterResponse"},
	{"Server", "filterDNSRequest"},
	{"", "isRewrittenCNAME"},
	{"Server", "filterDNSResponse"},
	{"Server", "genDNSFilterMessage"},
	{"Server", "genBlockedHost"},
}

var filteringGuardTargets = []guardTarget{
	{"DNSFilter", "CheckHostRules"},
	{"DNSFilter", "CheckHost"},
	{"DNSFilter", "matchHost"},
	{"DNSFilter", "processDNSResultRewrites"},
	{"DNSFilter", "matchSysHosts"},
	{"", "matchBlockedServicesRules"},
	{"DNSFilter", "checkSafeSearch"},
}

func extractGuards(pkg string, fset *token.FileSet, files []*ast.File, targets []guardTarget) (res []funcGuards) {
	guardFset = fset
	for _, t := range targets {
		name := pkg + "." + t.fn
		if t.recv != "" {
			name = pkg + "." + t.recv + "." + t.fn
		}
		fg := funcGuards{Name: name, Guards: []guard{}}
		fds := funcDecls(files, t.recv, t.fn)
		switch {
		case len(fds) != 1:
			unresolved = append(unresolved, fmt.Sprintf("guards: %s: %d declarations, want 1", name, len(fds)))
		case fds[0].Body == nil:
			unresolved = append(unresolved, fmt.Sprintf("guards: %s: no body", name))
		default:
			w := &guardWalker{}
			w.walk(fds[0].Body.List, "", 0, false)
			if w.out != nil {
				fg.Guards = w.out
			}
		}
		res = append(res, fg)
	}
	return res
}

func coqString(s string) string {
	return "\"" + strings.ReplaceAll(s, "\"", "\"\"") + "\""
}

func coqBool(b bool) string {
	if b {
		return "true"
	}
	return "false"
}

const coqGuardType = "(string * string * string * string * bool * list (list string * string * bool))"

func coqGuards(fgs []funcGuards) string {
	var b strings.Builder
	b.WriteString("[")
	for i, fg := range fgs {
		if i > 0 {
			b.WriteString(";")
		}
		b.WriteString("\n  (" + coqString(fg.Name) + ",\n   [")
		for j, g := range fg.Guards {
			if j > 0 {
				b.WriteString(";")
			}
			b.WriteString("\n    (" + coqString(g.Kind) + ", " + coqString(g.Path) + ",\n     " + coqString(g.Text) + ",\n     " +
				coqString(g.Term) + ", " + coqBool(g.SetsRes) + ",\n     [")
			for k, c := range g.Clauses {
				if k > 0 {
					b.WriteString(";")
				}
				b.WriteString("\n      (" + coqList(c.Cases) + ", " + coqString(c.Term) + ", " + coqBool(c.SetsRes) + ")")
			}
			b.WriteString("])")
		}
		b.WriteString("])")
	}
	b.WriteString("]")
	return b.String()
}

func coqList(ss []string) string {
	if len(ss) == 0 {
		return "[]"
	}
	q := make([]string, len(ss))
	for i, s := range ss {
		q[i] = "\"" + strings.ReplaceAll(s, "\"", "\"\"") + "\""
	}
	return "[" + strings.Join(q, "; ") + "]"
}

func main() {
	repo := os.Getenv("VERIF_REPO")
	if repo == "" {
		repo = "/repo"
	}
	verif := os.Getenv("VERIF_DIR")
	if verif == "" {
		verif = "/verif"
	}
	overlay := map[string]string{}
	if ov := os.Getenv("VERIF_EXTRA_OVERLAY"); ov != "" {
		_ = json.Unmarshal([]byte(ov), &overlay)
	}

	// --- host checkers
	ffset, ffiles := parseDir(filepath.Join(repo, "internal", "filtering"), overlay)
	var checkers, checkerNames []string
	lits := literalsIn(ffiles, "", "New", "hostChecker")
	if len(lits) != 1 {
		unresolved = append(unresolved, fmt.Sprintf("filtering.New: %d []hostChecker literals, want 1", len(lits)))
	}
	for _, cl := range lits {
		for i, e := range cl.Elts {
			el, ok := e.(*ast.CompositeLit)
			if !ok {
				unresolved = append(unresolved, fmt.Sprintf("hostCheckers[%d]: not a composite literal", i))
				continue
			}
			fn, name := "", ""
			for _, kv := range el.Elts {
				p, isKV := kv.(*ast.KeyValueExpr)
				if !isKV {
					unresolved = append(unresolved, fmt.Sprintf("hostCheckers[%d]: positional field", i))
					continue
				}
				k, _ := p.Key.(*ast.Ident)
				switch {
				case k != nil && k.Name == "check":
					if s, ok := funcName(p.Value); ok {
						fn = s
					}
				case k != nil && k.Name == "name":
					if bl, isLit := p.Value.(*ast.BasicLit); isLit && bl.Kind == token.STRING {
						name, _ = strconv.Unquote(bl.Value)
					}
				}
			}
			if fn == "" {
				unresolved = append(unresolved, fmt.Sprintf("hostCheckers[%d]: check is not a plain function or method value", i))
			}
			if name == "" {
				unresolved = append(unresolved, fmt.Sprintf("hostCheckers[%d]: name is not a string literal", i))
			}
			checkers = append(checkers, fn)
			checkerNames = append(checkerNames, name)
		}
	}

	// --- request stages
	dfset, dfiles := parseDir(filepath.Join(repo, "internal", "dnsforward"), overlay)
	var stages []string
	slits := literalsIn(dfiles, "Server", "handleDNSRequest", "modProcessFunc")
	if len(slits) != 1 {
		unresolved = append(unresolved, fmt.Sprintf("handleDNSRequest: %d []modProcessFunc literals, want 1", len(slits)))
	}
	for _, cl := range slits {
		for i, e := range cl.Elts {
			s, ok := funcName(e)
			if !ok {
				unresolved = append(unresolved, fmt.Sprintf("mods[%d]: not a plain function or method value", i))
			}
			stages = append(stages, s)
		}
	}

	// --- guard tables
	guards := extractGuards("dnsforward", dfset, dfiles, dnsforwardGuardTargets)
	guards = append(guards, extractGuards("filtering", ffset, ffiles, filteringGuardTargets)...)

	var b strings.Builder
	b.WriteString("(* Generated by tools/ordertables from internal/filtering (filtering.New) and\n")
	b.WriteString("   internal/dnsforward (handleDNSRequest); do not edit. *)\n")
	b.WriteString("From Coq Require Import List String.\nImport ListNotations.\nLocal Open Scope string_scope.\n\n")
	b.WriteString("Definition host_checkers : list string :=\n  " + coqList(checkers) + ".\n\n")
	b.WriteString("Definition host_checker_names : list string :=\n  " + coqList(checkerNames) + ".\n\n")
	b.WriteString("Definition stages : list string :=\n  " + coqList(stages) + ".\n\n")
	b.WriteString("(* Early-exit structure of the pipeline's functions: per function the entries\n")
	b.WriteString("   (kind, path, text, term, sets .Res, switch clauses (cases, term, sets .Res));\n")
	b.WriteString("   see tools/ordertables/main.go. *)\n")
	b.WriteString("Definition guards : list (string * list " + coqGuardType + ") :=\n  " + coqGuards(guards) + ".\n\n")
	b.WriteString("Definition unresolved : list string :=\n  " + coqList(unresolved) + ".\n")

	gen := filepath.Join(verif, "coq", "Gen")
	_ = os.MkdirAll(gen, 0o755)
	write := func(name string, data []byte) {
		p := filepath.Join(gen, name)
		if old, err := os.ReadFile(p); err == nil && string(old) == string(data) {
			return
		}
		if err := os.WriteFile(p, data, 0o644); err != nil {
			fmt.Fprintln(os.Stderr, "ordertables:", err)
			os.Exit(1)
		}
	}
	write("PipelineTables.v", []byte(b.String()))
	js, _ := json.MarshalIndent(map[string]any{
		"host_checkers": checkers, "host_checker_names": checkerNames, "stages": stages, "unresolved": unresolved,
		"guards": guards,
	}, "", " ")
	write("pipeline_tables.json", js)
}

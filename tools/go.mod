module verif/tools

go 1.24.2

require golang.org/x/tools v0.32.0

require (
	golang.org/x/mod v0.24.0 // indirect
	golang.org/x/sync v0.13.0 // indirect
)

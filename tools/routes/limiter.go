package main

// Syntactic facts about how package home builds the login limiter from the
// configuration (C12, round 3).  Model/RateLimit.v mk_limiter takes them for
// granted; Gen/AuthPins.v records whether the current source still has them:
//
//   - initUsers: `var rateLimiter *authRateLimiter` (no initial value) is
//     assigned exactly once, inside an if statement without an else
//     assignment whose condition is exactly
//     `config.AuthAttempts > 0 && config.AuthBlockMin > 0` (either order);
//   - the assigned value is newAuthRateLimiter(D, config.AuthAttempts) with D
//     = time.Duration(config.AuthBlockMin) * time.Minute (inline, or a
//     variable defined so in the same block and not reassigned);
//   - that variable is the fourth argument of the InitAuth call; InitAuth
//     stores its fourth parameter in the rateLimiter field of the Auth
//     literal and nothing else in the package assigns that field;
//   - newAuthRateLimiter stores its two parameters unchanged in blockDur and
//     maxAttempts; failedAuthTTL is 1 * time.Minute.
//
// Anything not recognised yields false.

import (
	"fmt"
	"go/ast"
	"go/constant"
	"go/token"
	"go/types"
	"strings"

	"golang.org/x/tools/go/packages"
)

type limiterFacts struct {
	Found       bool     `json:"found"`
	CondOK      bool     `json:"cond_both_positive"`
	ArgsOK      bool     `json:"built_from_config"`
	ReachesAuth bool     `json:"reaches_auth"`
	CtorOK      bool     `json:"ctor_stores_params"`
	TTLMinute   bool     `json:"ttl_is_one_minute"`
	Cond        string   `json:"cond"`
	Notes       []string `json:"notes"`
	Pos         string   `json:"pos"`
}

func (l *limiterFacts) note(format string, a ...any) {
	l.Notes = append(l.Notes, fmt.Sprintf(format, a...))
}

// isConfigField: e is the selector config.<name> on the package-level
// variable config of package home.
func isConfigField(info *types.Info, e ast.Expr, name string) bool {
	sel, ok := ast.Unparen(e).(*ast.SelectorExpr)
	if !ok || sel.Sel.Name != name {
		return false
	}
	id, ok := ast.Unparen(sel.X).(*ast.Ident)
	if !ok {
		return false
	}
	v, ok := info.Uses[id].(*types.Var)
	return ok && v.Pkg() != nil && v.Pkg().Path() == homePath && v.Name() == "config" && v.Parent() == v.Pkg().Scope()
}

func isZeroLit(info *types.Info, e ast.Expr) bool {
	tv, ok := info.Types[e]
	return ok && tv.Value != nil && tv.Value.Kind() == constant.Int && constant.Sign(tv.Value) == 0
}

// positive: e is `config.<name> > 0`.
func positive(info *types.Info, e ast.Expr, name string) bool {
	b, ok := ast.Unparen(e).(*ast.BinaryExpr)
	return ok && b.Op == token.GTR && isConfigField(info, b.X, name) && isZeroLit(info, b.Y)
}

// isBlockDurExpr: time.Duration(config.AuthBlockMin) * time.Minute (either
// order of the factors).
func isBlockDurExpr(info *types.Info, e ast.Expr) bool {
	b, ok := ast.Unparen(e).(*ast.BinaryExpr)
	if !ok || b.Op != token.MUL {
		return false
	}
	isMinute := func(x ast.Expr) bool {
		sel, ok := ast.Unparen(x).(*ast.SelectorExpr)
		if !ok {
			return false
		}
		c, ok := info.Uses[sel.Sel].(*types.Const)
		return ok && c.Pkg() != nil && c.Pkg().Path() == "time" && c.Name() == "Minute"
	}
	isConv := func(x ast.Expr) bool {
		c, ok := ast.Unparen(x).(*ast.CallExpr)
		if !ok || len(c.Args) != 1 {
			return false
		}
		tv, ok := info.Types[c.Fun]
		if !ok || !tv.IsType() {
			return false
		}
		n, ok := types.Unalias(tv.Type).(*types.Named)
		return ok && n.Obj().Pkg() != nil && n.Obj().Pkg().Path() == "time" && n.Obj().Name() == "Duration" &&
			isConfigField(info, c.Args[0], "AuthBlockMin")
	}
	return (isConv(b.X) && isMinute(b.Y)) || (isMinute(b.X) && isConv(b.Y))
}

func scanLimiter(p *packages.Package, lf *limiterFacts) {
	info := p.TypesInfo
	lf.Found = true
	fd := findFunc(p, "initUsers", "")
	if fd == nil {
		lf.note("home.initUsers not found")
		return
	}
	lf.Pos = pos(fd.Pos())

	// --- the InitAuth call and its fourth argument
	var limVar types.Object
	nInit := 0
	ast.Inspect(fd.Body, func(n ast.Node) bool {
		if c, ok := n.(*ast.CallExpr); ok {
			if _, is := callTo(info, c, homePath, "InitAuth"); is {
				nInit++
				if len(c.Args) == 5 {
					if id, ok := ast.Unparen(c.Args[3]).(*ast.Ident); ok {
						limVar = info.ObjectOf(id)
					} else {
						lf.note("initUsers: the limiter argument of InitAuth at %s is `%s`, not a variable", pos(c.Pos()), types.ExprString(c.Args[3]))
					}
				}
			}
		}
		return true
	})
	if nInit != 1 || limVar == nil {
		lf.note("initUsers: %d InitAuth calls with a variable as limiter argument, want 1", nInit)
		return
	}
	// declared without a value
	declOK := false
	ast.Inspect(fd.Body, func(n ast.Node) bool {
		if vs, ok := n.(*ast.ValueSpec); ok {
			for _, nm := range vs.Names {
				if info.ObjectOf(nm) == limVar {
					declOK = len(vs.Values) == 0
				}
			}
		}
		return true
	})
	if !declOK {
		lf.note("initUsers: the limiter variable is not declared by `var %s *authRateLimiter` without a value", limVar.Name())
	}
	// assignments to it: exactly one in the whole function, and that one a
	// statement of the then-branch of an if that is a statement of the body
	type asg struct {
		rhs ast.Expr
		in  *ast.IfStmt
	}
	var asgs []asg
	total := 0
	ast.Inspect(fd.Body, func(n ast.Node) bool {
		switch x := n.(type) {
		case *ast.AssignStmt:
			for _, l := range x.Lhs {
				if identIs(info, l, limVar) {
					total++
				}
			}
		case *ast.IncDecStmt:
			if identIs(info, x.X, limVar) {
				total++
			}
		}
		return true
	})
	for _, s := range fd.Body.List {
		ifs, ok := s.(*ast.IfStmt)
		if !ok {
			continue
		}
		for _, t := range ifs.Body.List {
			if as, ok := t.(*ast.AssignStmt); ok && as.Tok == token.ASSIGN && len(as.Lhs) == 1 && len(as.Rhs) == 1 && identIs(info, as.Lhs[0], limVar) {
				asgs = append(asgs, asg{rhs: as.Rhs[0], in: ifs})
			}
		}
	}
	// function literals and address-of would escape this scan
	escapes := false
	ast.Inspect(fd.Body, func(n ast.Node) bool {
		switch x := n.(type) {
		case *ast.FuncLit:
			ast.Inspect(x.Body, func(m ast.Node) bool {
				if id, ok := m.(*ast.Ident); ok && info.ObjectOf(id) == limVar {
					escapes = true
				}
				return true
			})
		case *ast.UnaryExpr:
			if x.Op == token.AND && identIs(info, x.X, limVar) {
				escapes = true
			}
		}
		return true
	})
	if escapes {
		lf.note("initUsers: the limiter variable is captured by a function literal or has its address taken")
	}
	if len(asgs) != 1 || total != 1 || escapes || !declOK {
		lf.note("initUsers: %d assignments to the limiter variable, %d of them directly inside the then-branch of a top-level if; want exactly one", total, len(asgs))
		return
	}
	a := asgs[0]
	// --- the condition
	lf.Cond = types.ExprString(a.in.Cond)
	if a.in.Init != nil {
		lf.note("initUsers: the if statement at %s has an init clause", pos(a.in.Pos()))
	} else if b, ok := ast.Unparen(a.in.Cond).(*ast.BinaryExpr); ok && b.Op == token.LAND &&
		((positive(info, b.X, "AuthAttempts") && positive(info, b.Y, "AuthBlockMin")) ||
			(positive(info, b.X, "AuthBlockMin") && positive(info, b.Y, "AuthAttempts"))) {
		lf.CondOK = true
	} else {
		lf.note("initUsers: the limiter is created under the condition `%s` (%s), not `config.AuthAttempts > 0 && config.AuthBlockMin > 0`", lf.Cond, pos(a.in.Pos()))
	}
	// --- the constructor call and its arguments
	if c, ok := callTo(info, a.rhs, homePath, "newAuthRateLimiter"); !ok || len(c.Args) != 2 {
		lf.note("initUsers: the limiter is assigned `%s`, not a call of newAuthRateLimiter", types.ExprString(a.rhs))
	} else {
		durOK := isBlockDurExpr(info, c.Args[0])
		if id, ok := ast.Unparen(c.Args[0]).(*ast.Ident); ok && !durOK {
			dv := info.ObjectOf(id)
			nDef := 0
			ast.Inspect(fd.Body, func(n ast.Node) bool {
				if as, ok := n.(*ast.AssignStmt); ok {
					for i, l := range as.Lhs {
						if identIs(info, l, dv) {
							nDef++
							if len(as.Rhs) == len(as.Lhs) && isBlockDurExpr(info, as.Rhs[i]) {
								durOK = true
							}
						}
					}
				}
				return true
			})
			if nDef != 1 {
				durOK = false
			}
		}
		if !durOK {
			lf.note("initUsers: the block duration `%s` is not time.Duration(config.AuthBlockMin) * time.Minute", types.ExprString(c.Args[0]))
		}
		maxOK := isConfigField(info, c.Args[1], "AuthAttempts")
		if !maxOK {
			lf.note("initUsers: the attempt limit `%s` is not config.AuthAttempts", types.ExprString(c.Args[1]))
		}
		lf.ArgsOK = durOK && maxOK
	}

	// --- InitAuth stores the parameter; nobody else writes the field
	if ia := findFunc(p, "InitAuth", ""); ia == nil {
		lf.note("home.InitAuth not found")
	} else {
		var par types.Object
		k := 0
		for _, f := range ia.Type.Params.List {
			for _, nm := range f.Names {
				if k == 3 {
					par = info.ObjectOf(nm)
				}
				k++
			}
		}
		stored := false
		ast.Inspect(ia.Body, func(n ast.Node) bool {
			if cl, ok := n.(*ast.CompositeLit); ok {
				for _, el := range cl.Elts {
					if kv, ok := el.(*ast.KeyValueExpr); ok {
						if key, ok := kv.Key.(*ast.Ident); ok && key.Name == "rateLimiter" && identIs(info, kv.Value, par) {
							stored = true
						}
					}
				}
			}
			return true
		})
		if !stored {
			lf.note("InitAuth does not store its fourth parameter in the rateLimiter field of the Auth literal")
		}
		writers := 0
		for _, f := range p.Syntax {
			ast.Inspect(f, func(n ast.Node) bool {
				as, ok := n.(*ast.AssignStmt)
				if !ok {
					return true
				}
				for _, l := range as.Lhs {
					if sel, ok := ast.Unparen(l).(*ast.SelectorExpr); ok && sel.Sel.Name == "rateLimiter" {
						if s, ok := info.Selections[sel]; ok && s.Kind() == types.FieldVal {
							writers++
							lf.note("the field rateLimiter is assigned at %s", pos(as.Pos()))
						}
					}
				}
				return true
			})
		}
		lf.ReachesAuth = stored && writers == 0 && par != nil
	}

	// --- newAuthRateLimiter stores both parameters
	if nf := findFunc(p, "newAuthRateLimiter", ""); nf == nil {
		lf.note("home.newAuthRateLimiter not found")
	} else {
		var pars []types.Object
		for _, f := range nf.Type.Params.List {
			for _, nm := range f.Names {
				pars = append(pars, info.ObjectOf(nm))
			}
		}
		got := map[string]bool{}
		ast.Inspect(nf.Body, func(n ast.Node) bool {
			if cl, ok := n.(*ast.CompositeLit); ok && len(pars) == 2 {
				for _, el := range cl.Elts {
					if kv, ok := el.(*ast.KeyValueExpr); ok {
						if key, ok := kv.Key.(*ast.Ident); ok {
							if key.Name == "blockDur" && identIs(info, kv.Value, pars[0]) {
								got["blockDur"] = true
							}
							if key.Name == "maxAttempts" && identIs(info, kv.Value, pars[1]) {
								got["maxAttempts"] = true
							}
						}
					}
				}
			}
			return true
		})
		reass := false
		ast.Inspect(nf.Body, func(n ast.Node) bool {
			if as, ok := n.(*ast.AssignStmt); ok {
				for _, l := range as.Lhs {
					for _, pv := range pars {
						if identIs(info, l, pv) {
							reass = true
						}
					}
				}
			}
			return true
		})
		lf.CtorOK = got["blockDur"] && got["maxAttempts"] && !reass && len(nf.Body.List) == 1
		if !lf.CtorOK {
			lf.note("newAuthRateLimiter does not simply store (blockDur, maxAttempts)")
		}
	}
	// --- failedAuthTTL
	if o := p.Types.Scope().Lookup("failedAuthTTL"); o != nil {
		if c, ok := o.(*types.Const); ok {
			if v, exact := constant.Int64Val(c.Val()); exact && v == 60_000_000_000 {
				lf.TTLMinute = true
			}
		}
	}
	if !lf.TTLMinute {
		lf.note("failedAuthTTL is not the constant 1 * time.Minute")
	}
}

func coqLimiter(lf *limiterFacts) string {
	var b strings.Builder
	b.WriteString("\n(* home.go initUsers / auth.go InitAuth / authratelimiter.go: how the limiter is built from the configuration *)\n")
	for _, n := range lf.Notes {
		fmt.Fprintf(&b, "(* %s *)\n", comment(n))
	}
	if lf.Cond != "" {
		fmt.Fprintf(&b, "(* condition in the source: %s *)\n", comment(lf.Cond))
	}
	f := func(x bool) string { return coqBool(lf.Found && x) }
	fmt.Fprintf(&b, "Definition limiter_cond_both_positive : bool := %s.\nDefinition limiter_built_from_config : bool := %s.\nDefinition limiter_reaches_auth : bool := %s.\nDefinition limiter_ctor_stores_params : bool := %s.\nDefinition limiter_ttl_is_one_minute : bool := %s.\n",
		f(lf.CondOK), f(lf.ArgsOK), f(lf.ReachesAuth), f(lf.CtorOK), f(lf.TTLMinute))
	return b.String()
}

package main

// Round 6 (C11): WHICH mux does a server serve?
//
// The route table lists the registrations the module makes.  A request is
// answered by whatever is registered on the mux OBJECT a server hands its
// connections to, and that object may carry registrations the module never
// made: net/http/pprof, expvar, golang.org/x/net/trace and others hang their
// handlers on the process-global http.DefaultServeMux in an init function.
// A server whose Handler is http.DefaultServeMux, or nil (net/http then uses
// DefaultServeMux), or a mux that was handed to foreign code, serves them
// without any wrapper of package home in front.
//
// For every server of the table (http.Server / http3.Server literal, an
// assignment to a Server's Handler field, http.ListenAndServe / Serve, a
// Server value made without a literal) this file establishes the identity of
// the mux behind its handler:
//
//	fresh    every write to the variable / field the handler expression names
//	         (any assignment in the module whose left side resolves to that
//	         object, any composite-literal key, any whole-struct assignment
//	         to a struct with such a field, any &x that could alias it) has
//	         the call http.NewServeMux() as its right side, and there is at
//	         least one; or the handler is that call itself;
//	default  some write has http.DefaultServeMux as its right side, or the
//	         handler is http.DefaultServeMux;
//	nil      the server has no Handler / a nil Handler, or some write is nil;
//	unknown  anything else (a mux obtained from a call, a parameter, a handler
//	         in which no mux can be found): translator failure.
//
// Beside that: every place a mux of the module is handed to code that could
// register on it (an argument whose parameter is not http.Handler, a
// conversion to another interface, a return value) is an "escape"; every
// mention of http.DefaultServeMux in the module; whether every call of
// startPprof stands under `if ....Pprof.Enabled`; and, for the record, the
// packages among the dependencies of the shipped binary (`go list -deps .`)
// that register on the default mux (http.Handle / http.HandleFunc /
// http.DefaultServeMux.Handle*), with the patterns and whether it happens in
// an init function.
//
// Written to coq/Gen/RoutesMux.v (checked by C11_admin_muxes_private) and to
// routes.json ("mux").

import (
	"bytes"
	"encoding/json"
	"fmt"
	"go/ast"
	"go/parser"
	"go/token"
	"go/types"
	"os"
	"os/exec"
	"path/filepath"
	"sort"
	"strings"

	"golang.org/x/tools/go/packages"
)

type muxWriter struct {
	Rhs  string `json:"rhs"`
	Kind string `json:"kind"` // fresh default nil unknown
	Pos  string `json:"pos"`
	Func string `json:"func"`
}

type muxRow struct {
	What    string      `json:"what"`
	Pos     string      `json:"pos"`
	Func    string      `json:"func"`
	Addr    string      `json:"addr"`
	Mux     string      `json:"mux"`
	Kind    string      `json:"kind"`
	Why     string      `json:"why,omitempty"`
	Writers []muxWriter `json:"writers"`

	objKeys []string // unresolved: the objects behind the mux leaves
	direct  []string // kinds established from the expression itself
}

type muxEscape struct {
	Mux    string `json:"mux"`
	Callee string `json:"callee"`
	Pos    string `json:"pos"`
	Func   string `json:"func"`
}

type defRegistrant struct {
	Pkg      string   `json:"pkg"`
	Pos      string   `json:"pos"`
	InInit   bool     `json:"in_init"`
	Func     string   `json:"func"`
	Patterns []string `json:"patterns"`
}

type muxFacts struct {
	Rows         []muxRow        `json:"rows"`
	Escapes      []muxEscape     `json:"escapes"`
	Mentions     []string        `json:"default_mentions"`
	PprofCalls   []string        `json:"pprof_calls"`
	PprofGuarded bool            `json:"pprof_guarded"`
	Registrants  []defRegistrant `json:"default_registrants"`
	DepsScanned  int             `json:"deps_scanned"`
}

// accumulated over both builds
var (
	muxWriters  = map[string][]muxWriter{} // object key -> writes
	muxSeenW    = map[string]bool{}
	muxSeenRow  = map[string]bool{}
	muxSeenEsc  = map[string]bool{}
	muxSeenMent = map[string]bool{}
	muxSeenCall = map[string]bool{}
	pprofAllOK  = true
)

func objKey(o types.Object) string {
	if o == nil {
		return ""
	}
	return o.Name() + "@" + pos(o.Pos())
}

func isServerType(t types.Type) bool {
	if t == nil {
		return false
	}
	if p, ok := types.Unalias(t).(*types.Pointer); ok {
		t = p.Elem()
	}
	return isNamed(t, "net/http", "Server") || isNamed(t, "github.com/quic-go/quic-go/http3", "Server")
}

func isHTTPHandlerIface(t types.Type) bool { return isNamed(t, "net/http", "Handler") }

func isDefaultMux(info *types.Info, e ast.Expr) bool {
	var id *ast.Ident
	switch x := ast.Unparen(e).(type) {
	case *ast.Ident:
		id = x
	case *ast.SelectorExpr:
		id = x.Sel
	default:
		return false
	}
	v, ok := info.Uses[id].(*types.Var)
	return ok && v.Pkg() != nil && v.Pkg().Path() == "net/http" && v.Name() == "DefaultServeMux"
}

// exprKind classifies the right side of a write to a mux variable.
func exprKind(info *types.Info, e ast.Expr) string {
	e = ast.Unparen(e)
	if tv, ok := info.Types[e]; ok && tv.IsNil() {
		return "nil"
	}
	if isDefaultMux(info, e) {
		return "default"
	}
	if c, ok := e.(*ast.CallExpr); ok && isFunc(calleeObj(info, c.Fun), "net/http", "NewServeMux") && len(c.Args) == 0 {
		return "fresh"
	}
	return "unknown"
}

// objOf: the variable or field an expression names.
func objOf(info *types.Info, e ast.Expr) types.Object {
	switch x := ast.Unparen(e).(type) {
	case *ast.Ident:
		if o := info.Uses[x]; o != nil {
			return o
		}
		return info.Defs[x]
	case *ast.SelectorExpr:
		return info.Uses[x.Sel]
	}
	return nil
}

func addWriter(o types.Object, w muxWriter) {
	k := objKey(o)
	if k == "" {
		return
	}
	s := k + "|" + w.Pos + "|" + w.Rhs
	if muxSeenW[s] {
		return
	}
	muxSeenW[s] = true
	muxWriters[k] = append(muxWriters[k], w)
}

// muxFields: the *http.ServeMux fields of a struct type.
func muxFields(t types.Type) (out []*types.Var) {
	if t == nil {
		return nil
	}
	st, ok := t.Underlying().(*types.Struct)
	if !ok {
		return nil
	}
	for i := 0; i < st.NumFields(); i++ {
		if isServeMuxPtr(st.Field(i).Type()) {
			out = append(out, st.Field(i))
		}
	}
	return out
}

// scanMuxWrites records every write to a *http.ServeMux variable or field in
// body, every escape of a mux, every mention of http.DefaultServeMux and every
// call of startPprof.
func scanMuxWrites(p *packages.Package, info *types.Info, body ast.Node, fname string, mf *muxFacts) {
	fn := p.PkgPath + "." + fname
	write := func(lhs ast.Expr, rhs ast.Expr, at token.Pos) {
		if o := objOf(info, lhs); o != nil {
			w := muxWriter{Pos: pos(at), Func: fn, Kind: "unknown", Rhs: "<multi-value>"}
			if rhs != nil {
				w.Rhs, w.Kind = types.ExprString(rhs), exprKind(info, rhs)
			}
			addWriter(o, w)
		}
	}
	var ifStack []*ast.IfStmt
	var visit func(n ast.Node) bool
	visit = func(n ast.Node) bool {
		switch x := n.(type) {
		case *ast.IfStmt:
			if x.Init != nil {
				ast.Inspect(x.Init, visit)
			}
			ast.Inspect(x.Cond, visit)
			ifStack = append(ifStack, x)
			ast.Inspect(x.Body, visit)
			ifStack = ifStack[:len(ifStack)-1]
			if x.Else != nil {
				ast.Inspect(x.Else, visit)
			}
			return false
		case *ast.AssignStmt:
			for i, l := range x.Lhs {
				lt := info.TypeOf(l)
				if isServeMuxPtr(lt) {
					if len(x.Lhs) == len(x.Rhs) {
						write(l, x.Rhs[i], x.Pos())
					} else {
						write(l, nil, x.Pos())
					}
					continue
				}
				// a whole struct (or a pointer's target) with a mux field is overwritten
				if lt != nil {
					t := lt
					if _, isPtr := t.Underlying().(*types.Pointer); !isPtr {
						for _, f := range muxFields(t) {
							rhs := "<struct value>"
							if len(x.Lhs) == len(x.Rhs) {
								rhs = types.ExprString(x.Rhs[i])
							}
							addWriter(f, muxWriter{Pos: pos(x.Pos()), Func: fn, Kind: "unknown", Rhs: "whole-struct assignment: " + rhs})
						}
					}
				}
			}
		case *ast.ValueSpec:
			for i, nm := range x.Names {
				if !isServeMuxPtr(info.TypeOf(nm)) {
					continue
				}
				o := info.Defs[nm]
				switch {
				case len(x.Values) == len(x.Names):
					addWriter(o, muxWriter{Pos: pos(nm.Pos()), Func: fn, Rhs: types.ExprString(x.Values[i]), Kind: exprKind(info, x.Values[i])})
				case len(x.Values) == 0:
					addWriter(o, muxWriter{Pos: pos(nm.Pos()), Func: fn, Rhs: "<zero value>", Kind: "nil"})
				default:
					addWriter(o, muxWriter{Pos: pos(nm.Pos()), Func: fn, Rhs: "<multi-value>", Kind: "unknown"})
				}
			}
		case *ast.CompositeLit:
			for _, el := range x.Elts {
				kv, ok := el.(*ast.KeyValueExpr)
				if !ok {
					continue
				}
				if id, ok := kv.Key.(*ast.Ident); ok {
					if v, ok := info.Uses[id].(*types.Var); ok && v.IsField() && isServeMuxPtr(v.Type()) {
						addWriter(v, muxWriter{Pos: pos(kv.Pos()), Func: fn, Rhs: types.ExprString(kv.Value), Kind: exprKind(info, kv.Value)})
					}
				}
			}
		case *ast.UnaryExpr:
			// &x.mux: the variable can be written through the pointer
			if x.Op == token.AND && isServeMuxPtr(info.TypeOf(x.X)) {
				if o := objOf(info, x.X); o != nil {
					addWriter(o, muxWriter{Pos: pos(x.Pos()), Func: fn, Rhs: "address taken: " + types.ExprString(x), Kind: "unknown"})
				}
			}
		case *ast.ReturnStmt:
			for _, r := range x.Results {
				if isServeMuxPtr(info.TypeOf(r)) && exprKind(info, r) != "fresh" {
					addEscape(mf, muxEscape{Mux: types.ExprString(r), Callee: "<returned to the caller>", Pos: pos(r.Pos()), Func: fn})
				}
			}
		case *ast.Ident:
			if isDefaultMux(info, x) {
				s := pos(x.Pos()) + " in " + fn
				if !muxSeenMent[s] {
					muxSeenMent[s] = true
					mf.Mentions = append(mf.Mentions, s)
				}
			}
		case *ast.CallExpr:
			scanMuxCall(p, info, x, fn, ifStack, mf)
		}
		return true
	}
	ast.Inspect(body, visit)
}

func addEscape(mf *muxFacts, e muxEscape) {
	s := e.Pos + "|" + e.Mux + "|" + e.Callee
	if muxSeenEsc[s] {
		return
	}
	muxSeenEsc[s] = true
	mf.Escapes = append(mf.Escapes, e)
}

func calleeName(info *types.Info, fun ast.Expr) string {
	if f, ok := calleeObj(info, fun).(*types.Func); ok && f.Pkg() != nil {
		if sig, ok := f.Type().(*types.Signature); ok && sig.Recv() != nil {
			return "(" + types.TypeString(sig.Recv().Type(), nil) + ")." + f.Name()
		}
		return f.Pkg().Path() + "." + f.Name()
	}
	return types.ExprString(fun)
}

func scanMuxCall(p *packages.Package, info *types.Info, call *ast.CallExpr, fn string, ifStack []*ast.IfStmt, mf *muxFacts) {
	// startPprof(...) must stand under a condition that names Pprof.Enabled
	if isFunc(calleeObj(info, call.Fun), homePath, "startPprof") {
		s := pos(call.Pos())
		if !muxSeenCall[s] {
			muxSeenCall[s] = true
			guarded := false
			for _, c := range ifStack {
				if strings.HasSuffix(types.ExprString(c.Cond), "Pprof.Enabled") {
					guarded = true
				}
			}
			note := "under if ...Pprof.Enabled"
			if !guarded {
				note = "NOT under if ...Pprof.Enabled"
				pprofAllOK = false
			}
			mf.PprofCalls = append(mf.PprofCalls, s+" in "+fn+": "+note)
		}
	}
	// conversion T(mux)
	if tv, ok := info.Types[call.Fun]; ok && tv.IsType() {
		if len(call.Args) == 1 && isServeMuxPtr(info.TypeOf(call.Args[0])) && !isHTTPHandlerIface(tv.Type) && !isServeMuxPtr(tv.Type) {
			addEscape(mf, muxEscape{Mux: types.ExprString(call.Args[0]), Callee: "conversion to " + types.TypeString(tv.Type, nil), Pos: pos(call.Pos()), Func: fn})
		}
		return
	}
	sig, ok := types.Unalias(info.TypeOf(call.Fun)).Underlying().(*types.Signature)
	if !ok || sig == nil {
		return
	}
	for i, a := range call.Args {
		if !isServeMuxPtr(info.TypeOf(a)) || exprKind(info, a) == "nil" {
			continue
		}
		var pt types.Type
		if i < sig.Params().Len() && !(sig.Variadic() && i >= sig.Params().Len()-1) {
			pt = sig.Params().At(i).Type()
		} else if sig.Variadic() && sig.Params().Len() > 0 {
			if sl, ok := sig.Params().At(sig.Params().Len() - 1).Type().(*types.Slice); ok {
				pt = sl.Elem()
			}
		}
		if pt != nil && isHTTPHandlerIface(pt) {
			continue // can only be served
		}
		addEscape(mf, muxEscape{Mux: types.ExprString(a), Callee: calleeName(info, call.Fun), Pos: pos(call.Pos()), Func: fn})
	}
}

// muxLeafExprs: the mux-typed expressions a handler expression is built from
// (through calls that take handler-like arguments and through local
// variables), and whether some leaf is not a mux at all.
func muxLeafExprs(info *types.Info, assigns map[types.Object][]ast.Expr, e ast.Expr, depth int, seen map[types.Object]bool) (muxes []ast.Expr, other []string) {
	e = ast.Unparen(e)
	if depth > 12 {
		return nil, []string{"<too deep> " + types.ExprString(e)}
	}
	if tv, ok := info.Types[e]; ok && tv.IsNil() {
		return []ast.Expr{e}, nil
	}
	if isServeMuxPtr(info.TypeOf(e)) {
		// a local alias is resolved through its writers (resolveMux)
		return []ast.Expr{e}, nil
	}
	switch x := e.(type) {
	case *ast.Ident:
		o := objOf(info, x)
		if _, isFn := o.(*types.Func); isFn {
			return nil, nil // a middleware name
		}
		if seen[o] {
			return nil, nil
		}
		if rhs, ok := assigns[o]; ok {
			seen[o] = true
			for _, r := range rhs {
				m, ot := muxLeafExprs(info, assigns, r, depth+1, seen)
				muxes, other = append(muxes, m...), append(other, ot...)
			}
			return muxes, other
		}
		return nil, []string{types.ExprString(e)}
	case *ast.CallExpr:
		had := false
		for _, a := range x.Args {
			if isHandlerish(info.TypeOf(a)) {
				had = true
				m, ot := muxLeafExprs(info, assigns, a, depth+1, seen)
				muxes, other = append(muxes, m...), append(other, ot...)
			}
		}
		if !had {
			return nil, []string{types.ExprString(e)}
		}
		return muxes, other
	}
	return nil, []string{types.ExprString(e)}
}

// addMuxRow records a server and the mux behind its handler.  handler == nil:
// the server has no Handler.
func addMuxRow(info *types.Info, assigns map[types.Object][]ast.Expr, mf *muxFacts, what, at, fn, addr string, handler ast.Expr, noHandlerWhy string) {
	if muxSeenRow[at+"|"+what] {
		return
	}
	muxSeenRow[at+"|"+what] = true
	row := muxRow{What: what, Pos: at, Func: fn, Addr: addr}
	if handler == nil {
		row.Mux, row.direct, row.Why = "<none>", []string{"nil"}, noHandlerWhy
		mf.Rows = append(mf.Rows, row)
		return
	}
	muxes, other := muxLeafExprs(info, assigns, handler, 0, map[types.Object]bool{})
	var names []string
	for _, m := range muxes {
		names = append(names, types.ExprString(m))
		switch k := exprKind(info, m); k {
		case "fresh", "default", "nil":
			row.direct = append(row.direct, k)
		default:
			if o := objOf(info, m); o != nil {
				row.objKeys = append(row.objKeys, objKey(o))
			} else {
				row.direct = append(row.direct, "unknown")
				row.Why = "the mux expression " + types.ExprString(m) + " names no variable"
			}
		}
	}
	if len(muxes) == 0 {
		row.direct = append(row.direct, "unknown")
		row.Why = "no mux found in the handler expression (" + strings.Join(other, ", ") + ")"
	} else if len(other) > 0 {
		row.direct = append(row.direct, "unknown")
		row.Why = "the handler is built from something that is neither a mux nor middleware: " + strings.Join(other, ", ")
	}
	row.Mux = strings.Join(names, ", ")
	if row.Mux == "" {
		row.Mux = "<none>"
	}
	mf.Rows = append(mf.Rows, row)
}

// worst of the kinds: unknown > default > nil > fresh
func worseKind(a, b string) string {
	rank := map[string]int{"": 0, "fresh": 1, "nil": 2, "default": 3, "unknown": 4}
	if rank[b] > rank[a] {
		return b
	}
	return a
}

func resolveMux(mf *muxFacts) {
	for i := range mf.Rows {
		r := &mf.Rows[i]
		k := ""
		for _, d := range r.direct {
			k = worseKind(k, d)
		}
		for _, key := range r.objKeys {
			ws := muxWriters[key]
			if len(ws) == 0 {
				k = worseKind(k, "unknown")
				if r.Why == "" {
					r.Why = "no write to " + key + " found in the module (a parameter, or a variable of another package)"
				}
			}
			for _, w := range ws {
				r.Writers = append(r.Writers, w)
				if worseKind(k, w.Kind) != k && w.Kind != "fresh" && r.Why == "" {
					r.Why = fmt.Sprintf("%s is written at %s in %s: %s", key, w.Pos, w.Func, w.Rhs)
				}
				k = worseKind(k, w.Kind)
			}
		}
		if k == "" {
			k = "unknown"
		}
		r.Kind = k
		sort.Slice(r.Writers, func(a, b int) bool { return r.Writers[a].Pos < r.Writers[b].Pos })
	}
	sort.SliceStable(mf.Rows, func(i, j int) bool { return mf.Rows[i].Pos < mf.Rows[j].Pos })
	sort.Slice(mf.Escapes, func(i, j int) bool { return mf.Escapes[i].Pos < mf.Escapes[j].Pos })
	sort.Strings(mf.Mentions)
	sort.Strings(mf.PprofCalls)
	mf.PprofGuarded = pprofAllOK && len(mf.PprofCalls) > 0
}

// ---------------------------------------------------------------------------
// dependencies that register on the default mux

type listedPkg struct {
	ImportPath string
	Dir        string
	GoFiles    []string
	CgoFiles   []string
	Standard   bool
	Module     *struct{ Path string }
}

func scanDeps(cfgEnv []string, overlay map[string][]byte, mf *muxFacts) {
	ovFile := ""
	if len(overlay) > 0 {
		dir, err := os.MkdirTemp("", "routes-ov")
		if err != nil {
			fatal("%v", err)
		}
		defer os.RemoveAll(dir)
		rep := map[string]string{}
		i := 0
		for dst, data := range overlay {
			f := filepath.Join(dir, fmt.Sprintf("f%d.go", i))
			i++
			if err := os.WriteFile(f, data, 0o644); err != nil {
				fatal("%v", err)
			}
			rep[dst] = f
		}
		js, _ := json.Marshal(map[string]any{"Replace": rep})
		ovFile = filepath.Join(dir, "overlay.json")
		if err := os.WriteFile(ovFile, js, 0o644); err != nil {
			fatal("%v", err)
		}
	}
	seen := map[string]bool{}
	seenReg := map[string]bool{}
	for _, goos := range []string{"linux", "windows"} {
		args := []string{"list", "-deps", "-json=ImportPath,Dir,GoFiles,CgoFiles,Standard,Module"}
		if ovFile != "" {
			args = append(args, "-overlay", ovFile)
		}
		args = append(args, ".")
		cmd := exec.Command("go", args...)
		cmd.Dir = repo
		cmd.Env = append(append([]string{}, cfgEnv...), "GOOS="+goos, "GOARCH=amd64", "CGO_ENABLED=0")
		var stderr bytes.Buffer
		cmd.Stderr = &stderr
		out, err := cmd.Output()
		if err != nil {
			fatal("go list -deps (%s): %v: %s", goos, err, stderr.String())
		}
		dec := json.NewDecoder(bytes.NewReader(out))
		for dec.More() {
			var lp listedPkg
			if err := dec.Decode(&lp); err != nil {
				fatal("go list -deps output: %v", err)
			}
			if lp.ImportPath == "net/http" || lp.ImportPath == "unsafe" || lp.Dir == "" {
				continue
			}
			if lp.Module != nil && lp.Module.Path == modPath {
				continue // the module itself is analysed with types
			}
			for _, f := range append(append([]string{}, lp.GoFiles...), lp.CgoFiles...) {
				path := filepath.Join(lp.Dir, f)
				if seen[path] {
					continue
				}
				seen[path] = true
				mf.DepsScanned++
				src, err := os.ReadFile(path)
				if err != nil {
					fatal("%v", err)
				}
				if !bytes.Contains(src, []byte(`"net/http"`)) ||
					!(bytes.Contains(src, []byte("DefaultServeMux")) || bytes.Contains(src, []byte(".Handle(")) || bytes.Contains(src, []byte(".HandleFunc("))) {
					continue
				}
				scanDepFile(lp.ImportPath, path, src, mf, seenReg)
			}
		}
	}
	sort.Slice(mf.Registrants, func(i, j int) bool {
		if mf.Registrants[i].Pkg != mf.Registrants[j].Pkg {
			return mf.Registrants[i].Pkg < mf.Registrants[j].Pkg
		}
		return mf.Registrants[i].Pos < mf.Registrants[j].Pos
	})
}

// scanDepFile: syntactic (no types: the dependencies are not type-checked).
// A registration on the default mux is a call <http>.Handle / <http>.HandleFunc
// or <http>.DefaultServeMux.Handle / HandleFunc where <http> is the name
// under which the file imports net/http.
func scanDepFile(pkg, path string, src []byte, mf *muxFacts, seenReg map[string]bool) {
	fs := token.NewFileSet()
	f, err := parser.ParseFile(fs, path, src, parser.SkipObjectResolution)
	if err != nil {
		return // not our business: the build would fail
	}
	httpName := ""
	for _, im := range f.Imports {
		if im.Path.Value == `"net/http"` {
			httpName = "http"
			if im.Name != nil {
				httpName = im.Name.Name
			}
		}
	}
	if httpName == "" || httpName == "_" {
		return
	}
	isHTTP := func(e ast.Expr) bool {
		id, ok := e.(*ast.Ident)
		return ok && id.Name == httpName
	}
	for _, d := range f.Decls {
		fd, ok := d.(*ast.FuncDecl)
		if !ok || fd.Body == nil {
			continue
		}
		inInit := fd.Recv == nil && fd.Name.Name == "init"
		var pats []string
		var first token.Pos
		ast.Inspect(fd.Body, func(n ast.Node) bool {
			call, ok := n.(*ast.CallExpr)
			if !ok {
				return true
			}
			sel, ok := call.Fun.(*ast.SelectorExpr)
			if !ok || (sel.Sel.Name != "Handle" && sel.Sel.Name != "HandleFunc") || len(call.Args) != 2 {
				return true
			}
			onDefault := isHTTP(sel.X)
			if in, ok := sel.X.(*ast.SelectorExpr); ok && in.Sel.Name == "DefaultServeMux" && isHTTP(in.X) {
				onDefault = true
			}
			if onDefault {
				if first == token.NoPos {
					first = call.Pos()
				}
				pats = append(pats, types.ExprString(call.Args[0]))
			}
			return true
		})
		if len(pats) == 0 {
			continue
		}
		pp := fs.Position(first)
		where := fmt.Sprintf("%s:%d", filepath.Base(pp.Filename), pp.Line)
		k := pkg + "|" + where
		if seenReg[k] {
			continue
		}
		seenReg[k] = true
		mf.Registrants = append(mf.Registrants, defRegistrant{Pkg: pkg, Pos: where, InInit: inInit, Func: fd.Name.Name, Patterns: pats})
	}
}

// ---------------------------------------------------------------------------

func coqKind(k string) string {
	switch k {
	case "fresh":
		return "MuxFresh"
	case "default":
		return "MuxDefault"
	case "nil":
		return "MuxNil"
	}
	return "MuxUnknown"
}

func coqMux(mf *muxFacts, header string) string {
	var b strings.Builder
	b.WriteString(header)
	b.WriteString("From AGH Require Import Base.Run Model.AuthMux.\n\n")
	b.WriteString("(* every server of the module and the mux behind its handler *)\nDefinition mux_rows : list mux_row := [\n")
	for i, r := range mf.Rows {
		sep := ";"
		if i == len(mf.Rows)-1 {
			sep = ""
		}
		var ws []string
		for _, w := range r.Writers {
			ws = append(ws, fmt.Sprintf("%s := %s", w.Pos, w.Rhs))
		}
		fmt.Fprintf(&b, "  (* %s in %s on %s serves %s: %s%s%s *)\n  {| mr_pos := %s; mr_func := %s; mr_addr := %s; mr_mux := %s; mr_kind := %s |}%s\n",
			comment(r.What), comment(r.Func), comment(r.Addr), comment(r.Mux), r.Kind,
			map[bool]string{true: " [writes: " + comment(strings.Join(ws, "; ")) + "]", false: ""}[len(ws) > 0],
			map[bool]string{true: " [" + comment(r.Why) + "]", false: ""}[r.Why != ""],
			coqBytes(r.Pos), coqBytes(r.Func), coqBytes(r.Addr), coqBytes(r.Mux), coqKind(r.Kind), sep)
	}
	b.WriteString("].\n\n(* a mux handed to code that can register on it: mux, callee, position, enclosing function *)\nDefinition mux_escapes : list (bytes * bytes * bytes * bytes) := [\n")
	for i, e := range mf.Escapes {
		sep := ";"
		if i == len(mf.Escapes)-1 {
			sep = ""
		}
		fmt.Fprintf(&b, "  (* %s -> %s at %s in %s *) (%s, %s, %s, %s)%s\n", comment(e.Mux), comment(e.Callee), e.Pos, comment(e.Func),
			coqBytes(e.Mux), coqBytes(e.Callee), coqBytes(e.Pos), coqBytes(e.Func), sep)
	}
	b.WriteString("].\n\n(* mentions of http.DefaultServeMux in the module *)\nDefinition default_mentions : list bytes := [\n")
	for i, m := range mf.Mentions {
		sep := ";"
		if i == len(mf.Mentions)-1 {
			sep = ""
		}
		fmt.Fprintf(&b, "  (* %s *) %s%s\n", comment(m), coqBytes(m), sep)
	}
	b.WriteString("].\n\n")
	for _, c := range mf.PprofCalls {
		fmt.Fprintf(&b, "(* startPprof called at %s *)\n", comment(c))
	}
	fmt.Fprintf(&b, "Definition pprof_guarded : bool := %v.\n\n", mf.PprofGuarded)
	fmt.Fprintf(&b, "(* For the record: packages linked into the binary (go list -deps ., %d files looked at) that register on\n   http.DefaultServeMux: package, position, in an init function?, number of patterns. *)\n", mf.DepsScanned)
	b.WriteString("Definition default_registrants : list (bytes * bytes * bool * N) := [\n")
	for i, r := range mf.Registrants {
		sep := ";"
		if i == len(mf.Registrants)-1 {
			sep = ""
		}
		fmt.Fprintf(&b, "  (* %s %s func %s: %s *) (%s, %s, %v, %d%%N)%s\n", r.Pkg, r.Pos, r.Func, comment(strings.Join(r.Patterns, " ")),
			coqBytes(r.Pkg), coqBytes(r.Pos), r.InInit, len(r.Patterns), sep)
	}
	b.WriteString("].\n")
	return b.String()
}

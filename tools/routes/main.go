// Command routes lists, with full type information, every HTTP route
// registration in the AdGuard Home module (VERIF_REPO, default /repo) and
// writes the table as Gallina data to coq/Gen/Routes.v and as JSON to
// coq/Gen/routes.json (read by the C11 harness).
//
// Listed: every call whose callee has type aghhttp.RegisterFunc or is
// home.httpRegister; every Handle / HandleFunc call on a *http.ServeMux (and
// the package-level http.Handle / http.HandleFunc); the two registrations
// inside home.httpRegister itself (the definition of the guarded chain);
// every place a RegisterFunc value is bound; every http.NewServeMux call;
// the Handler of every http.Server / http3.Server literal and of every
// http.ListenAndServe / http.Serve call.  Method and pattern must be
// constants, otherwise the entry is Unresolved.  Package internal/next (a
// separate, unshipped binary) is excluded.
package main

import (
	"encoding/json"
	"fmt"
	"go/ast"
	"go/constant"
	"go/token"
	"go/types"
	"os"
	"os/exec"
	"path/filepath"
	"sort"
	"strings"

	"golang.org/x/tools/go/packages"
)

const (
	modPath  = "github.com/AdguardTeam/AdGuardHome"
	homePath = modPath + "/internal/home"
	aghhttp  = modPath + "/internal/aghhttp"
)

type wrapper struct {
	Kind string `json:"kind"` // PostInstall PreInstall OptionalAuth Gzip Ensure LimitBody Unknown
	Arg  string `json:"arg,omitempty"`
}

type route struct {
	Pattern string    `json:"pattern"`
	Kind    string    `json:"kind"` // ViaRegister Direct Unresolved
	Method  string    `json:"method"`
	Chain   []wrapper `json:"chain"`
	Why     string    `json:"why,omitempty"`
	Mux     string    `json:"mux"`
	Pos     string    `json:"pos"`
	Func    string    `json:"func"`
}

type binding struct {
	Src  string `json:"src"` // HttpRegister Flow Nil Other
	Text string `json:"text"`
	Pos  string `json:"pos"`
}

type muxSite struct {
	Func, Target, Pos string
}

type server struct {
	What   string   `json:"what"`
	Leaves []string `json:"leaves"`
	Pos    string   `json:"pos"`
	Func   string   `json:"func"`
	Addr   string   `json:"addr"`
}

type table struct {
	Routes    []route   `json:"routes"`
	RegEmpty  []wrapper `json:"reg_empty"`
	RegMethod []wrapper `json:"reg_method"`
	Bindings  []binding `json:"bindings"`
	Muxes     []muxSite `json:"muxes"`
	Servers   []server  `json:"servers"`
	Startup   startupFacts `json:"startup"`
	Login     loginFacts   `json:"login"`
	Sessions  sessionFacts `json:"sessions"`
	Limiter   limiterFacts `json:"limiter"`
	Life      lifeFacts    `json:"life"`
	Mux       muxFacts     `json:"mux"`
}

var (
	fset *token.FileSet
	repo string
)

func pos(p token.Pos) string {
	pp := fset.Position(p)
	rel, err := filepath.Rel(repo, pp.Filename)
	if err != nil {
		rel = pp.Filename
	}
	return fmt.Sprintf("%s:%d", rel, pp.Line)
}

func isNamed(t types.Type, pkg, name string) bool {
	if t == nil {
		return false
	}
	n, ok := types.Unalias(t).(*types.Named)
	if !ok {
		return false
	}
	o := n.Obj()
	return o != nil && o.Pkg() != nil && o.Pkg().Path() == pkg && o.Name() == name
}

func isServeMuxPtr(t types.Type) bool {
	p, ok := types.Unalias(t).(*types.Pointer)
	return ok && isNamed(p.Elem(), "net/http", "ServeMux")
}

func constString(info *types.Info, e ast.Expr) (string, bool) {
	tv, ok := info.Types[e]
	if !ok || tv.Value == nil || tv.Value.Kind() != constant.String {
		return "", false
	}
	return constant.StringVal(tv.Value), true
}

// calleeObj returns the function object a call expression refers to, if it is
// a plain (possibly qualified) function name.
func calleeObj(info *types.Info, fun ast.Expr) types.Object {
	switch f := ast.Unparen(fun).(type) {
	case *ast.Ident:
		return info.Uses[f]
	case *ast.SelectorExpr:
		return info.Uses[f.Sel]
	}
	return nil
}

func isFunc(o types.Object, pkg, name string) bool {
	f, ok := o.(*types.Func)
	return ok && f.Pkg() != nil && f.Pkg().Path() == pkg && f.Name() == name
}

var homeWrappers = map[string]string{
	"postInstall": "PostInstall", "postInstallHandler": "PostInstall",
	"preInstall": "PreInstall", "preInstallHandler": "PreInstall",
	"optionalAuth": "OptionalAuth", "optionalAuthHandler": "OptionalAuth",
	"limitRequestBody": "LimitBody",
}

// wrapperOfFunc classifies a function object used as middleware.
func wrapperOfFunc(o types.Object) (wrapper, bool) {
	f, ok := o.(*types.Func)
	if !ok || f.Pkg() == nil {
		return wrapper{}, false
	}
	if f.Pkg().Path() == homePath {
		if k, ok := homeWrappers[f.Name()]; ok {
			return wrapper{Kind: k}, true
		}
	}
	if strings.HasSuffix(f.Pkg().Path(), "NYTimes/gziphandler") && f.Name() == "GzipHandler" {
		return wrapper{Kind: "Gzip"}, true
	}
	return wrapper{}, false
}

// chainOf reads the wrapper chain (outermost first) off a handler expression.
func chainOf(info *types.Info, e ast.Expr) []wrapper {
	e = ast.Unparen(e)
	call, ok := e.(*ast.CallExpr)
	if !ok {
		return nil // a plain handler value: end of the chain
	}
	// conversion such as http.HandlerFunc(x)
	if tv, ok := info.Types[call.Fun]; ok && tv.IsType() && len(call.Args) == 1 {
		return chainOf(info, call.Args[0])
	}
	o := calleeObj(info, call.Fun)
	if w, ok := wrapperOfFunc(o); ok && len(call.Args) == 1 {
		return append([]wrapper{w}, chainOf(info, call.Args[0])...)
	}
	if f, ok := o.(*types.Func); ok && f.Pkg() != nil && f.Pkg().Path() == homePath {
		switch f.Name() {
		case "ensure", "ensureHandler":
			if len(call.Args) == 2 {
				m, ok := constString(info, call.Args[0])
				if !ok {
					if id, isID := ast.Unparen(call.Args[0]).(*ast.Ident); isID {
						m = "$" + id.Name
					} else {
						return append([]wrapper{{Kind: "Unknown", Arg: "ensure with non-constant method"}}, chainOf(info, call.Args[1])...)
					}
				}
				return append([]wrapper{{Kind: "Ensure", Arg: m}}, chainOf(info, call.Args[1])...)
			}
		case "ensureGET", "ensurePOST", "ensurePUT", "ensureDELETE":
			if len(call.Args) == 1 {
				return append([]wrapper{{Kind: "Ensure", Arg: strings.TrimPrefix(f.Name(), "ensure")}}, chainOf(info, call.Args[0])...)
			}
		case "withMiddlewares":
			if len(call.Args) >= 1 {
				var ws []wrapper
				for i := len(call.Args) - 1; i >= 1; i-- {
					if w, ok := wrapperOfFunc(calleeObj(info, call.Args[i])); ok {
						ws = append(ws, w)
					} else {
						ws = append(ws, wrapper{Kind: "Unknown", Arg: types.ExprString(call.Args[i])})
					}
				}
				return append(ws, chainOf(info, call.Args[0])...)
			}
		}
	}
	// any other call that produces the handler: not understood
	return []wrapper{{Kind: "Unknown", Arg: types.ExprString(call.Fun)}}
}

// enclosing function names
type funcStack []string

func main() {
	repo = os.Getenv("VERIF_REPO")
	if repo == "" {
		repo = "/repo"
	}
	verif := os.Getenv("VERIF_DIR")
	if verif == "" {
		verif, _ = os.Getwd()
	}
	cfg := &packages.Config{
		Mode: packages.NeedName | packages.NeedFiles | packages.NeedCompiledGoFiles | packages.NeedImports |
			packages.NeedTypes | packages.NeedTypesSizes | packages.NeedSyntax | packages.NeedTypesInfo,
		Dir: repo, Overlay: map[string][]byte{},
		Env: append(os.Environ(), "GOFLAGS=-mod=mod", "GOPROXY=off"),
	}
	if ov := os.Getenv("VERIF_EXTRA_OVERLAY"); ov != "" {
		m := map[string]string{}
		if err := json.Unmarshal([]byte(ov), &m); err != nil {
			fatal("VERIF_EXTRA_OVERLAY: %v", err)
		}
		for dst, src := range m {
			b, err := os.ReadFile(src)
			if err != nil {
				fatal("%v", err)
			}
			if strings.HasPrefix(dst, "/repo/") && repo != "/repo" {
				dst = filepath.Join(repo, strings.TrimPrefix(dst, "/repo/"))
			}
			cfg.Overlay[dst] = b
		}
	}
	var tab table
	// The registrations are the same on every OS except for files behind
	// build constraints (dhcpd/http_windows.go): analyse the Linux build and
	// the Windows build and merge by source position.
	for _, goos := range []string{"linux", "windows"} {
		c := *cfg
		c.Env = append(append([]string{}, cfg.Env...), "GOOS="+goos, "GOARCH=amd64", "CGO_ENABLED=0")
		pkgs, err := packages.Load(&c, "./...")
		if err != nil {
			fatal("load (%s): %v", goos, err)
		}
		if len(pkgs) == 0 {
			fatal("no packages (%s)", goos)
		}
		sort.Slice(pkgs, func(i, j int) bool { return pkgs[i].PkgPath < pkgs[j].PkgPath })
		for _, p := range pkgs {
			if strings.HasPrefix(p.PkgPath, modPath+"/internal/next") {
				continue
			}
			if len(p.Errors) > 0 {
				fatal("package %s does not type-check (GOOS=%s): %v", p.PkgPath, goos, p.Errors[0])
			}
			fset = p.Fset
			for _, f := range p.Syntax {
				scanFile(p, f, &tab)
			}
			if p.PkgPath == homePath && goos == "linux" {
				scanStartup(p, &tab.Startup)
				scanLogin(p, &tab.Login)
				scanSessionKeys(p, &tab.Sessions)
				scanLimiter(p, &tab.Limiter)
				scanLife(p, &tab.Life)
			}
		}
	}
	dedupe(&tab)
	resolveMux(&tab.Mux)
	scanDeps(cfg.Env, cfg.Overlay, &tab.Mux)
	if tab.RegEmpty == nil && tab.RegMethod == nil {
		fatal("home.httpRegister not found: the registration idiom has changed")
	}
	writeOutputs(verif, &tab)
}

// dedupe removes the entries seen in both builds.
func dedupe(tab *table) {
	seen := map[string]bool{}
	var rs []route
	for _, r := range tab.Routes {
		k := "r" + r.Pos + "|" + r.Pattern
		if !seen[k] {
			seen[k] = true
			rs = append(rs, r)
		}
	}
	tab.Routes = rs
	var bs []binding
	for _, b := range tab.Bindings {
		k := "b" + b.Pos + "|" + b.Text
		if !seen[k] {
			seen[k] = true
			bs = append(bs, b)
		}
	}
	tab.Bindings = bs
	var ms []muxSite
	for _, m := range tab.Muxes {
		k := "m" + m.Pos
		if !seen[k] {
			seen[k] = true
			ms = append(ms, m)
		}
	}
	tab.Muxes = ms
	var ss []server
	for _, sv := range tab.Servers {
		k := "s" + sv.Pos
		if !seen[k] {
			seen[k] = true
			ss = append(ss, sv)
		}
	}
	tab.Servers = ss
}

func fatal(format string, a ...any) {
	fmt.Fprintf(os.Stderr, "routes: "+format+"\n", a...)
	os.Exit(2)
}

func scanFile(p *packages.Package, file *ast.File, tab *table) {
	info := p.TypesInfo
	for _, d := range file.Decls {
		fd, ok := d.(*ast.FuncDecl)
		fname := "<package level>"
		var body ast.Node = d
		if ok {
			fname = fd.Name.Name
			if fd.Recv != nil && len(fd.Recv.List) == 1 {
				fname = "(" + types.ExprString(fd.Recv.List[0].Type) + ")." + fname
			}
			if fd.Body == nil {
				continue
			}
			body = fd
		}
		inHTTPRegister := ok && p.PkgPath == homePath && fd.Recv == nil && fd.Name.Name == "httpRegister"
		scanBody(p, info, body, fname, inHTTPRegister, tab)
	}
}

func isRegisterFunc(t types.Type) bool { return isNamed(t, aghhttp, "RegisterFunc") }

func classifySrc(info *types.Info, e ast.Expr) binding {
	e = ast.Unparen(e)
	b := binding{Text: types.ExprString(e), Pos: pos(e.Pos())}
	if tv, ok := info.Types[e]; ok && tv.IsNil() {
		b.Src = "Nil"
		return b
	}
	switch x := e.(type) {
	case *ast.Ident:
		if isFunc(info.Uses[x], homePath, "httpRegister") {
			b.Src = "HttpRegister"
			return b
		}
		if _, isVar := info.Uses[x].(*types.Var); isVar && isRegisterFunc(info.TypeOf(x)) {
			b.Src = "Flow"
			return b
		}
	case *ast.SelectorExpr:
		if _, isVar := info.Uses[x.Sel].(*types.Var); isVar && isRegisterFunc(info.TypeOf(x)) {
			b.Src = "Flow"
			return b
		}
	}
	b.Src = "Other"
	return b
}

func scanBody(p *packages.Package, info *types.Info, body ast.Node, fname string, inHTTPRegister bool, tab *table) {
	// local assignments, for resolving handler variables of servers
	assigns := map[types.Object][]ast.Expr{}
	ast.Inspect(body, func(n ast.Node) bool {
		if as, ok := n.(*ast.AssignStmt); ok && len(as.Lhs) == len(as.Rhs) {
			for i, l := range as.Lhs {
				if id, ok := l.(*ast.Ident); ok {
					o := info.Defs[id]
					if o == nil {
						o = info.Uses[id]
					}
					if o != nil {
						assigns[o] = append(assigns[o], as.Rhs[i])
					}
				}
			}
		}
		return true
	})
	var leaves func(e ast.Expr, depth int, seen map[types.Object]bool) []string
	leaves = func(e ast.Expr, depth int, seen map[types.Object]bool) []string {
		e = ast.Unparen(e)
		if depth > 12 {
			return []string{"<too deep> " + types.ExprString(e)}
		}
		switch x := e.(type) {
		case *ast.Ident:
			o := info.Uses[x]
			if o == nil {
				o = info.Defs[x]
			}
			if _, isFn := o.(*types.Func); isFn {
				return []string{"mw:" + x.Name}
			}
			if seen[o] {
				return nil
			}
			if rhs, ok := assigns[o]; ok {
				seen[o] = true
				var out []string
				for _, r := range rhs {
					out = append(out, leaves(r, depth+1, seen)...)
				}
				return out
			}
			return []string{types.ExprString(e)}
		case *ast.CallExpr:
			var out []string
			had := false
			for _, a := range x.Args {
				if isHandlerish(info.TypeOf(a)) {
					had = true
					out = append(out, leaves(a, depth+1, seen)...)
				}
			}
			if len(out) == 0 && !had {
				return []string{types.ExprString(e)}
			}
			return out
		}
		return []string{types.ExprString(e)}
	}

	// exprText renders an expression with local variables replaced by what
	// they were assigned (used for the listen address of a server).
	var exprText func(e ast.Expr, depth int) string
	exprText = func(e ast.Expr, depth int) string {
		e = ast.Unparen(e)
		if depth > 6 {
			return types.ExprString(e)
		}
		switch x := e.(type) {
		case *ast.Ident:
			o := info.Uses[x]
			if o == nil {
				o = info.Defs[x]
			}
			if rhs := assigns[o]; len(rhs) == 1 {
				return exprText(rhs[0], depth+1)
			}
		case *ast.SelectorExpr:
			return exprText(x.X, depth+1) + "." + x.Sel.Name
		case *ast.CallExpr:
			args := make([]string, len(x.Args))
			for i, a := range x.Args {
				args[i] = exprText(a, depth+1)
			}
			return exprText(x.Fun, depth+1) + "(" + strings.Join(args, ", ") + ")"
		}
		return types.ExprString(e)
	}
	serverLit := func(x *ast.CompositeLit) {
		t := info.TypeOf(x)
		if !(isNamed(t, "net/http", "Server") || isNamed(t, "github.com/quic-go/quic-go/http3", "Server")) {
			return
		}
		sv := server{What: types.TypeString(t, nil) + " literal", Pos: pos(x.Pos()), Func: p.PkgPath + "." + fname,
			Leaves: []string{"http.DefaultServeMux"}}
		var handlerExpr ast.Expr
		for _, el := range x.Elts {
			kv, ok := el.(*ast.KeyValueExpr)
			if !ok {
				continue
			}
			if id, ok := kv.Key.(*ast.Ident); ok {
				switch id.Name {
				case "Handler":
					sv.Leaves = leaves(kv.Value, 0, map[types.Object]bool{})
					handlerExpr = kv.Value
				case "Addr":
					sv.Addr = exprText(kv.Value, 0)
				}
			}
		}
		tab.Servers = append(tab.Servers, sv)
		addMuxRow(info, assigns, &tab.Mux, sv.What, sv.Pos, sv.Func, sv.Addr, handlerExpr,
			"the literal has no Handler: net/http serves http.DefaultServeMux")
	}
	listenCall := func(call *ast.CallExpr, name string) {
		if len(call.Args) < 2 {
			return
		}
		addMuxRow(info, assigns, &tab.Mux, "http."+name, pos(call.Pos()), p.PkgPath+"."+fname, exprText(call.Args[0], 0), call.Args[len(call.Args)-1], "")
		tab.Servers = append(tab.Servers, server{What: "http." + name, Leaves: leaves(call.Args[len(call.Args)-1], 0, map[types.Object]bool{}),
			Pos: pos(call.Pos()), Func: p.PkgPath + "." + fname, Addr: exprText(call.Args[0], 0)})
	}

	var ifStack []ast.Node
	var visit func(n ast.Node) bool
	visit = func(n ast.Node) bool {
		switch x := n.(type) {
		case *ast.CallExpr:
			scanCall(p, info, x, fname, inHTTPRegister, ifStack, tab, listenCall)
			// new(http.Server): a server without a literal (nil Handler)
			if id, ok := ast.Unparen(x.Fun).(*ast.Ident); ok && id.Name == "new" && len(x.Args) == 1 {
				if _, isBuiltin := info.Uses[id].(*types.Builtin); isBuiltin {
					if tv, ok := info.Types[x.Args[0]]; ok && tv.IsType() && isServerType(tv.Type) {
						tab.Servers = append(tab.Servers, server{What: "new(" + types.TypeString(tv.Type, nil) + ")",
							Leaves: []string{"http.DefaultServeMux"}, Pos: pos(x.Pos()), Func: p.PkgPath + "." + fname, Addr: "?"})
						addMuxRow(info, assigns, &tab.Mux, "new("+types.TypeString(tv.Type, nil)+")", pos(x.Pos()), p.PkgPath+"."+fname, "?", nil,
							"a zero Server has a nil Handler: net/http serves http.DefaultServeMux")
					}
				}
			}
		case *ast.AssignStmt:
			if len(x.Lhs) == len(x.Rhs) {
				for i, l := range x.Lhs {
					// srv.Handler = h
					if sel, ok := ast.Unparen(l).(*ast.SelectorExpr); ok && sel.Sel.Name == "Handler" && isServerType(info.TypeOf(sel.X)) {
						tab.Servers = append(tab.Servers, server{What: "assignment to the Handler of a " + types.TypeString(info.TypeOf(sel.X), nil),
							Leaves: leaves(x.Rhs[i], 0, map[types.Object]bool{}), Pos: pos(x.Pos()), Func: p.PkgPath + "." + fname, Addr: "?"})
						addMuxRow(info, assigns, &tab.Mux, "assignment to the Handler of a "+types.TypeString(info.TypeOf(sel.X), nil),
							pos(x.Pos()), p.PkgPath+"."+fname, "?", x.Rhs[i], "")
					}
					if c, ok := ast.Unparen(x.Rhs[i]).(*ast.CallExpr); ok && isFunc(calleeObj(info, c.Fun), "net/http", "NewServeMux") {
						tab.Muxes = append(tab.Muxes, muxSite{Func: p.PkgPath + "." + fname, Target: types.ExprString(l), Pos: pos(c.Pos())})
					}
					if isRegisterFunc(info.TypeOf(l)) {
						tab.Bindings = append(tab.Bindings, classifySrc(info, x.Rhs[i]))
					}
				}
			}
		case *ast.ValueSpec:
			for _, nm := range x.Names {
				// var srv http.Server: a server without a literal (nil Handler)
				if t := info.TypeOf(nm); len(x.Values) == 0 && t != nil && isServerType(t) {
					if _, isPtr := types.Unalias(t).(*types.Pointer); !isPtr {
						tab.Servers = append(tab.Servers, server{What: "variable of type " + types.TypeString(t, nil) + " without a literal",
							Leaves: []string{"http.DefaultServeMux"}, Pos: pos(nm.Pos()), Func: p.PkgPath + "." + fname, Addr: "?"})
						addMuxRow(info, assigns, &tab.Mux, "variable of type "+types.TypeString(t, nil)+" without a literal", pos(nm.Pos()),
							p.PkgPath+"."+fname, "?", nil, "a zero Server has a nil Handler: net/http serves http.DefaultServeMux")
					}
				}
			}
			for i, nm := range x.Names {
				if i < len(x.Values) && isRegisterFunc(info.TypeOf(nm)) {
					tab.Bindings = append(tab.Bindings, classifySrc(info, x.Values[i]))
				}
			}
		case *ast.CompositeLit:
			for _, el := range x.Elts {
				kv, ok := el.(*ast.KeyValueExpr)
				if !ok {
					continue
				}
				if id, ok := kv.Key.(*ast.Ident); ok {
					if v, ok := info.Uses[id].(*types.Var); ok && v.IsField() && isRegisterFunc(v.Type()) {
						tab.Bindings = append(tab.Bindings, classifySrc(info, kv.Value))
					}
				}
			}
			serverLit(x)
		case *ast.ReturnStmt:
			// a function returning a RegisterFunc
			for _, r := range x.Results {
				if isRegisterFunc(info.TypeOf(r)) {
					tab.Bindings = append(tab.Bindings, classifySrc(info, r))
				}
			}
		case *ast.IfStmt:
			// keep track of the enclosing conditions (for httpRegister's own body)
			if x.Init != nil {
				ast.Inspect(x.Init, visit)
			}
			ast.Inspect(x.Cond, visit)
			ifStack = append(ifStack, x)
			ast.Inspect(x.Body, visit)
			ifStack = ifStack[:len(ifStack)-1]
			if x.Else != nil {
				ast.Inspect(x.Else, visit)
			}
			return false
		}
		return true
	}
	ast.Inspect(body, visit)
	scanMuxWrites(p, info, body, fname, &tab.Mux)
}

func isHandlerish(t types.Type) bool {
	if t == nil {
		return false
	}
	if _, ok := t.Underlying().(*types.Signature); ok {
		return true
	}
	if isServeMuxPtr(t) {
		return true
	}
	ms := types.NewMethodSet(t)
	for i := 0; i < ms.Len(); i++ {
		if ms.At(i).Obj().Name() == "ServeHTTP" {
			return true
		}
	}
	if _, ok := t.Underlying().(*types.Interface); ok {
		ms := types.NewMethodSet(t)
		for i := 0; i < ms.Len(); i++ {
			if ms.At(i).Obj().Name() == "ServeHTTP" {
				return true
			}
		}
	}
	return false
}

func scanCall(p *packages.Package, info *types.Info, call *ast.CallExpr, fname string, inHTTPRegister bool,
	ifStack []ast.Node, tab *table, listenCall func(*ast.CallExpr, string)) {
	o := calleeObj(info, call.Fun)
	// arguments bound to RegisterFunc parameters
	if sig, ok := types.Unalias(info.TypeOf(call.Fun)).Underlying().(*types.Signature); ok && sig != nil {
		if tv, isT := info.Types[call.Fun]; !(isT && tv.IsType()) {
			for i, a := range call.Args {
				var pt types.Type
				if i < sig.Params().Len() {
					pt = sig.Params().At(i).Type()
				} else if sig.Variadic() && sig.Params().Len() > 0 {
					if sl, ok := sig.Params().At(sig.Params().Len() - 1).Type().(*types.Slice); ok {
						pt = sl.Elem()
					}
				}
				if isRegisterFunc(pt) {
					tab.Bindings = append(tab.Bindings, classifySrc(info, a))
				}
			}
		}
	}
	// conversion RegisterFunc(x)
	if tv, ok := info.Types[call.Fun]; ok && tv.IsType() && isRegisterFunc(tv.Type) && len(call.Args) == 1 {
		tab.Bindings = append(tab.Bindings, classifySrc(info, call.Args[0]))
		return
	}

	// 1. through a RegisterFunc value / home.httpRegister
	viaReg := isFunc(o, homePath, "httpRegister")
	if tv, ok := info.Types[call.Fun]; ok && !tv.IsType() && isRegisterFunc(tv.Type) {
		viaReg = true
	}
	if viaReg {
		r := route{Kind: "ViaRegister", Mux: "globalContext.mux", Pos: pos(call.Pos()), Func: p.PkgPath + "." + fname}
		if len(call.Args) != 3 {
			r.Kind, r.Why = "Unresolved", "unexpected number of arguments"
		} else {
			m, ok1 := constString(info, call.Args[0])
			pat, ok2 := constString(info, call.Args[1])
			r.Method, r.Pattern = m, pat
			if !ok1 || !ok2 {
				r.Kind = "Unresolved"
				r.Why = "method or pattern is not a constant: " + types.ExprString(call.Args[0]) + ", " + types.ExprString(call.Args[1])
				if !ok2 {
					r.Pattern = types.ExprString(call.Args[1])
				}
			}
		}
		tab.Routes = append(tab.Routes, r)
		return
	}

	// 2. Handle / HandleFunc on a ServeMux, or on the default mux
	sel, isSel := ast.Unparen(call.Fun).(*ast.SelectorExpr)
	onMux := false
	muxText := ""
	if f, ok := o.(*types.Func); ok && (f.Name() == "Handle" || f.Name() == "HandleFunc") && f.Pkg() != nil && f.Pkg().Path() == "net/http" {
		if sig := f.Type().(*types.Signature); sig.Recv() != nil {
			if isServeMuxPtr(sig.Recv().Type()) && isSel {
				onMux, muxText = true, types.ExprString(sel.X)
			}
		} else {
			onMux, muxText = true, "http.DefaultServeMux"
		}
	}
	if onMux && len(call.Args) == 2 {
		chain := chainOf(info, call.Args[1])
		pat, okPat := constString(info, call.Args[0])
		if inHTTPRegister {
			// the definition of the guarded chain
			empty := false
			for _, n := range ifStack {
				if c, ok := n.(*ast.IfStmt); ok && types.ExprString(c.Cond) == `method == ""` {
					empty = true
				}
			}
			if empty {
				tab.RegEmpty = chain
			} else {
				tab.RegMethod = chain
			}
			if chain == nil {
				if empty {
					tab.RegEmpty = []wrapper{}
				} else {
					tab.RegMethod = []wrapper{}
				}
			}
			return
		}
		r := route{Kind: "Direct", Pattern: pat, Chain: chain, Mux: muxText, Pos: pos(call.Pos()), Func: p.PkgPath + "." + fname}
		if !okPat {
			r.Kind, r.Pattern = "Unresolved", types.ExprString(call.Args[0])
			r.Why = "pattern is not a constant"
		}
		tab.Routes = append(tab.Routes, r)
		return
	}

	// 3. muxes and servers
	if isFunc(o, "net/http", "NewServeMux") {
		known := false
		for _, m := range tab.Muxes {
			if m.Pos == pos(call.Pos()) {
				known = true
			}
		}
		if !known {
			tab.Muxes = append(tab.Muxes, muxSite{Func: p.PkgPath + "." + fname, Target: "<not assigned directly>", Pos: pos(call.Pos())})
		}
	}
	if f, ok := o.(*types.Func); ok && f.Pkg() != nil && f.Pkg().Path() == "net/http" && f.Type().(*types.Signature).Recv() == nil {
		switch f.Name() {
		case "ListenAndServe", "ListenAndServeTLS", "Serve", "ServeTLS":
			listenCall(call, f.Name())
		}
	}
}

// ---------------------------------------------------------------------------

func coqBytes(s string) string {
	if s == "" {
		return "(@nil N)"
	}
	parts := make([]string, len(s))
	for i := 0; i < len(s); i++ {
		parts[i] = fmt.Sprint(s[i])
	}
	return "[" + strings.Join(parts, ";") + "]%N"
}

func coqWrapper(w wrapper) string {
	switch w.Kind {
	case "PostInstall", "PreInstall", "OptionalAuth", "Gzip", "LimitBody":
		return "W" + w.Kind
	case "Ensure":
		return "(WEnsure " + coqBytes(w.Arg) + ")"
	}
	return "(WUnknown " + coqBytes(w.Arg) + ")"
}

func coqChain(ws []wrapper) string {
	if len(ws) == 0 {
		return "(@nil wrapper)"
	}
	parts := make([]string, len(ws))
	for i, w := range ws {
		parts[i] = coqWrapper(w)
	}
	return "[" + strings.Join(parts, "; ") + "]"
}

func comment(s string) string {
	return strings.NewReplacer("(*", "( *", "*)", "* )").Replace(s)
}

func writeOutputs(verif string, tab *table) {
	sort.SliceStable(tab.Routes, func(i, j int) bool { return tab.Routes[i].Pos < tab.Routes[j].Pos })
	rev, _ := exec.Command("git", "-C", repo, "rev-parse", "HEAD").Output()
	st, _ := exec.Command("git", "-C", repo, "status", "--porcelain").Output()
	var b strings.Builder
	fmt.Fprintf(&b, "(* Generated by tools/routes from %s at %s; working tree changes: %d line(s).  Do not edit. *)\n",
		repo, strings.TrimSpace(string(rev)), strings.Count(string(st), "\n"))
	b.WriteString("From AGH Require Import Base.Run Model.AuthHttp.\n\n")
	b.WriteString("Definition routes : list route := [\n")
	for i, r := range tab.Routes {
		var kind string
		switch r.Kind {
		case "ViaRegister":
			kind = "ViaRegister " + coqBytes(r.Method)
		case "Direct":
			kind = "Direct " + coqChain(r.Chain)
		default:
			kind = "Unresolved " + coqBytes(r.Why)
		}
		sep := ";"
		if i == len(tab.Routes)-1 {
			sep = ""
		}
		fmt.Fprintf(&b, "  (* %s %s  %s  in %s *)\n  {| rt_pattern := %s; rt_kind := %s; rt_mux := %s; rt_pos := %s |}%s\n",
			comment(r.Method), comment(r.Pattern), r.Pos, comment(r.Func), coqBytes(r.Pattern), kind, coqBytes(r.Mux), coqBytes(r.Pos), sep)
	}
	b.WriteString("].\n\n")
	fmt.Fprintf(&b, "(* the two registrations inside home.httpRegister *)\nDefinition reg_empty : list wrapper := %s.\nDefinition reg_method : list wrapper := %s.\n\n",
		coqChain(tab.RegEmpty), coqChain(tab.RegMethod))
	b.WriteString("(* every place a RegisterFunc value is bound *)\nDefinition bindings : list (bind_src * bytes) := [\n")
	for i, bd := range tab.Bindings {
		sep := ";"
		if i == len(tab.Bindings)-1 {
			sep = ""
		}
		fmt.Fprintf(&b, "  (* %s  %s *) (Src%s, %s)%s\n", comment(bd.Text), bd.Pos, bd.Src, coqBytes(bd.Pos), sep)
	}
	b.WriteString("].\n\n(* every http.NewServeMux call: enclosing function, position *)\nDefinition muxes : list (bytes * bytes * bytes) := [\n")
	for i, m := range tab.Muxes {
		sep := ";"
		if i == len(tab.Muxes)-1 {
			sep = ""
		}
		fmt.Fprintf(&b, "  (* %s := NewServeMux() in %s *) (%s, %s, %s)%s\n", comment(m.Target), comment(m.Func), coqBytes(m.Func), coqBytes(m.Target), coqBytes(m.Pos), sep)
	}
	b.WriteString("].\n\n(* the handler of every server: the expressions it is built from *)\nDefinition servers : list (bytes * bytes * bytes * list bytes) := [\n")
	for i, s := range tab.Servers {
		sep := ";"
		if i == len(tab.Servers)-1 {
			sep = ""
		}
		ls := make([]string, len(s.Leaves))
		for j, l := range s.Leaves {
			ls[j] = coqBytes(l)
		}
		lst := "(@nil bytes)"
		if len(ls) > 0 {
			lst = "[" + strings.Join(ls, "; ") + "]"
		}
		fmt.Fprintf(&b, "  (* %s in %s on %s: %s *) (%s, %s, %s, %s)%s\n", comment(s.What), comment(s.Func), comment(s.Addr), comment(strings.Join(s.Leaves, ", ")), coqBytes(s.Func), coqBytes(s.Pos), coqBytes(s.Addr), lst, sep)
	}
	b.WriteString("].\n")
	b.WriteString(coqStartup(&tab.Startup))
	b.WriteString(coqLife(&tab.Life))
	gen := filepath.Join(verif, "coq", "Gen")
	if err := os.MkdirAll(gen, 0o755); err != nil {
		fatal("%v", err)
	}
	writeIfChanged(filepath.Join(gen, "Routes.v"), []byte(b.String()))
	writeIfChanged(filepath.Join(gen, "AuthPins.v"), []byte(coqLogin(&tab.Login, strings.TrimSpace(string(rev)))+coqSessionKeys(&tab.Sessions)+coqLimiter(&tab.Limiter)))
	writeIfChanged(filepath.Join(gen, "RoutesMux.v"), []byte(coqMux(&tab.Mux, fmt.Sprintf(
		"(* Generated by tools/routes from %s at %s; working tree changes: %d line(s).  Do not edit. *)\n",
		repo, strings.TrimSpace(string(rev)), strings.Count(string(st), "\n")))))
	js, _ := json.MarshalIndent(tab, "", " ")
	writeIfChanged(filepath.Join(gen, "routes.json"), js)
	fmt.Printf("routes: %d routes, %d bindings, %d muxes, %d servers, %d mux rows, %d packages registering on the default mux (%d files)\n",
		len(tab.Routes), len(tab.Bindings), len(tab.Muxes), len(tab.Servers), len(tab.Mux.Rows), len(tab.Mux.Registrants), tab.Mux.DepsScanned)
}

func writeIfChanged(path string, data []byte) {
	if old, err := os.ReadFile(path); err == nil && string(old) == string(data) {
		return
	}
	if err := os.WriteFile(path, data, 0o644); err != nil {
		fatal("%v", err)
	}
}

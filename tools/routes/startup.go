package main

// Syntactic facts about the authentication glue of package home that the
// models of C11 / C12 take as parameters:
//
//   - start-up (home.go): initUsers turns a nil *Auth from InitAuth into a
//     non-nil error, run stops on that error, globalContext.auth has no other
//     writer;
//   - login (authhttp.go): the limiter is asked about, and counts under, the
//     address of the TCP peer.
//
// Everything here is conservative: an idiom that is not recognised yields
// false / "Other", which the theorems over the generated values reject.

import (
	"fmt"
	"go/ast"
	"go/token"
	"go/types"
	"strings"

	"golang.org/x/tools/go/packages"
)

type authAssign struct {
	Kind string `json:"kind"` // InitUsers Nil Other
	Text string `json:"text"`
	Pos  string `json:"pos"`
	Func string `json:"func"`
}

type startupFacts struct {
	Found        bool         `json:"found"`
	NilChecked   bool         `json:"nil_checked"`
	FailRetErr   bool         `json:"fail_ret_err"`
	RunFatal     bool         `json:"run_fatal"`
	FatalExits   bool         `json:"fatal_exits"`
	AssignsOK    bool         `json:"assigns_ok"`
	Assigns      []authAssign `json:"assigns"`
	Notes        []string     `json:"notes"`
	InitUsersPos string       `json:"init_users_pos"`
	RunAssignPos string       `json:"run_assign_pos"`
}

type loginFacts struct {
	Found    bool     `json:"found"`
	CheckKey string   `json:"check_key"` // Peer Other
	CountKey string   `json:"count_key"` // Peer Other
	Notes    []string `json:"notes"`
	Pos      string   `json:"pos"`
}

func (s *startupFacts) note(format string, a ...any) {
	s.Notes = append(s.Notes, fmt.Sprintf(format, a...))
}

func (l *loginFacts) note(format string, a ...any) {
	l.Notes = append(l.Notes, fmt.Sprintf(format, a...))
}

func findFunc(p *packages.Package, name string, recv string) *ast.FuncDecl {
	for _, f := range p.Syntax {
		for _, d := range f.Decls {
			fd, ok := d.(*ast.FuncDecl)
			if !ok || fd.Name.Name != name || fd.Body == nil {
				continue
			}
			if recv == "" && fd.Recv == nil {
				return fd
			}
			if recv != "" && fd.Recv != nil && len(fd.Recv.List) == 1 &&
				strings.TrimPrefix(types.ExprString(fd.Recv.List[0].Type), "*") == recv {
				return fd
			}
		}
	}
	return nil
}

func isNilIdent(info *types.Info, e ast.Expr) bool {
	id, ok := ast.Unparen(e).(*ast.Ident)
	if !ok {
		return false
	}
	_, isNil := info.Uses[id].(*types.Nil)
	return isNil
}

// isGlobalAuth reports whether e is the selector globalContext.auth.
func isGlobalAuth(info *types.Info, e ast.Expr) bool {
	sel, ok := ast.Unparen(e).(*ast.SelectorExpr)
	if !ok || sel.Sel.Name != "auth" {
		return false
	}
	id, ok := ast.Unparen(sel.X).(*ast.Ident)
	if !ok {
		return false
	}
	v, ok := info.Uses[id].(*types.Var)
	return ok && v.Pkg() != nil && v.Pkg().Path() == homePath && v.Name() == "globalContext" && v.Parent() == v.Pkg().Scope()
}

func callTo(info *types.Info, e ast.Expr, pkg, name string) (*ast.CallExpr, bool) {
	c, ok := ast.Unparen(e).(*ast.CallExpr)
	if !ok {
		return nil, false
	}
	return c, isFunc(calleeObj(info, c.Fun), pkg, name)
}

// surelyNonNilError: a call or conversion (errors.Error("..."),
// fmt.Errorf(...), errors.New(...)): never the nil interface.  An identifier
// (nil, or an err variable that may hold nil) is not accepted.
func surelyNonNilError(info *types.Info, e ast.Expr) bool {
	c, ok := ast.Unparen(e).(*ast.CallExpr)
	if !ok {
		return false
	}
	if tv, ok := info.Types[c.Fun]; ok && tv.IsType() {
		// a conversion T(x): non-nil unless T is an interface or pointer type
		switch types.Unalias(tv.Type).Underlying().(type) {
		case *types.Basic, *types.Struct:
			return true
		}
		return false
	}
	o := calleeObj(info, c.Fun)
	f, ok := o.(*types.Func)
	if !ok || f.Pkg() == nil {
		return false
	}
	switch f.Pkg().Path() + "." + f.Name() {
	case "fmt.Errorf", "errors.New", "github.com/AdguardTeam/golibs/errors.New":
		return true
	}
	return false
}

func scanStartup(p *packages.Package, st *startupFacts) {
	info := p.TypesInfo
	st.Found = true

	// --- initUsers
	st.NilChecked, st.FailRetErr = false, false
	if fd := findFunc(p, "initUsers", ""); fd == nil {
		st.note("home.initUsers not found")
	} else {
		st.InitUsersPos = pos(fd.Pos())
		list := fd.Body.List
		idx := -1
		var authObj types.Object
		for i, s := range list {
			as, ok := s.(*ast.AssignStmt)
			if !ok || len(as.Lhs) != 1 || len(as.Rhs) != 1 {
				continue
			}
			if _, ok := callTo(info, as.Rhs[0], homePath, "InitAuth"); !ok {
				continue
			}
			if id, ok := as.Lhs[0].(*ast.Ident); ok {
				authObj = info.ObjectOf(id)
				idx = i
			}
		}
		switch {
		case idx < 0:
			st.note("initUsers: no top-level statement `x = InitAuth(...)`")
		case idx+1 >= len(list):
			st.note("initUsers: nothing follows the InitAuth call")
		default:
			ifs, ok := list[idx+1].(*ast.IfStmt)
			cond, _ := func() (*ast.BinaryExpr, bool) {
				if !ok || ifs.Init != nil {
					return nil, false
				}
				b, ok := ast.Unparen(ifs.Cond).(*ast.BinaryExpr)
				return b, ok
			}()
			isCheck := cond != nil && cond.Op == token.EQL &&
				((isNilIdent(info, cond.Y) && identIs(info, cond.X, authObj)) || (isNilIdent(info, cond.X) && identIs(info, cond.Y, authObj)))
			if !isCheck {
				st.note("initUsers: the statement after the InitAuth call at %s is not `if <result> == nil`", pos(list[idx].Pos()))
				break
			}
			// the block must end in a return, and every return in it must
			// carry a surely non-nil error
			body := ifs.Body.List
			if len(body) == 0 {
				st.note("initUsers: empty nil-check block")
				break
			}
			if _, ok := body[len(body)-1].(*ast.ReturnStmt); !ok {
				st.note("initUsers: the nil-check block at %s does not end in a return", pos(ifs.Pos()))
				break
			}
			st.NilChecked = true
			good := true
			ast.Inspect(ifs.Body, func(n ast.Node) bool {
				if _, ok := n.(*ast.FuncLit); ok {
					return false
				}
				r, ok := n.(*ast.ReturnStmt)
				if !ok {
					return true
				}
				if len(r.Results) != 2 || !surelyNonNilError(info, r.Results[1]) {
					good = false
					txt := "bare return"
					if len(r.Results) == 2 {
						txt = types.ExprString(r.Results[1])
					}
					st.note("initUsers: the return at %s, taken when InitAuth failed, gives the error `%s`, which is not a freshly made error", pos(r.Pos()), txt)
				}
				return true
			})
			st.FailRetErr = good
		}
	}

	// --- run: globalContext.auth, err = initUsers(); fatalOnError(err)
	st.RunFatal = false
	if fd := findFunc(p, "run", ""); fd == nil {
		st.note("home.run not found")
	} else {
		found := false
		ast.Inspect(fd.Body, func(n ast.Node) bool {
			blk, ok := n.(*ast.BlockStmt)
			if !ok {
				return true
			}
			for i, s := range blk.List {
				as, ok := s.(*ast.AssignStmt)
				if !ok || len(as.Lhs) != 2 || len(as.Rhs) != 1 || !isGlobalAuth(info, as.Lhs[0]) {
					continue
				}
				if _, ok := callTo(info, as.Rhs[0], homePath, "initUsers"); !ok {
					continue
				}
				found = true
				st.RunAssignPos = pos(as.Pos())
				errID, _ := as.Lhs[1].(*ast.Ident)
				if errID == nil || i+1 >= len(blk.List) {
					st.note("run: nothing checks the error of initUsers at %s", pos(as.Pos()))
					continue
				}
				es, ok := blk.List[i+1].(*ast.ExprStmt)
				if !ok {
					st.note("run: the statement after initUsers at %s is not fatalOnError(err)", pos(as.Pos()))
					continue
				}
				c, ok := callTo(info, es.X, homePath, "fatalOnError")
				if !ok || len(c.Args) != 1 || !identIs(info, c.Args[0], info.ObjectOf(errID)) {
					st.note("run: the statement after initUsers at %s is not fatalOnError(err)", pos(as.Pos()))
					continue
				}
				st.RunFatal = true
			}
			return true
		})
		if !found {
			st.note("run: no statement `globalContext.auth, err = initUsers()`")
		}
	}

	// --- fatalOnError: if err != nil { log.Fatal(err) }
	st.FatalExits = false
	if fd := findFunc(p, "fatalOnError", ""); fd == nil {
		st.note("home.fatalOnError not found")
	} else if len(fd.Body.List) == 1 && fd.Type.Params != nil && len(fd.Type.Params.List) == 1 && len(fd.Type.Params.List[0].Names) == 1 {
		par := info.ObjectOf(fd.Type.Params.List[0].Names[0])
		ifs, ok := fd.Body.List[0].(*ast.IfStmt)
		if ok && ifs.Init == nil && ifs.Else == nil {
			if b, ok := ast.Unparen(ifs.Cond).(*ast.BinaryExpr); ok && b.Op == token.NEQ && identIs(info, b.X, par) && isNilIdent(info, b.Y) &&
				len(ifs.Body.List) >= 1 {
				if es, ok := ifs.Body.List[0].(*ast.ExprStmt); ok {
					if c, ok := ast.Unparen(es.X).(*ast.CallExpr); ok {
						if f, ok := calleeObj(info, c.Fun).(*types.Func); ok && f.Pkg() != nil {
							switch f.Pkg().Path() + "." + f.Name() {
							case "github.com/AdguardTeam/golibs/log.Fatal", "github.com/AdguardTeam/golibs/log.Fatalf", "os.Exit", "log.Fatal", "log.Fatalf":
								st.FatalExits = true
							}
						}
					}
				}
			}
		}
		if !st.FatalExits {
			st.note("fatalOnError at %s is not `if err != nil { log.Fatal(err) }`", pos(fd.Pos()))
		}
	} else {
		st.note("fatalOnError at %s is not `if err != nil { log.Fatal(err) }`", pos(fd.Pos()))
	}

	// --- every assignment to globalContext.auth
	st.Assigns = nil
	st.AssignsOK = true
	for _, f := range p.Syntax {
		for _, d := range f.Decls {
			fd, ok := d.(*ast.FuncDecl)
			if !ok || fd.Body == nil {
				continue
			}
			ast.Inspect(fd.Body, func(n ast.Node) bool {
				switch x := n.(type) {
				case *ast.AssignStmt:
					for i, l := range x.Lhs {
						if !isGlobalAuth(info, l) {
							continue
						}
						a := authAssign{Kind: "Other", Pos: pos(x.Pos()), Func: fd.Name.Name}
						if len(x.Rhs) == 1 && len(x.Lhs) == 2 && i == 0 {
							if _, ok := callTo(info, x.Rhs[0], homePath, "initUsers"); ok && fd.Name.Name == "run" && fd.Recv == nil {
								a.Kind = "InitUsers"
							}
							a.Text = types.ExprString(x.Rhs[0])
						} else if len(x.Rhs) == len(x.Lhs) {
							a.Text = types.ExprString(x.Rhs[i])
							if isNilIdent(info, x.Rhs[i]) && fd.Name.Name == "cleanup" && fd.Recv == nil && webClosedBefore(info, fd, x.Pos()) {
								a.Kind = "Nil"
							}
						}
						if a.Kind == "Other" {
							st.AssignsOK = false
							st.note("globalContext.auth is assigned `%s` in %s at %s", a.Text, a.Func, a.Pos)
						}
						st.Assigns = append(st.Assigns, a)
					}
				case *ast.UnaryExpr:
					if x.Op == token.AND && isGlobalAuth(info, x.X) {
						st.AssignsOK = false
						st.note("the address of globalContext.auth is taken at %s", pos(x.Pos()))
					}
				}
				return true
			})
		}
	}
	n := 0
	for _, a := range st.Assigns {
		if a.Kind == "InitUsers" {
			n++
		}
	}
	if n != 1 {
		st.AssignsOK = false
		st.note("%d assignments `globalContext.auth, err = initUsers()` in run, want 1", n)
	}
}

// webClosedBefore: inside cleanup, a call globalContext.web.close(...) occurs
// textually before position p.
func webClosedBefore(info *types.Info, fd *ast.FuncDecl, p token.Pos) bool {
	ok := false
	ast.Inspect(fd.Body, func(n ast.Node) bool {
		c, isCall := n.(*ast.CallExpr)
		if !isCall || c.Pos() >= p {
			return true
		}
		if sel, isSel := c.Fun.(*ast.SelectorExpr); isSel && sel.Sel.Name == "close" && types.ExprString(sel.X) == "globalContext.web" {
			ok = true
		}
		return true
	})
	return ok
}

func identIs(info *types.Info, e ast.Expr, o types.Object) bool {
	id, ok := ast.Unparen(e).(*ast.Ident)
	return ok && o != nil && info.ObjectOf(id) == o
}

// assignedOnlyFromPeer: variable v of function fd is assigned exactly once,
// as the first result of netutil.SplitHost(<req>.RemoteAddr).
func assignedOnlyFromPeer(info *types.Info, fd *ast.FuncDecl, v types.Object) (bool, string) {
	n, good := 0, 0
	why := ""
	ast.Inspect(fd.Body, func(nd ast.Node) bool {
		switch x := nd.(type) {
		case *ast.AssignStmt:
			for i, l := range x.Lhs {
				if !identIs(info, l, v) {
					continue
				}
				n++
				if i == 0 && len(x.Rhs) == 1 {
					if c, ok := ast.Unparen(x.Rhs[0]).(*ast.CallExpr); ok && len(c.Args) == 1 {
						if f, ok := calleeObj(info, c.Fun).(*types.Func); ok && f.Pkg() != nil &&
							f.Pkg().Path() == "github.com/AdguardTeam/golibs/netutil" && f.Name() == "SplitHost" {
							if sel, ok := ast.Unparen(c.Args[0]).(*ast.SelectorExpr); ok && sel.Sel.Name == "RemoteAddr" {
								if tv, ok := info.Types[sel.X]; ok {
									if pt, ok := types.Unalias(tv.Type).(*types.Pointer); ok && isNamed(pt.Elem(), "net/http", "Request") {
										good++
										continue
									}
								}
							}
						}
					}
				}
				why = fmt.Sprintf("%s is assigned at %s from something other than netutil.SplitHost(r.RemoteAddr)", v.Name(), pos(x.Pos()))
			}
		case *ast.UnaryExpr:
			if x.Op == token.AND && identIs(info, x.X, v) {
				n += 2
				why = fmt.Sprintf("the address of %s is taken at %s", v.Name(), pos(x.Pos()))
			}
		case *ast.IncDecStmt:
			if identIs(info, x.X, v) {
				n += 2
			}
		}
		return true
	})
	if n == 1 && good == 1 {
		return true, ""
	}
	if why == "" {
		why = fmt.Sprintf("%s is assigned %d times", v.Name(), n)
	}
	return false, why
}

func methodCall(info *types.Info, c *ast.CallExpr, recvType, name string) bool {
	sel, ok := c.Fun.(*ast.SelectorExpr)
	if !ok || sel.Sel.Name != name {
		return false
	}
	f, ok := info.Uses[sel.Sel].(*types.Func)
	if !ok {
		return false
	}
	sig, ok := f.Type().(*types.Signature)
	if !ok || sig.Recv() == nil {
		return false
	}
	t := sig.Recv().Type()
	if p, ok := types.Unalias(t).(*types.Pointer); ok {
		t = p.Elem()
	}
	return isNamed(t, homePath, recvType)
}

func scanLogin(p *packages.Package, lf *loginFacts) {
	info := p.TypesInfo
	lf.Found = true
	lf.CheckKey, lf.CountKey = "Other", "Other"
	hl := findFunc(p, "handleLogin", "")
	nc := findFunc(p, "newCookie", "Auth")
	if hl == nil || nc == nil {
		lf.note("handleLogin / (*Auth).newCookie not found")
		return
	}
	lf.Pos = pos(hl.Pos())
	// handleLogin: the arguments of rateLimiter.check and of newCookie
	var checkArgs, cookieArgs []ast.Expr
	ast.Inspect(hl.Body, func(n ast.Node) bool {
		c, ok := n.(*ast.CallExpr)
		if !ok {
			return true
		}
		if methodCall(info, c, "authRateLimiter", "check") && len(c.Args) == 1 {
			checkArgs = append(checkArgs, c.Args[0])
		}
		if methodCall(info, c, "Auth", "newCookie") && len(c.Args) == 2 {
			cookieArgs = append(cookieArgs, c.Args[1])
		}
		if methodCall(info, c, "authRateLimiter", "inc") || methodCall(info, c, "authRateLimiter", "remove") {
			lf.note("handleLogin calls inc/remove itself at %s", pos(c.Pos()))
			cookieArgs = append(cookieArgs, nil)
		}
		return true
	})
	peerVar := func(e ast.Expr) bool {
		id, ok := ast.Unparen(e).(*ast.Ident)
		if !ok {
			lf.note("the limiter key `%s` at %s is not a plain variable", types.ExprString(e), pos(e.Pos()))
			return false
		}
		ok, why := assignedOnlyFromPeer(info, hl, info.ObjectOf(id))
		if !ok {
			lf.note("handleLogin: %s", why)
		}
		return ok
	}
	if len(checkArgs) == 1 && peerVar(checkArgs[0]) {
		lf.CheckKey = "Peer"
	} else if len(checkArgs) != 1 {
		lf.note("handleLogin: %d calls of rateLimiter.check, want 1", len(checkArgs))
	}
	// newCookie: inc / remove with the address parameter, never reassigned
	var addrPar types.Object
	if ps := nc.Type.Params.List; len(ps) >= 1 {
		last := ps[len(ps)-1]
		if len(last.Names) >= 1 {
			addrPar = info.ObjectOf(last.Names[len(last.Names)-1])
		}
	}
	countOK := addrPar != nil
	nInc, nRem := 0, 0
	ast.Inspect(nc.Body, func(n ast.Node) bool {
		switch x := n.(type) {
		case *ast.CallExpr:
			isInc, isRem := methodCall(info, x, "authRateLimiter", "inc"), methodCall(info, x, "authRateLimiter", "remove")
			if isInc || isRem {
				if isInc {
					nInc++
				} else {
					nRem++
				}
				if len(x.Args) != 1 || !identIs(info, x.Args[0], addrPar) {
					countOK = false
					lf.note("newCookie: the limiter call at %s does not use the address parameter", pos(x.Pos()))
				}
			}
		case *ast.AssignStmt:
			for _, l := range x.Lhs {
				if identIs(info, l, addrPar) {
					countOK = false
					lf.note("newCookie: the address parameter is reassigned at %s", pos(x.Pos()))
				}
			}
		}
		return true
	})
	if nInc != 1 || nRem != 1 {
		countOK = false
		lf.note("newCookie: %d inc / %d remove calls, want 1 / 1", nInc, nRem)
	}
	if len(cookieArgs) != 1 || cookieArgs[0] == nil {
		countOK = false
		lf.note("handleLogin: %d calls of newCookie / direct limiter updates, want exactly one newCookie", len(cookieArgs))
	} else if !peerVar(cookieArgs[0]) {
		countOK = false
	} else if lf.CheckKey == "Peer" && !sameIdent(info, checkArgs[0], cookieArgs[0]) {
		countOK = false
		lf.note("handleLogin: check and newCookie are given different variables")
	}
	if countOK {
		lf.CountKey = "Peer"
	}
}

func sameIdent(info *types.Info, a, b ast.Expr) bool {
	x, ok1 := ast.Unparen(a).(*ast.Ident)
	y, ok2 := ast.Unparen(b).(*ast.Ident)
	return ok1 && ok2 && info.ObjectOf(x) == info.ObjectOf(y)
}

func coqBool(b bool) string {
	if b {
		return "true"
	}
	return "false"
}

func coqStartup(st *startupFacts) string {
	var b strings.Builder
	b.WriteString("\n(* start-up glue of home.go: initUsers / run / fatalOnError / writers of globalContext.auth *)\n")
	for _, n := range st.Notes {
		fmt.Fprintf(&b, "(* %s *)\n", comment(n))
	}
	for _, a := range st.Assigns {
		fmt.Fprintf(&b, "(* globalContext.auth := %s  in %s  %s  [%s] *)\n", comment(a.Text), comment(a.Func), a.Pos, a.Kind)
	}
	fmt.Fprintf(&b, "Definition startup : boot_code :=\n  {| bc_nil_checked := %s; bc_fail_ret_err := %s; bc_run_fatal := %s; bc_fatal_exits := %s; bc_assigns_ok := %s |}.\n",
		coqBool(st.Found && st.NilChecked), coqBool(st.Found && st.FailRetErr), coqBool(st.Found && st.RunFatal), coqBool(st.Found && st.FatalExits), coqBool(st.Found && st.AssignsOK))
	return b.String()
}

func coqLogin(lf *loginFacts, rev string) string {
	var b strings.Builder
	fmt.Fprintf(&b, "(* Generated by tools/routes from %s at %s.  Do not edit. *)\n", repo, rev)
	b.WriteString("From AGH Require Import Base.Run Model.RateLimit.\n\n")
	b.WriteString("(* handleLogin / newCookie: the address the limiter is asked about and the address it counts under *)\n")
	for _, n := range lf.Notes {
		fmt.Fprintf(&b, "(* %s *)\n", comment(n))
	}
	k := func(s string) string {
		if lf.Found && s == "Peer" {
			return "Some UsePeer"
		}
		return "None"
	}
	fmt.Fprintf(&b, "Definition login_check_key : option addr_choice := %s.\nDefinition login_count_key : option addr_choice := %s.\n", k(lf.CheckKey), k(lf.CountKey))
	return b.String()
}

// ---------------------------------------------------------------------------
// Session keys (auth.go, authhttp.go): which string indexes Auth.sessions and
// which bytes key the bucket, on the check side and on the removal side.

type sessionFacts struct {
	Found         bool     `json:"found"`
	CheckAsSent   bool     `json:"check_as_sent"`   // checkSession: a.sessions[sess], delete(a.sessions, sess), hex.DecodeString(sess), sess never reassigned
	RemoveAsSent  bool     `json:"remove_as_sent"`  // removeSession: delete(a.sessions, sess), sess never reassigned
	RemoveDecodes bool     `json:"remove_decodes"`  // removeSession: removeSessionFromFile(key) with key, _ := hex.DecodeString(sess)
	CookieValue   bool     `json:"cookie_value"`    // optionalAuth / optionalAuthThird / handleLogout pass <cookie>.Value of r.Cookie(sessionCookieName) unchanged
	Notes         []string `json:"notes"`
}

func (f *sessionFacts) note(format string, a ...any) {
	f.Notes = append(f.Notes, fmt.Sprintf(format, a...))
}

func lastParam(info *types.Info, fd *ast.FuncDecl) types.Object {
	ps := fd.Type.Params.List
	if len(ps) == 0 {
		return nil
	}
	last := ps[len(ps)-1]
	if len(last.Names) == 0 {
		return nil
	}
	return info.ObjectOf(last.Names[len(last.Names)-1])
}

func reassigned(info *types.Info, body ast.Node, v types.Object) bool {
	bad := false
	ast.Inspect(body, func(n ast.Node) bool {
		switch x := n.(type) {
		case *ast.AssignStmt:
			for _, l := range x.Lhs {
				if identIs(info, l, v) {
					bad = true
				}
			}
		case *ast.UnaryExpr:
			if x.Op == token.AND && identIs(info, x.X, v) {
				bad = true
			}
		}
		return true
	})
	return bad
}

// isSessionsMap: the selector <recv>.sessions of type map[string]*session.
func isSessionsMap(e ast.Expr) bool {
	sel, ok := ast.Unparen(e).(*ast.SelectorExpr)
	return ok && sel.Sel.Name == "sessions"
}

func isHexDecode(info *types.Info, c *ast.CallExpr) bool {
	f, ok := calleeObj(info, c.Fun).(*types.Func)
	return ok && f.Pkg() != nil && f.Pkg().Path() == "encoding/hex" && f.Name() == "DecodeString"
}

func scanSessionKeys(p *packages.Package, sf *sessionFacts) {
	info := p.TypesInfo
	sf.Found = true
	// --- checkSession
	if fd := findFunc(p, "checkSession", "Auth"); fd == nil {
		sf.note("(*Auth).checkSession not found")
	} else {
		par := lastParam(info, fd)
		ok := par != nil && !reassigned(info, fd.Body, par)
		if !ok {
			sf.note("checkSession: the cookie string parameter is reassigned")
		}
		nIdx := 0
		ast.Inspect(fd.Body, func(n ast.Node) bool {
			switch x := n.(type) {
			case *ast.IndexExpr:
				if isSessionsMap(x.X) {
					nIdx++
					if !identIs(info, x.Index, par) {
						ok = false
						sf.note("checkSession: Auth.sessions is indexed with `%s` at %s, not with the cookie string as sent", types.ExprString(x.Index), pos(x.Pos()))
					}
				}
			case *ast.CallExpr:
				if id, isID := x.Fun.(*ast.Ident); isID && id.Name == "delete" && len(x.Args) == 2 && isSessionsMap(x.Args[0]) && !identIs(info, x.Args[1], par) {
					ok = false
					sf.note("checkSession: delete(a.sessions, %s) at %s does not use the cookie string as sent", types.ExprString(x.Args[1]), pos(x.Pos()))
				}
				if isHexDecode(info, x) && (len(x.Args) != 1 || !identIs(info, x.Args[0], par)) {
					ok = false
					sf.note("checkSession: hex.DecodeString at %s is not applied to the cookie string as sent", pos(x.Pos()))
				}
			}
			return true
		})
		if nIdx == 0 {
			ok = false
			sf.note("checkSession: no lookup in Auth.sessions found")
		}
		sf.CheckAsSent = ok
	}
	// --- removeSession
	if fd := findFunc(p, "removeSession", "Auth"); fd == nil {
		sf.note("(*Auth).removeSession not found")
	} else {
		par := lastParam(info, fd)
		asSent := par != nil && !reassigned(info, fd.Body, par)
		nDel := 0
		var keyObj types.Object
		decodes := false
		ast.Inspect(fd.Body, func(n ast.Node) bool {
			switch x := n.(type) {
			case *ast.AssignStmt:
				if len(x.Rhs) == 1 && len(x.Lhs) == 2 {
					if c, isCall := ast.Unparen(x.Rhs[0]).(*ast.CallExpr); isCall && isHexDecode(info, c) && len(c.Args) == 1 && identIs(info, c.Args[0], par) {
						if id, isID := x.Lhs[0].(*ast.Ident); isID {
							keyObj = info.ObjectOf(id)
						}
					}
				}
			case *ast.CallExpr:
				if id, isID := x.Fun.(*ast.Ident); isID && id.Name == "delete" && len(x.Args) == 2 && isSessionsMap(x.Args[0]) {
					nDel++
					if !identIs(info, x.Args[1], par) {
						asSent = false
						sf.note("removeSession: delete(a.sessions, %s) at %s does not use the cookie string as sent", types.ExprString(x.Args[1]), pos(x.Pos()))
					}
				}
				if methodCall(info, x, "Auth", "removeSessionFromFile") {
					if len(x.Args) == 1 && keyObj != nil && identIs(info, x.Args[0], keyObj) {
						decodes = true
					} else {
						sf.note("removeSession: removeSessionFromFile(%s) at %s is not given the result of hex.DecodeString(<cookie string>)", types.ExprString(x.Args[0]), pos(x.Pos()))
					}
				}
			}
			return true
		})
		if nDel != 1 {
			asSent = false
			sf.note("removeSession: %d delete(a.sessions, ...) calls, want 1", nDel)
		}
		if keyObj != nil && reassigned2(info, fd.Body, keyObj) {
			decodes = false
			sf.note("removeSession: the decoded key is assigned more than once")
		}
		sf.RemoveAsSent, sf.RemoveDecodes = asSent, decodes
	}
	// --- the callers pass <cookie>.Value of r.Cookie(sessionCookieName)
	cv := true
	seen := 0
	for _, name := range []string{"optionalAuth", "optionalAuthThird", "handleLogout"} {
		fd := findFunc(p, name, "")
		if fd == nil {
			cv = false
			sf.note("home.%s not found", name)
			continue
		}
		ast.Inspect(fd.Body, func(n ast.Node) bool {
			c, ok := n.(*ast.CallExpr)
			if !ok || !(methodCall(info, c, "Auth", "checkSession") || methodCall(info, c, "Auth", "removeSession")) {
				return true
			}
			seen++
			good := false
			if len(c.Args) == 1 {
				if sel, ok := ast.Unparen(c.Args[0]).(*ast.SelectorExpr); ok && sel.Sel.Name == "Value" {
					if id, ok := ast.Unparen(sel.X).(*ast.Ident); ok && cookieVar(info, fd, info.ObjectOf(id)) {
						good = true
					}
				}
			}
			if !good {
				cv = false
				sf.note("%s: the session call at %s is not given <cookie>.Value of r.Cookie(sessionCookieName)", name, pos(c.Pos()))
			}
			return true
		})
	}
	if seen < 3 {
		cv = false
		sf.note("%d checkSession / removeSession calls in optionalAuth, optionalAuthThird, handleLogout, want at least 3", seen)
	}
	sf.CookieValue = cv
}

// reassigned2: v is assigned (or defined) more than once.
func reassigned2(info *types.Info, body ast.Node, v types.Object) bool {
	n := 0
	ast.Inspect(body, func(nd ast.Node) bool {
		if x, ok := nd.(*ast.AssignStmt); ok {
			for _, l := range x.Lhs {
				if identIs(info, l, v) {
					n++
				}
			}
		}
		return true
	})
	return n > 1
}

// cookieVar: v is assigned exactly once in fd, as the first result of
// <req>.Cookie(sessionCookieName).
func cookieVar(info *types.Info, fd *ast.FuncDecl, v types.Object) bool {
	n, good := 0, 0
	ast.Inspect(fd.Body, func(nd ast.Node) bool {
		x, ok := nd.(*ast.AssignStmt)
		if !ok {
			return true
		}
		for i, l := range x.Lhs {
			if !identIs(info, l, v) {
				continue
			}
			n++
			if i == 0 && len(x.Rhs) == 1 {
				if c, ok := ast.Unparen(x.Rhs[0]).(*ast.CallExpr); ok && len(c.Args) == 1 {
					if sel, ok := c.Fun.(*ast.SelectorExpr); ok && sel.Sel.Name == "Cookie" {
						if a, ok := ast.Unparen(c.Args[0]).(*ast.Ident); ok && a.Name == "sessionCookieName" {
							good++
						}
					}
				}
			}
		}
		return true
	})
	// handleLogout re-uses the variable for the cookie it sets afterwards
	return good == 1 && n <= 2
}

func coqSessionKeys(sf *sessionFacts) string {
	var b strings.Builder
	b.WriteString("\n(* auth.go / authhttp.go: the string that indexes Auth.sessions and the bytes that key the bucket *)\n")
	for _, n := range sf.Notes {
		fmt.Fprintf(&b, "(* %s *)\n", comment(n))
	}
	fmt.Fprintf(&b, "Definition session_check_as_sent : bool := %s.\nDefinition session_remove_as_sent : bool := %s.\nDefinition session_remove_decodes : bool := %s.\nDefinition session_cookie_value : bool := %s.\n",
		coqBool(sf.Found && sf.CheckAsSent), coqBool(sf.Found && sf.RemoveAsSent), coqBool(sf.Found && sf.RemoveDecodes), coqBool(sf.Found && sf.CookieValue))
	return b.String()
}

package main

// Round 5 (C11): when do the middleware constructors of package home look at
// the state?
//
// A route is wrapped once, when it is registered (newWebAPI,
// registerInstallHandlers, registerControlHandlers, httpRegister), and the
// world changes afterwards: globalContext.firstRun goes from true to false at
// the end of the wizard, accounts appear in globalContext.auth.  The model
// (Model/AuthLife.v apply_wrapper_at) ignores the world in which a wrapper is
// built.  That is justified by a syntactic fact about every constructor the
// chain reader of this tool knows (postInstall, preInstall, optionalAuth,
// ensure and their Handler / GET / POST forms, withMiddlewares,
// limitRequestBody): outside the function literals it returns, its body
//
//   - mentions no package-level variable (globalContext, config, ...), and
//   - calls nothing but other constructors of this set, its own parameters /
//     local variables, conversions and builtins.
//
// Whatever does not fit is reported as not lazy, which the theorem over the
// generated value (C11_wrappers_code) rejects.

import (
	"fmt"
	"go/ast"
	"go/types"
	"sort"
	"strings"

	"golang.org/x/tools/go/packages"
)

type lazyFact struct {
	Name string `json:"name"`
	Lazy bool   `json:"lazy"`
	Pos  string `json:"pos"`
	Note string `json:"note,omitempty"`
}

type lifeFacts struct {
	Wrappers  []lazyFact     `json:"wrappers"`
	Configure configureFacts `json:"configure"`
}

// configureFacts: the skeleton of (*webAPI).handleInstallConfigure that the
// model's do_configure (and the harness, which cannot run startMods) follows.
type configureFacts struct {
	Found        bool     `json:"found"`
	Order        bool     `json:"order"`          // firstRun = false; addUser; startMods; config.write; registerControlHandlers, in this order, at the top level
	ErrBranches  bool     `json:"err_branches"`   // each of the three calls is followed by `if err != nil { globalContext.firstRun = true; ...; return }`
	NoOtherWrite bool     `json:"no_other_write"` // no other assignment to globalContext.firstRun in the handler
	Writers      []string `json:"first_run_writers"`
	WritersOK    bool     `json:"writers_ok"` // globalContext.firstRun is written in setupContext (= detectFirstRun()) and in this handler only
	Notes        []string `json:"notes"`
	Pos          string   `json:"pos"`
}

func (c *configureFacts) note(format string, a ...any) {
	c.Notes = append(c.Notes, fmt.Sprintf(format, a...))
}

// constructors: every function of package home that the chain reader
// (chainOf) treats as a wrapper or looks through.
func wrapperConstructors() []string {
	set := map[string]bool{"ensure": true, "ensureHandler": true, "ensureGET": true, "ensurePOST": true,
		"ensurePUT": true, "ensureDELETE": true, "withMiddlewares": true}
	for k := range homeWrappers {
		set[k] = true
	}
	names := make([]string, 0, len(set))
	for k := range set {
		names = append(names, k)
	}
	sort.Strings(names)
	return names
}

// required: constructors that must exist (the others are optional forms).
var requiredConstructors = []string{"postInstall", "preInstall", "optionalAuth", "ensure"}

func scanLife(p *packages.Package, lf *lifeFacts) {
	info := p.TypesInfo
	known := map[string]bool{}
	for _, n := range wrapperConstructors() {
		known[n] = true
	}
	for _, name := range wrapperConstructors() {
		fd := findFunc(p, name, "")
		if fd == nil {
			for _, r := range requiredConstructors {
				if r == name {
					lf.Wrappers = append(lf.Wrappers, lazyFact{Name: name, Lazy: false, Note: "function not found"})
				}
			}
			continue
		}
		fact := lazyFact{Name: name, Lazy: true, Pos: pos(fd.Pos())}
		bad := func(format string, a ...any) {
			if fact.Lazy {
				fact.Lazy = false
				fact.Note = fmt.Sprintf(format, a...)
			}
		}
		ast.Inspect(fd.Body, func(n ast.Node) bool {
			switch x := n.(type) {
			case *ast.FuncLit:
				return false // what runs per request
			case *ast.Ident:
				if v, ok := info.Uses[x].(*types.Var); ok && v.Pkg() != nil && v.Parent() == v.Pkg().Scope() {
					bad("%s reads the package-level variable %s at %s when it is called, not when the request arrives", name, x.Name, pos(x.Pos()))
				}
			case *ast.CallExpr:
				if tv, ok := info.Types[x.Fun]; ok && tv.IsType() {
					return true // conversion
				}
				switch o := calleeObj(info, x.Fun).(type) {
				case *types.Builtin:
				case *types.Var:
					if o.Pkg() != nil && o.Parent() == o.Pkg().Scope() {
						bad("%s calls the package-level function value %s at %s when it is called", name, o.Name(), pos(x.Pos()))
					}
				case *types.Func:
					if !(o.Pkg() != nil && o.Pkg().Path() == homePath && known[o.Name()] && o.Type().(*types.Signature).Recv() == nil) {
						bad("%s calls %s at %s when it is called (not a wrapper constructor): what it reads there is fixed at registration time",
							name, strings.TrimPrefix(o.FullName(), modPath+"/"), pos(x.Pos()))
					}
				default:
					bad("%s makes a call at %s that is not understood", name, pos(x.Pos()))
				}
			}
			return true
		})
		lf.Wrappers = append(lf.Wrappers, fact)
	}
	scanConfigure(p, &lf.Configure)
}

func coqLife(lf *lifeFacts) string {
	var b strings.Builder
	b.WriteString("\n(* round 5: does a wrapper constructor evaluate nothing but other constructors when it is called? *)\n")
	items := make([]string, len(lf.Wrappers))
	for i, w := range lf.Wrappers {
		if w.Note != "" {
			fmt.Fprintf(&b, "(* %s *)\n", comment(w.Note))
		}
		items[i] = fmt.Sprintf("  (* %s  %s *) (%s, %s)", comment(w.Name), w.Pos, coqBytes(w.Name), coqBool(w.Lazy))
	}
	if len(items) == 0 {
		b.WriteString("Definition wrappers_lazy : list (bytes * bool) := [].\n")
		b.WriteString(coqConfigure(&lf.Configure))
		return b.String()
	}
	b.WriteString("Definition wrappers_lazy : list (bytes * bool) := [\n" + strings.Join(items, ";\n") + "\n].\n")
	b.WriteString(coqConfigure(&lf.Configure))
	return b.String()
}

// isGlobalField reports whether e is globalContext.<name>.
func isGlobalField(info *types.Info, e ast.Expr, name string) bool {
	sel, ok := ast.Unparen(e).(*ast.SelectorExpr)
	if !ok || sel.Sel.Name != name {
		return false
	}
	id, ok := ast.Unparen(sel.X).(*ast.Ident)
	if !ok {
		return false
	}
	v, ok := info.Uses[id].(*types.Var)
	return ok && v.Pkg() != nil && v.Pkg().Path() == homePath && v.Name() == "globalContext" && v.Parent() == v.Pkg().Scope()
}

// firstRunAssign: stmt is `globalContext.firstRun = <true|false>`; val is the constant.
func firstRunAssign(info *types.Info, st ast.Stmt) (val, ok bool) {
	as, isAs := st.(*ast.AssignStmt)
	if !isAs || len(as.Lhs) != 1 || len(as.Rhs) != 1 || !isGlobalField(info, as.Lhs[0], "firstRun") {
		return false, false
	}
	id, isID := ast.Unparen(as.Rhs[0]).(*ast.Ident)
	if !isID {
		return false, false
	}
	if c, isC := info.Uses[id].(*types.Const); isC && c.Parent() == types.Universe {
		return id.Name == "true", id.Name == "true" || id.Name == "false"
	}
	return false, false
}

// errAssignCall: stmt is `err = <call>` (or `err := <call>`); returns the call.
func errAssignCall(st ast.Stmt) *ast.CallExpr {
	as, ok := st.(*ast.AssignStmt)
	if !ok || len(as.Lhs) != 1 || len(as.Rhs) != 1 {
		return nil
	}
	if id, isID := as.Lhs[0].(*ast.Ident); !isID || id.Name != "err" {
		return nil
	}
	c, _ := ast.Unparen(as.Rhs[0]).(*ast.CallExpr)
	return c
}

func scanConfigure(p *packages.Package, cf *configureFacts) {
	info := p.TypesInfo
	fd := findFunc(p, "handleInstallConfigure", "webAPI")
	if fd == nil {
		cf.note("(*webAPI).handleInstallConfigure not found")
		return
	}
	cf.Found, cf.Pos = true, pos(fd.Pos())
	stmts := fd.Body.List
	idx := map[string]int{"false": -1, "addUser": -1, "startMods": -1, "write": -1, "register": -1}
	for i, st := range stmts {
		if v, ok := firstRunAssign(info, st); ok && !v && idx["false"] < 0 {
			idx["false"] = i
		}
		if c := errAssignCall(st); c != nil {
			switch {
			case methodCall(info, c, "Auth", "addUser") && idx["addUser"] < 0:
				if sel, ok := ast.Unparen(c.Fun).(*ast.SelectorExpr); ok && isGlobalAuth(info, sel.X) {
					idx["addUser"] = i
				}
			case isFunc(calleeObj(info, c.Fun), homePath, "startMods") && idx["startMods"] < 0:
				idx["startMods"] = i
			case methodCall(info, c, "configuration", "write") && idx["write"] < 0:
				idx["write"] = i
			}
		}
		if es, ok := st.(*ast.ExprStmt); ok {
			if c, ok := es.X.(*ast.CallExpr); ok && isFunc(calleeObj(info, c.Fun), homePath, "registerControlHandlers") && idx["register"] < 0 {
				idx["register"] = i
			}
		}
	}
	cf.Order = idx["false"] >= 0 && idx["false"] < idx["addUser"] && idx["addUser"] < idx["startMods"] &&
		idx["startMods"] < idx["write"] && idx["write"] < idx["register"]
	if !cf.Order {
		cf.note("handleInstallConfigure: the statements firstRun = false; err = globalContext.auth.addUser(..); err = startMods(..); err = config.write(..); registerControlHandlers(web) were not found in this order at the top level of the body (%v)", idx)
	}
	// the error branches
	cf.ErrBranches = cf.Order
	for _, k := range []string{"addUser", "startMods", "write"} {
		i := idx[k]
		if i < 0 || i+1 >= len(stmts) {
			cf.ErrBranches = false
			continue
		}
		ifs, ok := stmts[i+1].(*ast.IfStmt)
		good := ok && ifs.Init == nil && ifs.Else == nil && len(ifs.Body.List) >= 2
		if good {
			be, isBin := ast.Unparen(ifs.Cond).(*ast.BinaryExpr)
			good = isBin && be.Op.String() == "!=" && isNilIdent(info, be.Y)
			if id, isID := ast.Unparen(be.X).(*ast.Ident); good && (!isID || id.Name != "err") {
				good = false
			}
		}
		if good {
			v, isAs := firstRunAssign(info, ifs.Body.List[0])
			_, isRet := ifs.Body.List[len(ifs.Body.List)-1].(*ast.ReturnStmt)
			good = isAs && v && isRet
		}
		if !good {
			cf.ErrBranches = false
			cf.note("handleInstallConfigure: the call of %s at %s is not followed by `if err != nil { globalContext.firstRun = true; ...; return }`", k, pos(stmts[i].Pos()))
		}
	}
	// other writes of firstRun inside the handler
	n := 0
	ast.Inspect(fd.Body, func(nd ast.Node) bool {
		if as, ok := nd.(*ast.AssignStmt); ok {
			for _, l := range as.Lhs {
				if isGlobalField(info, l, "firstRun") {
					n++
				}
			}
		}
		return true
	})
	cf.NoOtherWrite = n == 4
	if !cf.NoOtherWrite {
		cf.note("handleInstallConfigure assigns globalContext.firstRun %d times (expected: false once, true in the three error branches)", n)
	}
	// writers of globalContext.firstRun in the package
	cf.WritersOK = true
	for _, f := range p.Syntax {
		for _, d := range f.Decls {
			g, ok := d.(*ast.FuncDecl)
			if !ok || g.Body == nil {
				continue
			}
			ast.Inspect(g.Body, func(nd ast.Node) bool {
				switch x := nd.(type) {
				case *ast.AssignStmt:
					for i, l := range x.Lhs {
						if !isGlobalField(info, l, "firstRun") {
							continue
						}
						cf.Writers = append(cf.Writers, g.Name.Name+" "+pos(x.Pos()))
						switch g.Name.Name {
						case "handleInstallConfigure":
						case "setupContext":
							if len(x.Rhs) != len(x.Lhs) {
								cf.WritersOK = false
							} else if _, ok := callTo(info, x.Rhs[i], homePath, "detectFirstRun"); !ok {
								cf.WritersOK = false
								cf.note("setupContext assigns globalContext.firstRun something else than detectFirstRun() at %s", pos(x.Pos()))
							}
						default:
							cf.WritersOK = false
							cf.note("globalContext.firstRun is also assigned in %s at %s", g.Name.Name, pos(x.Pos()))
						}
					}
				case *ast.UnaryExpr:
					if x.Op.String() == "&" && isGlobalField(info, x.X, "firstRun") {
						cf.WritersOK = false
						cf.note("the address of globalContext.firstRun is taken in %s at %s", g.Name.Name, pos(x.Pos()))
					}
				case *ast.IncDecStmt:
					if isGlobalField(info, x.X, "firstRun") {
						cf.WritersOK = false
					}
				}
				return true
			})
		}
	}
	sort.Strings(cf.Writers)
}

func coqConfigure(cf *configureFacts) string {
	var b strings.Builder
	b.WriteString("\n(* round 5: the skeleton of handleInstallConfigure and the writers of globalContext.firstRun *)\n")
	for _, n := range cf.Notes {
		fmt.Fprintf(&b, "(* %s *)\n", comment(n))
	}
	for _, w := range cf.Writers {
		fmt.Fprintf(&b, "(* globalContext.firstRun is assigned in %s *)\n", comment(w))
	}
	fmt.Fprintf(&b, "Definition configure_code : bool * bool * bool * bool := (%s, %s, %s, %s).\n",
		coqBool(cf.Found && cf.Order), coqBool(cf.Found && cf.ErrBranches), coqBool(cf.Found && cf.NoOtherWrite), coqBool(cf.Found && cf.WritersOK))
	return b.String()
}

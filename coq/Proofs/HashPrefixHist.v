(** C19, round 4: cache transparency when the lookup service's database
    changes between checks.

    With one database for the whole history every cache entry is exact for
    that database (Proofs/HashPrefix.v, [cache_inv]).  With a database that
    changes, an entry is exact for the database AS IT WAS WHEN THE ENTRY WAS
    STORED.  The snapshot [g p] is that database, per prefix; it is a ghost of
    the proof (the cache does not store it), updated by [snap_step] at every
    check: the prefixes whose entry the check rewrote get the current
    database.

    The verdict of a check is then: some enumerated name's hash is in the
    snapshot of its prefix if the entry for that prefix is there and has not
    expired, and in the database as it is now otherwise; and the question sent
    holds exactly the prefixes of the enumerated names without such an entry. *)
From Coq Require Import ZArith NArith List Bool Lia.
From AGH Require Import Base.Run Base.Bytes Model.HashPrefix Model.HashPrefixLRU Proofs.HashPrefix.
Import ListNotations.

#[local] Arguments prefix_of : simpl never.

(** * The store lemmas for an arbitrary predicate on entries *)

Definition cache_invG (G : prefix -> citem -> Prop) (c : cache) : Prop :=
  forall p it, cget p c = Some it -> G p it.

Lemma evict_invG G ps : forall c,
  cache_invG G c -> cache_invG G (fold_left (fun c p => cdel p c) ps c).
Proof.
  induction ps as [|p ps IH]; intros c H; cbn [fold_left]; auto.
  apply IH. intros q it Hq. apply cget_cdel_Some in Hq. now apply H.
Qed.

Lemma cset_o_invG G e p it c :
  cache_invG G c -> G p it -> cache_invG G (cset_o e p it c).
Proof.
  intros Hc He. unfold cset_o. pose proof (evict_invG G (fst e) c Hc) as H1.
  destruct (snd e); auto. intros q it'. destruct (eqb_bytes p q) eqn:E.
  - apply eqb_bytes_eq in E. subst q. rewrite cget_cset_eq. now intros [= <-].
  - apply eqb_bytes_neq in E. rewrite cget_cset_ne by auto. apply H1.
Qed.

Section Store.
  Variable G : prefix -> citem -> Prop.
  Variable db : list hash.
  (** Whatever is exact for the current database is acceptable. *)
  Hypothesis G_db : forall p it, entry_ok db p it -> G p it.

  Lemma store_pos_invG exp resp asked :
    answer_ok db asked resp ->
    forall ps evs c,
      (forall p, In p ps -> In p (map prefix_of resp)) ->
      cache_invG G c -> cache_invG G (fst (store_pos exp resp ps evs c)).
  Proof.
    intros Hans. induction ps as [|p ps IH]; intros evs c Hps Hinv; cbn [store_pos]; auto.
    destruct (pop evs) as [e evs']. apply IH; [intros; apply Hps; now right|].
    apply cset_o_invG; auto. apply G_db. intros h. cbn [c_hashes]. rewrite filter_In, eqb_bytes_eq.
    assert (Hp : In p (map prefix_of resp)) by (apply Hps; now left).
    apply in_map_iff in Hp. destruct Hp as (h0 & Hp0 & H0). split.
    - intros [Hr Hpre]. split; auto. now apply Hans.
    - intros [Hd Hpre]. split; auto. apply Hans. split; auto.
      rewrite Hpre, <- Hp0. now apply Hans.
  Qed.

  Lemma store_neg_invG exp resp asked :
    answer_ok db asked resp ->
    forall l evs c,
      (forall h, In h l -> In (prefix_of h) asked) ->
      cache_invG G c ->
      cache_invG G (fst (store_neg exp (dedup (map prefix_of resp)) l evs c)).
  Proof.
    intros Hans. induction l as [|h l IH]; intros evs c Hl Hinv; cbn [store_neg]; auto.
    assert (Hl' : forall h0, In h0 l -> In (prefix_of h0) asked) by (intros; apply Hl; now right).
    destruct (cget (prefix_of h) c); [now apply IH|].
    destruct (mem_hash (prefix_of h) (dedup (map prefix_of resp))) eqn:M; [now apply IH|].
    destruct (pop evs) as [e evs']. apply IH; auto.
    apply cset_o_invG; auto. apply G_db. intros x. cbn [c_hashes]. split; [intros []|]. intros [Hx Hp].
    apply mem_hash_false in M. apply M. apply dedup_In. rewrite <- Hp. apply in_map.
    apply Hans. split; auto. rewrite Hp. apply Hl. now left.
  Qed.

  Lemma store_in_cache_invG exp to_req resp order evs c :
    answer_ok db (map prefix_of to_req) resp ->
    cache_invG G c ->
    cache_invG G (fst (store_in_cache exp to_req resp order evs c)).
  Proof.
    intros Hans Hinv. unfold store_in_cache.
    pose proof (store_pos_invG exp resp _ Hans
                  (filter (fun p => mem_hash p (dedup (map prefix_of resp))) order) evs c) as H1.
    destruct (store_pos exp resp _ evs c) as [c1 evs1]. cbn [fst] in H1.
    apply store_neg_invG with (asked := map prefix_of to_req); [exact Hans| |].
    - intros h Hh. apply in_map. exact Hh.
    - apply H1; auto. intros p Hp. apply filter_In in Hp. destruct Hp as [_ Hp].
      apply (proj1 (mem_hash_In _ _)) in Hp. apply (proj1 (dedup_In _ _)) in Hp. exact Hp.
  Qed.
End Store.

(** * Snapshots *)

Definition snap := prefix -> list hash.

(** Every entry is exact for the database of its snapshot. *)
Definition snap_inv (g : snap) (c : cache) : Prop :=
  forall p it, cget p c = Some it -> entry_ok (g p) p it.

Fixpoint eqb_hashes (a b : list hash) : bool :=
  match a, b with
  | [], [] => true
  | x :: a', y :: b' => eqb_bytes x y && eqb_hashes a' b'
  | _, _ => false
  end.

Lemma eqb_hashes_eq a : forall b, eqb_hashes a b = true <-> a = b.
Proof.
  induction a as [|x a IH]; intros [|y b]; cbn; try (split; congruence).
  rewrite andb_true_iff, eqb_bytes_eq, IH. split; [intros [-> ->]; auto|intros [= -> ->]; auto].
Qed.

Definition same_entry (a b : option citem) : bool :=
  match a, b with
  | None, None => true
  | Some x, Some y => (c_expiry x =? c_expiry y)%Z && eqb_hashes (c_hashes x) (c_hashes y)
  | _, _ => false
  end.

Lemma same_entry_eq a b : same_entry a b = true <-> a = b.
Proof.
  destruct a as [[e1 h1]|], b as [[e2 h2]|]; cbn; try (split; congruence).
  rewrite andb_true_iff, Z.eqb_eq, eqb_hashes_eq. split; [intros [-> ->]; auto|intros [= -> ->]; auto].
Qed.

(** After a check against database [db] that turned cache [c] into [c']: the
    prefixes whose entry is no longer what it was were stored from [db]. *)
Definition snap_step (db : list hash) (c c' : cache) (g : snap) : snap :=
  fun p => if same_entry (cget p c) (cget p c') then g p else db.

(** [storeInCache] with an answer from [db]: every entry afterwards is an entry
    from before or exact for [db]. *)
Lemma store_in_cache_old_or_new db exp to_req resp order evs c :
  answer_ok db (map prefix_of to_req) resp ->
  forall p it, cget p (fst (store_in_cache exp to_req resp order evs c)) = Some it ->
               cget p c = Some it \/ entry_ok db p it.
Proof.
  intros Hans.
  apply (store_in_cache_invG (fun p it => cget p c = Some it \/ entry_ok db p it) db); auto.
  intros p it H. now left.
Qed.

Lemma snap_step_inv db g c c' :
  snap_inv g c ->
  (forall p it, cget p c' = Some it -> cget p c = Some it \/ entry_ok db p it) ->
  snap_inv (snap_step db c c' g) c'.
Proof.
  intros Hinv Hon p it Hp. unfold snap_step.
  destruct (same_entry (cget p c) (cget p c')) eqn:E.
  - apply same_entry_eq in E. apply Hinv. congruence.
  - destruct (Hon p it Hp) as [H|H]; auto.
    assert (same_entry (cget p c) (cget p c') = true) by (apply same_entry_eq; congruence).
    congruence.
Qed.

Lemma snap_step_same db g c p : snap_step db c c g p = g p.
Proof.
  unfold snap_step. replace (same_entry (cget p c) (cget p c)) with true; auto.
  symmetry. now apply same_entry_eq.
Qed.

Lemma evict_snap_inv g ps c : snap_inv g c -> snap_inv g (fold_left (fun c p => cdel p c) ps c).
Proof. apply (evict_invG (fun p it => entry_ok (g p) p it)). Qed.

Lemma existsb_ext_in' {A} (f g : A -> bool) l :
  (forall x, In x l -> f x = g x) -> existsb f l = existsb g l.
Proof.
  induction l as [|a l IH]; intros H; cbn [existsb]; auto.
  rewrite (H a) by now left. f_equal. apply IH. intros; apply H; now right.
Qed.

Lemma is_live_prefix now c h h' : prefix_of h = prefix_of h' -> is_live now c h = is_live now c h'.
Proof. intros E. unfold is_live, live. now rewrite E. Qed.

Section WithOracles.
  Variable sha : bytes -> hash.
  Variable pubsuf : bytes -> bytes * bool.
  Variable suffix : bytes.
  Variable cache_time : Z.

  Notation hashes_of := (hostname_to_hashes sha pubsuf).
  Notation check := (check sha pubsuf suffix cache_time).

  (** The enumerated names' hashes that have no entry, or an expired one. *)
  Definition unanswered (now : Z) (c : cache) (host : bytes) : list hash :=
    filter (fun h => negb (is_live now c h)) (hashes_of host).

  (** ** What is asked, for every cache content and every service *)

  (** If a question is sent, it holds the prefix of every enumerated name that
      has no valid entry, one label per such name, in the order of the names,
      and nothing else. *)
  Theorem question_exact svc order evs now host c q :
    o_question (snd (check svc order evs now host c)) = Some q ->
    unanswered now c host <> [] /\ q = question suffix (unanswered now c host).
  Proof.
    unfold HashPrefix.check, unanswered.
    pose proof (find_in_cache_spec now c (hashes_of host)) as S.
    destruct (find_in_cache now c (hashes_of host)) as [| |hs]; cbn [snd o_question]; try discriminate.
    destruct S as (E & Hne & _). rewrite <- E.
    destruct (svc (map prefix_of hs)); [destruct (store_in_cache _ _ _ _ _ _)|];
      cbn [snd o_question]; intros [= <-]; auto.
  Qed.

  (** A name the service lists now and for whose prefix the cache has no valid
      entry blocks the host, whatever else the cache holds (any content, no
      invariant), whenever the service answers. *)
  Theorem listed_unanswered_blocks db svc order evs now host c h :
    svc_ok db svc ->
    In h (hashes_of host) -> is_live now c h = false -> In h db ->
    o_err (snd (check svc order evs now host c)) = false ->
    o_blocked (snd (check svc order evs now host c)) = true.
  Proof.
    intros Hsvc Hh Hl Hdb. unfold HashPrefix.check.
    pose proof (find_in_cache_spec now c (hashes_of host)) as S.
    destruct (find_in_cache now c (hashes_of host)) as [| |hs]; cbn [snd o_err o_blocked]; auto.
    - destruct (S h Hh) as (it & L & _). unfold is_live in Hl. rewrite L in Hl. discriminate.
    - destruct S as (E & _ & _). specialize (Hsvc (map prefix_of hs)).
      destruct (svc (map prefix_of hs)) as [strs|]; cbn [snd o_err o_blocked]; [|discriminate].
      destruct (store_in_cache _ _ _ _ _ _). cbn [snd o_err o_blocked]. intros _.
      assert (Hin : In h hs) by (rewrite E; apply filter_In; rewrite Hl; auto).
      apply find_match_spec. exists h. split; auto. apply Hsvc. split; auto. now apply in_map.
  Qed.

  (** ** The verdict *)

  (** Name by name: the snapshot of the prefix for a valid entry, the database
      as it is now otherwise. *)
  Definition snap_verdict (g : snap) (db : list hash) (now : Z) (c : cache) (host : bytes) : bool :=
    existsb (fun h => if is_live now c h then mem_hash h (g (prefix_of h)) else mem_hash h db)
            (hashes_of host).

  (** A valid entry already says "blocked". *)
  Definition cache_blocks (g : snap) (now : Z) (c : cache) (host : bytes) : bool :=
    existsb (fun h => is_live now c h && mem_hash h (g (prefix_of h))) (hashes_of host).

  Definition expected_question (g : snap) (now : Z) (c : cache) (host : bytes) : option bytes :=
    if cache_blocks g now c host then None
    else match unanswered now c host with
         | [] => None
         | hs => Some (question suffix hs)
         end.

  Lemma snap_verdict_spec g db now c host :
    snap_verdict g db now c host = true <->
    exists n, In n (names_to_hash pubsuf host) /\
              (is_live now c (sha n) = true -> In (sha n) (g (prefix_of (sha n)))) /\
              (is_live now c (sha n) = false -> In (sha n) db).
  Proof.
    unfold snap_verdict, hostname_to_hashes. rewrite existsb_exists. split.
    - intros (h & Hh & H). apply in_map_iff in Hh. destruct Hh as (n & <- & Hn).
      exists n. split; auto. destruct (is_live now c (sha n)); apply mem_hash_In in H;
        split; intros; auto; discriminate.
    - intros (n & Hn & H1 & H2). exists (sha n). split; [now apply in_map|].
      destruct (is_live now c (sha n)); apply mem_hash_In; auto.
  Qed.

  (** When the snapshots of the valid entries agree with the database as it is
      now on the enumerated names, the verdict is the one of a lookup with an
      empty cache. *)
  Lemma snap_verdict_current g db now c host :
    (forall h, In h (hashes_of host) -> is_live now c h = true ->
               (In h (g (prefix_of h)) <-> In h db)) ->
    snap_verdict g db now c host = db_verdict sha pubsuf db host.
  Proof.
    intros H. unfold snap_verdict, db_verdict, find_match.
    apply existsb_ext_in'. intros h Hh. destruct (is_live now c h) eqn:L; auto.
    specialize (H h Hh L).
    destruct (mem_hash h (g (prefix_of h))) eqn:A, (mem_hash h db) eqn:B; auto.
    - apply mem_hash_In in A. apply H in A. apply mem_hash_In in A. congruence.
    - apply mem_hash_In in B. apply H in B. apply mem_hash_In in B. congruence.
  Qed.

  Lemma live_entry now c h it : live now c h = Some it -> is_live now c h = true.
  Proof. unfold is_live. now intros ->. Qed.

  Lemma filter_none {A} (f : A -> bool) l : (forall x, In x l -> f x = false) -> filter f l = [].
  Proof.
    induction l as [|a l IH]; intros H; cbn [filter]; auto.
    rewrite (H a) by now left. apply IH. intros; apply H; now right.
  Qed.

  Theorem check_snap db g svc order evs now host c :
    snap_inv g c -> svc_ok db svc ->
    let res := check svc order evs now host c in
    snap_inv (snap_step db c (fst res) g) (fst res) /\
    o_question (snd res) = expected_question g now c host /\
    (o_err (snd res) = false -> o_blocked (snd res) = snap_verdict g db now c host) /\
    (o_err (snd res) = true -> fst res = c /\ o_blocked (snd res) = false).
  Proof.
    intros Hinv Hsvc. unfold HashPrefix.check, expected_question, unanswered.
    pose proof (find_in_cache_spec now c (hashes_of host)) as S.
    assert (Hsame : snap_inv (snap_step db c c g) c).
    { intros p it Hp. rewrite snap_step_same. now apply Hinv. }
    (* no valid entry blocks, in the two cases where the loop runs to its end *)
    assert (Hnb : (forall h it, In h (hashes_of host) -> live now c h = Some it -> ~ In h (c_hashes it)) ->
                  cache_blocks g now c host = false).
    { intros Hc. unfold cache_blocks. apply not_true_is_false. intros B.
      apply existsb_exists in B. destruct B as (h & Hh & B). apply andb_true_iff in B.
      destruct B as [L M]. unfold is_live in L. destruct (live now c h) as [it|] eqn:Lv; [|discriminate].
      apply (Hc h it Hh Lv). apply live_cget in Lv. apply (Hinv _ _ Lv). split; auto.
      now apply mem_hash_In. }
    destruct (find_in_cache now c (hashes_of host)) as [| |hs]; cbn [fst snd o_err o_blocked o_question].
    - destruct S as (h & it & h' & Hh & L & Hh' & Hit).
      assert (Hp : prefix_of h' = prefix_of h).
      { apply live_cget in L. now apply (Hinv _ _ L). }
      assert (Hg : In h' (g (prefix_of h'))).
      { rewrite Hp. apply live_cget in L. now apply (Hinv _ _ L). }
      assert (Hl : is_live now c h' = true).
      { rewrite (is_live_prefix now c h' h Hp). eapply live_entry; eauto. }
      split; [exact Hsame|]. split; [|split; [|discriminate]].
      + replace (cache_blocks g now c host) with true; auto. symmetry. apply existsb_exists.
        exists h'. split; auto. rewrite Hl. now apply mem_hash_In.
      + intros _. symmetry. apply existsb_exists. exists h'. split; auto. rewrite Hl.
        now apply mem_hash_In.
    - assert (Hc : forall h it, In h (hashes_of host) -> live now c h = Some it -> ~ In h (c_hashes it)).
      { intros h it Hh L. destruct (S h Hh) as (it' & L' & Hn). congruence. }
      assert (Hall : forall x, In x (hashes_of host) -> is_live now c x = true).
      { intros x Hx. destruct (S x Hx) as (i & Lx & _). eapply live_entry; eauto. }
      split; [exact Hsame|]. split; [|split; [|discriminate]].
      + rewrite (Hnb Hc). rewrite filter_none; auto. intros x Hx. now rewrite (Hall x Hx).
      + intros _. symmetry. apply not_true_is_false. intros B. apply existsb_exists in B.
        destruct B as (h & Hh & B). rewrite (Hall h Hh) in B. apply mem_hash_In in B.
        destruct (S h Hh) as (it & L & Hn). apply Hn.
        apply live_cget in L. apply (Hinv _ _ L). auto.
    - destruct S as (Ehs & Hne & Hclean). rewrite (Hnb Hclean). rewrite <- Ehs.
      specialize (Hsvc (map prefix_of hs)).
      destruct (svc (map prefix_of hs)) as [strs|]; cbn [fst snd o_err o_blocked o_question].
      + pose proof (store_in_cache_old_or_new db ((now + cache_time) / ns_sec)%Z hs (parse_txt strs)
                      order evs c Hsvc) as Hst.
        destruct (store_in_cache _ hs (parse_txt strs) order evs c) as [c' rest].
        cbn [fst snd o_err o_blocked o_question] in *.
        split; [now apply snap_step_inv|]. split; [destruct hs; congruence|]. split; [|discriminate].
        intros _. unfold snap_verdict.
        destruct (existsb _ (hashes_of host)) eqn:V.
        * apply existsb_exists in V. destruct V as (h & Hh & Hv).
          destruct (is_live now c h) eqn:L.
          -- exfalso. unfold is_live in L. destruct (live now c h) as [it|] eqn:Lv; [|discriminate].
             apply (Hclean h it Hh Lv). apply live_cget in Lv. apply (Hinv _ _ Lv).
             split; auto. now apply mem_hash_In.
          -- apply mem_hash_In in Hv. apply find_match_spec. exists h.
             assert (Hin : In h hs) by (rewrite Ehs; apply filter_In; rewrite L; auto).
             split; auto. apply Hsvc. split; auto. now apply in_map.
        * apply find_match_false. intros h Hh Hr.
          rewrite Ehs in Hh. apply filter_In in Hh. destruct Hh as [Hh L].
          apply negb_true_iff in L.
          assert (existsb (fun h => if is_live now c h then mem_hash h (g (prefix_of h)) else mem_hash h db)
                          (hashes_of host) = true); [|congruence].
          apply existsb_exists. exists h. split; auto. rewrite L. apply mem_hash_In.
          now apply Hsvc in Hr.
      + split; [exact Hsame|]. split; [destruct hs; congruence|]. split; [discriminate|auto].
  Qed.
End WithOracles.

(** * Histories *)

Section Histories.
  Variable sha : bytes -> hash.
  Variable pubsuf : bytes -> bytes * bool.
  Variable suffix : bytes.
  Variable cache_time : Z.

  (** Every check of the history talks to a service for the database as it is
      at that point (it may fail, it may add malformed strings). *)
  Fixpoint hops_ok (db : list hash) (ops : list hop) : Prop :=
    match ops with
    | [] => True
    | HOp o :: r => op_ok db o /\ hops_ok db r
    | HDb db' :: r => hops_ok db' r
    end.

  (** One step against the snapshots [g]: the question and the verdict of a
      check are the expected ones; a failed check says "not blocked" and leaves
      the cache as it was. *)
  Definition hstep_ok (g : snap) (before : list hash * (Z * cache)) (o : hop)
      (res : (list hash * (Z * cache)) * option check_out) : Prop :=
    let '(db, (now, c)) := before in
    match o, snd res with
    | HOp (OCheck host _ _ _), Some out =>
        o_question out = expected_question sha pubsuf suffix g now c host /\
        (o_err out = false -> o_blocked out = snap_verdict sha pubsuf g db now c host) /\
        (o_err out = true -> o_blocked out = false /\ snd (snd (fst res)) = c)
    | HOp (OCheck _ _ _ _), None => False
    | _, _ => True
    end.

  (** The snapshots after the step. *)
  Definition snap_next (g : snap) (before : list hash * (Z * cache)) (o : hop)
      (res : (list hash * (Z * cache)) * option check_out) : snap :=
    match o with
    | HOp (OCheck _ _ _ _) => snap_step (fst before) (snd (snd before)) (snd (snd (fst res))) g
    | _ => g
    end.

  Fixpoint hist_ok (g : snap) (st : list hash * (Z * cache)) (ops : list hop)
      (rs : list ((list hash * (Z * cache)) * option check_out)) : Prop :=
    match ops, rs with
    | [], [] => True
    | o :: ops', r :: rs' => hstep_ok g st o r /\ hist_ok (snap_next g st o r) (fst r) ops' rs'
    | _, _ => False
    end.

  Lemma hstep_inv g o st :
    snap_inv g (snd (snd st)) ->
    match o with HOp o' => op_ok (fst st) o' | HDb _ => True end ->
    let res := hstep sha pubsuf suffix cache_time o st in
    snap_inv (snap_next g st o res) (snd (snd (fst res))) /\ hstep_ok g st o res.
  Proof.
    destruct st as [db [now c]]. cbn [fst snd]. intros Hinv Hok.
    destruct o as [[host svc order evs|d|ps]|db']; cbn [hstep step fst snd snap_next hstep_ok].
    - pose proof (check_snap sha pubsuf suffix cache_time db g svc order evs now host c Hinv Hok) as H.
      cbn zeta in H. destruct (check sha pubsuf suffix cache_time svc order evs now host c) as [c' out].
      cbn [fst snd] in *. intuition.
    - cbn [fst snd]. auto.
    - cbn [fst snd]. split; auto. now apply evict_snap_inv.
    - auto.
  Qed.

  (** For every history of checks, clock changes, evictions and changes of the
      database, from any cache whose entries are exact for their snapshots. *)
  Theorem hrun_transparent : forall ops g st,
    snap_inv g (snd (snd st)) -> hops_ok (fst st) ops ->
    hist_ok g st ops (hrun sha pubsuf suffix cache_time ops st).
  Proof.
    induction ops as [|o ops IH]; intros g st Hinv Hok; cbn [hrun hist_ok]; auto.
    assert (Ho : match o with HOp o' => op_ok (fst st) o' | HDb _ => True end)
      by (destruct o; cbn in Hok; tauto).
    destruct (hstep_inv g o st Hinv Ho) as [A B]. split; auto.
    apply IH; auto.
    destruct o as [o'|db']; cbn [hops_ok] in Hok.
    - destruct st as [db [now c]]. cbn [hstep fst snd]. tauto.
    - destruct st as [db [now c]]. cbn [hstep fst snd]. exact Hok.
  Qed.

  Theorem changing_db_transparent ops db0 now0 :
    hops_ok db0 ops ->
    hist_ok (fun _ => db0) (db0, (now0, [])) ops
            (hrun sha pubsuf suffix cache_time ops (db0, (now0, []))).
  Proof. intros H. apply hrun_transparent; auto. intros p it; discriminate. Qed.

  (** ** One database: the theorem of round 1 as a corollary *)

  Lemma snap_verdict_const g db now c host :
    (forall p, g p = db) -> snap_verdict sha pubsuf g db now c host = db_verdict sha pubsuf db host.
  Proof.
    intros Hg. apply snap_verdict_current. intros h _ _. now rewrite Hg.
  Qed.

  Lemma hist_const : forall ops g db st,
    (forall p, g p = db) ->
    hist_ok g (db, st) (map HOp ops) (hrun sha pubsuf suffix cache_time (map HOp ops) (db, st)) ->
    history_transparent (db_verdict sha pubsuf db) st ops (run sha pubsuf suffix cache_time ops st).
  Proof.
    induction ops as [|o ops IH]; intros g db st Hg; cbn [map hrun hist_ok run history_transparent]; auto.
    intros [H1 H2]. split.
    - destruct st as [now c]. unfold hstep_ok, hstep in H1. cbn [fst snd] in H1.
      unfold step_transparent. destruct o as [host svc order evs|d|ps]; auto.
      destruct (snd (step sha pubsuf suffix cache_time (OCheck host svc order evs) (now, c))) as [out|]; auto.
      destruct H1 as (_ & Hv & He). split.
      + intros E. rewrite (Hv E). now apply snap_verdict_const.
      + intros E. destruct (He E). auto.
    - cbn [hstep fst snd] in H2. eapply IH; [|exact H2].
      intros p. unfold snap_next. destruct o; auto. unfold snap_step. cbn [fst snd].
      destruct (same_entry _ _); auto.
  Qed.

  Theorem constant_db_transparent db ops now0 :
    Forall hash_wf db -> Forall (op_ok db) ops ->
    forall now', history_transparent (fresh_verdict sha pubsuf suffix cache_time db now')
                   (now0, []) ops (run sha pubsuf suffix cache_time ops (now0, [])).
  Proof.
    intros Hwf Hok now'.
    apply history_transparent_ext with (v := db_verdict sha pubsuf db).
    - intros h. symmetry. now apply fresh_verdict_db.
    - apply (hist_const ops (fun _ => db) db (now0, [])); auto.
      apply changing_db_transparent.
      clear - Hok. induction Hok; cbn [map hops_ok]; auto.
  Qed.
End Histories.

(** * Non-vacuity, and the change of red-team wave 4 *)

Module HistExample.
  Import Examples.
  Local Open Scope N_scope.
  Definition c_evil : bytes := [99;46;101;118;105;108;46;99;111;46;117;107].
  (** evil.co.uk is checked and is clean; half a cache time later c.evil.co.uk
      (only its own prefix is asked); then the service lists evil.co.uk; the
      parent's entry expires while the child's is still valid: the parent's
      prefix alone is asked, and the name is blocked; later the service drops
      the name and the cache goes on blocking until the entry expires. *)
  Definition ops : list hop :=
    [HOp (OCheck evil (db_service []) [] []);
     HOp (OAdvance (1800 * ns_sec)%Z);
     HOp (OCheck host1 (db_service []) [] []);
     HDb [sha evil];
     HOp (OCheck host1 (db_service [sha evil]) [prefix_of (sha evil)] []);
     HOp (OAdvance (1900 * ns_sec)%Z);
     HOp (OCheck host1 (db_service [sha evil]) [prefix_of (sha evil)] []);
     HDb [];
     HOp (OCheck host1 (db_service []) [] []);
     HOp (OAdvance (3700 * ns_sec)%Z);
     HOp (OCheck host1 (db_service []) [] [])].

  (** [findInCache] with the change of seeded/C19-G: the slot is not written in
      the "expired" branch. *)
  Fixpoint fic_loop_G (now : Z) (c : cache) (n idx : nat) (arr : list hash) (i : nat) : find_res :=
    match n with
    | O => if Nat.eqb i 0 then FoundClean else ToRequest (firstn i arr)
    | S n' =>
        let h := nth idx arr [] in
        match cget (prefix_of h) c with
        | None => fic_loop_G now c n' (S idx) (upd i h arr) (S i)
        | Some it =>
            if expired now it then fic_loop_G now c n' (S idx) arr (S i)
            else if find_match arr (c_hashes it) then FoundBlocked
            else fic_loop_G now c n' (S idx) arr i
        end
    end.
End HistExample.

Example hist_example :
  hops_ok [] HistExample.ops /\
  map (fun r => match snd r with
                | Some o => Some (o_blocked o, match o_question o with
                                               | Some q => Some (length q)
                                               | None => None end)
                | None => None end)
      (hrun Examples.sha Examples.pubsuf Examples.sfx Examples.ct HistExample.ops ([], (0%Z, [])))
  = [Some (false, Some 8%nat); None; Some (false, Some 8%nat); None; Some (false, None); None;
     Some (true, Some 8%nat); None; Some (true, None); None; Some (false, Some 13%nat)].
Proof.
  split; [|vm_compute; reflexivity].
  assert (H0 : svc_ok [] (db_service [])) by (apply db_service_ok; constructor).
  assert (H1 : svc_ok [Examples.sha Examples.evil] (db_service [Examples.sha Examples.evil]))
    by (apply db_service_ok; exact db_wf_example).
  cbn [HistExample.ops hops_ok op_ok]. tauto.
Qed.

(** The child's entry valid, the parent's expired: the loop as it is asks for
    the parent; without the write in the "expired" branch the child's hash,
    which has a valid entry, is asked again and the parent is not. *)
Example expired_slot_not_written_refuted :
  let chain := hostname_to_hashes Examples.sha Examples.pubsuf Examples.host1 in
  let c : cache := [(prefix_of (Examples.sha HistExample.c_evil), {| c_expiry := 5450; c_hashes := [] |});
                    (prefix_of (Examples.sha Examples.evil), {| c_expiry := 3650; c_hashes := [] |})] in
  let now := (3700 * ns_sec)%Z in
  chain = [Examples.sha HistExample.c_evil; Examples.sha Examples.evil] /\
  unanswered Examples.sha Examples.pubsuf now c Examples.host1 = [Examples.sha Examples.evil] /\
  find_in_cache now c chain = ToRequest [Examples.sha Examples.evil] /\
  HistExample.fic_loop_G now c (length chain) 0 chain 0 = ToRequest [Examples.sha HistExample.c_evil].
Proof. cbv zeta. repeat split; vm_compute; reflexivity. Qed.

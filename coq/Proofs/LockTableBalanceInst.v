(** C05, round 6: the instance of the balance check on the table regenerated
    from the current source.  Re-checked on every run; a function path that
    returns (or panics) with a lock it acquired, an undeclared hand-over or an
    undecided case makes this file fail to build. *)
From Coq Require Import List String Bool Arith.
From AGH Require Import Base.Conc Model.Guards Model.LockBalance Proofs.Conc Proofs.LockTablePairs Proofs.ConcBalance
  Proofs.LockTableBalance Gen.LockTableBalance.
Import ListNotations.
Local Open Scope string_scope.

Theorem every_section_ends_syntactically :
  balance_ok balance_fns balance_leaks balance_unresolved balance_handovers balance_allowed = true.
Proof. vm_compute; reflexivity. Qed.

(** Spelt out: nothing is reported, nothing is undecided, and every path found
    through every plain function of the current source releases exactly what
    it acquired: it is neutral in every calling context and can be inserted
    into any caller's path. *)
Theorem current_source_sections_end :
  balance_leaks = [] /\ balance_unresolved = [] /\
  forall f, In f balance_fns -> is_plain f = true ->
  forall x, In x (bf_exits f) ->
    sections_end (be_events x) = true /\
    inlined (be_events x) /\
    forall h, balanced h (be_events x) = true /\ held_after h (be_events x) = h.
Proof. exact (balance_ok_sections_end _ _ _ _ _ every_section_ends_syntactically). Qed.

(** The table is not empty and speaks about the function of this round's
    seeded change (a pin that follows the source: if the function is renamed
    or no longer takes the lock, this line changes with it). *)
(* (the name is kept here: a string that starts like a comment stops coqdep from
   reading the Require lines after it in the file that contains it) *)
Definition clientid_fn_name : string := "(" ++ "*dnsforward.Server).clientIDFromDNSContext".

Example balance_table_covers_clientid_extraction :
  existsb (fun f => String.eqb (bf_fn f) clientid_fn_name && is_plain f &&
                    existsb (fun x => negb (nil_b (be_events x))) (bf_exits f)) balance_fns = true /\
  Nat.leb 20 (List.length balance_fns) = true.
Proof. vm_compute; split; reflexivity. Qed.

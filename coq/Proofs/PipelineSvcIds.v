(** Unknown ids in a list of blocked services (Model/PipelineSvcIds.v,
    Model/Pipeline.services_list): wherever they stand they are skipped and
    every known id of the list is applied; what the entry points can store. *)
From Coq Require Import List NArith Bool.
From AGH Require Import Base.Run Base.NetAddr Base.RuleEngine Model.Pipeline Model.PipelineSvcIds Proofs.Pipeline.
From AGH Require Model.Rewrites.
Import ListNotations.

Lemma services_list_app tbl a b : services_list tbl (a ++ b) = services_list tbl a ++ services_list tbl b.
Proof. unfold services_list. apply flat_map_app. Qed.

(** An unknown id, wherever it stands, changes nothing. *)
Lemma unknown_id_skipped tbl pre u post :
  lookup_service tbl u = None ->
  services_list tbl (pre ++ u :: post) = services_list tbl (pre ++ post).
Proof.
  intros H. rewrite !services_list_app. f_equal. unfold services_list. cbn [flat_map]. rewrite H. reflexivity.
Qed.

(** The list means what its known ids mean, in their order. *)
Lemma services_list_known_only tbl ids :
  services_list tbl ids = services_list tbl (svc_known_only tbl ids).
Proof.
  unfold services_list, svc_known_only, svc_known. induction ids as [|i ids IH]; cbn; [reflexivity|].
  destruct (lookup_service tbl i) eqn:E; cbn; [rewrite E, IH; reflexivity | exact IH].
Qed.

(** Every known id of the list is in the result with the table's rules,
    whatever stands in front of it. *)
Lemma known_id_applied tbl ids id rs :
  In id ids -> lookup_service tbl id = Some rs -> In (id, rs) (services_list tbl ids).
Proof.
  intros Hin Hl. unfold services_list. apply in_flat_map. exists id. split; [exact Hin|].
  rewrite Hl. left. reflexivity.
Qed.

Lemma services_list_only_known tbl ids id rs :
  In (id, rs) (services_list tbl ids) -> In id ids /\ lookup_service tbl id = Some rs.
Proof.
  unfold services_list. rewrite in_flat_map. intros [i [Hin H]].
  destruct (lookup_service tbl i) eqn:E; [|destruct H].
  destruct H as [H|[]]. injection H as <- <-. auto.
Qed.

(** A service of the list one of whose rules matches the name: some service
    of the list blocks the name (the first such in list order). *)
Lemma first_service_some svcs host id rs r :
  In (id, rs) svcs -> find (nrule_match (mkReq host 0 [] None [])) rs = Some r ->
  exists name r', first_service svcs host = Some (name, r').
Proof.
  induction svcs as [|[k v] rest IH]; intros Hin Hf; [destruct Hin|].
  cbn [first_service]. destruct (find (nrule_match (mkReq host 0 [] None [])) v) as [r0|] eqn:E; [eauto|].
  destruct Hin as [H|H]; [injection H as -> ->; congruence|]. exact (IH H Hf).
Qed.

Theorem known_service_blocks_despite_unknown tbl ids id rs r host :
  In id ids -> lookup_service tbl id = Some rs ->
  find (nrule_match (mkReq host 0 [] None [])) rs = Some r ->
  exists name r', first_service (services_list tbl ids) host = Some (name, r').
Proof.
  intros Hin Hl Hf. exact (first_service_some _ host id rs r (known_id_applied tbl ids id rs Hin Hl) Hf).
Qed.

(** The verdict of the blocked-services checker does not see the unknown ids. *)
Theorem first_service_known_only tbl ids host :
  first_service (services_list tbl ids) host = first_service (services_list tbl (svc_known_only tbl ids)) host.
Proof. rewrite <- services_list_known_only. reflexivity. Qed.

(** * For a request: the global list, no client *)
Lemma global_services c q :
  q_client q = None -> q_private_rdns q = None -> c_services_paused c = false ->
  st_services (request_settings c q) = services_list (c_service_table c) (c_services c).
Proof.
  intros Hc Hr Hp. unfold request_settings. rewrite Hr. unfold client_settings. rewrite Hc, Hp. reflexivity.
Qed.

(** The settings of a request see the stored lists (global and the client's
    own) only through their known ids. *)
Lemma client_settings_services_known_only c q :
  st_services (client_settings c q) =
  let global := if c_services_paused c then [] else services_list (c_service_table c) (svc_known_only (c_service_table c) (c_services c)) in
  match q_client q with
  | None => global
  | Some p => if pc_use_own_services p
              then (if pc_services_paused p then [] else services_list (c_service_table c) (svc_known_only (c_service_table c) (pc_services p)))
              else global
  end.
Proof.
  cbv zeta. rewrite <- services_list_known_only. unfold client_settings.
  destruct (q_client q) as [p|]; [|reflexivity].
  rewrite <- services_list_known_only.
  destruct (pc_use_own_settings p); reflexivity.
Qed.

(** * The entry points *)

(** What the validated entry point stores is known throughout ... *)
Lemma update_stores_known tbl stored ids :
  snd (svc_store tbl stored (SEUpdate ids)) = true ->
  fst (svc_store tbl stored (SEUpdate ids)) = ids /\ Forall (fun i => lookup_service tbl i <> None) ids.
Proof.
  cbn. destruct (svc_valid tbl ids) eqn:E; [|discriminate]. intros _. split; [reflexivity|].
  unfold svc_valid in E. rewrite forallb_forall in E. apply Forall_forall. intros i Hi.
  specialize (E i Hi). unfold svc_known in E. destruct (lookup_service tbl i); [discriminate|discriminate].
Qed.

(** ... a refused update leaves the stored list alone ... *)
Lemma refused_update_keeps tbl stored ids :
  snd (svc_store tbl stored (SEUpdate ids)) = false -> fst (svc_store tbl stored (SEUpdate ids)) = stored.
Proof. cbn. destruct (svc_valid tbl ids); [discriminate|reflexivity]. Qed.

(** ... and the deprecated one stores anything. *)
Lemma set_stores_anything tbl stored ids : svc_store tbl stored (SESet ids) = (ids, true).
Proof. reflexivity. Qed.

(** Whatever history of set / update calls stored the list: a known id in
    it whose rule matches blocks the name. *)
Theorem stored_known_service_blocks tbl init es id rs r host :
  In id (svc_run tbl init es) -> lookup_service tbl id = Some rs ->
  find (nrule_match (mkReq host 0 [] None [])) rs = Some r ->
  exists name r', first_service (services_list tbl (svc_run tbl init es)) host = Some (name, r').
Proof. apply known_service_blocks_despite_unknown. Qed.

Local Open Scope N_scope.
(** Satisfiable: the seeded situation, an unknown id in front of a known one. *)
Definition exs_tbl : list (bytes * list nrule) :=
  [([118;102], [mkNRule 900 false [124;124;120;46;116;101;115;116;94] false false [] [] (mkClients [] []) (mkClients [] []) [] [] [] None])].
Definition exs_ids : list bytes := [[110;111]; [118;102]].   (* "no", "vf" *)

Example exs_unknown_before_known :
  svc_run exs_tbl [] [SESet exs_ids] = exs_ids /\
  lookup_service exs_tbl [110;111] = None /\
  (exists name r, first_service (services_list exs_tbl exs_ids) [120;46;116;101;115;116] = Some (name, r)) /\
  snd (svc_store exs_tbl [] (SEUpdate exs_ids)) = false.
Proof. repeat split; try (vm_compute; reflexivity). vm_compute. eauto. Qed.

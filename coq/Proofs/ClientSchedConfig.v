(** C18, round 8: the per-client pause schedule through the clients section
    of the configuration file.  Nothing is re-modelled: [to_persistent] and
    [for_config] are C04's (Model/ClientConfig.v: clientObject.toPersistent and
    one object of clientsContainer.forConfig), the round trip is C04's
    [object_roundtrip]; stated here is the C18 clause on it: the own list and
    schedule (zone and bounds) of EVERY client survive write + re-read,
    whatever its switches say. *)
From Coq Require Import ZArith List Bool.
From AGH Require Import Base.Run Base.Bytes.
From AGH Require Model.Schedule.
From AGH Require Import Model.ClientIndex Model.ClientConfig Proofs.ClientConfig.
Import ListNotations.
Local Open Scope N_scope.

(** What a stored client carries of the [blocked_services] section. *)
Lemma to_persistent_blocked known g o c x :
  to_persistent known g o = COk c x ->
  c_blocked c = Some (stored_blocked (o_blocked o)) /\
  c_own_blocked c = negb (o_use_global_blocked o).
Proof.
  unfold to_persistent. destruct (existsb is_bad (o_ids o)); [discriminate|].
  destruct (negb _); [discriminate|]. intros H. injection H as <- _. split; reflexivity.
Qed.

(** Whatever [use_global_blocked_services] (and every other key) says: the
    client read back from what forConfig wrote carries the same own list and
    the same schedule, zone and bounds, and the same switch. *)
Lemma client_schedule_survives known g g' o c x :
  to_persistent known g o = COk c x -> c_uid c <> 0 ->
  exists c', to_persistent known g' (for_config c x) = COk c' x /\
             c_blocked c' = c_blocked c /\ c_own_blocked c' = c_own_blocked c /\
             c_blocked c' = Some (stored_blocked (o_blocked o)).
Proof.
  intros H Hu. exists c. split; [apply (object_roundtrip known g g' o c x H Hu)|].
  destruct (to_persistent_blocked known g o c x H) as [Hb _]. repeat split. exact Hb.
Qed.

(** forConfig copying the section only for clients that use their own
    services (seeded change C18-O). *)
Definition for_config_own_only (c : client) (x : extra) : cobj :=
  let o := for_config c x in
  {| o_name := o_name o; o_ids := o_ids o; o_tags := o_tags o; o_upstreams := o_upstreams o;
     o_uid := o_uid o; o_ss := o_ss o;
     o_blocked := if c_own_blocked c then o_blocked o else None;
     o_cache_size := o_cache_size o; o_cache_enabled := o_cache_enabled o;
     o_use_global_settings := o_use_global_settings o; o_filtering := o_filtering o;
     o_parental := o_parental o; o_safebrowsing := o_safebrowsing o;
     o_use_global_blocked := o_use_global_blocked o; o_ignore_qlog := o_ignore_qlog o;
     o_ignore_stats := o_ignore_stats o |}.

Definition svc_4chan : bytes := [52; 99; 104; 97; 110].
Definition full_week : Schedule.weekly :=
  repeat {| Schedule.dr_start := 0%Z; Schedule.dr_end := Schedule.ns_day |} 7.

(** A client with its own list and a whole-week pause in zone 3, switched to
    the global services. *)
Definition ex_obj_global (use_global : bool) : cobj :=
  {| o_name := [110]; o_ids := [PIp ([10;1;2;3], [])]; o_tags := []; o_upstreams := []; o_uid := 9;
     o_ss := zero_ss;
     o_blocked := Some {| fb_ids := [svc_4chan]; fb_sched := Some (full_week, 3) |};
     o_cache_size := 0; o_cache_enabled := false;
     o_use_global_settings := true; o_filtering := false; o_parental := false; o_safebrowsing := false;
     o_use_global_blocked := use_global; o_ignore_qlog := false; o_ignore_stats := false |}.

Lemma own_only_refuted :
  exists c x c',
    to_persistent [svc_4chan] 0 (ex_obj_global true) = COk c x /\ c_uid c <> 0 /\
    c_blocked c = Some {| b_ids := [svc_4chan]; b_sched := full_week; b_zone := 3 |} /\
    to_persistent [svc_4chan] 0 (for_config_own_only c x) = COk c' x /\
    c_blocked c' = Some default_blocked /\
    (* with the switch the other way the variant agrees with forConfig *)
    (forall c2 x2, to_persistent [svc_4chan] 0 (ex_obj_global false) = COk c2 x2 ->
                   for_config_own_only c2 x2 = for_config c2 x2).
Proof.
  eexists. eexists. eexists. split; [vm_compute; reflexivity|].
  split; [vm_compute; discriminate|]. split; [reflexivity|].
  split; [vm_compute; reflexivity|]. split; [reflexivity|].
  intros c2 x2 H. vm_compute in H. injection H as <- <-. reflexivity.
Qed.

(** Non-vacuity of the premises, both positions of the switch. *)
Lemma ex_client_sched :
  forall b, exists c x,
    to_persistent [svc_4chan] 0 (ex_obj_global b) = COk c x /\ c_uid c <> 0 /\
    c_own_blocked c = negb b /\
    c_blocked c = Some {| b_ids := [svc_4chan]; b_sched := full_week; b_zone := 3 |}.
Proof.
  intros [|]; eexists; eexists; (split; [vm_compute; reflexivity|]);
    (split; [vm_compute; discriminate|]); split; reflexivity.
Qed.

(** filterSetProperties (set_url) and the list file (Model/SaveLoop.v, round 5
    (J)): whatever the request (URL change, re-enable, both), whatever the
    source does and whichever system call of the save fails, a call that
    reports an error has left the file as it was, at every instant and after a
    crash at every prefix; a download that fails is always reported as an
    error; the file is removed only after a download that ended WITHOUT error
    and brought no rules.  The variant whose removal is not guarded by
    [err == nil] is refuted. *)
From Coq Require Import List NArith Bool Lia.
From AGH Require Import Base.FS Proofs.FS Model.SaveLoop Proofs.SaveLoop.
Import ListNotations.
Local Open Scope N_scope.

Lemma visible_nil s dst v : quiescent s dst -> In v (visible_states s [] dst) -> v = live_view s dst.
Proof.
  intros Hq Hv. apply (checker_sound dst s [] Hq eq_refl) in Hv.
  destruct Hv as [<-|[]]. reflexivity.
Qed.

Lemma live_after_unlink s dst : live_view (step s (Unlink dst)) dst = None.
Proof.
  unfold live_view, view. cbn [step].
  destruct (aget (dir_cur s) dst) eqn:E.
  - cbn [set_dir dir_cur]. rewrite aget_adel, N.eqb_refl. reflexivity.
  - rewrite E. reflexivity.
Qed.

Lemma live_absent s dst : dst_present s dst = false -> live_view s dst = None.
Proof. unfold dst_present, live_view, view. destruct (aget (dir_cur s) dst); [discriminate|reflexivity]. Qed.

Lemma live_present s dst : dst_present s dst = true -> live_view s dst <> None.
Proof. unfold dst_present, live_view, view. destruct (aget (dir_cur s) dst); [discriminate|discriminate]. Qed.

Section SetUrlProofs.
  Variable St : Type.
  Variable st0 : St.
  Variable feed : St -> data -> option (St * list data).
  Variable finish : St -> option (list data).
  Variable sum : data -> N.

  Notation pump := (pump St feed finish).
  Notation update_list := (update_list St st0 feed finish sum).
  Notation set_props := (set_props St st0 feed finish sum).

  (** When the download cannot produce a complete new version it reports
      [Failed]: source not reachable / refused, the reader ending in an error
      or the parser rejecting, the temporary file not created, a write cut. *)
  Lemma update_list_fails fd tmp dst src_ok r old_sum p :
    src_ok = false \/ snd (pump st0 r) = false \/ p_open p = true \/
    snd (do_writes (fst (pump st0 r)) (p_write p)) = false ->
    exists st, snd (update_list fd tmp dst src_ok r old_sum p) = Failed st.
  Proof.
    intros H. unfold SaveLoop.update_list.
    destruct src_ok; cbn [negb].
    2:{ unfold save_ops. destruct (p_open p); eexists; reflexivity. }
    destruct (SaveLoop.pump St feed finish st0 r) as [ws rok]. cbn [fst snd] in H.
    destruct (do_writes ws (p_write p)) as [done wok]. cbn [snd] in H.
    unfold save_ops. destruct (p_open p); [eexists; reflexivity|].
    destruct wok; cbn [negb]; [|eexists; reflexivity].
    destruct rok; cbn [negb]; [|eexists; reflexivity].
    destruct H as [H|[H|[H|H]]]; discriminate.
  Qed.

  (** Is a download made for this request? *)
  Definition downloads (e : entry) (url_taken : bool) (q : request) : bool :=
    let url_changes := negb (e_url e =? q_url q) in
    negb (url_changes && url_taken) && q_enabled q &&
    (url_changes || negb (bool_eqb (e_enabled e) (q_enabled q))).

  Definition sum_for (e : entry) (q : request) : N :=
    if negb (e_url e =? q_url q) then 0 else e_sum e.

  (** MAIN (J): a set_url call that reports an error has not touched the
      file, and has rolled the entry back. *)
  Theorem set_props_failed_keeps_file s e taken q fd tmp dst src_ok r p rmf :
    quiescent s dst -> fresh_tmp s dst tmp ->
    let x := set_props true s e taken q fd tmp dst src_ok r p rmf in
    snd (fst x) = SetErr ->
    (forall v, In v (visible_states s (fst (fst x)) dst) -> v = live_view s dst) /\
    live_view (run s (fst (fst x))) dst = live_view s dst /\
    snd x = e.
  Proof.
    intros Hq Hf. cbn zeta. unfold SaveLoop.set_props.
    destruct (negb (e_url e =? q_url q) && taken).
    { cbn [fst snd]. intros _. split; [|auto]. intros v Hv. apply visible_nil; assumption. }
    destruct (q_enabled q); [|cbn [fst snd]; discriminate].
    destruct (negb (e_url e =? q_url q) || negb (bool_eqb (e_enabled e) true)); [|cbn [fst snd]; discriminate].
    set (sum1 := if negb (e_url e =? q_url q) then 0 else e_sum e).
    destruct (update_list_identity St st0 feed finish sum s dst tmp fd src_ok r sum1 p Hq Hf) as (Hv & Hl & _).
    cbn zeta in Hv, Hl.
    destruct (update_list fd tmp dst src_ok r sum1 p) as [ops o]. cbn [fst snd] in Hv, Hl.
    destruct o as [| |st].
    - cbn [fst snd]. discriminate.
    - unfold remove_ops. destruct (dst_present s dst); [destruct rmf|]; cbn [fst snd]; try discriminate.
      intros _. rewrite app_nil_r. cbn [replaced] in Hl. split; [|auto].
      intros v Hin. destruct (Hv v Hin) as [H|[H _]]; [exact H|discriminate].
    - cbn [fst snd]. intros _. cbn [replaced] in Hl. split; [|auto].
      intros v Hin. destruct (Hv v Hin) as [H|[H _]]; [exact H|discriminate].
  Qed.

  (** A download that fails is reported: the call returns an error (so the
      theorem above applies). *)
  Theorem set_props_failed_download_reported s e taken q fd tmp dst src_ok r p rmf :
    downloads e taken q = true ->
    (exists st, snd (update_list fd tmp dst src_ok r (sum_for e q) p) = Failed st) ->
    snd (fst (set_props true s e taken q fd tmp dst src_ok r p rmf)) = SetErr.
  Proof.
    unfold downloads, sum_for, SaveLoop.set_props. intros Hd [st Hst].
    destruct (negb (e_url e =? q_url q) && taken); [discriminate|].
    destruct (q_enabled q); [|discriminate]. cbn [negb andb] in Hd.
    destruct (negb (e_url e =? q_url q) || negb (bool_eqb (e_enabled e) true)); [|discriminate].
    destruct (update_list fd tmp dst src_ok r (if negb (e_url e =? q_url q) then 0 else e_sum e) p) as [ops o].
    cbn [snd] in Hst. subst o. reflexivity.
  Qed.

  (** What the file is after a call that succeeds: untouched when no download
      is made (rename, disable); the new list when the download replaced it;
      NO FILE when the download ended without error and brought nothing that
      the checksum in memory does not already describe (after a URL change or
      a re-enable that checksum is 0: a list without rules; fix 9598232). *)
  Theorem set_props_ok_file s e taken q fd tmp dst src_ok r p rmf restart :
    quiescent s dst -> fresh_tmp s dst tmp ->
    let x := set_props true s e taken q fd tmp dst src_ok r p rmf in
    snd (fst x) = SetOk restart ->
    let fin := live_view (run s (fst (fst x))) dst in
    if downloads e taken q then
      match snd (update_list fd tmp dst src_ok r (sum_for e q) p) with
      | Replaced => fin = Some (concat (fst (pump st0 r))) /\ restart = true
      | Skipped => fin = None /\ restart = true /\
                   snd (pump st0 r) = true /\ sum (concat (fst (pump st0 r))) = sum_for e q
      | Failed _ => False
      end
    else fin = live_view s dst /\ fst (fst x) = [].
  Proof.
    intros Hq Hf. cbn zeta. unfold downloads, sum_for, SaveLoop.set_props.
    destruct (negb (e_url e =? q_url q) && taken); [discriminate|].
    cbn [negb andb].
    destruct (q_enabled q); [|cbn [fst snd andb]; auto].
    destruct (negb (e_url e =? q_url q) || negb (bool_eqb (e_enabled e) true)); [|cbn [fst snd andb]; auto].
    cbn [andb].
    set (sum1 := if negb (e_url e =? q_url q) then 0 else e_sum e).
    destruct (update_list_identity St st0 feed finish sum s dst tmp fd src_ok r sum1 p Hq Hf) as (_ & Hl & _).
    cbn zeta in Hl.
    pose proof (eq_refl (update_list fd tmp dst src_ok r sum1 p)) as Hdef.
    unfold SaveLoop.update_list in Hdef at 2.
    destruct (update_list fd tmp dst src_ok r sum1 p) as [ops o]. cbn [fst snd] in Hl |- *.
    destruct o as [| |st].
    - cbn [fst snd]. intros E. inversion E; subst. cbn [replaced] in Hl. auto.
    - cbn [replaced] in Hl.
      assert (Hsk : snd (pump st0 r) = true /\ sum (concat (fst (pump st0 r))) = sum1).
      { destruct src_ok; cbn [negb] in Hdef.
        2:{ unfold save_ops in Hdef. destruct (p_open p); inversion Hdef. }
        destruct (SaveLoop.pump St feed finish st0 r) as [ws rok]. cbn [fst snd].
        destruct (do_writes ws (p_write p)) as [done wok].
        unfold save_ops in Hdef. destruct (p_open p); [inversion Hdef|].
        destruct wok; cbn [negb] in Hdef; [|inversion Hdef].
        destruct rok; cbn [negb] in Hdef; [|inversion Hdef].
        destruct (sum (concat ws) =? sum1) eqn:Es.
        - apply N.eqb_eq in Es. auto.
        - unfold replace_ops in Hdef.
          destruct (p_sync p); [inversion Hdef|]. destruct (p_close p); [inversion Hdef|].
          destruct (p_rename p); inversion Hdef. }
      unfold remove_ops. destruct (dst_present s dst) eqn:Ep; [destruct rmf|]; cbn [fst snd]; try discriminate.
      + intros E. inversion E; subst. rewrite run_app. cbn [run fold_left].
        rewrite live_after_unlink. tauto.
      + intros E. inversion E; subst. rewrite app_nil_r, Hl. rewrite (live_absent _ _ Ep). tauto.
    - cbn [fst snd]. discriminate.
  Qed.

  (** REFUTED variant (removal guarded by [!updated] alone): whenever the
      stored file exists and the source of a URL change / re-enable cannot be
      reached, the call reports the error, rolls the entry back, and the file
      is GONE. *)
  Theorem set_props_unguarded_loses_file s e taken q fd tmp dst r p :
    quiescent s dst -> fresh_tmp s dst tmp ->
    downloads e taken q = true -> dst_present s dst = true ->
    let x := SaveLoop.set_props St st0 feed finish sum false s e taken q fd tmp dst false r p false in
    snd (fst x) = SetErr /\ snd x = e /\
    live_view s dst <> None /\ live_view (run s (fst (fst x))) dst = None.
  Proof.
    intros Hq Hf Hd Hp. cbn zeta. unfold downloads in Hd. unfold SaveLoop.set_props.
    destruct (negb (e_url e =? q_url q) && taken); [discriminate|].
    destruct (q_enabled q); [|discriminate]. cbn [negb andb] in Hd.
    destruct (negb (e_url e =? q_url q) || negb (bool_eqb (e_enabled e) true)); [|discriminate].
    set (sum1 := if negb (e_url e =? q_url q) then 0 else e_sum e).
    destruct (update_list_fails fd tmp dst false r sum1 p (or_introl eq_refl)) as [st Hst].
    destruct (update_list fd tmp dst false r sum1 p) as [ops o]. cbn [snd] in Hst. subst o.
    unfold remove_ops. rewrite Hp. cbn [fst snd].
    split; [reflexivity|]. split; [reflexivity|]. split; [apply live_present, Hp|].
    rewrite run_app. cbn [run fold_left]. apply live_after_unlink.
  Qed.
End SetUrlProofs.

(** *** Instances (identity stage, length as the checksum) *)

Definition su_set := set_props unit tt id_feed id_finish len_sum.

(** Premises satisfiable, one call of each kind on a stored list [10; 11]:
    URL change to a source that is down / cut / serves a good list / serves
    nothing; re-enable from a failing source; disable; a URL another list has. *)
Example set_props_premises :
  let s := boot [(1, [10; 11])] in
  let e := {| e_url := 7; e_enabled := true; e_sum := 2 |} in
  let off := {| e_url := 7; e_enabled := false; e_sum := 0 |} in
  let fin x := live_view (run s (fst (fst x))) 1 in
  quiescent s 1 /\ fresh_tmp s 1 2 /\
  (let x := su_set true s e false {| q_url := 8; q_enabled := true |} 3 2 1 false [] no_faults false in
   snd (fst x) = SetErr /\ fin x = Some [10; 11] /\ snd x = e /\
   fst (fst x) = [Open 3 2 fl_tmp; Close 3; Unlink 2]) /\
  (let x := su_set true s e false {| q_url := 8; q_enabled := true |} 3 2 1 true (serve [[20]; [21]] true) no_faults false in
   snd (fst x) = SetErr /\ fin x = Some [10; 11] /\ snd x = e) /\
  (let x := su_set true s e false {| q_url := 8; q_enabled := true |} 3 2 1 true (serve [[20]; [21; 22]] false) no_faults false in
   snd (fst x) = SetOk true /\ fin x = Some [20; 21; 22] /\ snd x = {| e_url := 8; e_enabled := true; e_sum := 3 |}) /\
  (let x := su_set true s e false {| q_url := 8; q_enabled := true |} 3 2 1 true (serve [] false) no_faults false in
   snd (fst x) = SetOk true /\ fin x = None /\
   fst (fst x) = [Open 3 2 fl_tmp; Close 3; Unlink 2; Unlink 1]) /\
  (let x := su_set true s off false {| q_url := 7; q_enabled := true |} 3 2 1 false [] no_faults false in
   snd (fst x) = SetErr /\ fin x = Some [10; 11] /\ snd x = off) /\
  (let x := su_set true s e false {| q_url := 7; q_enabled := false |} 3 2 1 true [] no_faults false in
   snd (fst x) = SetOk true /\ fin x = Some [10; 11] /\ fst (fst x) = []) /\
  (let x := su_set true s e true {| q_url := 8; q_enabled := true |} 3 2 1 true (serve [[20]] false) no_faults false in
   snd (fst x) = SetErr /\ fst (fst x) = [] /\ snd x = e).
Proof.
  cbn zeta. split; [apply boot_quiescent|].
  split. { unfold fresh_tmp. repeat split; try (vm_compute; reflexivity). discriminate. }
  vm_compute. repeat split; reflexivity.
Qed.

(** The refuted variant on the same state: the source of the new URL is down,
    the error is reported, the entry is rolled back, and 1 names no file. *)
Example set_props_unguarded_witness :
  let s := boot [(1, [10; 11])] in
  let e := {| e_url := 7; e_enabled := true; e_sum := 2 |} in
  let x := su_set false s e false {| q_url := 8; q_enabled := true |} 3 2 1 false [] no_faults false in
  snd (fst x) = SetErr /\ snd x = e /\
  fst (fst x) = [Open 3 2 fl_tmp; Close 3; Unlink 2; Unlink 1] /\
  live_view (run s (fst (fst x))) 1 = None /\
  trace_safe 1 s (fst (fst x)) = false /\ dst_stays 1 s (fst (fst x)) = false.
Proof. vm_compute. repeat split; reflexivity. Qed.

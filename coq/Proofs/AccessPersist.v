(** Specification and proofs for the life cycle of the access settings
    across access/set, the saved configuration and a restart (C03). *)
From Coq Require Import List NArith Bool Lia.
From AGH Require Import Base.Run Base.NetAddr Base.RuleEngine Model.Access Model.AccessPersist Proofs.Access.
From AGH Require Base.Bytes Base.Dom.
Import ListNotations.
Local Open Scope N_scope.

(** * validateAccessSet *)

Lemma occ_In x l : occ x l <> 0 <-> In x l.
Proof.
  induction l as [|y r IH]; cbn [occ In].
  - split; [intros H; exfalso; apply H; reflexivity | intros []].
  - destruct (eqb_bytes x y) eqn:E.
    + apply Base.Bytes.eqb_bytes_eq in E. subst. split; [intros _; left; reflexivity | intros _; lia].
    + rewrite N.add_0_l, IH. split; [intros H; right; exact H|].
      intros [H|H]; [subst; rewrite Base.Bytes.eqb_bytes_refl in E; discriminate | exact H].
Qed.

Lemma occ_zero x l : occ x l = 0 <-> ~ In x l.
Proof.
  split.
  - intros H Hin. apply occ_In in Hin. contradiction.
  - intros H. destruct (N.eq_dec (occ x l) 0) as [E|E]; [exact E|].
    exfalso. apply H, occ_In, E.
Qed.

Lemma NoDup_occ l : NoDup l <-> forall x, In x l -> occ x l = 1.
Proof.
  induction l as [|y r IH].
  - split; [intros _ x []|constructor].
  - split.
    + intros H. inversion H as [|? ? Hn Hr]; subst. intros x Hx. cbn [occ].
      destruct (eqb_bytes x y) eqn:E.
      * apply Base.Bytes.eqb_bytes_eq in E; subst. apply occ_zero in Hn. lia.
      * destruct Hx as [Hx|Hx]; [subst; rewrite Base.Bytes.eqb_bytes_refl in E; discriminate|].
        rewrite (proj1 IH Hr x Hx). reflexivity.
    + intros H. assert (Hn : ~ In y r).
      { apply occ_zero. specialize (H y (or_introl eq_refl)). cbn [occ] in H.
        rewrite Base.Bytes.eqb_bytes_refl in H. lia. }
      constructor; [exact Hn|]. apply IH. intros x Hx.
      specialize (H x (or_intror Hx)). cbn [occ] in H.
      destruct (eqb_bytes x y) eqn:E; [apply Base.Bytes.eqb_bytes_eq in E; subst; contradiction | lia].
Qed.

Lemma NoDup_occ_le l x : NoDup l -> occ x l <= 1.
Proof.
  intros H. destruct (N.eq_dec (occ x l) 0) as [E|E]; [lia|].
  apply occ_In in E. rewrite (proj1 (NoDup_occ l) H x E). lia.
Qed.

(** validateStrUniq accepts exactly the lists without a repeated string. *)
Lemma uniq_ok_spec l : uniq_ok l = true <-> NoDup l.
Proof.
  unfold uniq_ok. rewrite forallb_forall, NoDup_occ. split; intros H x Hx; specialize (H x Hx).
  - apply N.leb_le in H. apply occ_In in Hx. lia.
  - apply N.leb_le. lia.
Qed.

Lemma forallb_false {A} (f : A -> bool) l :
  forallb f l = false -> exists x, In x l /\ f x = false.
Proof.
  induction l as [|y r IH]; cbn [forallb]; [discriminate|].
  destruct (f y) eqn:E; cbn [andb].
  - intros H. destruct (IH H) as (x & Hx & Hf). exists x. split; [right; exact Hx | exact Hf].
  - intros _. exists y. split; [left; reflexivity | exact E].
Qed.

(** The merged checker of two duplicate-free lists is valid exactly when no
    string is on both. *)
Lemma merged_ok_spec a b :
  NoDup a -> NoDup b -> (merged_ok a b = true <-> forall x, In x a -> ~ In x b).
Proof.
  intros Ha Hb. unfold merged_ok. rewrite forallb_forall. split.
  - intros H x Hxa Hxb. specialize (H x (proj2 (in_app_iff a b x) (or_introl Hxa))).
    apply N.leb_le in H.
    rewrite (proj1 (NoDup_occ a) Ha x Hxa), (proj1 (NoDup_occ b) Hb x Hxb) in H. lia.
  - intros H x Hx. apply N.leb_le.
    destruct (N.eq_dec (occ x a) 0) as [Ea|Ea].
    + pose proof (NoDup_occ_le b x Hb). lia.
    + apply occ_In in Ea. pose proof (proj2 (occ_zero x b) (H x Ea)).
      pose proof (NoDup_occ_le a x Ha). lia.
Qed.

Lemma merged_bad a b :
  NoDup a -> NoDup b -> merged_ok a b = false -> exists x, In x a /\ In x b.
Proof.
  intros Ha Hb H. apply forallb_false in H. destruct H as (x & _ & Hf).
  apply N.leb_gt in Hf. exists x.
  pose proof (NoDup_occ_le a x Ha). pose proof (NoDup_occ_le b x Hb).
  split; apply occ_In; lia.
Qed.

Definition allowed_texts (l : lists) := map cs_text (ls_allowed l).
Definition blocked_texts (l : lists) := map cs_text (ls_blocked l).
Definition host_texts (l : lists) := map hl_text (ls_hosts l).

(** The declarative reading of a valid request: no string twice in a list,
    none on both client lists (compared as typed: byte for byte). *)
Definition well_formed (l : lists) : Prop :=
  NoDup (allowed_texts l) /\ NoDup (blocked_texts l) /\ NoDup (host_texts l) /\
  (forall x, In x (allowed_texts l) -> ~ In x (blocked_texts l)).

Lemma uniq_ok_false l : uniq_ok l = false <-> ~ NoDup l.
Proof.
  rewrite <- uniq_ok_spec. destruct (uniq_ok l); split; try discriminate; auto.
  intros H. exfalso. apply H. reflexivity.
Qed.

(** What validateAccessSet answers, in the order of its checks. *)
Theorem validate_access_set_spec l :
  match validate_access_set l with
  | None => well_formed l
  | Some ErrDupAllowed => ~ NoDup (allowed_texts l)
  | Some ErrDupBlocked => NoDup (allowed_texts l) /\ ~ NoDup (blocked_texts l)
  | Some ErrDupHosts => NoDup (allowed_texts l) /\ NoDup (blocked_texts l) /\ ~ NoDup (host_texts l)
  | Some ErrIntersect =>
      NoDup (allowed_texts l) /\ NoDup (blocked_texts l) /\ NoDup (host_texts l) /\
      exists x, In x (allowed_texts l) /\ In x (blocked_texts l)
  | Some _ => False
  end.
Proof.
  unfold validate_access_set, well_formed. fold (allowed_texts l) (blocked_texts l) (host_texts l).
  destruct (uniq_ok (allowed_texts l)) eqn:Ea; cbn [negb].
  2:{ apply uniq_ok_false, Ea. }
  apply uniq_ok_spec in Ea.
  destruct (uniq_ok (blocked_texts l)) eqn:Eb; cbn [negb].
  2:{ split; [exact Ea | apply uniq_ok_false, Eb]. }
  apply uniq_ok_spec in Eb.
  destruct (uniq_ok (host_texts l)) eqn:Eh; cbn [negb].
  2:{ repeat split; try assumption. apply uniq_ok_false, Eh. }
  apply uniq_ok_spec in Eh.
  destruct (merged_ok (allowed_texts l) (blocked_texts l)) eqn:Em; cbn [negb].
  - repeat split; try assumption. apply merged_ok_spec; assumption.
  - repeat split; try assumption. apply merged_bad; assumption.
Qed.

Corollary validate_ok_iff l : validate_access_set l = None <-> well_formed l.
Proof.
  pose proof (validate_access_set_spec l) as H. split.
  - intros E. rewrite E in H. exact H.
  - intros (Ha & Hb & Hh & Hd). destruct (validate_access_set l) as [e|]; [|reflexivity].
    exfalso. destruct e; try contradiction.
    + destruct H as (_ & H). contradiction.
    + destruct H as (_ & _ & H). contradiction.
    + destruct H as (_ & _ & _ & x & Hx1 & Hx2). exact (Hd x Hx1 Hx2).
Qed.

Lemma validate_never_ok l : validate_access_set l <> Some SetOK.
Proof.
  pose proof (validate_access_set_spec l) as H. intros E. rewrite E in H. exact H.
Qed.

(** * newAccessCtx on strings *)

(** A string is refused exactly when it is neither an address, nor a CIDR,
    nor a valid host-name label. *)
Lemma classify_none c :
  classify c = None <-> cs_parsed c = POther /\ ~ Base.Dom.valid_label (cs_text c).
Proof.
  unfold classify. destruct (cs_parsed c).
  - split; [discriminate | intros [H _]; discriminate].
  - split; [discriminate | intros [H _]; discriminate].
  - destruct (Base.Dom.validate_hostname_label (cs_text c)) eqn:E.
    + split; [|reflexivity]. intros _. split; [reflexivity|].
      intros Hv. apply Base.Dom.validate_hostname_label_spec in Hv. rewrite Hv in E. discriminate.
    + split; [discriminate|]. intros [_ Hn]. exfalso. apply Hn.
      apply Base.Dom.validate_hostname_label_spec. exact E.
Qed.

Lemma classify_all_none l : classify_all l = None <-> exists c, In c l /\ classify c = None.
Proof.
  induction l as [|c r IH]; cbn [classify_all].
  - split; [discriminate | intros (c & [] & _)].
  - destruct (classify c) eqn:E.
    + destruct (classify_all r) eqn:Er.
      * split; [discriminate|]. intros (c' & [->|Hin] & Hc); [congruence|].
        assert (Some l = None) by (apply IH; exists c'; split; assumption). discriminate.
      * split; [|reflexivity]. intros _. destruct (proj1 IH eq_refl) as (c' & Hin & Hc).
        exists c'. split; [right; exact Hin | exact Hc].
    + split; [|reflexivity]. intros _. exists c. split; [left; reflexivity | exact E].
Qed.

Definition usable (l : list cstr) : Prop := forall c, In c l -> classify c <> None.

Lemma classify_all_some l : usable l <-> exists es, classify_all l = Some es.
Proof.
  unfold usable. split.
  - intros H. destruct (classify_all l) as [es|] eqn:E; [exists es; reflexivity|].
    apply classify_all_none in E. destruct E as (c & Hin & Hc). exfalso. exact (H c Hin Hc).
  - intros (es & E) c Hin Hc.
    assert (classify_all l = None) by (apply classify_all_none; exists c; split; assumption).
    congruence.
Qed.

(** The manager can be built: every client string is usable. *)
Definition buildable (l : lists) : Prop := exists a, new_access_ctx l = inl a.

Lemma buildable_iff l : buildable l <-> usable (ls_allowed l) /\ usable (ls_blocked l).
Proof.
  unfold buildable, new_access_ctx. rewrite !classify_all_some. split.
  - intros (a & H). destruct (classify_all (ls_allowed l)) as [al|]; [|discriminate].
    destruct (classify_all (ls_blocked l)) as [bl|]; [|discriminate].
    split; eexists; reflexivity.
  - intros ((al & Ea) & (bl & Eb)). rewrite Ea, Eb. eexists. reflexivity.
Qed.

Lemma new_access_ctx_err l e :
  new_access_ctx l = inr e ->
  (e = ErrBadAllowed /\ ~ usable (ls_allowed l)) \/
  (e = ErrBadBlocked /\ usable (ls_allowed l) /\ ~ usable (ls_blocked l)).
Proof.
  unfold new_access_ctx.
  destruct (classify_all (ls_allowed l)) as [al|] eqn:Ea.
  - destruct (classify_all (ls_blocked l)) as [bl|] eqn:Eb; [discriminate|].
    intros H. injection H as <-. right. split; [reflexivity|]. split.
    + apply classify_all_some. exists al. exact Ea.
    + intros Hu. apply classify_all_some in Hu. destruct Hu as (es & Hes). congruence.
  - intros H. injection H as <-. left. split; [reflexivity|].
    intros Hu. apply classify_all_some in Hu. destruct Hu as (es & Hes). congruence.
Qed.

(** The client sides of the manager do not depend on the blocked hosts. *)
Lemma new_access_ctx_sides l a :
  new_access_ctx l = inl a ->
  forall h, exists a', new_access_ctx (mkLists (ls_allowed l) (ls_blocked l) h) = inl a' /\
                       ac_allowed a' = ac_allowed a /\ ac_blocked a' = ac_blocked a.
Proof.
  unfold new_access_ctx. cbn [ls_allowed ls_blocked ls_hosts].
  destruct (classify_all (ls_allowed l)) as [al|]; [|discriminate].
  destruct (classify_all (ls_blocked l)) as [bl|]; [|discriminate].
  intros H h. injection H as <-. eexists. split; [reflexivity|]. split; reflexivity.
Qed.

(** * access/set *)

(** The request is accepted exactly when it is well formed and every client
    string is usable. *)
Definition accepted (l : lists) : Prop := well_formed l /\ buildable l.

Theorem set_ok_iff w body :
  snd (handle_access_set w body) = SetOK <-> exists l, body = Some l /\ accepted l.
Proof.
  unfold handle_access_set, accepted. destruct body as [l|]; cbn [snd].
  2:{ split; [discriminate | intros (l & H & _); discriminate]. }
  destruct (validate_access_set l) as [e|] eqn:Ev; cbn [snd].
  - split.
    + intros ->. exfalso. exact (validate_never_ok l Ev).
    + intros (l' & Hl & Hw & _). injection Hl as <-. apply validate_ok_iff in Hw. congruence.
  - destruct (new_access_ctx l) as [a|e] eqn:En; cbn [snd].
    + split; [|reflexivity]. intros _. exists l. split; [reflexivity|]. split.
      * apply validate_ok_iff, Ev.
      * exists a. exact En.
    + split.
      * intros ->. apply new_access_ctx_err in En. destruct En as [[H _]|[H _]]; discriminate.
      * intros (l' & Hl & _ & (a & Ha)). injection Hl as <-. congruence.
Qed.

(** A rejected request changes neither the running server nor the file. *)
Theorem set_rejected_unchanged w body :
  snd (handle_access_set w body) <> SetOK -> fst (handle_access_set w body) = w.
Proof.
  unfold handle_access_set. destruct body as [l|]; [|reflexivity].
  destruct (validate_access_set l); [reflexivity|].
  destruct (new_access_ctx l); [|reflexivity].
  cbn [snd]. intros H. exfalso. apply H. reflexivity.
Qed.

(** An accepted request: the server runs with the new lists, and the file
    holds exactly them. *)
Theorem set_accepted w l a :
  validate_access_set l = None -> new_access_ctx l = inl a ->
  handle_access_set w (Some l) = (mkWorld (mkServer l a) l, SetOK).
Proof. intros Hv Ha. unfold handle_access_set. rewrite Hv, Ha. reflexivity. Qed.

(** * Restart *)

Lemma init_default_idem l : init_default_settings (init_default_settings l) = init_default_settings l.
Proof. unfold init_default_settings. destruct (ls_hosts l) eqn:E; [reflexivity | rewrite E; reflexivity]. Qed.

Lemma init_default_nonempty l : ls_hosts l <> [] -> init_default_settings l = l.
Proof. unfold init_default_settings. destruct (ls_hosts l); [intros H; exfalso; apply H; reflexivity | reflexivity]. Qed.

Lemma init_default_sides l :
  ls_allowed (init_default_settings l) = ls_allowed l /\ ls_blocked (init_default_settings l) = ls_blocked l.
Proof. unfold init_default_settings. destruct (ls_hosts l); split; reflexivity. Qed.

Lemma buildable_init_default l : buildable l -> buildable (init_default_settings l).
Proof.
  rewrite !buildable_iff. destruct (init_default_sides l) as [-> ->]. exact (fun H => H).
Qed.

(** * The invariant of the process *)

(** The manager in force is the one built from the lists in force, and the
    lists in force are those of the file, or those of the file with the
    default blocked hosts filled in (a server started from a file with an
    empty blocked-hosts list, until the next save). *)
Definition inv (w : world) : Prop :=
  new_access_ctx (sv_conf (w_srv w)) = inl (sv_access (w_srv w)) /\
  (sv_conf (w_srv w) = w_disk w \/ sv_conf (w_srv w) = init_default_settings (w_disk w)).

Lemma prepare_some c s :
  prepare c = Some s ->
  sv_conf s = init_default_settings c /\ new_access_ctx (sv_conf s) = inl (sv_access s).
Proof.
  unfold prepare. destruct (new_access_ctx (init_default_settings c)) as [a|] eqn:E; [|discriminate].
  intros H. injection H as <-. split; [reflexivity | exact E].
Qed.

Lemma boot_inv c0 w : boot c0 = Some w -> inv w.
Proof.
  unfold boot. destruct (prepare c0) as [s|] eqn:E; [|discriminate].
  intros H. injection H as <-. destruct (prepare_some _ _ E) as [Hc Ha].
  split; [exact Ha | right; exact Hc].
Qed.

Lemma inv_disk_buildable w : inv w -> buildable (init_default_settings (w_disk w)).
Proof.
  intros [Ha [Hd|Hd]].
  - rewrite <- Hd. apply buildable_init_default. eexists. exact Ha.
  - rewrite <- Hd. eexists. exact Ha.
Qed.

(** From every reachable state the server comes up again, with the lists in
    force before (the default blocked hosts filled in if that list is
    empty). *)
Theorem restart_succeeds w :
  inv w ->
  exists s, restart w = Some (mkWorld s (w_disk w)) /\
            sv_conf s = init_default_settings (sv_conf (w_srv w)) /\
            new_access_ctx (sv_conf s) = inl (sv_access s).
Proof.
  intros Hi. destruct (inv_disk_buildable w Hi) as (a & Ha).
  unfold restart, prepare. rewrite Ha. eexists. split; [reflexivity|]. cbn [sv_conf sv_access].
  split; [|exact Ha]. destruct Hi as [_ [Hd|Hd]]; rewrite Hd; [reflexivity | symmetry; apply init_default_idem].
Qed.

Lemma restart_inv w w' : inv w -> restart w = Some w' -> inv w'.
Proof.
  intros Hi Hr. unfold restart in Hr. destruct (prepare (w_disk w)) as [s|] eqn:E; [|discriminate].
  injection Hr as <-. destruct (prepare_some _ _ E) as [Hc Ha].
  split; [exact Ha | right; exact Hc].
Qed.

Lemma set_inv w body : inv w -> inv (fst (handle_access_set w body)).
Proof.
  intros Hi. unfold handle_access_set. destruct body as [l|]; [|exact Hi].
  destruct (validate_access_set l); [exact Hi|].
  destruct (new_access_ctx l) as [a|] eqn:E; [|exact Hi].
  split; [exact E | left; reflexivity].
Qed.

Lemma pstep_inv t w o : inv w -> inv (fst (pstep t w o)).
Proof.
  intros Hi. destruct o as [body| | | |x]; cbn [pstep].
  - pose proof (set_inv w body Hi) as H. destruct (handle_access_set w body). exact H.
  - destruct Hi as [Ha _]. split; [exact Ha | left; reflexivity].
  - destruct (restart w) as [w'|] eqn:E; [exact (restart_inv w w' Hi E) | exact Hi].
  - exact Hi.
  - exact Hi.
Qed.

Lemma prun_cons t w o ops :
  prun t w (o :: ops) =
  (fst (prun t (fst (pstep t w o)) ops),
   (snd (pstep t w o), lists_texts (w_disk (fst (pstep t w o)))) :: snd (prun t (fst (pstep t w o)) ops)).
Proof.
  cbn [prun]. destruct (pstep t w o) as [w1 ob]. cbn [fst snd].
  destruct (prun t w1 ops) as [w2 obs]. reflexivity.
Qed.

(** After every step of every history. *)
Theorem prun_inv t ops : forall w, inv w -> inv (fst (prun t w ops)).
Proof.
  induction ops as [|o ops IH]; intros w Hi; [exact Hi|].
  rewrite prun_cons. cbn [fst]. apply IH, pstep_inv, Hi.
Qed.

Corollary reachable_inv t c0 w0 ops : boot c0 = Some w0 -> inv (fst (prun t w0 ops)).
Proof. intros Hb. apply prun_inv, (boot_inv c0), Hb. Qed.

Corollary reachable_restarts t c0 w0 ops :
  boot c0 = Some w0 -> exists w1, restart (fst (prun t w0 ops)) = Some w1.
Proof.
  intros Hb. destruct (restart_succeeds _ (reachable_inv t c0 w0 ops Hb)) as (s & H & _).
  eexists. exact H.
Qed.

(** Saved = in force, exactly, after an accepted access/set and after any
    other save. *)
Theorem saved_is_in_force_after_set w l w' :
  handle_access_set w (Some l) = (w', SetOK) ->
  w_disk w' = sv_conf (w_srv w') /\ sv_conf (w_srv w') = l.
Proof.
  unfold handle_access_set. destruct (validate_access_set l) as [e|] eqn:Ev.
  - intros H. injection H as _ He. exfalso. subst e. exact (validate_never_ok l Ev).
  - destruct (new_access_ctx l) as [a|e] eqn:En.
    + intros H. injection H as <-. split; reflexivity.
    + intros H. injection H as _ He. subst e.
      apply new_access_ctx_err in En. destruct En as [[H _]|[H _]]; discriminate.
Qed.

Theorem saved_is_in_force_after_save w :
  w_disk (config_modified w) = sv_conf (w_srv (config_modified w)).
Proof. reflexivity. Qed.

(** * The lists in force, read off the history *)

Definition acceptedb (l : lists) : bool :=
  match validate_access_set l, new_access_ctx l with
  | None, inl _ => true
  | _, _ => false
  end.

Lemma acceptedb_spec l : acceptedb l = true <-> accepted l.
Proof.
  unfold acceptedb, accepted, buildable. split.
  - destruct (validate_access_set l) eqn:Ev; [discriminate|].
    destruct (new_access_ctx l) as [a|] eqn:En; [|discriminate].
    intros _. split; [apply validate_ok_iff, Ev | exists a; reflexivity].
  - intros [Hw (a & Ha)]. apply validate_ok_iff in Hw. rewrite Hw, Ha. reflexivity.
Qed.

(** The lists the API accepted last (those of the start if none since), with
    the default blocked hosts filled in at every start. *)
Fixpoint in_force (cur : lists) (ops : list pop) : lists :=
  match ops with
  | [] => cur
  | PSet (Some l) :: r => in_force (if acceptedb l then l else cur) r
  | PRestart :: r => in_force (init_default_settings cur) r
  | _ :: r => in_force cur r
  end.

Lemma pstep_conf t w o :
  inv w ->
  sv_conf (w_srv (fst (pstep t w o))) = in_force (sv_conf (w_srv w)) [o].
Proof.
  intros Hi. destruct o as [[l|]| | | |x]; cbn [pstep in_force]; try reflexivity.
  - unfold handle_access_set, acceptedb.
    destruct (validate_access_set l); [reflexivity|].
    destruct (new_access_ctx l); reflexivity.
  - destruct (restart_succeeds w Hi) as (s & Hr & Hc & _). rewrite Hr. exact Hc.
Qed.

Lemma in_force_cons cur o ops : in_force cur (o :: ops) = in_force (in_force cur [o]) ops.
Proof. destruct o as [[l|]| | | |x]; reflexivity. Qed.

(** The running server's lists are the ones read off the history ... *)
Theorem prun_conf t ops : forall w,
  inv w -> sv_conf (w_srv (fst (prun t w ops))) = in_force (sv_conf (w_srv w)) ops.
Proof.
  induction ops as [|o ops IH]; intros w Hi; [reflexivity|].
  rewrite prun_cons, in_force_cons. cbn [fst].
  rewrite (IH _ (pstep_inv t w o Hi)), (pstep_conf t w o Hi). reflexivity.
Qed.

(** * The property across a restart *)

(** For every history of access/set (accepted or not), other saves,
    restarts, access/list and requests: the process comes up again, and the
    server that comes up decides every request by the lists the API accepted
    last.  If their blocked-hosts list is not empty it is the very same
    server (lists and manager); if it is empty, the three default names are
    blocked in addition. *)
Theorem restart_keeps_last_set t c0 w0 ops :
  boot c0 = Some w0 ->
  let w := fst (prun t w0 ops) in
  let l := in_force (init_default_settings c0) ops in
  sv_conf (w_srv w) = l /\
  exists a w1,
    new_access_ctx (init_default_settings l) = inl a /\
    restart w = Some w1 /\
    w_srv w1 = mkServer (init_default_settings l) a /\
    (forall x, probe t w1 x = handle_before_ctx a t x) /\
    (ls_hosts l <> [] -> w_srv w1 = w_srv w).
Proof.
  intros Hb w l. pose proof (boot_inv c0 w0 Hb) as Hi0.
  assert (Hc0 : sv_conf (w_srv w0) = init_default_settings c0).
  { unfold boot in Hb. destruct (prepare c0) as [s|] eqn:E; [|discriminate].
    injection Hb as <-. exact (proj1 (prepare_some _ _ E)). }
  assert (Hl : sv_conf (w_srv w) = l).
  { unfold w, l. rewrite <- Hc0. apply prun_conf, Hi0. }
  split; [exact Hl|].
  pose proof (prun_inv t ops w0 Hi0) as Hi. fold w in Hi.
  destruct (restart_succeeds w Hi) as (s & Hr & Hc & Ha).
  rewrite Hl in Hc. exists (sv_access s), (mkWorld s (w_disk w)).
  split; [rewrite <- Hc; exact Ha|]. split; [exact Hr|]. cbn [w_srv].
  split; [destruct s as [c a]; cbn [sv_conf sv_access] in *; rewrite Hc; reflexivity|].
  split; [intros x; reflexivity|].
  intros Hne. destruct Hi as [Haw _]. rewrite Hl in Haw.
  rewrite (init_default_nonempty l Hne) in Hc. rewrite Hc in Ha.
  destruct s as [c a], (w_srv w) as [c' a'] eqn:Ew. cbn [sv_conf sv_access] in *.
  subst c c'. congruence.
Qed.

(** The scenario of a single change: right after an accepted access/set
    (with some blocked host) a restart reproduces the state exactly. *)
Theorem set_then_restart w l w' :
  handle_access_set w (Some l) = (w', SetOK) -> ls_hosts l <> [] -> restart w' = Some w'.
Proof.
  unfold handle_access_set. destruct (validate_access_set l) as [e|] eqn:Ev.
  - intros H. injection H as _ He. exfalso. subst e. exact (validate_never_ok l Ev).
  - destruct (new_access_ctx l) as [a|e] eqn:En.
    + intros H Hne. injection H as <-. unfold restart, prepare, config_modified, write_disk_config.
      cbn [w_disk w_srv sv_conf]. rewrite (init_default_nonempty l Hne), En. reflexivity.
    + intros H. injection H as _ He. subst e.
      apply new_access_ctx_err in En. destruct En as [[H _]|[H _]]; discriminate.
Qed.

(** The client decision does not read the blocked hosts. *)
Lemma is_blocked_client_sides a a' ip id :
  ac_allowed a' = ac_allowed a -> ac_blocked a' = ac_blocked a ->
  is_blocked_client a' ip id = is_blocked_client a ip id.
Proof.
  destruct a as [al bl h], a' as [al' bl' h']. cbn [ac_allowed ac_blocked]. intros -> ->.
  reflexivity.
Qed.

(** The start-up default rule, for every history: when the blocked-hosts
    list accepted last is empty, the server that comes up runs with the
    client lists accepted last and the three default names as blocked hosts
    (access/list reports exactly that); the client decision is the one of
    the server that went down. *)
Theorem restart_empty_blocked_hosts_defaults t c0 w0 ops :
  boot c0 = Some w0 ->
  let w := fst (prun t w0 ops) in
  let l := in_force (init_default_settings c0) ops in
  ls_hosts l = [] ->
  exists w1,
    restart w = Some w1 /\
    sv_conf (w_srv w1) = mkLists (ls_allowed l) (ls_blocked l) default_blocked_hosts /\
    handle_access_list w1 =
      (allowed_texts l, blocked_texts l, [version_bind; id_server; hostname_bind]) /\
    w_disk w1 = w_disk w /\
    (forall ip id, is_blocked_client (sv_access (w_srv w1)) ip id =
                   is_blocked_client (sv_access (w_srv w)) ip id).
Proof.
  intros Hb w l Hh.
  destruct (restart_keeps_last_set t c0 w0 ops Hb) as (Hl & a & w1 & Ha & Hr & Hs & _ & _).
  fold w l in Hl, Ha, Hr, Hs.
  assert (Hd : init_default_settings l = mkLists (ls_allowed l) (ls_blocked l) default_blocked_hosts).
  { unfold init_default_settings. rewrite Hh. reflexivity. }
  exists w1. split; [exact Hr|]. rewrite Hs. cbn [sv_conf sv_access].
  split; [exact Hd|]. split.
  { unfold handle_access_list. rewrite Hs. cbn [sv_conf]. rewrite Hd. reflexivity. }
  split.
  { unfold restart in Hr. destruct (prepare (w_disk w)); [|discriminate]. injection Hr as <-. reflexivity. }
  intros ip id.
  pose proof (reachable_inv t c0 w0 ops Hb) as [Haw _]. fold w in Haw. rewrite Hl in Haw.
  destruct (new_access_ctx_sides l _ Haw default_blocked_hosts) as (a' & Ha' & Hal & Hbk).
  rewrite Hd in Ha. assert (a = a') by congruence. subst a'.
  apply is_blocked_client_sides; assumption.
Qed.

Lemma no_hosts_no_blocked_host al bl host qt : is_blocked_host (new_access al bl []) host qt = false.
Proof. destruct host; reflexivity. Qed.

(** "Never served" across the restart: a request excluded by the lists the
    API accepted last (client address, ClientID or blocked name) gets the
    protocol's refusal from the server that comes up, whatever happened in
    between. *)
Theorem excluded_after_restart t c0 w0 ops a w1 x id :
  boot c0 = Some w0 ->
  new_access_ctx (in_force (init_default_settings c0) ops) = inl a ->
  restart (fst (prun t w0 ops)) = Some w1 ->
  extract_clientid t x = Some id ->
  blocked_request a (cx_ip x) id (cx_q x) ->
  probe t w1 x = pre_blocked (cx_proto x).
Proof.
  intros Hb Ha Hr He Hbl.
  destruct (restart_keeps_last_set t c0 w0 ops Hb) as (_ & a1 & w1' & Ha1 & Hr' & Hs & Hp & _).
  rewrite Hr in Hr'. injection Hr' as <-. rewrite Hp.
  unfold handle_before_ctx. rewrite He. apply handle_before_blocked.
  set (l := in_force (init_default_settings c0) ops) in *.
  destruct (ls_hosts l) eqn:Eh.
  - (* no blocked hosts accepted: the request is excluded as a client *)
    destruct (new_access_ctx_sides l a Ha default_blocked_hosts) as (a' & Ha' & Hal & Hbk).
    assert (a1 = a').
    { unfold init_default_settings in Ha1. rewrite Eh in Ha1. congruence. }
    subst a1. destruct Hbl as [Hex|(name & qt & _ & Hh)].
    + left. unfold excluded in *. rewrite (is_blocked_client_sides a a' _ _ Hal Hbk). exact Hex.
    + exfalso. unfold new_access_ctx in Ha.
      destruct (classify_all (ls_allowed l)); [|discriminate].
      destruct (classify_all (ls_blocked l)); [|discriminate].
      injection Ha as <-. rewrite Eh in Hh. cbn [map] in Hh.
      rewrite no_hosts_no_blocked_host in Hh. discriminate.
  - assert (Hne : ls_hosts l <> []) by (rewrite Eh; discriminate).
    rewrite (init_default_nonempty l Hne) in Ha1. congruence.
Qed.

(** "All other requests are served" across the restart, when the accepted
    blocked-hosts list is not empty. *)
Theorem admitted_after_restart t c0 w0 ops a w1 x id :
  boot c0 = Some w0 ->
  new_access_ctx (in_force (init_default_settings c0) ops) = inl a ->
  ls_hosts (in_force (init_default_settings c0) ops) <> [] ->
  restart (fst (prun t w0 ops)) = Some w1 ->
  extract_clientid t x = Some id ->
  ~ blocked_request a (cx_ip x) id (cx_q x) ->
  probe t w1 x = BContinue (match id with [] => None | _ => Some id end).
Proof.
  intros Hb Ha Hne Hr He Hnb.
  destruct (restart_keeps_last_set t c0 w0 ops Hb) as (_ & a1 & w1' & Ha1 & Hr' & _ & Hp & _).
  rewrite Hr in Hr'. injection Hr' as <-. rewrite Hp.
  rewrite (init_default_nonempty _ Hne) in Ha1.
  assert (a1 = a) by congruence. subst a1.
  unfold handle_before_ctx. rewrite He. apply handle_before_admitted, Hnb.
Qed.

(** * Non-vacuity, and the two deviations *)

Definition ex_kid_str : cstr := mkCStr [75;105;68] POther.                              (* "KiD" *)
Definition ex_ip_str : cstr := mkCStr [49;46;50;46;51;46;52] (PAddr ex_ip).             (* "1.2.3.4" *)
Definition ex_host_line : hline := bare_host [97;46;116;101;115;116].                   (* a.test *)
Definition ex_c0 : lists := mkLists [] [] [ex_host_line].
Definition ex_set : lists := mkLists [] [ex_ip_str; ex_kid_str] [ex_host_line].
Definition ex_udp (name : bytes) : dnsctx := mkCtx PUDP None None (Some ex_ip) (Some (name, 1)) 7.
Definition ex_tcp (name : bytes) : dnsctx := mkCtx PTCP None None (Some ex_ip) (Some (name, 1)) 7.
Definition ex_x_test : bytes := [120;46;116;101;115;116;46].                            (* x.test. *)
Definition ex_tls0 : tlsconf := mkTlsConf [] false.

Example restart_premises_satisfiable :
  exists w0 a w1,
    boot ex_c0 = Some w0 /\
    accepted ex_set /\
    in_force (init_default_settings ex_c0) [PSet (Some ex_set); PList] = ex_set /\
    new_access_ctx ex_set = inl a /\
    restart (fst (prun ex_tls0 w0 [PSet (Some ex_set); PList])) = Some w1 /\
    extract_clientid ex_tls0 (ex_udp ex_x_test) = Some [] /\
    blocked_request a (Some ex_ip) [] (Some (ex_x_test, 1)) /\
    probe ex_tls0 w0 (ex_udp ex_x_test) = BContinue None /\
    probe ex_tls0 w1 (ex_udp ex_x_test) = BDrop.
Proof.
  eexists. eexists. eexists.
  split; [reflexivity|]. split.
  { apply acceptedb_spec. reflexivity. }
  split; [reflexivity|]. split; [reflexivity|]. split; [reflexivity|]. split; [reflexivity|].
  split; [left; reflexivity|]. split; reflexivity.
Qed.

Example rejected_requests :
  validate_access_set (mkLists [ex_ip_str; ex_ip_str] [] []) = Some ErrDupAllowed /\
  validate_access_set (mkLists [] [ex_kid_str; ex_ip_str; ex_kid_str] []) = Some ErrDupBlocked /\
  validate_access_set (mkLists [] [] [ex_host_line; ex_host_line]) = Some ErrDupHosts /\
  validate_access_set (mkLists [ex_kid_str] [ex_ip_str; ex_kid_str] []) = Some ErrIntersect /\
  snd (handle_access_set (mkWorld (mkServer ex_c0 (new_access [] [] [])) ex_c0)
         (Some (mkLists [mkCStr [98;95;100] POther] [] []))) = ErrBadAllowed /\
  snd (handle_access_set (mkWorld (mkServer ex_c0 (new_access [] [] [])) ex_c0)
         (Some (mkLists [] [mkCStr [] POther] []))) = ErrBadBlocked.
Proof. repeat split. Qed.

(** The unchanged code, an emptied blocked-hosts list: the running server
    answers a query for version.bind, the server that comes up after a
    restart refuses it (initDefaultSettings puts the three default names
    back), and access/list then shows them. *)
Example restart_empty_hosts_gets_defaults :
  exists w0 w w1,
    boot ex_c0 = Some w0 /\
    handle_access_set w0 (Some (mkLists [] [] [])) = (w, SetOK) /\
    restart w = Some w1 /\
    probe ex_tls0 w (ex_tcp (version_bind ++ [46])) = BContinue None /\
    probe ex_tls0 w1 (ex_tcp (version_bind ++ [46])) = BRefused /\
    handle_access_list w = ([], [], []) /\
    handle_access_list w1 = ([], [], [version_bind; id_server; hostname_bind]).
Proof. eexists. eexists. eexists. repeat split. Qed.

(** The variant that saves first (the callback called before s.conf's lists
    are replaced): the file keeps the previous lists ... *)
Definition handle_access_set_early (w : world) (body : option lists) : world * set_result :=
  match body with
  | None => (w, ErrDecode)
  | Some l =>
      match validate_access_set l with
      | Some e => (w, e)
      | None =>
          match new_access_ctx l with
          | inr e => (w, e)
          | inl a =>
              let w1 := config_modified w in
              (mkWorld (mkServer l a) (w_disk w1), SetOK)
          end
      end
  end.

Lemma early_persist_lags w l w' :
  handle_access_set_early w (Some l) = (w', SetOK) ->
  w_disk w' = sv_conf (w_srv w) /\ sv_conf (w_srv w') = l.
Proof.
  unfold handle_access_set_early. destruct (validate_access_set l) as [e|] eqn:Ev.
  - intros H. injection H as _ He. exfalso. subst e. exact (validate_never_ok l Ev).
  - destruct (new_access_ctx l) as [a|e] eqn:En.
    + intros H. injection H as <-. split; reflexivity.
    + intros H. injection H as _ He. subst e.
      apply new_access_ctx_err in En. destruct En as [[H _]|[H _]]; discriminate.
Qed.

(** ... and the property fails: the client just disallowed gets no reply
    from the running server and is served by the one that comes up after a
    restart. *)
Theorem early_persist_refuted :
  exists c0 l w0 w w1 x a,
    boot c0 = Some w0 /\
    handle_access_set_early w0 (Some l) = (w, SetOK) /\
    restart w = Some w1 /\
    new_access_ctx l = inl a /\ ls_hosts l <> [] /\
    blocked_request a (cx_ip x) [] (cx_q x) /\
    probe ex_tls0 w x = BDrop /\
    probe ex_tls0 w1 x = BContinue None.
Proof.
  exists ex_c0, ex_set. eexists. eexists. eexists. exists (ex_udp ex_x_test). eexists.
  split; [reflexivity|]. split; [reflexivity|]. split; [reflexivity|]. split; [reflexivity|].
  split; [discriminate|]. split; [left; reflexivity|]. split; reflexivity.
Qed.

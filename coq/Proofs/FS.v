(** Proofs about the abstract file system of C14 (model: Base/FS.v). *)
From Coq Require Import List Arith NArith Bool Lia.
From AGH Require Import Base.FS.
Import ListNotations.
Local Open Scope N_scope.

(** ** Association-list maps *)

Lemma aget_aset {A} (m : amap A) k v x :
  aget (aset m k v) x = if x =? k then Some v else aget m x.
Proof.
  induction m as [|[k' v'] r IH]; cbn.
  - rewrite (N.eqb_sym k x). reflexivity.
  - destruct (N.eqb_spec k' k) as [->|Hk]; cbn.
    + rewrite (N.eqb_sym k x). destruct (x =? k); reflexivity.
    + rewrite IH. destruct (N.eqb_spec k' x) as [->|Hx]; [|reflexivity].
      destruct (N.eqb_spec x k); [congruence|reflexivity].
Qed.

Lemma aget_adel {A} (m : amap A) k x :
  aget (adel m k) x = if x =? k then None else aget m x.
Proof.
  induction m as [|[k' v'] r IH]; cbn.
  - destruct (x =? k); reflexivity.
  - destruct (N.eqb_spec k' k) as [->|Hk]; cbn.
    + rewrite IH. rewrite (N.eqb_sym k x). destruct (x =? k); reflexivity.
    + rewrite IH. destruct (N.eqb_spec k' x) as [->|Hx]; [|reflexivity].
      destruct (N.eqb_spec x k); [congruence|reflexivity].
Qed.

(** ** The linear-time [f_cur] computes its specification *)

Lemma rv_rev l : rv l = rev l.
Proof. unfold rv. symmetry. apply rev_alt. Qed.

Lemma nlen_app (a b : data) : nlen (a ++ b) = nlen a + nlen b.
Proof. unfold nlen. rewrite app_length. lia. Qed.

Lemma write_at_end c d : write_at c (nlen c) d = c ++ d.
Proof.
  unfold write_at, pad_to, nlen. rewrite Nat2N.id, Nat.sub_diag. cbn [repeat].
  rewrite app_nil_r, firstn_all, skipn_all2 by lia. now rewrite app_nil_r.
Qed.

Lemma fold_r_inv ps c0 :
  let st := fold_right (fun p st => apply_pop_r st p) (rv c0, nlen c0) ps in
  let c := fold_right (fun p c => apply_pop c p) c0 ps in
  fst st = rv c /\ snd st = nlen c.
Proof.
  induction ps as [|p ps IH]; cbn zeta in *; cbn [fold_right]; [split; reflexivity|].
  destruct IH as [H1 H2].
  set (st := fold_right (fun p st => apply_pop_r st p) (rv c0, nlen c0) ps) in *.
  set (c := fold_right (fun p c => apply_pop c p) c0 ps) in *.
  assert (Hrr : rv (fst st) = c) by (rewrite H1, !rv_rev; apply rev_involutive).
  destruct p as [n|off d]; unfold apply_pop_r.
  - rewrite Hrr. split; reflexivity.
  - rewrite H2. destruct (N.eqb_spec off (nlen c)) as [->|Hne]; cbn [fst snd].
    + cbn [apply_pop]. rewrite write_at_end, H1, nlen_app. split; [|reflexivity].
      rewrite !rv_rev, rev_append_rev, rev_app_distr. reflexivity.
    + rewrite Hrr. split; reflexivity.
Qed.

Lemma f_cur_spec_eq f : f_cur f = f_cur_spec f.
Proof.
  unfold f_cur, f_cur_spec. destruct (f_pend f) as [|p ps] eqn:E; [reflexivity|].
  destruct (fold_r_inv (p :: ps) (f_dur f)) as [H1 _]. rewrite H1, !rv_rev. apply rev_involutive.
Qed.

Lemma f_cur_synced f : f_pend f = [] -> f_cur f = f_dur f.
Proof. unfold f_cur. now intros ->. Qed.

(** ** Projections of the state updates *)

Lemma file_of_set_file s i f j :
  file_of (set_file s i f) j = if j =? i then f else file_of s j.
Proof. unfold file_of, set_file; cbn. rewrite aget_aset. destruct (j =? i); reflexivity. Qed.

Lemma file_of_add_pend s i p j :
  file_of (add_pend s i p) j =
  if j =? i then {| f_dur := f_dur (file_of s i); f_pend := p :: f_pend (file_of s i) |} else file_of s j.
Proof. unfold add_pend. apply file_of_set_file. Qed.

(** ** Soundness of the checker *)

Definition dst_clean (s : fs) (dst : path) : Prop :=
  forall d i, In d (all_dirs s) -> aget d dst = Some i -> f_pend (file_of s i) = [].

Definition views_in (s : fs) (dst : path) (vs : list (option data)) : Prop :=
  forall d, In d (all_dirs s) -> In (view d s dst) vs.

Definition inv (s : fs) (dst : path) (vs : list (option data)) : Prop :=
  dst_clean s dst /\ views_in s dst vs.

(** State after boot/recovery as far as [dst] is concerned: no older
    directory, and the file at [dst] (if any) fully durable. *)
Definition quiescent (s : fs) (dst : path) : Prop :=
  dir_old s = [] /\ forall i, aget (dir_cur s) dst = Some i -> f_pend (file_of s i) = [].

Lemma ever_at_spec s dst i :
  ever_at s dst i = true <-> exists d, In d (all_dirs s) /\ aget d dst = Some i.
Proof.
  unfold ever_at. rewrite existsb_exists. split; intros (d & Hd & H); exists d; split; auto.
  - destruct (aget d dst) as [j|]; [|discriminate]. apply N.eqb_eq in H. now subst.
  - rewrite H. apply N.eqb_refl.
Qed.

Lemma inv_now s dst vs v :
  inv s dst vs -> In v (live_view s dst :: crash_views s dst) -> In v vs.
Proof.
  intros [Hc Hv] [<-|Hin].
  - apply Hv. left. reflexivity.
  - unfold crash_views in Hin. apply in_flat_map in Hin. destruct Hin as (d & Hd & Hin).
    specialize (Hv d Hd). unfold view in Hv.
    destruct (aget d dst) as [i|] eqn:E.
    + specialize (Hc d i Hd E). unfold crash_contents in Hin. rewrite Hc in Hin. cbn in Hin.
      rewrite (f_cur_synced _ Hc) in Hv. destruct Hin as [<-|[]]. exact Hv.
    + destruct Hin as [<-|[]]. exact Hv.
Qed.

Lemma inv_weaken s dst vs vs' : inv s dst vs -> incl vs vs' -> inv s dst vs'.
Proof. intros [Hc Hv] Hi. split; auto. intros d Hd. apply Hi, Hv, Hd. Qed.

(** (a) the directories stay, files that [dst] ever named keep their content *)
Lemma inv_files s s' dst vs :
  inv s dst vs ->
  all_dirs s' = all_dirs s ->
  (forall i, ever_at s dst i = true -> f_pend (file_of s i) = [] ->
             f_pend (file_of s' i) = [] /\ f_cur (file_of s' i) = f_cur (file_of s i)) ->
  inv s' dst vs.
Proof.
  intros [Hc Hv] Hd Hf. split.
  - intros d i Hin E. rewrite Hd in Hin.
    apply Hf; [apply ever_at_spec; eauto | eapply Hc; eauto].
  - intros d Hin. rewrite Hd in Hin. specialize (Hv d Hin). unfold view in *.
    destruct (aget d dst) as [i|] eqn:E; [|exact Hv].
    destruct (Hf i) as [_ ->]; [apply ever_at_spec; eauto | eapply Hc; eauto | exact Hv].
Qed.

(** (b) a new directory is pushed, files stay *)
Lemma inv_dir_same s nd dst vs :
  inv s dst vs -> aget nd dst = aget (dir_cur s) dst -> inv (set_dir s nd) dst vs.
Proof.
  intros [Hc Hv] E. split.
  - intros d i Hin Hi. destruct Hin as [Hin|Hin].
    + cbn in Hin. subst d. rewrite E in Hi. apply (Hc (dir_cur s) i); [left; reflexivity|exact Hi].
    + apply (Hc d i Hin Hi).
  - intros d Hin. destruct Hin as [Hin|Hin].
    + cbn in Hin. subst d. unfold view. rewrite E. apply (Hv (dir_cur s)). left; reflexivity.
    + apply (Hv d Hin).
Qed.

Lemma inv_dir_publish s nd dst vs i :
  inv s dst vs -> aget nd dst = Some i -> f_pend (file_of s i) = [] ->
  inv (set_dir s nd) dst (vs ++ [Some (f_cur (file_of s i))]).
Proof.
  intros [Hc Hv] E Hp. split.
  - intros d j Hin Hj. destruct Hin as [Hin|Hin].
    + cbn in Hin. subst d. rewrite E in Hj. injection Hj as <-. exact Hp.
    + apply (Hc d j Hin Hj).
  - intros d Hin. apply in_or_app. destruct Hin as [Hin|Hin].
    + cbn in Hin. subst d. right. unfold view. rewrite E. left. reflexivity.
    + left. apply (Hv d Hin).
Qed.

(** descriptor-table updates are invisible to the invariant *)
Lemma inv_set_fd s fd e dst vs : inv s dst vs -> inv (set_fd s fd e) dst vs.
Proof. intros H. apply (inv_files s); auto. Qed.

Lemma inv_del_fd s fd dst vs : inv s dst vs -> inv (del_fd s fd) dst vs.
Proof. intros H. apply (inv_files s); auto. Qed.

(** a modification of a file that [dst] never named *)
Lemma inv_add_pend s i p dst vs :
  inv s dst vs -> ever_at s dst i = false -> inv (add_pend s i p) dst vs.
Proof.
  intros H Hn. apply (inv_files s); auto.
  intros j Hj Hp. rewrite file_of_add_pend.
  destruct (N.eqb_spec j i) as [->|]; [congruence|auto].
Qed.

Lemma step_inv s o dst vs :
  inv s dst vs -> step_ok dst s o = true -> inv (step s o) dst (vs ++ published s o dst).
Proof.
  intros H Hok.
  assert (Hnil : forall s', inv s' dst vs -> inv s' dst (vs ++ [])) by (intros; now rewrite app_nil_r).
  destruct o as [fd p fl|fd d|fd off d|fd|fd|a b|p|fd n|p n]; cbn [step published step_ok] in *.
  - (* Open *)
    apply Hnil. destruct (aget (dir_cur s) p) as [i|] eqn:E.
    + destruct (o_creat fl && o_excl fl); [exact H|].
      apply inv_set_fd. destruct (o_trunc fl) eqn:Et; [|exact H].
      apply inv_add_pend; [exact H|].
      destruct (ever_at s dst i); [|reflexivity].
      rewrite orb_true_r in Hok. discriminate.
    + destruct (o_creat fl) eqn:Ec; [|exact H].
      apply inv_set_fd.
      match goal with |- inv ?s' _ _ => apply (inv_files (set_dir s (aset (dir_cur s) p (next_ino s))) s') end;
        [|reflexivity|auto].
      apply inv_dir_same; [exact H|]. rewrite aget_aset.
      destruct (N.eqb_spec dst p) as [->|]; [|reflexivity].
      rewrite N.eqb_refl in Hok. discriminate.
  - (* Write *)
    apply Hnil. unfold fd_target_ok in Hok. destruct (aget (fds s) fd) as [e|]; [|exact H].
    destruct (fd_wr e); [|exact H]. apply inv_set_fd, inv_add_pend; [exact H|].
    now destruct (ever_at s dst (fd_ino e)).
  - (* PWriteAt *)
    apply Hnil. unfold fd_target_ok in Hok. destruct (aget (fds s) fd) as [e|]; [|exact H].
    destruct (fd_wr e); [|exact H]. apply inv_add_pend; [exact H|].
    now destruct (ever_at s dst (fd_ino e)).
  - (* Fsync *)
    apply Hnil. destruct (aget (fds s) fd) as [e|]; [|exact H].
    apply (inv_files s); auto. intros j Hj Hp. rewrite file_of_set_file.
    destruct (N.eqb_spec j (fd_ino e)) as [->|]; [|auto]. cbn.
    split; [reflexivity|]. rewrite (f_cur_synced (file_of s (fd_ino e)) Hp).
    unfold f_cur. reflexivity.
  - (* Close *)
    apply Hnil, inv_del_fd, H.
  - (* Rename *)
    apply andb_prop in Hok. destruct Hok as [Ha Hb]. apply negb_true_iff, N.eqb_neq in Ha.
    destruct (aget (dir_cur s) a) as [i|] eqn:E.
    + destruct (N.eqb_spec b dst) as [->|Hne].
      * unfold live_view, view. rewrite E. apply inv_dir_publish; [exact H| |].
        -- rewrite aget_aset, N.eqb_refl. reflexivity.
        -- unfold synced in Hb. now destruct (f_pend (file_of s i)).
      * apply Hnil, inv_dir_same; [exact H|]. rewrite aget_aset, aget_adel.
        destruct (N.eqb_spec dst b); [congruence|]. destruct (N.eqb_spec dst a); [congruence|reflexivity].
    + destruct (b =? dst); apply Hnil, H.
  - (* Unlink *)
    apply Hnil. apply negb_true_iff, N.eqb_neq in Hok.
    destruct (aget (dir_cur s) p) as [i|]; [|exact H].
    apply inv_dir_same; [exact H|]. rewrite aget_adel.
    destruct (N.eqb_spec dst p); [congruence|reflexivity].
  - (* Ftruncate *)
    apply Hnil. unfold fd_target_ok in Hok. destruct (aget (fds s) fd) as [e|]; [|exact H].
    destruct (fd_wr e); [|exact H]. apply inv_add_pend; [exact H|].
    now destruct (ever_at s dst (fd_ino e)).
  - (* TruncatePath *)
    apply Hnil. destruct (aget (dir_cur s) p) as [i|]; [|exact H].
    apply inv_add_pend; [exact H|]. now destruct (ever_at s dst i).
Qed.

Lemma trace_inv t : forall s dst vs,
  inv s dst vs -> trace_safe dst s t = true ->
  forall v, In v (visible_states s t dst) -> In v (vs ++ versions s t dst).
Proof.
  induction t as [|o t IH]; intros s dst vs H Hs v Hv; cbn [visible_states versions trace_safe] in *.
  - rewrite app_nil_r in *. eapply inv_now; eauto.
  - apply andb_prop in Hs. destruct Hs as [Ho Hs].
    apply in_app_or in Hv. destruct Hv as [Hv|Hv].
    + apply in_or_app. left. eapply inv_now; eauto.
    + rewrite app_assoc. eapply IH; [apply step_inv; eauto|exact Hs|exact Hv].
Qed.

Lemma quiescent_inv s dst : quiescent s dst -> inv s dst [live_view s dst].
Proof.
  intros [Ho Hc]. split.
  - intros d i Hd E. unfold all_dirs in Hd. rewrite Ho in Hd. destruct Hd as [<-|[]]. auto.
  - intros d Hd. unfold all_dirs in Hd. rewrite Ho in Hd. destruct Hd as [<-|[]]. left. reflexivity.
Qed.

(** The key theorem: whatever trace the checker accepts never shows, at any
    instant or after a crash at any prefix, anything but a complete published
    version at [dst]. *)
Theorem checker_sound dst s t :
  quiescent s dst -> trace_safe dst s t = true ->
  forall v, In v (visible_states s t dst) -> In v (all_versions s t dst).
Proof.
  intros Hq Hs v Hv. unfold all_versions.
  change (In v ([live_view s dst] ++ versions s t dst)).
  eapply trace_inv; eauto using quiescent_inv.
Qed.

(** The boot states built for the recorded traces are quiescent. *)
Lemma boot_files_synced ents : forall k i f,
  aget (boot_files ents k) i = Some f -> f_pend f = [].
Proof.
  induction ents as [|[p c] r IH]; intros k i f; cbn; [discriminate|].
  rewrite aget_aset. destruct (i =? k); [intros [= <-]; reflexivity|apply IH].
Qed.

Lemma boot_quiescent ents dst : quiescent (boot ents) dst.
Proof.
  split; [reflexivity|]. intros i _. unfold file_of. cbn [files boot].
  destruct (aget (boot_files ents 1) i) eqn:E; [eapply boot_files_synced; eauto|reflexivity].
Qed.

(** ** Splitting traces *)

Lemma run_app s t1 t2 : run s (t1 ++ t2) = run (run s t1) t2.
Proof. unfold run. apply fold_left_app. Qed.

Lemma trace_safe_app dst t1 : forall s t2,
  trace_safe dst s (t1 ++ t2) = trace_safe dst s t1 && trace_safe dst (run s t1) t2.
Proof.
  induction t1 as [|o t1 IH]; intros s t2; cbn; [reflexivity|].
  rewrite IH, andb_assoc. reflexivity.
Qed.

Lemma versions_app dst t1 : forall s t2,
  versions s (t1 ++ t2) dst = versions s t1 dst ++ versions (run s t1) t2 dst.
Proof.
  induction t1 as [|o t1 IH]; intros s t2; cbn; [reflexivity|].
  rewrite IH, app_assoc. reflexivity.
Qed.

(** ** The write-to-temp / fsync / close / rename shape, for every chunking *)

(** What holds while the temporary file [tmp] (inode [n], descriptor [fd]) is
    being filled: [acc] has been written so far. *)
Definition filling (s : fs) (dst tmp : path) (fd n : N) (acc : data) : Prop :=
  aget (fds s) fd = Some {| fd_ino := n; fd_off := nlen acc; fd_wr := true; fd_app := false |} /\
  f_cur_spec (file_of s n) = acc /\
  ever_at s dst n = false /\
  aget (dir_cur s) tmp = Some n.

Lemma filling_writes dst tmp fd n chunks : forall s acc,
  filling s dst tmp fd n acc ->
  let t := map (Write fd) chunks in
  trace_safe dst s t = true /\ versions s t dst = [] /\
  filling (run s t) dst tmp fd n (acc ++ concat chunks).
Proof.
  induction chunks as [|c r IH]; intros s acc H; cbn zeta; cbn [map concat].
  - rewrite app_nil_r. cbn. auto.
  - destruct H as (Hfd & Hcur & Hev & Hdir).
    assert (Hstep : filling (step s (Write fd c)) dst tmp fd n (acc ++ c)).
    { unfold filling. cbn [step]. rewrite Hfd. cbn [fd_wr fd_app fd_off fd_ino].
      repeat split.
      - cbn [fds set_fd]. rewrite aget_aset, N.eqb_refl, nlen_app. reflexivity.
      - change (file_of (set_fd ?a ?b ?c) n) with (file_of a n).
        rewrite file_of_add_pend, N.eqb_refl. unfold f_cur_spec in *. cbn [f_pend f_dur fold_right].
        rewrite Hcur. cbn [apply_pop]. apply write_at_end.
      - exact Hev.
      - exact Hdir. }
    destruct (IH _ _ Hstep) as (Hs & Hv & Hf).
    cbn [trace_safe versions published run fold_left step_ok]. unfold fd_target_ok.
    rewrite Hfd. cbn [fd_ino]. rewrite Hev. cbn [negb andb app].
    rewrite <- app_assoc in Hf. auto.
Qed.

(** The temporary name is fresh, lives beside [dst] (same flat name space =
    same file system) and gets a fresh inode. *)
Definition fresh_tmp (s : fs) (dst tmp : path) : Prop :=
  tmp <> dst /\ aget (dir_cur s) tmp = None /\
  ever_at s dst (next_ino s) = false /\ aget (files s) (next_ino s) = None.

Lemma atomic_shape_checked s dst tmp fd chunks :
  fresh_tmp s dst tmp ->
  let t := atomic_shape fd tmp dst chunks in
  trace_safe dst s t = true /\ versions s t dst = [Some (concat chunks)].
Proof.
  intros (Hne & Habs & Hev & Hfile). cbn zeta. unfold atomic_shape.
  set (n := next_ino s) in *.
  cbn [trace_safe versions published step_ok]. rewrite Habs.
  cbn [fl_tmp o_creat]. apply N.eqb_neq in Hne. rewrite Hne. cbn [andb negb app].
  set (s1 := step s (Open fd tmp fl_tmp)).
  assert (H1 : filling s1 dst tmp fd n []).
  { unfold s1, filling. cbn [step]. rewrite Habs. cbn [fl_tmp o_creat o_wr o_app].
    repeat split.
    - cbn [fds set_fd]. rewrite aget_aset, N.eqb_refl. reflexivity.
    - unfold f_cur_spec, file_of. cbn [files set_fd set_dir]. fold n. rewrite Hfile. reflexivity.
    - unfold ever_at in *. cbn [all_dirs dir_cur dir_old set_fd set_dir existsb] in *.
      rewrite aget_aset. rewrite N.eqb_sym, Hne.
      destruct (match aget (dir_cur s) dst with Some j => j =? n | None => false end); [discriminate|exact Hev].
    - cbn [dir_cur set_fd set_dir]. rewrite aget_aset, N.eqb_refl. reflexivity. }
  rewrite trace_safe_app, versions_app.
  destruct (filling_writes dst tmp fd n chunks s1 [] H1) as (Hs & Hv & Hf).
  rewrite Hs, Hv. cbn [app andb].
  set (s2 := run s1 (map (Write fd) chunks)) in *.
  destruct Hf as (Hfd & Hcur & Hev2 & Hdir). cbn [app] in Hcur.
  cbn [trace_safe versions published step_ok step andb app].
  rewrite Hfd. cbn [fd_ino].
  (* after fsync and close the temporary file is durable and still named tmp *)
  set (s3 := set_file s2 n {| f_dur := f_cur (file_of s2 n); f_pend := [] |}).
  assert (Hd3 : aget (dir_cur (del_fd s3 fd)) tmp = Some n) by exact Hdir.
  rewrite Hd3, N.eqb_refl. rewrite N.eqb_sym in Hne.
  replace (tmp =? dst) with false by (symmetry; rewrite N.eqb_sym; exact Hne).
  cbn [negb andb].
  assert (Hf3 : file_of (del_fd s3 fd) n = {| f_dur := f_cur (file_of s2 n); f_pend := [] |}).
  { change (file_of (del_fd s3 fd) n) with (file_of s3 n). unfold s3.
    rewrite file_of_set_file, N.eqb_refl. reflexivity. }
  unfold synced, live_view, view. rewrite Hd3, Hf3. cbn [f_pend].
  split; [reflexivity|]. unfold f_cur at 1. cbn [f_pend f_dur].
  rewrite f_cur_spec_eq, Hcur. reflexivity.
Qed.

Theorem atomic_shape_safe s dst tmp fd chunks :
  quiescent s dst -> fresh_tmp s dst tmp ->
  forall v, In v (visible_states s (atomic_shape fd tmp dst chunks) dst) ->
            v = live_view s dst \/ v = Some (concat chunks).
Proof.
  intros Hq Hf v Hv.
  destruct (atomic_shape_checked s dst tmp fd chunks Hf) as [Hs Hver].
  apply (checker_sound dst s _ Hq Hs) in Hv. unfold all_versions in Hv. rewrite Hver in Hv.
  destruct Hv as [<-|[<-|[]]]; auto.
Qed.

(** Premises satisfiable, and the conclusion is tight: both versions occur. *)
Example atomic_shape_premises :
  let s := boot [(1, [10; 11; 12])] in
  quiescent s 1 /\ fresh_tmp s 1 2 /\
  live_view s 1 = Some [10; 11; 12] /\
  let vs := visible_states s (atomic_shape 7 2 1 [[20]; []; [21; 22]]) 1 in
  In (Some [10; 11; 12]) vs /\ In (Some [20; 21; 22]) vs.
Proof.
  cbn zeta. split; [apply boot_quiescent|].
  split. { unfold fresh_tmp. repeat split; try (vm_compute; reflexivity). discriminate. }
  split; [vm_compute; reflexivity|]. vm_compute. tauto.
Qed.

(** ** Non-vacuity: truncate-and-write in place is refuted *)
Lemma truncate_write_unsafe :
  exists old new,
    let s := boot [(1, old)] in
    let t := inplace_shape 3 1 [new] in
    quiescent s 1 /\
    trace_safe 1 s t = false /\
    exists v, In v (visible_states s t 1) /\ v <> Some old /\ v <> Some new.
Proof.
  exists [1;2;3], [4;5;6]. cbn zeta. split; [apply boot_quiescent|].
  split; [vm_compute; reflexivity|].
  exists (Some []). split; [vm_compute; tauto|]. split; discriminate.
Qed.

(** Dropping the fsync (or renaming before it) is refuted as well: after a
    crash the new name can be durable while the data is not. *)
Lemma rename_without_fsync_unsafe :
  exists old new,
    let s := boot [(1, old)] in
    let t := [Open 3 2 fl_tmp; Write 3 new; Close 3; Rename 2 1] in
    trace_safe 1 s t = false /\
    exists v, In v (visible_states s t 1) /\ v <> Some old /\ v <> Some new.
Proof.
  exists [1;2;3], [4;5;6]. cbn zeta. split; [vm_compute; reflexivity|].
  exists (Some [4]). split; [vm_compute; tauto|]. split; discriminate.
Qed.

(** ** Temporary files do not pile up *)
Theorem no_leftovers_sound keep s t :
  no_leftovers keep s t = true ->
  forall p, In p (created s t) -> aget (dir_cur (run s t)) p <> None -> In p keep.
Proof.
  unfold no_leftovers. rewrite forallb_forall. intros H p Hp Hn. specialize (H p Hp).
  destruct (aget (dir_cur (run s t)) p); [|congruence].
  apply existsb_exists in H. destruct H as (q & Hq & E). apply N.eqb_eq in E. now subst.
Qed.

(** Premises of [checker_sound] are satisfiable by a non-trivial trace: two
    successive saves through differently named temporary files, with a failed
    save in between that is cleaned up (close + unlink). *)
Example checker_sound_premises :
  let s := boot [(1, [1; 2])] in
  let t := atomic_shape 5 2 1 [[3]; [4]] ++
           [Open 5 3 fl_tmp; Write 5 [9]; Close 5; Unlink 3] ++
           atomic_shape 6 4 1 [[5; 6; 7]] in
  quiescent s 1 /\ trace_safe 1 s t = true /\ no_leftovers [1] s t = true /\
  all_versions s t 1 = [Some [1; 2]; Some [3; 4]; Some [5; 6; 7]].
Proof. cbn zeta. split; [apply boot_quiescent|]. vm_compute. auto. Qed.

(** ** Files that [dst] names or ever named are immutable; the path exists at
    every instant *)

Lemma file_eta f : f_pend f = [] -> {| f_dur := f_cur f; f_pend := [] |} = f.
Proof. destruct f as [d p]; cbn. intros ->. reflexivity. Qed.

Lemma file_of_add_pend_other s dst j p i :
  ever_at s dst j = false -> ever_at s dst i = true ->
  file_of (add_pend s j p) i = file_of s i.
Proof.
  intros Hj Hi. rewrite file_of_add_pend.
  destruct (N.eqb_spec i j) as [->|]; [congruence|reflexivity].
Qed.

(** What [step_ok] buys, stated on the semantics and not on the shape of the
    operation: whatever an accepted operation is, it leaves every file that
    [dst] names or ever named exactly as it was (content, durable content,
    pending list).  Identity is the inode, not the path: the file is protected
    through any name and any descriptor, also one opened before it was
    published. *)
Lemma step_keeps_files s o dst i :
  step_ok dst s o = true -> ever_at s dst i = true -> f_pend (file_of s i) = [] ->
  file_of (step s o) i = file_of s i.
Proof.
  intros Hok Hi Hp.
  destruct o as [fd p fl|fd d|fd off d|fd|fd|a b|p|fd n|p n]; cbn [step step_ok] in *.
  - destruct (aget (dir_cur s) p) as [j|] eqn:E.
    + destruct (o_creat fl && o_excl fl); [reflexivity|].
      change (file_of (set_fd ?a ?b ?c) i) with (file_of a i).
      destruct (o_trunc fl) eqn:Et; [|reflexivity].
      apply (file_of_add_pend_other s dst); [|exact Hi].
      destruct (ever_at s dst j); [|reflexivity].
      rewrite orb_true_r in Hok. discriminate.
    + destruct (o_creat fl); reflexivity.
  - unfold fd_target_ok in Hok. destruct (aget (fds s) fd) as [e|]; [|reflexivity].
    destruct (fd_wr e); [|reflexivity].
    change (file_of (set_fd ?a ?b ?c) i) with (file_of a i).
    apply (file_of_add_pend_other s dst); [|exact Hi]. now destruct (ever_at s dst (fd_ino e)).
  - unfold fd_target_ok in Hok. destruct (aget (fds s) fd) as [e|]; [|reflexivity].
    destruct (fd_wr e); [|reflexivity].
    apply (file_of_add_pend_other s dst); [|exact Hi]. now destruct (ever_at s dst (fd_ino e)).
  - destruct (aget (fds s) fd) as [e|]; [|reflexivity].
    rewrite file_of_set_file. destruct (N.eqb_spec i (fd_ino e)) as [<-|]; [|reflexivity].
    apply file_eta, Hp.
  - reflexivity.
  - destruct (aget (dir_cur s) a); reflexivity.
  - destruct (aget (dir_cur s) p); reflexivity.
  - unfold fd_target_ok in Hok. destruct (aget (fds s) fd) as [e|]; [|reflexivity].
    destruct (fd_wr e); [|reflexivity].
    apply (file_of_add_pend_other s dst); [|exact Hi]. now destruct (ever_at s dst (fd_ino e)).
  - destruct (aget (dir_cur s) p) as [j|]; [|reflexivity].
    apply (file_of_add_pend_other s dst); [|exact Hi]. now destruct (ever_at s dst j).
Qed.

(** What [dst] names after an accepted operation: the same file, or the file
    just renamed onto it.  Never nothing once it named something. *)
Lemma step_dir_dst s o dst :
  step_ok dst s o = true ->
  aget (dir_cur (step s o)) dst =
  match o with
  | Rename a b =>
      if b =? dst then match aget (dir_cur s) a with Some i => Some i | None => aget (dir_cur s) dst end
      else aget (dir_cur s) dst
  | _ => aget (dir_cur s) dst
  end.
Proof.
  intros Hok.
  destruct o as [fd p fl|fd d|fd off d|fd|fd|a b|p|fd n|p n]; cbn [step step_ok] in *.
  - destruct (aget (dir_cur s) p) as [j|] eqn:E.
    + destruct (o_creat fl && o_excl fl); [reflexivity|]. destruct (o_trunc fl); reflexivity.
    + destruct (o_creat fl) eqn:Ec; [|reflexivity]. cbn [dir_cur set_fd set_dir].
      rewrite aget_aset. destruct (N.eqb_spec dst p) as [->|]; [|reflexivity].
      rewrite N.eqb_refl in Hok. discriminate.
  - destruct (aget (fds s) fd) as [e|]; [|reflexivity]. destruct (fd_wr e); reflexivity.
  - destruct (aget (fds s) fd) as [e|]; [|reflexivity]. destruct (fd_wr e); reflexivity.
  - destruct (aget (fds s) fd) as [e|]; reflexivity.
  - reflexivity.
  - apply andb_prop in Hok. destruct Hok as [Ha _]. apply negb_true_iff, N.eqb_neq in Ha.
    destruct (aget (dir_cur s) a) as [i|] eqn:E.
    + cbn [dir_cur set_dir]. rewrite aget_aset, aget_adel, (N.eqb_sym dst b).
      destruct (b =? dst); [reflexivity|]. destruct (N.eqb_spec dst a); [congruence|reflexivity].
    + destruct (b =? dst); reflexivity.
  - apply negb_true_iff, N.eqb_neq in Hok.
    destruct (aget (dir_cur s) p) as [i|]; [|reflexivity].
    cbn [dir_cur set_dir]. rewrite aget_adel. destruct (N.eqb_spec dst p); [congruence|reflexivity].
  - destruct (aget (fds s) fd) as [e|]; [|reflexivity]. destruct (fd_wr e); reflexivity.
  - destruct (aget (dir_cur s) p) as [j|]; reflexivity.
Qed.

Lemma ever_at_cur s dst i : aget (dir_cur s) dst = Some i -> ever_at s dst i = true.
Proof. intros E. apply ever_at_spec. exists (dir_cur s). split; [left; reflexivity|exact E]. Qed.

(** After an accepted operation a reader finds at [dst] what it found before,
    or the version the operation published. *)
Lemma step_live s o dst vs :
  inv s dst vs -> step_ok dst s o = true ->
  live_view (step s o) dst = last (live_view s dst :: published s o dst) None.
Proof.
  intros [Hc _] Hok.
  assert (Hsame : aget (dir_cur (step s o)) dst = aget (dir_cur s) dst ->
                  live_view (step s o) dst = live_view s dst).
  { intros E. unfold live_view, view. rewrite E.
    destruct (aget (dir_cur s) dst) as [i|] eqn:Ei; [|reflexivity].
    rewrite (step_keeps_files s o dst i Hok (ever_at_cur _ _ _ Ei)); [reflexivity|].
    apply (Hc (dir_cur s) i); [left; reflexivity|exact Ei]. }
  pose proof (step_dir_dst s o dst Hok) as Hd.
  destruct o as [fd p fl|fd d|fd off d|fd|fd|a b|p|fd n|p n]; cbn [published last];
    try (apply Hsame; exact Hd).
  destruct (b =? dst) eqn:Eb; [|apply Hsame; exact Hd].
  destruct (aget (dir_cur s) a) as [i|] eqn:Ea; [|apply Hsame; exact Hd].
  cbn [last]. unfold live_view, view. rewrite Hd, Ea. cbn [step]. rewrite Ea. reflexivity.
Qed.

Lemma last_app_nonempty {A} (l p : list A) d : p <> [] -> last (l ++ p) d = last p d.
Proof.
  intros Hp. induction l as [|x l IH]; [reflexivity|].
  cbn [app]. rewrite <- IH. cbn [last]. destruct (l ++ p) eqn:E; [|reflexivity].
  apply app_eq_nil in E. destruct E. congruence.
Qed.

Lemma last_app_cons {A} (l p : list A) d : l <> [] -> last (l ++ p) d = last (last l d :: p) d.
Proof.
  intros Hl. destruct p as [|x p].
  - rewrite app_nil_r. reflexivity.
  - rewrite last_app_nonempty by discriminate. reflexivity.
Qed.

Lemma last_in {A} (l : list A) d : l <> [] -> In (last l d) l.
Proof.
  induction l as [|x l IH]; [congruence|]. intros _. destruct l as [|y l]; [left; reflexivity|].
  right. apply IH. discriminate.
Qed.

Lemma run_cons s o t : run s (o :: t) = run (step s o) t.
Proof. reflexivity. Qed.

Lemma run_inv t : forall s dst vs,
  inv s dst vs -> trace_safe dst s t = true -> inv (run s t) dst (vs ++ versions s t dst).
Proof.
  induction t as [|o t IH]; intros s dst vs H Hs; cbn [versions trace_safe] in *.
  - rewrite app_nil_r. exact H.
  - apply andb_prop in Hs. destruct Hs as [Ho Hs]. rewrite run_cons, app_assoc.
    apply IH; [apply step_inv; assumption|exact Hs].
Qed.

Lemma trace_live t : forall s dst vs,
  inv s dst vs -> vs <> [] -> live_view s dst = last vs None ->
  trace_safe dst s t = true ->
  live_view (run s t) dst = last (vs ++ versions s t dst) None.
Proof.
  induction t as [|o t IH]; intros s dst vs H Hne Hl Hs; cbn [versions trace_safe] in *.
  - rewrite app_nil_r. exact Hl.
  - apply andb_prop in Hs. destruct Hs as [Ho Hs]. rewrite run_cons, app_assoc.
    apply IH; [apply step_inv; assumption| | |exact Hs].
    + intros E. apply app_eq_nil in E. destruct E. congruence.
    + rewrite (step_live s o dst vs H Ho), Hl. symmetry. apply last_app_cons, Hne.
Qed.

(** At every instant of an accepted trace a reader finds at [dst] exactly the
    LATEST published version: versions are never mixed, never go back, and the
    path never stops naming a complete file. *)
Theorem live_tracks_versions dst s t1 t2 :
  quiescent s dst -> trace_safe dst s (t1 ++ t2) = true ->
  live_view (run s t1) dst = last (all_versions s t1 dst) None.
Proof.
  intros Hq Hs. rewrite trace_safe_app in Hs. apply andb_prop in Hs. destruct Hs as [Hs _].
  unfold all_versions. change (live_view s dst :: versions s t1 dst) with ([live_view s dst] ++ versions s t1 dst).
  apply trace_live; [apply quiescent_inv, Hq|discriminate|reflexivity|exact Hs].
Qed.

(** Every published version is a file, not "nothing". *)
Lemma versions_some t : forall s dst v, In v (versions s t dst) -> v <> None.
Proof.
  induction t as [|o t IH]; intros s dst v Hv; cbn [versions] in Hv; [destruct Hv|].
  apply in_app_or in Hv. destruct Hv as [Hv|Hv]; [|eapply IH; eauto].
  destruct o; cbn [published] in Hv; try destruct Hv.
  destruct (b =? dst); [|destruct Hv].
  destruct (aget (dir_cur s) a) as [i|] eqn:E; [|destruct Hv].
  destruct Hv as [<-|[]]. unfold live_view, view. rewrite E. discriminate.
Qed.

(** If [dst] exists at the start of an accepted trace, "no file at dst" is
    never visible: not at any instant, not after a crash at any prefix. *)
Theorem never_absent dst s t :
  quiescent s dst -> trace_safe dst s t = true -> live_view s dst <> None ->
  forall v, In v (visible_states s t dst) -> v <> None.
Proof.
  intros Hq Hs H0 v Hv. apply (checker_sound dst s t Hq Hs) in Hv.
  destruct Hv as [<-|Hv]; [exact H0|]. eapply versions_some; eauto.
Qed.

(** If [dst] did not exist at the start: from the first publication on a
    reader always finds a file. *)
Theorem exists_after_publish dst s t1 t2 :
  quiescent s dst -> trace_safe dst s (t1 ++ t2) = true -> versions s t1 dst <> [] ->
  live_view (run s t1) dst <> None.
Proof.
  intros Hq Hs Hv. rewrite (live_tracks_versions dst s t1 t2 Hq Hs). unfold all_versions.
  change (live_view s dst :: versions s t1 dst) with ([live_view s dst] ++ versions s t1 dst).
  rewrite last_app_nonempty by exact Hv.
  apply (versions_some t1 s dst). apply last_in, Hv.
Qed.

(** The cheap existence pass evaluated on the recorded traces is implied. *)
Theorem trace_safe_dst_stays dst t : forall s, trace_safe dst s t = true -> dst_stays dst s t = true.
Proof.
  induction t as [|o t IH]; intros s Hs; cbn [trace_safe dst_stays] in *; [reflexivity|].
  apply andb_prop in Hs. destruct Hs as [Ho Hs]. rewrite (IH _ Hs), andb_true_r.
  rewrite (step_dir_dst s o dst Ho).
  destruct (aget (dir_cur s) dst) as [i|]; [|reflexivity].
  destruct o; try reflexivity.
  destruct (b =? dst); [|reflexivity]. destruct (aget (dir_cur s) a); reflexivity.
Qed.

(** Renaming [dst] away or unlinking it is rejected wherever it occurs. *)
Theorem rename_away_rejected dst s t1 b t2 : trace_safe dst s (t1 ++ Rename dst b :: t2) = false.
Proof.
  rewrite trace_safe_app. cbn [trace_safe step_ok]. rewrite N.eqb_refl. cbn [negb andb].
  apply andb_false_r.
Qed.

Theorem unlink_dst_rejected dst s t1 t2 : trace_safe dst s (t1 ++ Unlink dst :: t2) = false.
Proof.
  rewrite trace_safe_app. cbn [trace_safe step_ok]. rewrite N.eqb_refl. cbn [negb andb].
  apply andb_false_r.
Qed.

(** ... and for a reason: with "keep a backup first" the path is empty in
    between, live and after a crash. *)
Lemma rename_away_unsafe :
  exists old new,
    let s := boot [(1, old)] in
    let t := backup_shape 3 9 2 1 [new] in
    quiescent s 1 /\ live_view s 1 = Some old /\
    trace_safe 1 s t = false /\ dst_stays 1 s t = false /\
    In None (live_states s t 1) /\ In None (visible_states s t 1).
Proof.
  exists [1;2;3], [4;5;6]. cbn zeta. split; [apply boot_quiescent|].
  split; [reflexivity|]. split; [vm_compute; reflexivity|]. split; [vm_compute; reflexivity|].
  split; vm_compute; tauto.
Qed.

Lemma unlink_first_unsafe :
  exists old new,
    let s := boot [(1, old)] in
    let t := Unlink 1 :: atomic_shape 3 2 1 [new] in
    quiescent s 1 /\ trace_safe 1 s t = false /\ In None (visible_states s t 1).
Proof.
  exists [1;2;3], [4;5;6]. cbn zeta. split; [apply boot_quiescent|].
  split; [vm_compute; reflexivity|]. vm_compute; tauto.
Qed.

(** ** Concurrent saves: inode identity *)

(** Along an accepted trace a file is frozen from the moment [dst] names it:
    no later operation of any thread, through any path or descriptor, changes
    it. *)
Theorem published_files_immutable dst s t1 o t2 i :
  quiescent s dst -> trace_safe dst s (t1 ++ o :: t2) = true ->
  ever_at (run s t1) dst i = true ->
  file_of (step (run s t1) o) i = file_of (run s t1) i.
Proof.
  intros Hq Hs Hi. rewrite trace_safe_app in Hs. apply andb_prop in Hs. destruct Hs as [H1 H2].
  cbn [trace_safe] in H2. apply andb_prop in H2. destruct H2 as [Ho _].
  destruct (run_inv t1 s dst _ (quiescent_inv s dst Hq) H1) as [Hc _].
  apply (step_keeps_files _ o dst i Ho Hi).
  apply ever_at_spec in Hi. destruct Hi as (d & Hd & E). exact (Hc d i Hd E).
Qed.

(** The two ways a second save gets at the file of the first: opening the
    name it still has (or has again) with a writing flag, and writing through
    a descriptor opened before the file was published.  Both are rejected
    whatever the path is. *)
Theorem open_published_for_write_rejected dst s fd p fl i t :
  aget (dir_cur s) p = Some i -> ever_at s dst i = true ->
  o_wr fl || o_trunc fl || o_app fl = true ->
  trace_safe dst s (Open fd p fl :: t) = false.
Proof. intros E Hi Hf. cbn [trace_safe step_ok]. rewrite E, Hi, Hf. reflexivity. Qed.

Theorem write_published_rejected dst s fd e d t :
  aget (fds s) fd = Some e -> ever_at s dst (fd_ino e) = true ->
  trace_safe dst s (Write fd d :: t) = false.
Proof. intros E Hi. cbn [trace_safe step_ok]. unfold fd_target_ok. rewrite E, Hi. reflexivity. Qed.

(** A file that still has a truncation or write after its last fsync (made by
    anybody) cannot be published. *)
Theorem rename_unsynced_rejected dst s a i t :
  a <> dst -> aget (dir_cur s) a = Some i -> f_pend (file_of s i) <> [] ->
  trace_safe dst s (Rename a dst :: t) = false.
Proof.
  intros Ha E Hp. cbn [trace_safe step_ok]. rewrite E, N.eqb_refl. unfold synced.
  destruct (f_pend (file_of s i)); [congruence|]. apply N.eqb_neq in Ha. rewrite Ha. reflexivity.
Qed.

(** The fixed temporary name: one save at a time is fine (also repeatedly),
    two overlapping saves are not: the second open truncates the file the
    first is about to publish, and the second save then writes into the file
    that [dst] names.  A reader sees an empty file and a half-written one. *)
Lemma shared_tmp_overlap_unsafe :
  exists old a b t,
    let s := boot [(1, old)] in
    let tA := fixed_tmp_shape 3 2 1 [a] in
    let tB := fixed_tmp_shape 4 2 1 [b] in
    quiescent s 1 /\
    trace_safe 1 s (tA ++ tB) = true /\
    all_versions s (tA ++ tB) 1 = [Some old; Some a; Some b] /\
    In t (interleavings tA tB) /\
    trace_safe 1 s t = false /\
    exists v, In v (live_states s t 1) /\ v <> Some old /\ v <> Some a /\ v <> Some b.
Proof.
  exists [1;2;3], [4;5;6], [7;8;9;10].
  exists [Open 3 2 fl_trunc; Write 3 [4;5;6]; Fsync 3; Close 3;
          Open 4 2 fl_trunc;
          Rename 2 1;
          Write 4 [7;8;9;10]; Fsync 4; Close 4; Rename 2 1].
  cbn zeta. split; [apply boot_quiescent|].
  split; [vm_compute; reflexivity|]. split; [vm_compute; reflexivity|].
  split. { vm_compute. repeat (first [left; reflexivity | right]). }
  split; [vm_compute; reflexivity|].
  exists (Some []). split; [vm_compute; tauto|]. repeat split; discriminate.
Qed.

(** With a temporary name (and descriptor) of its own per save, every
    interleaving of two saves is accepted and publishes the two complete
    versions, in one order or the other.  (An instance, evaluated; the general
    statement over all traces is [published_files_immutable] together with
    [checker_sound].) *)
Example own_tmp_interleavings_safe :
  let s := boot [(1, [1;2;3])] in
  let tA := atomic_shape 3 2 1 [[4]; [5;6]] in
  let tB := atomic_shape 4 5 1 [[7;8]; [9]] in
  length (interleavings tA tB) = 924%nat /\
  forallb (fun t => trace_safe 1 s t && no_leftovers [1] s t &&
                    match all_versions s t 1 with
                    | [Some [1;2;3]; Some [4;5;6]; Some [7;8;9]] => true
                    | [Some [1;2;3]; Some [7;8;9]; Some [4;5;6]] => true
                    | _ => false
                    end) (interleavings tA tB) = true.
Proof. cbn zeta. split; vm_compute; reflexivity. Qed.

(** ** Two overlapping saves, each through a temporary file of its own: every
    interleaving is accepted and publishes complete versions only. *)

(** [t] is an interleaving of [a] and [b]. *)
Inductive merge : list op -> list op -> list op -> Prop :=
  | merge_nil : merge [] [] []
  | merge_l x a b t : merge a b t -> merge (x :: a) b (x :: t)
  | merge_r y a b t : merge a b t -> merge a (y :: b) (y :: t).

Lemma merge_nil_l b : merge [] b b.
Proof. induction b; constructor; auto. Qed.

Lemma merge_nil_r a : merge a [] a.
Proof. induction a; constructor; auto. Qed.

Lemma interleavings_merge a : forall b t, In t (interleavings a b) -> merge a b t.
Proof.
  induction a as [|x a IHa]; intros b t Hin.
  - destruct b; cbn in Hin; destruct Hin as [<-|[]]; apply merge_nil_l.
  - induction b as [|y b IHb] in t, Hin |- *.
    + cbn in Hin. destruct Hin as [<-|[]]. apply merge_nil_r.
    + cbn [interleavings] in Hin. apply in_app_or in Hin. destruct Hin as [Hin|Hin];
        apply in_map_iff in Hin; destruct Hin as (t' & <- & Hin).
      * constructor. apply IHa, Hin.
      * constructor. apply IHb, Hin.
Qed.

Section TwoSaves.
Variable dst : path.

(** Where one save (descriptor [fd], temporary name [tmp], complete content
    [c]) stands when [rem] is what it still has to do. *)
Inductive st (fd : N) (tmp : path) (c : data) (s : fs) : list op -> Prop :=
  | st_pre chunks :
      concat chunks = c -> aget (dir_cur s) tmp = None ->
      st fd tmp c s (atomic_shape fd tmp dst chunks)
  | st_fill n acc rest :
      aget (fds s) fd = Some {| fd_ino := n; fd_off := nlen acc; fd_wr := true; fd_app := false |} ->
      f_cur_spec (file_of s n) = acc -> ever_at s dst n = false ->
      aget (dir_cur s) tmp = Some n -> n < next_ino s -> acc ++ concat rest = c ->
      st fd tmp c s (map (Write fd) rest ++ [Fsync fd; Close fd; Rename tmp dst])
  | st_synced n :
      f_pend (file_of s n) = [] -> f_cur (file_of s n) = c -> ever_at s dst n = false ->
      aget (dir_cur s) tmp = Some n -> n < next_ino s ->
      st fd tmp c s [Close fd; Rename tmp dst]
  | st_closed n :
      f_pend (file_of s n) = [] -> f_cur (file_of s n) = c -> ever_at s dst n = false ->
      aget (dir_cur s) tmp = Some n -> n < next_ino s ->
      st fd tmp c s [Rename tmp dst]
  | st_done : aget (dir_cur s) tmp = None -> st fd tmp c s [].

(** Inode numbers from [next_ino] on are unused. *)
Definition unused_above (s : fs) : Prop :=
  forall i, next_ino s <= i -> ever_at s dst i = false /\ aget (files s) i = None.

Lemma ever_at_set_dir s nd i :
  ever_at (set_dir s nd) dst i =
  (match aget nd dst with Some j => j =? i | None => false end) || ever_at s dst i.
Proof. reflexivity. Qed.

Lemma ever_at_cur_absorb s i :
  (match aget (dir_cur s) dst with Some j => j =? i | None => false end) || ever_at s dst i = ever_at s dst i.
Proof.
  unfold ever_at, all_dirs. cbn [existsb].
  destruct (match aget (dir_cur s) dst with Some j => j =? i | None => false end); reflexivity.
Qed.

(** What a state predicate of one save depends on. *)
Lemma st_frame fd tmp c s s' rem :
  st fd tmp c s rem ->
  aget (fds s') fd = aget (fds s) fd ->
  aget (dir_cur s') tmp = aget (dir_cur s) tmp ->
  (forall n, aget (dir_cur s) tmp = Some n ->
             file_of s' n = file_of s n /\ ever_at s' dst n = ever_at s dst n) ->
  next_ino s <= next_ino s' ->
  st fd tmp c s' rem.
Proof.
  intros H Hfd Hd Hf Hn. destruct H.
  - apply st_pre; [assumption|congruence].
  - destruct (Hf n) as [Hf1 Hf2]; [assumption|].
    apply (st_fill _ _ _ _ n acc rest); try congruence. lia.
  - destruct (Hf n) as [Hf1 Hf2]; [assumption|]. apply (st_synced _ _ _ _ n); try congruence. lia.
  - destruct (Hf n) as [Hf1 Hf2]; [assumption|]. apply (st_closed _ _ _ _ n); try congruence. lia.
  - apply st_done. congruence.
Qed.

(** One step of a save on its own. *)
Lemma st_step fd tmp c s o rem :
  tmp <> dst -> unused_above s -> st fd tmp c s (o :: rem) ->
  step_ok dst s o = true /\ st fd tmp c (step s o) rem /\ unused_above (step s o) /\
  published s o dst = match rem with [] => [Some c] | _ => [] end.
Proof.
  intros Hne Hu H. apply N.eqb_neq in Hne.
  inversion H as [chunks Hc Habs|n acc rest Hfd Hcur Hev Hdir Hlt Hc|n Hp Hcur Hev Hdir Hlt|n Hp Hcur Hev Hdir Hlt|]; try subst o; try subst rem; try subst remA.
  - (* open *)
    cbn [step_ok step published]. rewrite Habs. cbn [fl_tmp o_creat o_wr o_app]. rewrite Hne. cbn [andb negb].
    destruct (Hu (next_ino s)) as [Hev Hfile]; [lia|].
    split; [reflexivity|]. split; [|split; [|destruct (map (Write fd) chunks); reflexivity]].
    + apply (st_fill _ _ _ _ (next_ino s) [] chunks).
      * cbn [fds set_fd]. rewrite aget_aset, N.eqb_refl. reflexivity.
      * unfold f_cur_spec, file_of. cbn [files set_fd set_dir]. rewrite Hfile. reflexivity.
      * change (ever_at (set_dir s (aset (dir_cur s) tmp (next_ino s))) dst (next_ino s) = false).
        rewrite ever_at_set_dir, aget_aset, (N.eqb_sym dst tmp), Hne, ever_at_cur_absorb. exact Hev.
      * cbn [dir_cur set_fd set_dir]. rewrite aget_aset, N.eqb_refl. reflexivity.
      * cbn [next_ino set_fd]. lia.
      * exact Hc.
    + intros i Hi. cbn [next_ino set_fd] in Hi. destruct (Hu i) as [H1 H2]; [lia|]. split; [|exact H2].
      change (ever_at (set_dir s (aset (dir_cur s) tmp (next_ino s))) dst i = false).
      rewrite ever_at_set_dir, aget_aset, (N.eqb_sym dst tmp), Hne, ever_at_cur_absorb. exact H1.
  - match goal with Heq : _ ++ _ = _ :: _ |- _ =>
      destruct rest as [|d rest]; cbn [map app] in Heq; injection Heq as <- <- end.
    + (* fsync *)
      cbn [step_ok step published]. rewrite Hfd. cbn [fd_ino].
      split; [reflexivity|]. split; [|split; [|reflexivity]].
      * cbn [concat] in Hc. rewrite app_nil_r in Hc.
        apply (st_synced _ _ _ _ n).
        -- rewrite file_of_set_file, N.eqb_refl. reflexivity.
        -- rewrite file_of_set_file, N.eqb_refl. unfold f_cur at 1. cbn [f_pend f_dur].
           rewrite f_cur_spec_eq, Hcur. exact Hc.
        -- exact Hev.
        -- exact Hdir.
        -- exact Hlt.
      * intros i Hi. destruct (Hu i Hi) as [H1 H2]. split; [exact H1|].
        cbn [files set_file]. rewrite aget_aset. destruct (N.eqb_spec i n); [subst; cbn in Hi; lia|exact H2].
    + (* write *)
      cbn [step_ok step published]. unfold fd_target_ok. rewrite Hfd. cbn [fd_ino fd_wr fd_app fd_off]. rewrite Hev.
      split; [reflexivity|]. split; [|split; [|destruct (map (Write fd) rest); reflexivity]].
      * apply (st_fill _ _ _ _ n (acc ++ d) rest).
        -- cbn [fds set_fd]. rewrite aget_aset, N.eqb_refl, nlen_app. reflexivity.
        -- change (file_of (set_fd ?a ?b ?c) n) with (file_of a n).
           rewrite file_of_add_pend, N.eqb_refl. unfold f_cur_spec in *. cbn [f_pend f_dur fold_right].
           rewrite Hcur. cbn [apply_pop]. apply write_at_end.
        -- exact Hev.
        -- exact Hdir.
        -- exact Hlt.
        -- cbn [concat] in Hc. rewrite <- app_assoc. exact Hc.
      * intros i Hi. destruct (Hu i Hi) as [H1 H2]. split; [exact H1|].
        cbn [files set_fd add_pend set_file]. rewrite aget_aset.
        destruct (N.eqb_spec i n); [subst; cbn in Hi; lia|exact H2].
  - (* close *)
    cbn [step_ok step published].
    split; [reflexivity|]. split; [|split; [|reflexivity]].
    + apply (st_closed _ _ _ _ n); assumption.
    + exact Hu.
  - (* rename *)
    cbn [step_ok step published]. rewrite Hdir, N.eqb_refl, Hne.
    unfold synced. rewrite Hp. cbn [negb andb].
    split; [reflexivity|]. split.
    { apply st_done. cbn [dir_cur set_dir]. rewrite aget_aset, Hne, aget_adel, N.eqb_refl. reflexivity. }
    split.
    + intros i Hi. cbn [next_ino set_dir] in Hi. destruct (Hu i Hi) as [H1 H2]. split; [|exact H2].
      rewrite ever_at_set_dir, aget_aset, N.eqb_refl, H1, orb_false_r.
      apply N.eqb_neq. lia.
    + unfold live_view, view. rewrite Hdir, Hcur. reflexivity.
Qed.

(** One step of save A seen from save B. *)
Lemma st_other fdA tmpA cA fdB tmpB cB s o remA remB :
  fdA <> fdB -> tmpA <> tmpB -> tmpA <> dst -> tmpB <> dst ->
  (forall nA nB, aget (dir_cur s) tmpA = Some nA -> aget (dir_cur s) tmpB = Some nB -> nA <> nB) ->
  st fdA tmpA cA s (o :: remA) -> st fdB tmpB cB s remB ->
  st fdB tmpB cB (step s o) remB /\
  (forall nA nB, aget (dir_cur (step s o)) tmpA = Some nA -> aget (dir_cur (step s o)) tmpB = Some nB -> nA <> nB).
Proof.
  intros Hfd Htmp HA HB Hinj H HBst.
  assert (HnB : forall nB, aget (dir_cur s) tmpB = Some nB -> nB < next_ino s).
  { intros nB E. destruct HBst; try congruence.
    all: match goal with Hd : aget _ _ = Some ?n, Hl : ?n < _ |- _ => rewrite Hd in E; injection E as <-; exact Hl end. }
  apply N.eqb_neq in Hfd, Htmp, HA, HB.
  inversion H as [chunks Hc Habs|n acc rest Hfdn Hcur Hev Hdir Hlt Hc|n Hp Hcur Hev Hdir Hlt|n Hp Hcur Hev Hdir Hlt|]; try subst o; try subst rem; try subst remA.
  - (* open *)
    cbn [step]. rewrite Habs. cbn [fl_tmp o_creat o_wr o_app].
    split.
    + apply (st_frame _ _ _ s); [exact HBst| | | |cbn; lia].
      * cbn [fds set_fd]. rewrite aget_aset, (N.eqb_sym fdB fdA), Hfd. reflexivity.
      * cbn [dir_cur set_fd set_dir]. rewrite aget_aset, (N.eqb_sym tmpB tmpA), Htmp. reflexivity.
      * intros nB E. split; [reflexivity|].
        change (ever_at (set_dir s (aset (dir_cur s) tmpA (next_ino s))) dst nB = ever_at s dst nB).
        rewrite ever_at_set_dir, aget_aset, (N.eqb_sym dst tmpA), HA. apply ever_at_cur_absorb.
    + cbn [dir_cur set_fd set_dir]. intros nA nB. rewrite !aget_aset, N.eqb_refl, (N.eqb_sym tmpB tmpA), Htmp.
      intros [= <-] E. specialize (HnB nB E). lia.
  - match goal with Heq : _ ++ _ = _ :: _ |- _ =>
      destruct rest as [|d rest]; cbn [map app] in Heq; injection Heq as <- <- end;
      cbn [step]; rewrite Hfdn; cbn [fd_ino fd_wr fd_app fd_off].
    + (* fsync *)
      split; [|exact Hinj].
      apply (st_frame _ _ _ s); [exact HBst|reflexivity|reflexivity| |cbn; lia].
      intros nB E. split; [|reflexivity]. rewrite file_of_set_file.
      destruct (N.eqb_spec nB n) as [->|]; [destruct (Hinj n n Hdir E eq_refl)|reflexivity].
    + (* write *)
      split; [|exact Hinj].
      apply (st_frame _ _ _ s); [exact HBst| |reflexivity| |cbn; lia].
      * cbn [fds set_fd]. rewrite aget_aset, (N.eqb_sym fdB fdA), Hfd. reflexivity.
      * intros nB E. split; [|reflexivity].
        change (file_of (set_fd ?a ?b ?c) nB) with (file_of a nB). rewrite file_of_add_pend.
        destruct (N.eqb_spec nB n) as [->|]; [destruct (Hinj n n Hdir E eq_refl)|reflexivity].
  - (* close *)
    cbn [step]. split; [|exact Hinj].
    apply (st_frame _ _ _ s); [exact HBst| |reflexivity| |cbn; lia].
    + cbn [fds del_fd]. rewrite aget_adel, (N.eqb_sym fdB fdA), Hfd. reflexivity.
    + intros nB E. split; reflexivity.
  - (* rename *)
    cbn [step]. rewrite Hdir. split.
    + apply (st_frame _ _ _ s); [exact HBst|reflexivity| | |cbn; lia].
      * cbn [dir_cur set_dir]. rewrite aget_aset, aget_adel, HB, (N.eqb_sym tmpB tmpA), Htmp. reflexivity.
      * intros nB E. split; [reflexivity|].
        rewrite ever_at_set_dir, aget_aset, N.eqb_refl.
        destruct (N.eqb_spec n nB) as [->|]; [destruct (Hinj nB nB Hdir E eq_refl)|reflexivity].
    + cbn [dir_cur set_dir]. intros nA nB. rewrite !aget_aset, !aget_adel, N.eqb_refl, HA. discriminate.
Qed.

Lemma merge_sym a b t : merge a b t -> merge b a t.
Proof. induction 1; constructor; auto. Qed.

Definition pend (rem : list op) : nat := match rem with [] => 0 | _ => 1 end.

(** Every interleaving of the remainders of two saves is accepted and
    publishes nothing but the complete contents, each exactly once. *)
Lemma two_saves_merge fdA tmpA cA fdB tmpB cB remA remB t :
  fdA <> fdB -> tmpA <> tmpB -> tmpA <> dst -> tmpB <> dst ->
  merge remA remB t -> forall s,
  unused_above s ->
  (forall nA nB, aget (dir_cur s) tmpA = Some nA -> aget (dir_cur s) tmpB = Some nB -> nA <> nB) ->
  st fdA tmpA cA s remA -> st fdB tmpB cB s remB ->
  trace_safe dst s t = true /\
  (forall v, In v (versions s t dst) -> v = Some cA \/ v = Some cB) /\
  length (versions s t dst) = (pend remA + pend remB)%nat.
Proof.
  intros Hfd Htmp HA HB Hm. induction Hm as [|x a b t Hm IH|y a b t Hm IH]; intros s Hu Hinj HsA HsB.
  - cbn. split; [reflexivity|]. split; [intros v []|reflexivity].
  - destruct (st_step fdA tmpA cA s x a HA Hu HsA) as (Hok & HsA' & Hu' & Hpub).
    destruct (st_other fdA tmpA cA fdB tmpB cB s x a b Hfd Htmp HA HB Hinj HsA HsB) as (HsB' & Hinj').
    destruct (IH (step s x) Hu' Hinj' HsA' HsB') as (Hs & Hv & Hl).
    cbn [trace_safe versions]. rewrite Hok, Hs. split; [reflexivity|]. split.
    + intros v Hin. apply in_app_or in Hin. destruct Hin as [Hin|Hin]; [|apply Hv, Hin].
      rewrite Hpub in Hin. destruct a; [|destruct Hin]. destruct Hin as [<-|[]]. left; reflexivity.
    + rewrite app_length, Hl, Hpub. destruct a; reflexivity.
  - destruct (st_step fdB tmpB cB s y b HB Hu HsB) as (Hok & HsB' & Hu' & Hpub).
    assert (Hinj0 : forall nB nA, aget (dir_cur s) tmpB = Some nB -> aget (dir_cur s) tmpA = Some nA -> nB <> nA).
    { intros nB nA E1 E2 E. exact (Hinj nA nB E2 E1 (eq_sym E)). }
    destruct (st_other fdB tmpB cB fdA tmpA cA s y b a (not_eq_sym Hfd) (not_eq_sym Htmp) HB HA Hinj0 HsB HsA) as (HsA' & Hinj').
    assert (Hinj1 : forall nA nB, aget (dir_cur (step s y)) tmpA = Some nA -> aget (dir_cur (step s y)) tmpB = Some nB -> nA <> nB).
    { intros nA nB E1 E2 E. exact (Hinj' nB nA E2 E1 (eq_sym E)). }
    destruct (IH (step s y) Hu' Hinj1 HsA' HsB') as (Hs & Hv & Hl).
    cbn [trace_safe versions]. rewrite Hok, Hs. split; [reflexivity|]. split.
    + intros v Hin. apply in_app_or in Hin. destruct Hin as [Hin|Hin]; [|apply Hv, Hin].
      rewrite Hpub in Hin. destruct b; [|destruct Hin]. destruct Hin as [<-|[]]. right; reflexivity.
    + rewrite app_length, Hl, Hpub. destruct b; cbn [pend length]; lia.
Qed.

End TwoSaves.

(** Both saves from the beginning, stated on [interleavings] and on what is
    visible. *)
Theorem two_saves_safe s dst fdA tmpA chunksA fdB tmpB chunksB t :
  quiescent s dst -> unused_above dst s ->
  fdA <> fdB -> tmpA <> tmpB -> tmpA <> dst -> tmpB <> dst ->
  aget (dir_cur s) tmpA = None -> aget (dir_cur s) tmpB = None ->
  In t (interleavings (atomic_shape fdA tmpA dst chunksA) (atomic_shape fdB tmpB dst chunksB)) ->
  trace_safe dst s t = true /\
  length (versions s t dst) = 2%nat /\
  forall v, In v (visible_states s t dst) ->
            v = live_view s dst \/ v = Some (concat chunksA) \/ v = Some (concat chunksB).
Proof.
  intros Hq Hu Hfd Htmp HA HB HnA HnB Hin. apply interleavings_merge in Hin.
  destruct (two_saves_merge dst fdA tmpA (concat chunksA) fdB tmpB (concat chunksB) _ _ t Hfd Htmp HA HB Hin s Hu)
    as (Hs & Hv & Hl).
  - intros nA nB E. congruence.
  - apply st_pre; auto.
  - apply st_pre; auto.
  - split; [exact Hs|]. split; [exact Hl|].
    intros v Hvis. apply (checker_sound dst s t Hq Hs) in Hvis. destruct Hvis as [<-|Hvis]; [left; reflexivity|].
    right. apply Hv, Hvis.
Qed.

(** The boot states of the evaluator have no inode in use from [next_ino] on. *)
Lemma boot_dir_range ents : forall k p j,
  aget (boot_dir ents k) p = Some j -> k <= j < k + N.of_nat (length ents).
Proof.
  induction ents as [|[q c] r IH]; intros k p j; cbn [boot_dir]; [discriminate|].
  rewrite aget_aset. cbn [length]. destruct (p =? q).
  - intros [= <-]. lia.
  - intros E. apply IH in E. lia.
Qed.

Lemma boot_files_range ents : forall k i f,
  aget (boot_files ents k) i = Some f -> k <= i < k + N.of_nat (length ents).
Proof.
  induction ents as [|[q c] r IH]; intros k i f; cbn [boot_files]; [discriminate|].
  rewrite aget_aset. cbn [length]. destruct (N.eqb_spec i k) as [->|].
  - intros _. lia.
  - intros E. apply IH in E. lia.
Qed.

Lemma boot_unused_above ents dst : unused_above dst (boot ents).
Proof.
  intros i Hi. cbn [next_ino boot] in Hi. unfold nlen in Hi. rewrite map_length in Hi. split.
  - unfold ever_at, all_dirs. cbn [dir_cur dir_old boot existsb]. rewrite orb_false_r.
    destruct (aget (boot_dir ents 1) dst) as [j|] eqn:E; [|reflexivity].
    apply boot_dir_range in E. apply N.eqb_neq. lia.
  - cbn [files boot]. destruct (aget (boot_files ents 1) i) as [f|] eqn:E; [|reflexivity].
    apply boot_files_range in E. lia.
Qed.

Example two_saves_premises :
  let s := boot [(1, [1; 2; 3])] in
  quiescent s 1 /\ unused_above 1 s /\ aget (dir_cur s) 2 = None /\ aget (dir_cur s) 5 = None /\
  In ([Open 3 2 fl_tmp; Open 4 5 fl_tmp; Write 4 [7]; Write 3 [4; 5]; Fsync 4; Fsync 3; Close 3; Rename 2 1; Close 4; Rename 5 1])
     (interleavings (atomic_shape 3 2 1 [[4; 5]]) (atomic_shape 4 5 1 [[7]])).
Proof.
  cbn zeta. split; [apply boot_quiescent|]. split; [apply boot_unused_above|].
  split; [reflexivity|]. split; [reflexivity|].
  vm_compute. repeat (first [left; reflexivity | right]).
Qed.

(** Premises of the round-2 implications are satisfiable by concrete,
    non-trivial states: an accepted trace split in the middle of a second
    save, after a first publication; a descriptor that is still open on a
    published file; a temporary file with a write after its last fsync. *)
Example round2_premises :
  let s := boot [(1, [1; 2])] in
  let t1 := atomic_shape 5 2 1 [[3]; [4]] in
  let o := Open 6 3 fl_tmp in
  let t2 := [Write 6 [9]; Fsync 6; Close 6; Rename 3 1] in
  (quiescent s 1 /\ trace_safe 1 s (t1 ++ o :: t2) = true /\ live_view s 1 <> None /\
   versions s t1 1 <> [] /\ ever_at (run s t1) 1 2 = true /\
   live_view (run s t1) 1 = Some [3; 4] /\ dst_stays 1 s (t1 ++ o :: t2) = true) /\
  (let s' := run s t1 in
   aget (dir_cur s') 1 = Some 2 /\ ever_at s' 1 2 = true /\
   trace_safe 1 s' [Open 7 1 fl_trunc] = false) /\
  (let s'' := run s [Open 5 2 fl_tmp; Write 5 [3]; Fsync 5; Rename 2 1] in
   exists e, aget (fds s'') 5 = Some e /\ ever_at s'' 1 (fd_ino e) = true /\
             trace_safe 1 s'' [Write 5 [4]] = false) /\
  (let s3 := run s [Open 5 2 fl_tmp; Write 5 [3]] in
   2 <> 1 /\ aget (dir_cur s3) 2 = Some 2 /\ f_pend (file_of s3 2) <> [] /\
   trace_safe 1 s3 [Rename 2 1] = false).
Proof.
  cbn zeta. split; [|split; [|split]].
  - split; [apply boot_quiescent|]. repeat split; try (vm_compute; reflexivity); vm_compute; discriminate.
  - repeat split; vm_compute; reflexivity.
  - eexists. repeat split; vm_compute; reflexivity.
  - repeat split; try (vm_compute; reflexivity); vm_compute; discriminate.
Qed.

(** Proofs about the abstract file system of C14 (model: Base/FS.v). *)
From Coq Require Import List NArith Bool Lia.
From AGH Require Import Base.FS.
Import ListNotations.
Local Open Scope N_scope.

(** Non-vacuity of the checker: os.WriteFile-style truncate-and-write. *)
Lemma truncate_write_unsafe :
  exists old new,
    let s := boot [(1, old)] in
    let t := inplace_shape 3 1 [new] in
    trace_safe 1 s t = false /\
    exists v, In v (visible_states s t 1) /\ v <> Some old /\ v <> Some new.
Proof.
  exists [1;2;3], [4;5;6]. cbn zeta. split; [vm_compute; reflexivity|].
  exists (Some []). split; [vm_compute; tauto|]. split; discriminate.
Qed.

(** C05: from the checks on the generated lock table to the generic theorems of
    the lock machine.

    The table lists, per access site, the locks certainly held there.  A
    thread (event list) *conforms* to the table when every access it performs
    is covered by a table entry whose lock set the thread holds at that
    moment, and every nested acquisition by an entry of the order table.  The
    translator's soundness claim is exactly: the goroutines of the program,
    abstracted to their lock and guarded-field events, conform.  Everything
    after that is proved here. *)
From Coq Require Import List String Bool Arith Lia.
From AGH Require Import Base.Conc Model.Guards Proofs.Conc.
Import ListNotations.
Local Open Scope string_scope.
Local Open Scope list_scope.
Local Open Scope nat_scope.

(** * Checks evaluated on the table *)

Definition access_ok (a : access) : bool :=
  if a_write a then
    match guards (a_field a) with
    | [] => false
    | gs => forallb (holds_w (a_held a)) gs
    end
  else existsb (holds (a_held a)) (guards (a_field a)).

(** A field without any write entry in the table is never written by a
    conforming thread: its reads need no lock. *)
Definition never_written (tbl : list access) (f : field) : bool :=
  negb (existsb (fun a => a_write a && String.eqb (a_field a) f) tbl).

Definition access_ok_ro (ro : field -> bool) (a : access) : bool :=
  if a_write a then
    negb (ro (a_field a)) &&
    match guards (a_field a) with
    | [] => false
    | gs => forallb (holds_w (a_held a)) gs
    end
  else ro (a_field a) || existsb (holds (a_held a)) (guards (a_field a)).

Definition listed (keys : list string) (k : string) : bool :=
  existsb (String.eqb k) keys.

(** the table without the access sites listed as known findings *)
Definition checked (known : list string) (tbl : list access) : list access :=
  filter (fun a => negb (listed known (access_key a))) tbl.

Definition bad_accesses (known : list string) (tbl : list access) : list access :=
  filter (fun a => negb (access_ok_ro (never_written tbl) a)) (checked known tbl).

Definition rank_of (ranks : list (string * nat)) (l : lock) : nat :=
  match find (fun p => String.eqb (fst p) l) ranks with
  | Some p => snd p
  | None => 0
  end.

(** Ranks computed from the order table itself (longest-path relaxation): when
    the acquired-while-held relation is acyclic, every pair ends up strictly
    increasing; on a cycle some pair does not and the check below fails.  No
    lemma about this computation is needed: the lifting theorem holds for any
    rank function that passes the check. *)
Fixpoint set_rank (rk : list (string * nat)) (l : lock) (n : nat) : list (string * nat) :=
  match rk with
  | [] => [(l, n)]
  | (k, v) :: r => if String.eqb k l then (k, Nat.max v n) :: r else (k, v) :: set_rank r l n
  end.

Definition relax_once (ord : list order_pair) (rk : list (string * nat)) :=
  fold_left (fun rk o => set_rank rk (fst (o_acq o)) (S (rank_of rk (fst (o_held o))))) ord rk.

Fixpoint relax (n : nat) (ord : list order_pair) (rk : list (string * nat)) :=
  match n with
  | 0 => rk
  | S n => relax n ord (relax_once ord rk)
  end.

Definition computed_ranks (ord : list order_pair) : list (string * nat) :=
  relax (S (List.length (nodup string_dec (map (fun o => fst (o_acq o)) ord)))) ord [].

Definition order_ok (rank : lock -> nat) (o : order_pair) : bool :=
  rank (fst (o_held o)) <? rank (fst (o_acq o)).

Definition checked_order (known : list string) (ord : list order_pair) : list order_pair :=
  filter (fun o => negb (listed known (order_key o))) ord.

Definition bad_orders (rank : lock -> nat) (known : list string) (ord : list order_pair) :=
  filter (fun o => negb (order_ok rank o)) (checked_order known ord).

(** * Conformance of a thread to the table *)

Definition subset_held (a h : held) : bool := forallb (fun x => mem_lm x h) a.

Definition covered (tbl : list access) (h : held) (f : field) (w : bool) : bool :=
  existsb (fun a => String.eqb (a_field a) f && Bool.eqb (a_write a) w &&
                    subset_held (a_held a) h) tbl.

Definition acq_covered (ord : list order_pair) (h : held) (l : lock) : bool :=
  forallb (fun y => existsb (fun o => String.eqb (fst (o_held o)) (fst y) &&
                                      String.eqb (fst (o_acq o)) l) ord) h.

Fixpoint conforms (tbl : list access) (h : held) (p : list event) : bool :=
  match p with
  | [] => true
  | Acq l m :: r => conforms tbl ((l, m) :: h) r
  | Rel l m :: r => mem_lm (l, m) h && conforms tbl (remove_one (l, m) h) r
  | Rd f :: r => covered tbl h f false && conforms tbl h r
  | Wr f :: r => covered tbl h f true && conforms tbl h r
  end.

Fixpoint conforms_order (ord : list order_pair) (h : held) (p : list event) : bool :=
  match p with
  | [] => match h with [] => true | _ => false end
  | Acq l m :: r => acq_covered ord h l && conforms_order ord ((l, m) :: h) r
  | Rel l m :: r => mem_lm (l, m) h && conforms_order ord (remove_one (l, m) h) r
  | Rd _ :: r | Wr _ :: r => conforms_order ord h r
  end.

(** * Lifting *)

Lemma mem_lm_In : forall x h, mem_lm x h = true <-> In x h.
Proof.
  intros x h; unfold mem_lm; rewrite existsb_exists; split.
  - intros (y & Hin & E). apply lm_eqb_eq in E; subst; assumption.
  - intros H; exists x; split; [assumption|apply lm_eqb_refl].
Qed.

Lemma subset_holds_w : forall a h l,
  subset_held a h = true -> holds_w a l = true -> holds_w h l = true.
Proof.
  unfold subset_held, holds_w; intros a h l Hs Hw.
  rewrite forallb_forall in Hs. apply Hs. apply mem_lm_In; assumption.
Qed.

Lemma subset_holds : forall a h l,
  subset_held a h = true -> holds a l = true -> holds h l = true.
Proof.
  unfold subset_held, holds; intros a h l Hs Hh.
  rewrite forallb_forall in Hs.
  apply existsb_exists in Hh as (y & Hin & E).
  apply existsb_exists; exists y; split; [|assumption].
  apply mem_lm_In. apply Hs; assumption.
Qed.

Lemma covered_read : forall tbl h f,
  forallb access_ok tbl = true -> covered tbl h f false = true ->
  existsb (holds h) (guards f) = true.
Proof.
  intros tbl h f Hok Hc. unfold covered in Hc.
  apply existsb_exists in Hc as (a & Hin & Ha).
  apply andb_true_iff in Ha as [Ha Hs]. apply andb_true_iff in Ha as [Hf Hw].
  apply String.eqb_eq in Hf. apply Bool.eqb_prop in Hw.
  rewrite forallb_forall in Hok. specialize (Hok a Hin).
  unfold access_ok in Hok. rewrite Hw, Hf in Hok.
  apply existsb_exists in Hok as (g & Hg & Hh).
  apply existsb_exists; exists g; split; [assumption|].
  eapply subset_holds; eassumption.
Qed.

Lemma covered_write : forall tbl h f,
  forallb access_ok tbl = true -> covered tbl h f true = true ->
  match guards f with [] => false | gs => forallb (holds_w h) gs end = true.
Proof.
  intros tbl h f Hok Hc. unfold covered in Hc.
  apply existsb_exists in Hc as (a & Hin & Ha).
  apply andb_true_iff in Ha as [Ha Hs]. apply andb_true_iff in Ha as [Hf Hw].
  apply String.eqb_eq in Hf. apply Bool.eqb_prop in Hw.
  rewrite forallb_forall in Hok. specialize (Hok a Hin).
  unfold access_ok in Hok. rewrite Hw, Hf in Hok.
  destruct (guards f) as [|g gs]; [discriminate|].
  rewrite forallb_forall in Hok. apply forallb_forall. intros x Hx.
  eapply subset_holds_w; [eassumption|apply Hok; assumption].
Qed.

Lemma conforms_well_locked : forall tbl,
  forallb access_ok tbl = true ->
  forall p h, conforms tbl h p = true -> well_locked_m guards h p = true.
Proof.
  intros tbl Hok p; induction p as [|e p IH]; intros h H; [reflexivity|].
  destruct e as [l m|l m|f|f]; cbn [conforms well_locked_m] in *.
  - apply IH; assumption.
  - apply andb_true_iff in H as [H1 H2]. rewrite H1; cbn. apply IH; assumption.
  - apply andb_true_iff in H as [H1 H2].
    rewrite (covered_read tbl h f Hok H1); cbn. apply IH; assumption.
  - apply andb_true_iff in H as [H1 H2].
    rewrite (covered_write tbl h f Hok H1); cbn. apply IH; assumption.
Qed.

(** No interleaving of any number of conforming threads reaches a state in
    which two of them are about to perform conflicting accesses. *)
Theorem table_race_free : forall tbl,
  forallb access_ok tbl = true ->
  forall progs, Forall (fun p => conforms tbl [] p = true) progs ->
  forall s, reachable (init progs) s -> ~ race s.
Proof.
  intros tbl Hok progs HF. apply (well_locked_m_race_free guards).
  rewrite Forall_forall in *. intros p Hp.
  apply (conforms_well_locked tbl Hok). apply HF; assumption.
Qed.

Lemma conforms_well_locked_ro : forall ro tbl,
  forallb (access_ok_ro ro) tbl = true ->
  forall p h, conforms tbl h p = true -> well_locked_ro guards ro h p = true.
Proof.
  intros ro tbl Hok p; induction p as [|e p IH]; intros h H; [reflexivity|].
  rewrite forallb_forall in Hok.
  destruct e as [l m|l m|f|f]; cbn [conforms well_locked_ro] in *.
  - apply IH; assumption.
  - apply andb_true_iff in H as [H1 H2]. rewrite H1; cbn. apply IH; assumption.
  - apply andb_true_iff in H as [H1 H2]. rewrite (IH h H2), andb_true_r.
    unfold covered in H1. apply existsb_exists in H1 as (a & Hin & Ha).
    apply andb_true_iff in Ha as [Ha Hs]. apply andb_true_iff in Ha as [Hf Hw].
    apply String.eqb_eq in Hf. apply Bool.eqb_prop in Hw.
    specialize (Hok a Hin). unfold access_ok_ro in Hok. rewrite Hw, Hf in Hok.
    apply orb_true_iff in Hok as [Hro|Hg]; apply orb_true_iff; [left; exact Hro|right].
    apply existsb_exists in Hg as (g & Hg & Hh).
    apply existsb_exists; exists g; split; [assumption|].
    eapply subset_holds; eassumption.
  - apply andb_true_iff in H as [H1 H2]. rewrite (IH h H2), andb_true_r.
    unfold covered in H1. apply existsb_exists in H1 as (a & Hin & Ha).
    apply andb_true_iff in Ha as [Ha Hs]. apply andb_true_iff in Ha as [Hf Hw].
    apply String.eqb_eq in Hf. apply Bool.eqb_prop in Hw.
    specialize (Hok a Hin). unfold access_ok_ro in Hok. rewrite Hw, Hf in Hok.
    apply andb_true_iff in Hok as [Hro Hg]. rewrite Hro; cbn.
    destruct (guards f) as [|g gs]; [discriminate|].
    rewrite forallb_forall in Hg.
    change (forallb (holds_w h) (g :: gs) = true).
    apply forallb_forall. intros x Hx.
    eapply subset_holds_w; [eassumption|apply Hg; assumption].
Qed.

(** The same with never-written fields: their reads need no lock. *)
Theorem table_race_free_ro : forall ro tbl,
  forallb (access_ok_ro ro) tbl = true ->
  forall progs, Forall (fun p => conforms tbl [] p = true) progs ->
  forall s, reachable (init progs) s -> ~ race s.
Proof.
  intros ro tbl Hok progs HF. apply (well_locked_ro_race_free guards ro).
  rewrite Forall_forall in *. intros p Hp.
  apply (conforms_well_locked_ro ro tbl Hok). apply HF; assumption.
Qed.

Lemma acq_covered_ranked : forall rank ord h l,
  forallb (order_ok rank) ord = true -> acq_covered ord h l = true ->
  forallb (fun y => rank (fst y) <? rank l) h = true.
Proof.
  intros rank ord h l Hok Hc. unfold acq_covered in Hc.
  rewrite forallb_forall in *. intros y Hy. specialize (Hc y Hy).
  apply existsb_exists in Hc as (o & Hin & Ho).
  apply andb_true_iff in Ho as [E1 E2].
  apply String.eqb_eq in E1. apply String.eqb_eq in E2.
  specialize (Hok o Hin). unfold order_ok in Hok. rewrite E1, E2 in Hok. exact Hok.
Qed.

Lemma conforms_order_ranked : forall rank ord,
  forallb (order_ok rank) ord = true ->
  forall p h, conforms_order ord h p = true -> ranked rank h p = true.
Proof.
  intros rank ord Hok p; induction p as [|e p IH]; intros h H.
  - exact H.
  - destruct e as [l m|l m|f|f]; cbn [conforms_order ranked] in *.
    + apply andb_true_iff in H as [H1 H2].
      rewrite (acq_covered_ranked rank ord h l Hok H1); cbn. apply IH; assumption.
    + apply andb_true_iff in H as [H1 H2]. rewrite H1; cbn. apply IH; assumption.
    + apply IH; assumption.
    + apply IH; assumption.
Qed.

(** No interleaving of threads whose nested acquisitions all appear in an
    order table that respects the ranks reaches a state in which every
    unfinished thread is blocked. *)
Theorem table_deadlock_free : forall rank ord,
  forallb (order_ok rank) ord = true ->
  forall progs, Forall (fun p => conforms_order ord [] p = true) progs ->
  forall s, reachable (init progs) s -> ~ deadlocked s.
Proof.
  intros rank ord Hok progs HF. apply (ranked_no_deadlock rank).
  rewrite Forall_forall in *. intros p Hp.
  apply (conforms_order_ranked rank ord Hok). apply HF; assumption.
Qed.

(** The premises are satisfiable: a one-entry table and a thread conforming to it. *)
Example table_example :
  let tbl := [Access "r" "fn" "querylog.queryLog.buffer" true
                [("querylog.queryLog.bufferLock", W)] "x.go:1"] in
  forallb access_ok tbl = true /\
  conforms tbl [] [Acq "querylog.queryLog.bufferLock" W; Wr "querylog.queryLog.buffer";
                   Rel "querylog.queryLog.bufferLock" W] = true.
Proof. vm_compute. split; reflexivity. Qed.

Example order_example :
  let ord := [OrderPair "r" "fn" ("a", W) ("b", R) "x.go:2"] in
  let rank := rank_of [("a", 1); ("b", 2)] in
  forallb (order_ok rank) ord = true /\
  conforms_order ord [] [Acq "a" W; Acq "b" R; Rel "b" R; Rel "a" W] = true.
Proof. vm_compute. split; reflexivity. Qed.

(** C11: the two public globs of isPublicResource, tied to the shared model of
    Go's path matching (Base/Glob.v).  The wrapper model writes the two
    patterns out as "literal prefix, then a slash-free rest" ([is_public]);
    here: whatever [path.Match] accepts for these two patterns, [is_public]
    accepts.  So a path that the model treats as protected is protected in
    the code.  (The converse is checked differentially by the harness.) *)
From Coq Require Import List NArith Bool Arith Lia.
From AGH Require Import Base.Run Base.Bytes Base.Glob Model.AuthHttp.
Import ListNotations.

Definition pat_assets : bytes := (str_assets ++ [c_star])%list.      (* /assets/* *)
Definition pat_login : bytes := (str_login_dot ++ [c_star])%list.    (* /login.* *)

(** isPublicResource as the code writes it; a bad pattern would panic. *)
Definition glob_public (p : bytes) : option bool :=
  match glob_match pat_assets p, glob_match pat_login p with
  | GOk a, GOk b => Some (a || b)
  | _, _ => None
  end.

Lemma count_no_slash t : count sep t = 0%nat -> no_slash t = true.
Proof.
  induction t as [|c t IH]; cbn; [reflexivity|]. unfold sep in *.
  destruct (c =? 47)%N; cbn; [discriminate|]. exact IH.
Qed.

Lemma star_pattern_shape lit p :
  lit <> [] -> forallb is_lit lit = true ->
  glob_match (lit ++ [c_star]) p = GOk true ->
  match_prefix_star lit p = true.
Proof.
  intros Hne Hl Hm.
  destruct (glob_literal_prefix lit [] p Hne Hl Hm) as [t Ht].
  assert (Hp : plain_pattern (lit ++ [c_star]) = true).
  { destruct (lit_plain _ Hl) as [H1 H2]. unfold plain_pattern.
    rewrite (mem_app c_lbr lit), (mem_app c_bslash lit), H1, H2. reflexivity. }
  pose proof (glob_match_slashes _ _ Hp Hm) as Hc.
  rewrite Ht, !count_app in Hc. cbn [count] in Hc.
  replace (c_star =? sep)%N with false in Hc by reflexivity.
  assert (count sep t = 0%nat) by lia.
  unfold match_prefix_star.
  assert (Hs : Model.AuthHttp.strip_prefix lit p = Some t).
  { rewrite Ht. clear. induction lit as [|a l IH]; cbn; [reflexivity|]. rewrite N.eqb_refl. exact IH. }
  rewrite Hs. apply count_no_slash. assumption.
Qed.

Theorem glob_public_is_public p : glob_public p = Some true -> is_public p = true.
Proof.
  unfold glob_public, is_public.
  destruct (glob_match pat_assets p) as [a| |] eqn:Ea; try discriminate.
  destruct (glob_match pat_login p) as [b| |] eqn:Eb; try discriminate.
  intros [= H]. apply orb_true_iff in H as [-> | ->].
  - rewrite (star_pattern_shape str_assets p); [reflexivity|discriminate|reflexivity|exact Ea].
  - rewrite (star_pattern_shape str_login_dot p); [apply orb_true_r|discriminate|reflexivity|exact Eb].
Qed.

(** C13, part 3: path independence.  [sim a b]: [b] is [a] with some of the
    Go types a file cannot carry erased (what printing and re-reading does to
    them).  Every step maps related trees to related trees whenever it
    succeeds on the left one; [norm] relates every tree to its re-read form
    and related trees have the same re-read form. *)
From Coq Require Import List ZArith String Ascii Bool Lia DecimalString.
From AGH Require Import Model.Migrate Proofs.Migrate Proofs.MigrateFrame.
Import ListNotations.
Local Open Scope string_scope.
Local Open Scope list_scope.
Local Open Scope Z_scope.

Inductive sim : val -> val -> Prop :=
  | sim_refl v : sim v v
  | sim_float z t : sim (VFloat (Some z) t) (VInt z)
  | sim_dur z : sim (VDur z) (VStr (dur_string z))
  | sim_mode md : sim (VMode md) (VStr (mode_str md))
  | sim_strs l : sim (VStrs l) (VArr (map VStr l))
  | sim_arr l l' : Forall2 sim l l' -> sim (VArr l) (VArr l')
  | sim_obj m m' : Forall2 (fun a b => fst a = fst b /\ sim (snd a) (snd b)) m m' -> sim (VObj m) (VObj m').

Definition esim (a b : string * val) : Prop := fst a = fst b /\ sim (snd a) (snd b).
Definition osim (m m' : obj) : Prop := Forall2 esim m m'.

Lemma sim_obj' m m' : osim m m' -> sim (VObj m) (VObj m').
Proof. apply sim_obj. Qed.

Lemma Forall2_refl {A} (R : A -> A -> Prop) l : (forall a, R a a) -> Forall2 R l l.
Proof. intros H; induction l; constructor; auto. Qed.

Lemma osim_refl m : osim m m.
Proof. apply Forall2_refl. intros a; split; [reflexivity | apply sim_refl]. Qed.

Lemma asim_refl l : Forall2 sim l l.
Proof. apply Forall2_refl, sim_refl. Qed.

(** Inversions by the head of the left side. *)
Lemma sim_null_l b : sim VNull b -> b = VNull. Proof. now inversion 1. Qed.
Lemma sim_int_l z b : sim (VInt z) b -> b = VInt z. Proof. now inversion 1. Qed.
Lemma sim_str_l s b : sim (VStr s) b -> b = VStr s. Proof. now inversion 1. Qed.
Lemma sim_bool_l x b : sim (VBool x) b -> b = VBool x. Proof. now inversion 1. Qed.
Lemma sim_arr_l l b : sim (VArr l) b -> exists l', b = VArr l' /\ Forall2 sim l l'.
Proof. inversion 1; subst; eauto using asim_refl. Qed.
Lemma sim_obj_l m b : sim (VObj m) b -> exists m', b = VObj m' /\ osim m m'.
Proof. inversion 1; subst; eauto using osim_refl. Qed.

(** Inversions by the head of the right side. *)
Lemma sim_null_r a : sim a VNull -> a = VNull. Proof. now inversion 1. Qed.
Lemma sim_bool_r a x : sim a (VBool x) -> a = VBool x. Proof. now inversion 1. Qed.
Lemma sim_obj_r a m' : sim a (VObj m') -> exists m, a = VObj m /\ osim m m'.
Proof. inversion 1; subst; eauto using osim_refl. Qed.
Lemma sim_arr_r a l' : sim a (VArr l') ->
  (exists l, a = VArr l /\ Forall2 sim l l') \/ (exists ls, a = VStrs ls /\ l' = map VStr ls).
Proof. inversion 1; subst; eauto using asim_refl. Qed.
Lemma sim_str_r a s : sim a (VStr s) ->
  a = VStr s \/ (exists z, a = VDur z /\ s = dur_string z) \/ (exists md, a = VMode md /\ s = mode_str md).
Proof. inversion 1; subst; eauto. Qed.

(** ** Association lists *)

Lemma osim_get k m1 m2 : osim m1 m2 ->
  match get k m1, get k m2 with
  | Some v1, Some v2 => sim v1 v2
  | None, None => True
  | _, _ => False
  end.
Proof.
  induction 1 as [|[k1 v1] [k2 v2] m1 m2 [E S] _ IH]; cbn; [exact I|].
  cbn in E, S; subst k2. destruct (String.eqb k k1); auto.
Qed.

Lemma osim_upd k v1 v2 m1 m2 : sim v1 v2 -> osim m1 m2 -> osim (upd k v1 m1) (upd k v2 m2).
Proof.
  intros Sv. induction 1 as [|[k1 x1] [k2 x2] m1 m2 [E S] H IH]; cbn.
  - constructor; [split; auto | constructor].
  - cbn in E, S; subst k2. destruct (String.eqb k k1).
    + constructor; [split; auto | exact H].
    + constructor; [split; auto | exact IH].
Qed.

Lemma osim_del k m1 m2 : osim m1 m2 -> osim (del k m1) (del k m2).
Proof.
  induction 1 as [|[k1 x1] [k2 x2] m1 m2 [E S] H IH]; cbn; [constructor|].
  cbn in E, S; subst k2. destruct (String.eqb k k1); [exact IH|].
  constructor; [split; auto | exact IH].
Qed.

Lemma osim_nil_l m : osim [] m -> m = []. Proof. now inversion 1. Qed.
Lemma osim_nonnil m1 m2 : osim m1 m2 -> m1 <> [] -> m2 <> [].
Proof. inversion 1; subst; congruence. Qed.

(** ** [fieldVal] on related maps *)

Definition fv_rel (r1 r2 : fv) : Prop :=
  match r1 with
  | FAbsent => r2 = FAbsent
  | FOk v1 => exists v2, r2 = FOk v2 /\ sim v1 v2
  | FErr => True
  end.

Lemma fv_sim t k m1 m2 : osim m1 m2 -> fv_rel (field_val t m1 k) (field_val t m2 k).
Proof.
  intros H. pose proof (osim_get k _ _ H) as G. unfold field_val.
  destruct (get k m1) as [v1|], (get k m2) as [v2|]; try contradiction; [|reflexivity].
  inversion G; subst; cbn.
  - destruct v2 as [| | | |[?|] ?| | | | | |], t; cbn; eauto using sim_refl.
  - destruct t; cbn; eauto using sim.
  - destruct t; cbn; eauto using sim.
  - destruct t; cbn; eauto using sim.
  - destruct t; cbn; eauto using sim.
  - destruct t; cbn; eauto using sim.
  - destruct t; cbn; eauto using sim.
Qed.

(** Scalars: the same value is read, unless the left read fails. *)
Definition scalar (t : ty) : Prop := t = TInt \/ t = TStr \/ t = TBool.

Lemma fv_scalar t k m1 m2 : scalar t -> osim m1 m2 -> field_val t m1 k <> FErr ->
  field_val t m2 k = field_val t m1 k.
Proof.
  intros St H N. pose proof (fv_sim t k _ _ H) as R. unfold fv_rel in R.
  destruct (field_val t m1 k) as [|v1|] eqn:E; [exact R | | congruence].
  destruct R as (v2 & -> & S). f_equal.
  unfold field_val in E. destruct (get k m1) as [x|]; [|discriminate].
  destruct St as [->|[->| ->]]; destruct x as [| | | |[?|] ?| | | | | |]; cbn in E; try discriminate; injection E as <-;
    inversion S; reflexivity.
Qed.

(** Booleans and sections are read alike even when the read fails. *)
Lemma fv_bool k m1 m2 : osim m1 m2 -> field_val TBool m2 k = field_val TBool m1 k.
Proof.
  intros H. destruct (field_val TBool m1 k) eqn:E.
  - pose proof (fv_sim TBool k _ _ H) as R. now rewrite E in R.
  - rewrite <- E. apply fv_scalar; auto. unfold scalar; auto. congruence.
  - pose proof (osim_get k _ _ H) as G. unfold field_val in *.
    destruct (get k m1) as [v1|], (get k m2) as [v2|]; try contradiction; try discriminate.
    destruct v2; try (destruct v1; cbn in E; try discriminate; reflexivity).
    + apply sim_null_r in G; subst; discriminate.
    + apply sim_bool_r in G; subst; discriminate.
Qed.

Lemma fv_obj k m1 m2 : osim m1 m2 ->
  match field_val TObj m1 k with
  | FAbsent => field_val TObj m2 k = FAbsent
  | FErr => field_val TObj m2 k = FErr
  | FOk v1 => exists o1 o2, v1 = VObj o1 /\ field_val TObj m2 k = FOk (VObj o2) /\ osim o1 o2
  end.
Proof.
  intros H. pose proof (osim_get k _ _ H) as G. unfold field_val.
  destruct (get k m1) as [v1|], (get k m2) as [v2|]; try contradiction; [|reflexivity].
  destruct v1; cbn;
    try (destruct v2; cbn; try reflexivity;
         [apply sim_null_r in G; discriminate | apply sim_obj_r in G; destruct G as (? & ? & _); discriminate]).
  - apply sim_null_l in G; subst; reflexivity.
  - apply sim_obj_l in G. destruct G as (m' & -> & Ho). cbn. eauto.
Qed.

Lemma fv_arr k m1 m2 : osim m1 m2 ->
  match field_val TArr m1 k with
  | FAbsent => field_val TArr m2 k = FAbsent
  | FErr => field_val TArr m2 k = FErr \/
            exists ls, get k m2 = Some (VArr (map VStr ls)) /\ field_val TArr m2 k = FOk (VArr (map VStr ls))
  | FOk v1 => exists l1 l2, v1 = VArr l1 /\ field_val TArr m2 k = FOk (VArr l2) /\ Forall2 sim l1 l2
  end.
Proof.
  intros H. pose proof (osim_get k _ _ H) as G. unfold field_val.
  destruct (get k m1) as [v1|], (get k m2) as [v2|]; try contradiction; [|reflexivity].
  destruct v1; cbn;
    try (destruct v2; cbn; auto;
         [apply sim_null_r in G; discriminate
         | apply sim_arr_r in G; destruct G as [(? & ? & _)|(ls & E & ->)]; [discriminate|]; eauto]).
  - apply sim_null_l in G; subst; reflexivity.
  - apply sim_arr_l in G. destruct G as (l' & -> & Ho). cbn. eauto.
Qed.

Lemma fv_any k m1 m2 : osim m1 m2 ->
  match field_val TAny m1 k with
  | FAbsent => field_val TAny m2 k = FAbsent
  | FErr => False
  | FOk v1 => exists v2, field_val TAny m2 k = FOk v2 /\ sim v1 v2
  end.
Proof.
  intros H. pose proof (fv_sim TAny k _ _ H) as R. unfold fv_rel in R.
  destruct (field_val TAny m1 k) eqn:E; auto.
  unfold field_val in E. destruct (get k m1) as [x|]; [|discriminate]. destruct x; discriminate.
Qed.

(** ** Combinators *)

(** [f2] follows [f1] on related maps. *)
Definition follows (f1 f2 : obj -> res obj) : Prop :=
  forall o1 o2 r1, osim o1 o2 -> f1 o1 = Ok r1 -> exists r2, f2 o2 = Ok r2 /\ osim r1 r2.

Lemma sim_with_obj k f1 f2 : follows f1 f2 ->
  follows (fun m => with_obj m k f1) (fun m => with_obj m k f2).
Proof.
  intros F m1 m2 r1 H. unfold with_obj. pose proof (fv_obj k _ _ H) as G.
  destruct (field_val TObj m1 k) as [|v1|].
  - rewrite G. intros [= <-]. eauto.
  - destruct G as (o1 & o2 & -> & -> & Ho). cbn [zobj].
    destruct (f1 o1) as [q1| |] eqn:E; cbn [bind]; try discriminate. intros [= <-].
    destruct (F _ _ _ Ho E) as (q2 & -> & Hq). cbn [bind]. eexists; split; [reflexivity|].
    apply osim_upd; auto using sim_obj'.
  - discriminate.
Qed.

Lemma sim_move_val t sk dk s1 s2 d1 d2 s1' d1' :
  osim s1 s2 -> osim d1 d2 -> move_val t s1 d1 sk dk = Some (s1', d1') ->
  exists s2' d2', move_val t s2 d2 sk dk = Some (s2', d2') /\ osim s1' s2' /\ osim d1' d2'.
Proof.
  intros Hs Hd. unfold move_val. pose proof (fv_sim t sk _ _ Hs) as R. unfold fv_rel in R.
  destruct (field_val t s1 sk) as [|v1|]; [| |discriminate].
  - rewrite R. intros [= <- <-]. eauto.
  - destruct R as (v2 & -> & Sv). intros [= <- <-]. do 2 eexists; split; [reflexivity|].
    split; [now apply osim_del | now apply osim_upd].
Qed.

Lemma sim_moves l : forall s1 s2 d1 d2 s1' d1',
  osim s1 s2 -> osim d1 d2 -> moves l s1 d1 = Some (s1', d1') ->
  exists s2' d2', moves l s2 d2 = Some (s2', d2') /\ osim s1' s2' /\ osim d1' d2'.
Proof.
  induction l as [|[[t sk] dk] l IH]; intros s1 s2 d1 d2 s1' d1' Hs Hd; cbn.
  - intros [= <- <-]. eauto.
  - destruct (move_val t s1 d1 sk dk) as [[a b]|] eqn:E; [|discriminate]. intros H.
    destruct (sim_move_val _ _ _ _ _ _ _ _ _ Hs Hd E) as (a2 & b2 & -> & Ha & Hb).
    eapply IH; eauto.
Qed.

Lemma sim_move_in t sk dk m1 m2 m1' :
  osim m1 m2 -> move_in t m1 sk dk = Some m1' ->
  exists m2', move_in t m2 sk dk = Some m2' /\ osim m1' m2'.
Proof.
  intros Hs. unfold move_in. pose proof (fv_sim t sk _ _ Hs) as R. unfold fv_rel in R.
  destruct (field_val t m1 sk) as [|v1|]; [| |discriminate].
  - rewrite R. intros [= <-]. eauto.
  - destruct R as (v2 & -> & Sv). intros [= <-]. eexists; split; [reflexivity|].
    now apply osim_del, osim_upd.
Qed.

Lemma sim_map f : (forall a b, sim a b -> sim (f a) (f b)) ->
  forall l1 l2, Forall2 sim l1 l2 -> Forall2 sim (map f l1) (map f l2).
Proof. intros H. induction 1; cbn; constructor; auto. Qed.

Lemma sim_map_res {B} (R : B -> B -> Prop) f :
  (forall a b r1, sim a b -> f a = Ok r1 -> exists r2, f b = Ok r2 /\ R r1 r2) ->
  forall l1 l2 rs1, Forall2 sim l1 l2 -> map_res f l1 = Ok rs1 ->
  exists rs2, map_res f l2 = Ok rs2 /\ Forall2 R rs1 rs2.
Proof.
  intros H l1 l2 rs1 F. revert rs1. induction F as [|a b l1 l2 Sab _ IH]; cbn; intros rs1.
  - intros [= <-]. eauto.
  - destruct (f a) as [x| |] eqn:Ea; cbn [bind]; try discriminate.
    destruct (map_res f l1) as [xs| |] eqn:El; cbn [bind]; try discriminate. intros [= <-].
    destruct (H _ _ _ Sab Ea) as (y & -> & Rxy). destruct (IH _ eq_refl) as (ys & -> & Rs).
    cbn [bind]. eauto.
Qed.

(** A typed list of strings read as a plain list: every element is a string. *)
Lemma map_on_strs f ls : (forall s, f (VStr s) = VStr s) -> map f (map VStr ls) = map VStr ls.
Proof. intros H. induction ls; cbn; congruence. Qed.

(** ** Texts of typed values never look like a path or a lone dot *)

Definition good (s : string) : Prop :=
  match s with
  | EmptyString => True
  | String c _ => c <> "/"%char /\ c <> "."%char
  end.

Definition headok (s : string) : Prop :=
  match s with
  | EmptyString => False
  | String c _ => c <> "/"%char /\ c <> "."%char
  end.

Lemma dec_head x : headok (dec x).
Proof.
  unfold dec. destruct (N.to_uint (Z.to_N x)); cbn; split; discriminate.
Qed.

Lemma headok_app s t : headok s -> headok (s ++ t).
Proof. destruct s; cbn; [contradiction | auto]. Qed.

Lemma headok_good s : headok s -> good s.
Proof. destruct s; cbn; auto. Qed.

Lemma good_substring k s : good s -> good (substring 0 k s).
Proof. destruct s, k; cbn; auto. Qed.

Lemma go_dur_head d : headok (go_dur_string d).
Proof.
  unfold go_dur_string.
  assert (B : headok
    (if Z.abs d =? 0 then "0s"
     else if Z.abs d <? 1000 then (dec (Z.abs d) ++ "ns")%string
     else if Z.abs d <? 1000000 then (dec (Z.abs d / 1000) ++ fmt_frac (Z.abs d) 3 ++ micro)%string
     else if Z.abs d <? 1000000000 then (dec (Z.abs d / 1000000) ++ fmt_frac (Z.abs d) 6 ++ "ms")%string
     else
       let secs := Z.abs d / 1000000000 in
       let s := (dec (secs mod 60) ++ fmt_frac (Z.abs d) 9 ++ "s")%string in
       let mins := secs / 60 in
       if mins =? 0 then s
       else
         let ms := (dec (mins mod 60) ++ "m" ++ s)%string in
         let hours := mins / 60 in
         if hours =? 0 then ms else (dec hours ++ "h" ++ ms)%string)).
  { cbv zeta.
    repeat match goal with |- headok (if ?c then _ else _) => destruct c end;
      try (apply headok_app, dec_head). cbn; split; discriminate. }
  destruct (d <? 0); [cbn; split; discriminate | exact B].
Qed.

Lemma dur_good z : good (dur_string z).
Proof.
  unfold dur_string, drop_last.
  repeat match goal with |- good (if ?c then _ else _) => destruct c end;
    try apply good_substring; apply headok_good, go_dur_head.
Qed.

Lemma mode_good md : good (mode_str md).
Proof. destruct md; cbn; split; discriminate. Qed.

Lemma good_not_abs s : good s -> is_abs s = false.
Proof.
  destruct s as [|c s]; [reflexivity|]. intros [N _]. unfold is_abs.
  change (prefix "/" (String c s)) with (if ascii_dec "/"%char c then prefix "" s else false).
  destruct (ascii_dec "/"%char c) as [E|E]; [congruence|]. reflexivity.
Qed.

Lemma good_not_dot s : good s -> String.eqb s "." = false.
Proof.
  destruct s as [|c s]; cbn; [reflexivity|]. intros [_ N].
  destruct (Ascii.eqb c "."%char) eqn:E; [apply Ascii.eqb_eq in E; congruence | reflexivity].
Qed.

Lemma fv_str_err k m1 m2 : osim m1 m2 -> field_val TStr m1 k = FErr ->
  field_val TStr m2 k = FErr \/ exists s, field_val TStr m2 k = FOk (VStr s) /\ good s.
Proof.
  intros H. pose proof (osim_get k _ _ H) as G. unfold field_val.
  destruct (get k m1) as [v1|], (get k m2) as [v2|]; try contradiction; try discriminate.
  destruct v2; cbn;
    try (destruct v1; cbn; try discriminate; auto; fail).
  - apply sim_null_r in G; subst; discriminate.
  - apply sim_str_r in G. destruct G as [->|[(z & -> & ->)|(md & -> & ->)]]; cbn.
    + discriminate.
    + intros _. right. eauto using dur_good.
    + intros _. right. eauto using mode_good.
Qed.

(** ** The steps *)

Ltac fin := eexists; split; [reflexivity|].

(** Read a scalar on the left, transfer the result to the right; the error
    case is left to the caller (it is usually contradictory). *)
Ltac scalar_read t m1 m2 k Hs :=
  let X := fresh "X" in let E := fresh "E" in
  assert (X : field_val t m1 k <> FErr -> field_val t m2 k = field_val t m1 k)
    by (apply fv_scalar; [unfold scalar; tauto | exact Hs]);
  destruct (field_val t m1 k) eqn:E;
  [ rewrite X by congruence | rewrite X by congruence | clear X ].

Section StepsSim.
Variable O : oracles.

Definition step_sim (s : step) : Prop :=
  forall m1 m2 r1, osim m1 m2 -> s (Some m1) = Ok r1 -> exists r2, s (Some m2) = Ok r2 /\ osim r1 r2.

Lemma step_sim_stamp n body : follows body body -> step_sim (fun d => m <- stamp n d ;; body m).
Proof. intros F m1 m2 r1 H. cbn. apply F. apply osim_upd; [apply sim_refl | exact H]. Qed.

Lemma sim1 : step_sim step1.
Proof. intros m1 m2 r1 H. cbn. intros [= <-]. fin. apply osim_upd; [apply sim_refl | exact H]. Qed.

Lemma follows_move_in t sk dk : follows (fun m => of_opt (move_in t m sk dk)) (fun m => of_opt (move_in t m sk dk)).
Proof.
  intros o1 o2 r1 H E. destruct (move_in t o1 sk dk) eqn:M; cbn in E; try discriminate. injection E as <-.
  destruct (sim_move_in _ _ _ _ _ _ H M) as (x & -> & Hx). cbn. eauto.
Qed.

Lemma sim2 : step_sim step2.
Proof. unfold step2. apply step_sim_stamp, follows_move_in. Qed.

Lemma sim3 : step_sim step3.
Proof.
  unfold step3. apply step_sim_stamp, sim_with_obj. intros o1 o2 r1 H.
  pose proof (fv_any "bootstrap_dns" _ _ H) as G. destruct (field_val TAny o1 _) as [|b|].
  - rewrite G. intros [= <-]. eauto.
  - destruct G as (b2 & -> & Sb). intros [= <-]. fin. apply osim_upd; auto. apply sim_arr. constructor; auto.
  - contradiction.
Qed.

Lemma client4_sim a b : sim a b -> sim (client4 a) (client4 b).
Proof.
  intros S. inversion S; subst; cbn; try (constructor; assumption).
  apply sim_obj', osim_upd; auto using sim_refl.
Qed.

(** The shape shared by steps 4 and 19: a list read with the error dropped,
    mapped through [f], which leaves strings alone. *)
Lemma follows_map_ignoring k f :
  (forall a b, sim a b -> sim (f a) (f b)) -> (forall s, f (VStr s) = VStr s) ->
  follows (fun m => match field_val TArr m k with
                    | FOk v => Ok (upd k (VArr (map f (zarr v))) m)
                    | _ => Ok m end)
          (fun m => match field_val TArr m k with
                    | FOk v => Ok (upd k (VArr (map f (zarr v))) m)
                    | _ => Ok m end).
Proof.
  intros Hf Hs o1 o2 r1 H. pose proof (fv_arr k _ _ H) as G.
  destruct (field_val TArr o1 k) as [|v|].
  - rewrite G. intros [= <-]. eauto.
  - destruct G as (l1 & l2 & -> & -> & F). cbn [zarr]. intros [= <-]. fin.
    apply osim_upd; auto. apply sim_arr, sim_map; auto.
  - intros [= <-]. destruct G as [->|(ls & Hg & ->)]; [eauto|]. cbn [zarr]. fin.
    rewrite map_on_strs by exact Hs. rewrite upd_same by exact Hg. exact H.
Qed.

Lemma sim4 : step_sim step4.
Proof.
  unfold step4. apply step_sim_stamp, follows_map_ignoring; [exact client4_sim | reflexivity].
Qed.

Lemma sim5 : step_sim (step5 O).
Proof.
  unfold step5. apply step_sim_stamp. intros o1 o2 r1 H.
  destruct (move_val TStr o1 [] "auth_name" "name") as [[a u]|] eqn:M; [|discriminate].
  destruct (sim_move_val _ _ _ _ _ _ _ _ _ H (osim_refl []) M) as (a2 & u2 & -> & Ha & Hu).
  scalar_read TStr a a2 "auth_pass" Ha.
  - intros [= <-]. eauto.
  - destruct (o_bcrypt O (zstr v)); [|discriminate]. intros [= <-]. fin.
    apply osim_upd; [|now apply osim_del]. apply sim_arr. constructor; [|constructor].
    apply sim_obj', osim_upd; auto using sim_refl.
  - discriminate.
Qed.

Lemma client6_sim a b r1 : sim a b -> client6 a = Ok r1 -> exists r2, client6 b = Ok r2 /\ sim r1 r2.
Proof.
  intros S. destruct a; try discriminate. apply sim_obj_l in S. destruct S as (m' & -> & Ho).
  cbn [client6].
  scalar_read TStr m m' "ip" Ho; [| |discriminate];
  (scalar_read TStr m m' "mac" Ho; [| |discriminate]);
  intros [= <-]; fin; apply sim_obj', osim_upd; auto using sim_refl.
Qed.

Lemma sim6 : step_sim step6.
Proof.
  unfold step6. apply step_sim_stamp. intros o1 o2 r1 H. pose proof (fv_arr "clients" _ _ H) as G.
  destruct (field_val TArr o1 "clients") as [|v|]; [| |discriminate].
  - rewrite G. intros [= <-]. eauto.
  - destruct G as (l1 & l2 & -> & -> & F). cbn [zarr].
    destruct (map_res client6 l1) as [cl| |] eqn:E; cbn [bind]; try discriminate. intros [= <-].
    destruct (sim_map_res sim client6 client6_sim _ _ _ F E) as (cl2 & -> & Hc). cbn [bind]. fin.
    apply osim_upd; auto. now apply sim_arr.
Qed.

Lemma sim7 : step_sim step7.
Proof.
  unfold step7. apply step_sim_stamp. intros o1 o2 r1 H. pose proof (fv_obj "dhcp" _ _ H) as G.
  destruct (field_val TObj o1 "dhcp") as [|v|].
  - rewrite G. intros [= <-]. eauto.
  - destruct G as (d1 & d2 & -> & -> & Hd). cbn [zobj].
    destruct (moves moves7 d1 []) as [[a b]|] eqn:M; [|discriminate]. intros [= <-].
    destruct (sim_moves _ _ _ _ _ _ _ Hd (osim_refl []) M) as (a2 & b2 & -> & Ha & Hb). fin.
    apply osim_upd; auto. apply sim_obj', osim_upd; auto using sim_obj'.
  - rewrite G. intros [= <-]. eauto.
Qed.

Lemma sim8 : step_sim step8.
Proof.
  unfold step8. apply step_sim_stamp, sim_with_obj. intros o1 o2 r1 H.
  scalar_read TStr o1 o2 "bind_host" H; [| |discriminate]; intros [= <-]; [eauto|]. fin.
  apply osim_upd; [apply sim_refl | now apply osim_del].
Qed.

Lemma sim9 : step_sim step9.
Proof. unfold step9. apply step_sim_stamp, sim_with_obj, follows_move_in. Qed.

Lemma quic_elem_sim a b r1 : sim a b -> quic_elem O a = Ok r1 -> exists r2, quic_elem O b = Ok r2 /\ sim r1 r2.
Proof.
  intros S. destruct a; try discriminate. apply sim_str_l in S; subst. cbn. intros [= <-]. fin. apply sim_refl.
Qed.

Lemma quic_field_sim k : follows (quic_field O k) (quic_field O k).
Proof.
  intros o1 o2 r1 H. unfold quic_field. pose proof (fv_arr k _ _ H) as G.
  destruct (field_val TArr o1 k) as [|v|]; [| |discriminate].
  - rewrite G. intros [= <-]. eauto.
  - destruct G as (l1 & l2 & -> & -> & F). cbn [zarr].
    destruct (map_res (quic_elem O) l1) as [cl| |] eqn:E; cbn [bind]; try discriminate. intros [= <-].
    destruct (sim_map_res sim _ quic_elem_sim _ _ _ F E) as (cl2 & -> & Hc). cbn [bind]. fin.
    apply osim_upd; auto. now apply sim_arr.
Qed.

Lemma follows_bind f g : follows f f -> follows g g ->
  follows (fun m => x <- f m ;; g x) (fun m => x <- f m ;; g x).
Proof.
  intros Ff Fg o1 o2 r1 H. destruct (f o1) as [x| |] eqn:E; cbn [bind]; try discriminate. intros G.
  destruct (Ff _ _ _ H E) as (x2 & -> & Hx). cbn [bind]. eapply Fg; eauto.
Qed.

Lemma sim10 : step_sim (step10 O).
Proof.
  unfold step10. apply step_sim_stamp, sim_with_obj, follows_bind; apply quic_field_sim.
Qed.

Lemma sim11 : step_sim step11.
Proof.
  unfold step11. apply step_sim_stamp. intros o1 o2 r1 H.
  scalar_read TInt o1 o2 "rlimit_nofile" H; [| |discriminate]; intros [= <-]; fin;
    (apply osim_upd; [apply sim_refl | now apply osim_del]).
Qed.

Lemma sim12 : step_sim step12.
Proof.
  unfold step12. apply step_sim_stamp, sim_with_obj. intros o1 o2 r1 H.
  scalar_read TInt o1 o2 "querylog_interval" H; [| |discriminate]; intros [= <-]; fin;
    (apply osim_upd; [apply sim_refl | assumption]).
Qed.

Lemma sim13 : step_sim step13.
Proof.
  unfold step13. apply step_sim_stamp. intros o1 o2 r1 H.
  pose proof (fv_obj "dns" _ _ H) as G. destruct (field_val TObj o1 "dns") as [|v|]; [| |discriminate].
  { rewrite G. intros [= <-]. eauto. }
  destruct G as (d1 & d2 & -> & -> & Hd).
  pose proof (fv_obj "dhcp" _ _ H) as G. destruct (field_val TObj o1 "dhcp") as [|v|]; [| |discriminate].
  { rewrite G. intros [= <-]. eauto. }
  destruct G as (h1 & h2 & -> & -> & Hh). cbn [zobj].
  destruct (move_val TStr d1 h1 _ _) as [[a b]|] eqn:M; [|discriminate]. intros [= <-].
  destruct (sim_move_val _ _ _ _ _ _ _ _ _ Hd Hh M) as (a2 & b2 & -> & Ha & Hb). fin.
  repeat apply osim_upd; auto using sim_obj'.
Qed.

Lemma clients14_sim p1 p2 rt1 rt2 : sim p1 p2 -> osim rt1 rt2 -> sim (clients14 p1 rt1) (clients14 p2 rt2).
Proof.
  intros Sp Sr. unfold clients14. apply sim_obj'.
  constructor; [split; [reflexivity | exact Sp]|].
  constructor; [split; [reflexivity | apply sim_obj'; exact Sr] | constructor].
Qed.

Definition tail14 (p : val) (m : obj) : res obj :=
  match field_val TObj m "dns" with
  | FErr => Err
  | FAbsent => Ok (upd "clients" (clients14 p runtime0) m)
  | FOk dnsv =>
      match move_val TBool (zobj dnsv) runtime0 "resolve_clients" "rdns" with
      | None => Err
      | Some (dns, rt) => Ok (upd "dns" (VObj dns) (upd "clients" (clients14 p rt) m))
      end
  end.

Lemma tail14_sim p1 p2 : sim p1 p2 -> follows (tail14 p1) (tail14 p2).
Proof.
  intros Sp o1 o2 r1 H. unfold tail14.
  pose proof (fv_obj "dns" _ _ H) as Gd. destruct (field_val TObj o1 "dns") as [|dv|]; [| |discriminate].
  - rewrite Gd. intros [= <-]. fin. apply osim_upd; auto using clients14_sim, osim_refl.
  - destruct Gd as (d1 & d2 & -> & -> & Hd). cbn [zobj].
    destruct (move_val TBool d1 runtime0 _ _) as [[a b]|] eqn:M; [|discriminate]. intros [= <-].
    destruct (sim_move_val _ _ _ _ _ _ _ _ _ Hd (osim_refl runtime0) M) as (a2 & b2 & -> & Ha & Hb). fin.
    repeat apply osim_upd; auto using clients14_sim, sim_obj'.
Qed.

Lemma sim14 : step_sim step14.
Proof.
  unfold step14. apply step_sim_stamp. intros o1 o2 r1 H.
  pose proof (fv_arr "clients" _ _ H) as G.
  destruct (field_val TArr o1 "clients") as [|v|]; [| |discriminate].
  - rewrite G. apply (tail14_sim _ _ (sim_refl (VArr [])) _ _ _ H).
  - destruct G as (l1 & l2 & -> & -> & F). apply (tail14_sim (VArr l1) (VArr l2) (sim_arr _ _ F) _ _ _ H).
Qed.

Lemma sim15 : step_sim step15.
Proof.
  unfold step15. apply step_sim_stamp. intros o1 o2 r1 H.
  pose proof (fv_obj "dns" _ _ H) as G. destruct (field_val TObj o1 "dns") as [|v|]; [| |discriminate].
  { rewrite G. intros [= <-]. eauto. }
  destruct G as (d1 & d2 & -> & -> & Hd). cbn [zobj].
  destruct (moves moves15 d1 qlog0) as [[a b]|] eqn:M; [|discriminate]. intros [= <-].
  destruct (sim_moves _ _ _ _ _ _ _ Hd (osim_refl qlog0) M) as (a2 & b2 & -> & Ha & Hb). fin.
  repeat apply osim_upd; auto using sim_obj'.
Qed.

Lemma sim16 : step_sim step16.
Proof.
  unfold step16. apply step_sim_stamp. intros o1 o2 r1 H.
  pose proof (fv_obj "dns" _ _ H) as G. destruct (field_val TObj o1 "dns") as [|v|]; [| |discriminate].
  { rewrite G. intros [= <-]. eauto. }
  destruct G as (d1 & d2 & -> & -> & Hd). cbn [zobj].
  scalar_read TInt d1 d2 "statistics_interval" Hd; [| |discriminate]; intros [= <-]; fin.
  - apply osim_upd; auto using sim_refl.
  - repeat apply osim_upd; auto using sim_refl. apply sim_obj'. now apply osim_del.
Qed.

Lemma sim17 : step_sim step17.
Proof.
  unfold step17. apply step_sim_stamp, sim_with_obj. intros o1 o2 r1 H.
  rewrite (fv_bool "edns_client_subnet" _ _ H). intros [= <-]. fin.
  apply osim_upd; auto using sim_refl.
Qed.

Lemma sim18 : step_sim step18.
Proof.
  unfold step18. apply step_sim_stamp, sim_with_obj. intros o1 o2 r1 H.
  destruct (move_val TBool o1 safe_search0 _ _) as [[a b]|] eqn:M; [|discriminate]. intros [= <-].
  destruct (sim_move_val _ _ _ _ _ _ _ _ _ H (osim_refl safe_search0) M) as (a2 & b2 & -> & Ha & Hb). fin.
  apply osim_upd; auto using sim_obj'.
Qed.

Lemma client19_sim a b : sim a b -> sim (client19 a) (client19 b).
Proof.
  intros S. inversion S; subst; cbn [client19]; try (constructor; assumption).
  fold (osim m m') in H. unfold move_val. rewrite (fv_bool "safesearch_enabled" _ _ H).
  destruct (field_val TBool m "safesearch_enabled").
  - apply sim_obj', osim_upd; auto using sim_refl.
  - apply sim_obj', osim_upd; auto using sim_refl. now apply osim_del.
  - apply sim_obj', osim_upd; auto using sim_refl.
Qed.

Lemma sim19 : step_sim step19.
Proof.
  unfold step19. apply step_sim_stamp, sim_with_obj.
  apply follows_map_ignoring; [exact client19_sim | reflexivity].
Qed.

Lemma sim20 : step_sim step20.
Proof.
  unfold step20. apply step_sim_stamp, sim_with_obj. intros o1 o2 r1 H.
  scalar_read TInt o1 o2 "interval" H; [| |discriminate]; intros [= <-]; fin;
    (apply osim_upd; [apply sim_refl | assumption]).
Qed.

Lemma sim21 : step_sim step21.
Proof.
  unfold step21. apply step_sim_stamp, sim_with_obj. intros o1 o2 r1 H.
  destruct (move_val TArr o1 _ _ _) as [[a b]|] eqn:M; [|discriminate]. intros [= <-].
  destruct (sim_move_val _ _ _ _ _ _ _ _ _ H (osim_refl [("schedule", schedule0)]) M) as (a2 & b2 & -> & Ha & Hb). fin.
  apply osim_upd; auto using sim_obj'.
Qed.

Lemma client22_sim a b r1 : sim a b -> client22 a = Ok r1 -> exists r2, client22 b = Ok r2 /\ sim r1 r2.
Proof.
  intros S. destruct a; try discriminate. apply sim_obj_l in S. destruct S as (m' & -> & Ho).
  cbn [client22]. pose proof (fv_arr "blocked_services" _ _ Ho) as G.
  destruct (field_val TArr m "blocked_services") as [|v|]; [| |discriminate].
  - rewrite G. intros [= <-]. fin. now apply sim_obj'.
  - destruct G as (l1 & l2 & -> & -> & F). intros [= <-]. fin. apply sim_obj', osim_upd; auto.
    apply sim_obj'. constructor; [split; [reflexivity | now apply sim_arr]|]. apply osim_refl.
Qed.

Lemma sim22 : step_sim step22.
Proof.
  unfold step22. apply step_sim_stamp, sim_with_obj. intros o1 o2 r1 H.
  pose proof (fv_arr "persistent" _ _ H) as G.
  destruct (field_val TArr o1 "persistent") as [|v|]; [| |discriminate].
  - rewrite G. intros [= <-]. eauto.
  - destruct G as (l1 & l2 & -> & -> & F). cbn [zarr].
    destruct (map_res client22 l1) as [cl| |] eqn:E; cbn [bind]; try discriminate. intros [= <-].
    destruct (sim_map_res sim client22 client22_sim _ _ _ F E) as (cl2 & -> & Hc). cbn [bind]. fin.
    apply osim_upd; auto. now apply sim_arr.
Qed.

Lemma sim23 : step_sim (step23 O).
Proof.
  unfold step23. apply step_sim_stamp. intros o1 o2 r1 H.
  scalar_read TStr o1 o2 "bind_host" H; [| |discriminate].
  { intros [= <-]. eauto. }
  destruct (o_addr O (zstr v)); [|discriminate].
  scalar_read TInt o1 o2 "bind_port" H; [| |discriminate];
  (scalar_read TInt o1 o2 "web_session_ttl" H; [| |discriminate]);
  intros [= <-]; fin; repeat apply osim_del; apply osim_upd; auto using sim_refl.
Qed.

Lemma osim_same_shape {A} (m1 m2 : obj) (x y : A) : osim m1 m2 ->
  match m1 with [] => x | _ :: _ => y end = match m2 with [] => x | _ :: _ => y end.
Proof. now inversion 1. Qed.

Lemma sim24 : step_sim step24.
Proof.
  unfold step24. apply step_sim_stamp. intros o1 o2 r1 H.
  destruct (moves moves24 o1 []) as [[a b]|] eqn:M; [|discriminate].
  destruct (sim_moves _ _ _ _ _ _ _ H (osim_refl []) M) as (a2 & b2 & -> & Ha & Hb).
  inversion Hb; subst; intros [= <-]; fin; [exact Ha|].
  apply osim_upd; auto. apply sim_obj'. now constructor.
Qed.

Lemma sim25 : step_sim step25.
Proof.
  unfold step25. apply step_sim_stamp. intros o1 o2 r1 H.
  pose proof (fv_obj "http" _ _ H) as G. destruct (field_val TObj o1 "http") as [|v|]; [| |discriminate].
  { rewrite G. intros [= <-]. eauto. }
  destruct G as (h1 & h2 & -> & -> & Hh). cbn [zobj].
  destruct (move_val TBool o1 pprof0 _ _) as [[a b]|] eqn:M; [|discriminate]. intros [= <-].
  destruct (sim_move_val _ _ _ _ _ _ _ _ _ H (osim_refl pprof0) M) as (a2 & b2 & -> & Ha & Hb). fin.
  apply osim_upd; auto. apply sim_obj', osim_upd; auto using sim_obj'.
Qed.

Lemma sim26 : step_sim step26.
Proof.
  unfold step26. apply step_sim_stamp. intros o1 o2 r1 H.
  pose proof (fv_obj "dns" _ _ H) as G. destruct (field_val TObj o1 "dns") as [|v|]; [| |discriminate].
  { rewrite G. intros [= <-]. eauto. }
  destruct G as (d1 & d2 & -> & -> & Hd). cbn [zobj].
  destruct (moves moves26 d1 []) as [[a b]|] eqn:M; [|discriminate].
  destruct (sim_moves _ _ _ _ _ _ _ Hd (osim_refl []) M) as (a2 & b2 & -> & Ha & Hb).
  inversion Hb; subst; intros [= <-]; fin.
  - apply osim_upd; auto using sim_obj'.
  - repeat apply osim_upd; auto using sim_obj'; apply sim_obj'; now constructor.
Qed.

Lemma dot27_sim a b : sim a b -> sim (dot27 a) (dot27 b).
Proof.
  intros S. inversion S; subst; cbn [dot27]; try (constructor; assumption).
  - rewrite (good_not_dot _ (dur_good z)). constructor.
  - rewrite (good_not_dot _ (mode_good md)). constructor.
Qed.

Lemma replace_dot_sim k : follows (replace_dot k) (replace_dot k).
Proof.
  unfold replace_dot. apply sim_with_obj. intros o1 o2 r1 H.
  pose proof (fv_arr "ignored" _ _ H) as G.
  destruct (field_val TArr o1 "ignored") as [|v|]; [| |discriminate].
  - rewrite G. intros [= <-]. eauto.
  - destruct G as (l1 & l2 & -> & -> & F). cbn [zarr]. intros [= <-]. fin.
    apply osim_upd; auto. apply sim_arr, sim_map; auto. exact dot27_sim.
Qed.

Lemma sim27 : step_sim step27.
Proof. unfold step27. apply step_sim_stamp, follows_bind; apply replace_dot_sim. Qed.

Lemma sim28 : step_sim step28.
Proof.
  unfold step28. apply step_sim_stamp, sim_with_obj. intros o1 o2 r1 H.
  rewrite (fv_bool "all_servers" _ _ H), (fv_bool "fastest_addr" _ _ H). intros [= <-]. fin.
  repeat apply osim_del. apply osim_upd; auto using sim_refl.
Qed.

Lemma filter29_sim a b r1 : sim a b -> filter29 a = Ok r1 -> exists r2, filter29 b = Ok r2 /\ r1 = r2.
Proof.
  intros S. destruct a; try discriminate. apply sim_obj_l in S. destruct S as (m' & -> & Ho).
  cbn [filter29]. destruct (field_val TStr m "url") as [|v|] eqn:E.
  - rewrite (fv_scalar TStr "url" _ _ (or_intror (or_introl eq_refl)) Ho) by congruence. rewrite E. eauto.
  - rewrite (fv_scalar TStr "url" _ _ (or_intror (or_introl eq_refl)) Ho) by congruence. rewrite E. eauto.
  - intros [= <-]. destruct (fv_str_err "url" _ _ Ho E) as [->|(s & -> & G)]; [eauto|].
    cbn [zstr]. rewrite (good_not_abs _ G). eauto.
Qed.

Lemma Forall2_eq {A} (l1 l2 : list A) : Forall2 eq l1 l2 -> l1 = l2.
Proof. induction 1; congruence. Qed.

Lemma sim29 : step_sim (step29 O).
Proof.
  unfold step29. apply step_sim_stamp. intros o1 o2 r1 H.
  pose proof (fv_arr "filters" _ _ H) as G.
  destruct (field_val TArr o1 "filters") as [|v|]; [| |discriminate].
  - rewrite G. intros [= <-]. eauto.
  - destruct G as (l1 & l2 & -> & -> & F). cbn [zarr].
    destruct (map_res filter29 l1) as [ps| |] eqn:E; cbn [bind]; try discriminate.
    destruct (sim_map_res eq filter29 filter29_sim _ _ _ F E) as (ps2 & -> & Hp). cbn [bind].
    apply Forall2_eq in Hp; subst ps2.
    apply (sim_with_obj "filtering" _ _); [|exact H].
    intros f1 f2 q1 Hf [= <-]. fin. apply osim_upd; auto using sim_refl.
Qed.

Lemma steps_sim : Forall step_sim (map snd (steps O)).
Proof.
  cbn.
  repeat (apply Forall_cons;
    [first [exact sim1|exact sim2|exact sim3|exact sim4|exact sim5|exact sim6|exact sim7|exact sim8|exact sim9
           |exact sim10|exact sim11|exact sim12|exact sim13|exact sim14|exact sim15|exact sim16|exact sim17
           |exact sim18|exact sim19|exact sim20|exact sim21|exact sim22|exact sim23|exact sim24|exact sim25
           |exact sim26|exact sim27|exact sim28|exact sim29]|]).
  apply Forall_nil.
Qed.

Lemma run_steps_sim l : Forall step_sim l -> forall m1 m2 r1,
  osim m1 m2 -> run_steps l m1 = Ok r1 -> exists r2, run_steps l m2 = Ok r2 /\ osim r1 r2.
Proof.
  induction 1 as [|s l Hs _ IH]; intros m1 m2 r1 H; cbn.
  - intros [= <-]. eauto.
  - destruct (s (Some m1)) as [x| |] eqn:E; cbn [bind]; try discriminate. intros G.
    destruct (Hs _ _ _ H E) as (x2 & -> & Hx). cbn [bind]. eapply IH; eauto.
Qed.

End StepsSim.

(** ** Re-reading *)

Lemma sim_norm : forall v, sim v (norm v).
Proof.
  fix IH 1. intros [ | b | z | s | [z|] t | t | l | m | z | md | l ]; cbn [norm];
    try apply sim_refl; try (constructor; fail).
  - apply sim_arr. induction l as [|a l IHl]; cbn [map]; constructor; [apply IH | exact IHl].
  - apply sim_obj. induction m as [|[k v] m IHm]; cbn [map]; constructor;
      [split; [reflexivity | apply IH] | exact IHm].
Qed.

Lemma osim_norm m : osim m (norm_obj m).
Proof. pose proof (sim_norm (VObj m)) as H. cbn in H. apply sim_obj_l in H. destruct H as (m' & [= <-] & H). exact H. Qed.

Lemma sim_norm_eq : forall a b, sim a b -> norm a = norm b.
Proof.
  fix IH 1. intros a b S. destruct a; inversion S; subst; try reflexivity.
  - cbn [norm]. f_equal. match goal with F : Forall2 sim _ _ |- _ => clear S; revert l' F end.
    induction l as [|x l IHl]; intros l' F; inversion F; subst; cbn [map]; [reflexivity|].
    f_equal; [apply IH; assumption | apply IHl; assumption].
  - cbn [norm]. f_equal. match goal with F : Forall2 _ _ _ |- _ => clear S; revert m' F end.
    induction m as [|[k v] m IHm]; intros m' F; inversion F as [|? [k' v'] ? ? [E Sv] F']; subst; cbn [map]; [reflexivity|].
    cbn in E, Sv. subst k'. f_equal; [cbn; f_equal; apply IH; assumption | apply IHm; assumption].
  - cbn [norm]. rewrite map_map. reflexivity.
Qed.

Lemma osim_norm_eq m1 m2 : osim m1 m2 -> norm_obj m1 = norm_obj m2.
Proof. intros H. pose proof (sim_norm_eq _ _ (sim_obj _ _ H)) as E. now injection E. Qed.

(** ** Splitting a run *)

Lemma run_steps_app l1 l2 m :
  run_steps (l1 ++ l2) m = (x <- run_steps l1 m ;; run_steps l2 x).
Proof.
  revert m. induction l1 as [|s l1 IH]; intros m; cbn; [reflexivity|].
  destruct (s (Some m)); cbn; auto.
Qed.

Lemma firstn_plus {A} a b : forall l : list A, firstn (a + b) l = firstn a l ++ firstn b (skipn a l).
Proof. induction a as [|a IH]; intros [|x l]; cbn; try reflexivity; [now destruct b | now rewrite IH]. Qed.

Lemma skipn_plus {A} a b : forall l : list A, skipn (a + b) l = skipn b (skipn a l).
Proof. induction a as [|a IH]; intros [|x l]; cbn; try reflexivity; [now destruct b | apply IH]. Qed.

Section Path.
Variable O : oracles.

Lemma upgrade_split cur k tgt m : (cur <= k <= tgt)%nat ->
  upgrade O cur tgt m = (x <- upgrade O cur k m ;; upgrade O k tgt x).
Proof.
  intros R. unfold upgrade. rewrite <- run_steps_app. f_equal.
  replace (tgt - cur)%nat with ((k - cur) + (tgt - k))%nat by lia.
  rewrite firstn_plus. f_equal. f_equal. rewrite <- skipn_plus. f_equal. lia.
Qed.

(** Upgrade in one run, or to [k], through the file, and on: the same file. *)
Lemma upgrade_path_independent cur k tgt m a : (cur <= k <= tgt)%nat ->
  upgrade O cur tgt m = Ok a ->
  exists b c, upgrade O cur k m = Ok b /\ upgrade O k tgt (norm_obj b) = Ok c /\ norm_obj c = norm_obj a.
Proof.
  intros R H. rewrite (upgrade_split cur k tgt m R) in H.
  destruct (upgrade O cur k m) as [b| |] eqn:E; cbn [bind] in H; try discriminate.
  assert (F : Forall step_sim (firstn (tgt - k) (skipn k (map snd (steps O))))).
  { apply Forall_firstn, Forall_skipn, steps_sim. }
  destruct (run_steps_sim _ F _ _ _ (osim_norm b) H) as (c & Hc & S).
  exists b, c. repeat split; auto. symmetry. now apply osim_norm_eq.
Qed.

(** The same for any in-memory tree and its re-read form: what a step leaves
    in memory and what a later run reads from the file lead to the same file. *)
Lemma upgrade_respects_reread cur tgt m a :
  upgrade O cur tgt m = Ok a ->
  exists c, upgrade O cur tgt (norm_obj m) = Ok c /\ norm_obj c = norm_obj a.
Proof.
  intros H.
  assert (F : Forall step_sim (firstn (tgt - cur) (skipn cur (map snd (steps O))))).
  { apply Forall_firstn, Forall_skipn, steps_sim. }
  destruct (run_steps_sim _ F _ _ _ (osim_norm m) H) as (c & Hc & S).
  exists c. split; auto. symmetry. now apply osim_norm_eq.
Qed.

End Path.

(** ** [Migrate] in one run and in two *)

Definition version_of (m : obj) : Z :=
  zint (fv_val TInt (field_val TInt m "schema_version")) mod 2 ^ 64.

Section MigratePath.
Variable O : oracles.

Lemma migrate_unfold top t :
  field_val TInt (input_map top) "schema_version" <> FErr ->
  version_of (input_map top) < t <= last_version ->
  migrate O top t =
    match upgrade O (Z.to_nat (version_of (input_map top))) (Z.to_nat t) (input_map top) with
    | Ok m' => ONew m' | Err => OErr | Panic => OPanic
    end.
Proof.
  unfold migrate, version_of. fold (input_map top). intros N R.
  destruct (field_val TInt (input_map top) "schema_version") eqn:E; [| |congruence];
  cbn [fv_val] in *;
  (destruct (_ >? t) eqn:E1; [lia|]); (destruct (t >? last_version) eqn:E2; [lia|]);
  (destruct (_ =? t) eqn:E3; [lia|]); reflexivity.
Qed.

Lemma migrate_new_inv' top t a :
  migrate O top t = ONew a ->
  field_val TInt (input_map top) "schema_version" <> FErr /\
  version_of (input_map top) < t <= last_version /\
  upgrade O (Z.to_nat (version_of (input_map top))) (Z.to_nat t) (input_map top) = Ok a.
Proof.
  unfold migrate, version_of. fold (input_map top).
  destruct (field_val TInt (input_map top) "schema_version") eqn:E; [| |discriminate];
  cbn [fv_val];
  (destruct (_ >? t) eqn:E1; [discriminate|]); (destruct (t >? last_version) eqn:E2; [discriminate|]);
  (destruct (_ =? t) eqn:E3; [discriminate|]);
  (destruct (upgrade O _ _ _) eqn:E4; try discriminate); intros [= ->];
  (split; [discriminate|]); (split; [unfold last_version in *; lia | reflexivity]).
Qed.

Theorem migrate_path_independent top t k a :
  migrate O top t = ONew a -> version_of (input_map top) < k < t ->
  exists b c, migrate O top k = ONew b /\
              migrate O (Some (norm_obj b)) t = ONew c /\
              norm_obj c = norm_obj a.
Proof.
  intros H Rk. destruct (migrate_new_inv' _ _ _ H) as (N & R & U).
  assert (V0 : 0 <= version_of (input_map top)) by (apply Z.mod_pos_bound; lia).
  unfold last_version in R.
  assert (Rn : (Z.to_nat (version_of (input_map top)) <= Z.to_nat k <= Z.to_nat t)%nat) by lia.
  assert (Rs : (Z.to_nat (version_of (input_map top)) < Z.to_nat k <= 29)%nat) by lia.
  destruct (upgrade_path_independent O _ _ _ _ _ Rn U) as (b & c & U1 & U2 & E).
  exists b, c. split; [|split; [|exact E]].
  - rewrite migrate_unfold by (unfold last_version; auto; lia). now rewrite U1.
  - assert (S : get "schema_version" (norm_obj b) = Some (VInt k)).
    { rewrite get_norm_obj, (upgrade_stamped O _ _ _ _ Rs U1). cbn. do 2 f_equal. lia. }
    assert (F : field_val TInt (norm_obj b) "schema_version" = FOk (VInt k)).
    { unfold field_val. now rewrite S. }
    assert (V : version_of (norm_obj b) = k).
    { unfold version_of. rewrite F. cbn [fv_val zint]. apply Z.mod_small. lia. }
    rewrite migrate_unfold; cbn [input_map]; [|congruence|unfold last_version; lia].
    rewrite V. now rewrite U2.
Qed.

End MigratePath.

(** A concrete split run (premises satisfiable, typed values in play): version
    22 to 29 through a file at version 28, which holds the typed upstream mode
    as plain text. *)
Example doc22_split :
  exists a b c,
    migrate oracles0 (Some doc22) 29 = ONew a /\ migrate oracles0 (Some doc22) 28 = ONew b /\
    migrate oracles0 (Some (norm_obj b)) 29 = ONew c /\ norm_obj c = norm_obj a /\
    get "dns" b = Some (VObj [("upstream_mode", VMode MParallel)]) /\
    get "dns" (norm_obj b) = Some (VObj [("upstream_mode", VStr "parallel")]).
Proof. do 3 eexists. repeat split; vm_compute; reflexivity. Qed.

(** ** The unconditional reading

    "The result never depends on the path", with a failing one run included.
    Until fix bb8b603 this was false for decoded documents: a whole-valued
    float at a key a step reads as an int failed in one run and succeeded in a
    split run (the file written at the split point holds [2] for [2.0]).
    [fieldVal] now converts such a float ([coerce]), and the former witness
    upgrades alike on both paths ([whole_float_same]).

    The statement is about decoded documents ([plain]: no Go-typed leftovers,
    which only steps create).  Without that restriction it is false for a
    reason that has nothing to do with files ([typed_input_path_dependent]: a
    duration object where a step reads a string).  Proved: every case in which
    the one run does not fail ([path_independent_unconditional_partial]).
    Missing: "the one run fails => the split run fails", which needs the
    simulation in the other direction together with an invariant saying where
    steps leave typed values; the harness checks it on every split run. *)

Definition split_run (O : oracles) (top : option obj) (k t : Z) : outcome :=
  match migrate O top k with
  | ONew b => migrate O (Some (norm_obj b)) t
  | o => o
  end.

Definition same_result (o1 o2 : outcome) : Prop :=
  match o1, o2 with
  | ONew a, ONew c => norm_obj a = norm_obj c
  | OErr, OErr | OSame, OSame | OPanic, OPanic => True
  | _, _ => False
  end.

Fixpoint plain (v : val) : bool :=
  match v with
  | VDur _ | VMode _ | VStrs _ => false
  | VArr l => forallb plain l
  | VObj m => forallb (fun kv => plain (snd kv)) m
  | _ => true
  end.

Definition plain_doc (top : option obj) : bool :=
  match top with None => true | Some m => plain (VObj m) end.

Definition path_independent_unconditional_statement : Prop :=
  forall O top t k, plain_doc top = true -> version_of (input_map top) < k < t ->
    same_result (migrate O top t) (split_run O top k t).

Lemma path_independent_unconditional_partial O top t k :
  version_of (input_map top) < k < t -> migrate O top t <> OErr ->
  same_result (migrate O top t) (split_run O top k t).
Proof.
  intros R N. destruct (migrate O top t) as [| |a|] eqn:E.
  - congruence.
  - (* not upgraded: the document is at version t, so no k lies between *)
    exfalso. unfold migrate in E. fold (input_map top) in E.
    destruct (field_val TInt (input_map top) "schema_version") eqn:F; try discriminate;
      unfold version_of in R; rewrite F in R; cbn [fv_val] in *;
      (destruct (_ >? t) eqn:E1; [discriminate|]); (destruct (t >? last_version) eqn:E2; [discriminate|]);
      (destruct (_ =? t) eqn:E3; [lia|]); destruct (upgrade O _ _ _); discriminate.
  - destruct (migrate_path_independent O _ _ _ _ E R) as (b & c & H1 & H2 & H3).
    unfold split_run. rewrite H1, H2. cbn. congruence.
  - exfalso. exact (migrate_no_panic O _ _ E).
Qed.

Definition float_doc : obj := [("schema_version", VInt 9); ("rlimit_nofile", VFloat (Some 2) "2")].

(** The former counter-example: accepted in one run, same file as the split run. *)
Lemma whole_float_same :
  exists a c, migrate oracles0 (Some float_doc) 29 = ONew a /\
    split_run oracles0 (Some float_doc) 10 29 = ONew c /\ norm_obj a = norm_obj c /\
    get "os" a = Some (VObj [("group", VStr ""); ("rlimit_nofile", VInt 2); ("user", VStr "")]).
Proof. do 2 eexists. repeat split; vm_compute; reflexivity. Qed.

(** A fractional float is rejected on both paths. *)
Lemma fractional_float_rejected :
  let d := Some [("schema_version", VInt 9); ("rlimit_nofile", VFloat None "2.5")] in
  migrate oracles0 d 29 = OErr /\ split_run oracles0 d 10 29 = OErr.
Proof. split; vm_compute; reflexivity. Qed.

(** Why the statement speaks of decoded documents: a tree that already holds
    a Go duration where step 8 reads a string fails in one run and succeeds
    when split (the file holds the duration's text).  No decoded document
    looks like that. *)
Definition typed_doc : obj := [("schema_version", VInt 6); ("dns", VObj [("bind_host", VDur 5)])].

Lemma typed_input_path_dependent :
  plain_doc (Some typed_doc) = false /\
  migrate oracles0 (Some typed_doc) 29 = OErr /\ exists c, split_run oracles0 (Some typed_doc) 7 29 = ONew c.
Proof. split; [reflexivity|]. split; [vm_compute; reflexivity|]. eexists. vm_compute. reflexivity. Qed.

(** Specification and proofs for C18 (pause schedule). *)
From Coq Require Import ZArith List Bool Lia.
From AGH Require Import Model.Schedule.
Import ListNotations.
Local Open Scope Z_scope.
Ltac Zify.zify_post_hook ::= Z.to_euclidean_division_equations.

(** * Declarative reading of the property *)

(** Local wall-clock value of instant [t] in a zone with offset function
    [off], as nanoseconds on the local time line. *)
Definition local_ns (off : Z -> Z) (t : Z) : Z := t + off t * ns_sec.
Definition wall_tod (off : Z -> Z) (t : Z) : Z := local_ns off t mod ns_day.
Definition wall_weekday (off : Z -> Z) (t : Z) : Z := (local_ns off t / ns_day + 4) mod 7.
Definition day_of (w : weekly) (d : Z) : day_range := nth (Z.to_nat d) w zero_range.

Definition in_effect (w : weekly) (off : Z -> Z) (t : Z) : Prop :=
  let r := day_of w (wall_weekday off t) in
  dr_start r <= wall_tod off t < dr_end r.

Definition full_day := {| dr_start := 0; dr_end := ns_day |}.

Definition range_ok (r : day_range) : Prop :=
  (dr_start r = 0 /\ dr_end r = 0) \/
  (0 <= dr_start r < dr_end r /\ dr_end r <= ns_day /\ dr_start r < ns_day /\
   dr_start r mod ns_min = 0 /\ dr_end r mod ns_min = 0).

(** * Wall clock *)

Lemma clock_offset_is_tod o t :
  clock_offset o t = (t + o * ns_sec) mod ns_day.
Proof.
  unfold clock_offset, clock_hour, clock_min, clock_sec, sec_of_day, local_sec,
    nanosecond, ns_hour, ns_min, ns_day, ns_sec.
  lia.
Qed.

Lemma weekday_is_wall o t :
  weekday (local_sec o t) = ((t + o * ns_sec) / ns_day + 4) mod 7.
Proof.
  unfold weekday, local_sec, ns_day, ns_sec.
  assert (H : (t / 1000000000 + o) / 86400 = (t + o * 1000000000) / (86400 * 1000000000)) by lia.
  rewrite H. reflexivity.
Qed.

Lemma contains_wall_clock w off t :
  contains w off t = true <-> in_effect w off t.
Proof.
  unfold contains, in_effect, day_of, wall_tod, wall_weekday, local_ns, range_contains.
  rewrite clock_offset_is_tod, weekday_is_wall.
  rewrite andb_true_iff, Z.leb_le, Z.ltb_lt. reflexivity.
Qed.

Lemma wall_tod_range off t : 0 <= wall_tod off t < ns_day.
Proof. unfold wall_tod, ns_day, ns_sec. lia. Qed.

Lemma wall_weekday_range off t : 0 <= wall_weekday off t < 7.
Proof. unfold wall_weekday. lia. Qed.

Lemma full_day_contains w off t :
  day_of w (wall_weekday off t) = full_day -> contains w off t = true.
Proof.
  intros H. apply contains_wall_clock. unfold in_effect. rewrite H. cbn [dr_start dr_end full_day].
  apply wall_tod_range.
Qed.

Lemma empty_day_contains w off t :
  dr_end (day_of w (wall_weekday off t)) <= dr_start (day_of w (wall_weekday off t)) ->
  contains w off t = false.
Proof.
  intros H. destruct (contains w off t) eqn:E; [|reflexivity].
  apply contains_wall_clock in E. unfold in_effect in E. cbn zeta in E. lia.
Qed.

(** The elapsed-time reading (offset measured from the instant of local
    midnight) differs from the wall clock exactly when the zone offset changed
    since midnight; kept as the explicit refutation of the pre-fix code. *)
Definition elapsed_contains (w : weekly) (off : Z -> Z) (midnight t : Z) : bool :=
  let r := day_of w (wall_weekday off t) in range_contains r (t - midnight).

(** New York, 2024-11-03 (25-hour day): 23:30 local (EST, -5h) is
    1730694600 s; local midnight was at 1730606400 s (EDT, -4h). *)
Definition ny_off (t : Z) : Z := if t <? 1730613600 * ns_sec then -14400 else -18000.
Definition ny_full : weekly := repeat full_day 7.

Lemma elapsed_reading_refuted :
  exists w off midnight t,
    day_of w (wall_weekday off t) = full_day /\
    elapsed_contains w off midnight t = false /\ contains w off t = true.
Proof.
  exists ny_full, ny_off, (1730606400 * ns_sec), (1730694600 * ns_sec).
  vm_compute. auto.
Qed.

(** * Validation *)

Lemma validate_range_spec r : validate_range r = None <-> range_ok r.
Proof.
  unfold validate_range, range_ok, is_zero_range, max_day_range.
  destruct r as [s e]; cbn [dr_start dr_end].
  destruct (s =? 0) eqn:Es, (e =? 0) eqn:Ee; cbn [andb];
    try (split; [intros _; left; lia | reflexivity]).
  all: destruct (s <? 0) eqn:E1; [split; [discriminate | unfold ns_day, ns_min, ns_sec; lia]|].
  all: destruct (e <? 0) eqn:E2; [split; [discriminate | unfold ns_day, ns_min, ns_sec; lia]|].
  all: destruct (e <=? s) eqn:E3; [split; [discriminate | unfold ns_day, ns_min, ns_sec; lia]|].
  all: destruct (ns_day <=? s) eqn:E4; [split; [discriminate | unfold ns_day, ns_min, ns_sec in *; lia]|].
  all: destruct (ns_day <? e) eqn:E5; [split; [discriminate | unfold ns_day, ns_min, ns_sec in *; lia]|].
  all: assert (Hs : Z.rem s ns_min = s mod ns_min) by (apply Z.rem_mod_nonneg; unfold ns_min, ns_sec; lia).
  all: assert (He : Z.rem e ns_min = e mod ns_min) by (apply Z.rem_mod_nonneg; unfold ns_min, ns_sec; lia).
  all: rewrite Hs, He.
  all: destruct (s - s mod ns_min =? s) eqn:E6; cbn [negb];
    [|split; [discriminate | unfold ns_day, ns_min, ns_sec in *; lia]].
  all: destruct (e - e mod ns_min =? e) eqn:E7; cbn [negb];
    [|split; [discriminate | unfold ns_day, ns_min, ns_sec in *; lia]].
  all: split; [intros _; right; unfold ns_day, ns_min, ns_sec in *; lia | reflexivity].
Qed.

(** * Round trips *)

Definition weekly_ok (w : weekly) : Prop := Forall range_ok w.

Lemma first_error_none l i : Forall range_ok l -> first_error l i = None.
Proof.
  intros H; revert i; induction H as [|r l Hr _ IH]; intros i; cbn; [reflexivity|].
  apply validate_range_spec in Hr. rewrite Hr. apply IH.
Qed.

Lemma first_error_none_inv l i : first_error l i = None -> Forall range_ok l.
Proof.
  revert i; induction l as [|r l IH]; intros i; cbn; [constructor|].
  destruct (validate_range r) eqn:E; [discriminate|].
  intros H; constructor; [apply validate_range_spec; exact E | eapply IH; exact H].
Qed.

Lemma json_range_roundtrip r : range_ok r -> json_to_range (range_to_json r) = r.
Proof.
  intros H. unfold range_to_json, is_zero_range, range_ok in *.
  destruct r as [s e]; cbn [dr_start dr_end] in *.
  destruct H as [[-> ->]|H]; [reflexivity|].
  assert (Hz : (s =? 0) && (e =? 0) = false).
  { apply andb_false_iff. right. apply Z.eqb_neq. lia. }
  rewrite Hz. unfold json_to_range, ns_msec.
  unfold ns_min, ns_sec, ns_day in H.
  f_equal; lia.
Qed.

Lemma json_roundtrip w : weekly_ok w -> unmarshal_json (marshal_json w) = inr w.
Proof.
  intros H. unfold unmarshal_json, marshal_json, unmarshal_ranges.
  assert (E : map json_to_range (map range_to_json w) = w).
  { induction H as [|r l Hr _ IH]; cbn; [reflexivity|].
    rewrite json_range_roundtrip by exact Hr. f_equal. exact IH. }
  rewrite E, first_error_none by exact H. reflexivity.
Qed.

Lemma yaml_roundtrip w : weekly_ok w -> unmarshal_yaml (marshal_yaml w) = inr w.
Proof.
  intros H. unfold unmarshal_yaml, marshal_yaml, unmarshal_ranges.
  assert (E : map (fun p => {| dr_start := fst p; dr_end := snd p |})
                (map (fun r => (dr_start r, dr_end r)) w) = w).
  { clear H. induction w as [|[s e] l IH]; cbn; [reflexivity|]. f_equal. exact IH. }
  rewrite E, first_error_none by exact H. reflexivity.
Qed.

Lemma unmarshal_accepts_only_valid l w : unmarshal_ranges l = inr w -> w = l /\ weekly_ok w.
Proof.
  unfold unmarshal_ranges. destruct (first_error l 0) eqn:E; [discriminate|].
  intros H; injection H as <-. split; [reflexivity|]. eapply first_error_none_inv; exact E.
Qed.

Lemma unmarshal_rejects_invalid l : ~ weekly_ok l -> exists e, unmarshal_ranges l = inl e.
Proof.
  intros H. unfold unmarshal_ranges. destruct (first_error l 0) eqn:E; [eauto|].
  exfalso. apply H. eapply first_error_none_inv; exact E.
Qed.

(** C04, round 3: the configuration load / save path (Model/ClientConfig.v).
    Specification and proofs; all statements are for ALL inputs. *)
From Coq Require Import ZArith Lia.
From AGH Require Import Base.Run Base.Bytes.
From AGH Require Import Model.ClientIndex Proofs.ClientIndex Model.ClientConfig.
Local Open Scope N_scope.

(** * Sorting: a sorted list is a fixed point, hence SetIDs is idempotent *)
Section SortFacts.
  Context {A : Type} (cmp : A -> A -> comparison).
  Hypothesis cmp_eq : forall a b, cmp a b = Eq -> a = b.
  Hypothesis cmp_antisym : forall a b, cmp b a = CompOpp (cmp a b).

  Fixpoint sorted_by (l : list A) : Prop :=
    match l with
    | [] => True
    | x :: l' => match l' with [] => True | y :: _ => cmp x y <> Gt end /\ sorted_by l'
    end.

  Lemma ins_sorted_head a l : sorted_by (a :: l) -> ins_by cmp a l = a :: l.
  Proof.
    revert a. induction l as [|y l IH]; intros a H; [reflexivity|].
    cbn [ins_by]. destruct H as (Hay & Hl).
    destruct (cmp a y) eqn:E; [|reflexivity|congruence].
    apply cmp_eq in E. subst y. f_equal. apply IH. exact Hl.
  Qed.

  Lemma sort_fixed l : sorted_by l -> sort_by cmp l = l.
  Proof.
    induction l as [|a l IH]; intros H; [reflexivity|].
    cbn [sort_by fold_right]. fold (sort_by cmp l).
    rewrite IH by (destruct H; assumption). apply ins_sorted_head. exact H.
  Qed.

  Lemma cmp_refl_ne a : cmp a a <> Gt.
  Proof.
    pose proof (cmp_antisym a a) as H. destruct (cmp a a); cbn in H; congruence.
  Qed.

  Lemma ins_sorted a l : sorted_by l -> sorted_by (ins_by cmp a l).
  Proof.
    induction l as [|y l IH]; intros H; [cbn; auto|].
    cbn [ins_by]. destruct (cmp a y) eqn:E.
    - (* Eq: y :: ins a l *)
      apply cmp_eq in E. subst y. destruct H as (H1 & H2). specialize (IH H2).
      split; [|exact IH].
      destruct l as [|z l]; cbn [ins_by].
      + apply cmp_refl_ne.
      + destruct (cmp a z) in |- *; [exact H1|apply cmp_refl_ne|exact H1].
    - split; [congruence|exact H].
    - destruct H as (H1 & H2). specialize (IH H2). split; [|exact IH].
      assert (Hya : cmp y a <> Gt) by (rewrite (cmp_antisym a y), E; cbn; congruence).
      destruct l as [|z l]; cbn [ins_by]; [exact Hya|].
      destruct (cmp a z) in |- *; [exact H1|exact Hya|exact H1].
  Qed.

  Lemma sort_sorted l : sorted_by (sort_by cmp l).
  Proof.
    induction l as [|a l IH]; [exact I|].
    cbn [sort_by fold_right]. fold (sort_by cmp l). apply ins_sorted. exact IH.
  Qed.

  Lemma sort_idem l : sort_by cmp (sort_by cmp l) = sort_by cmp l.
  Proof. apply sort_fixed, sort_sorted. Qed.
End SortFacts.

Lemma addr_z_compare_eq a b : addr_z_compare a b = Eq -> a = b.
Proof.
  destruct a as [a za], b as [b zb]. unfold addr_z_compare. cbn [fst snd].
  destruct (addr_compare a b) eqn:E; try discriminate.
  intros H. apply addr_compare_eq in E. apply cmp_bytes_eq in H. congruence.
Qed.

Lemma addr_z_compare_antisym a b : addr_z_compare b a = CompOpp (addr_z_compare a b).
Proof.
  destruct a as [a za], b as [b zb]. unfold addr_z_compare. cbn [fst snd].
  rewrite (addr_compare_antisym a b). destruct (addr_compare a b); cbn; try reflexivity.
  apply cmp_bytes_antisym.
Qed.

Lemma cmp_bytes_antisym' a b : cmp_bytes b a = CompOpp (cmp_bytes a b).
Proof. apply cmp_bytes_antisym. Qed.
Lemma cmp_bytes_eq' a b : cmp_bytes a b = Eq -> a = b.
Proof. apply cmp_bytes_eq. Qed.

(** * Splitting [ids] by kind *)
Lemma ips_of_app a b : ips_of (a ++ b) = ips_of a ++ ips_of b.
Proof. unfold ips_of. apply flat_map_app. Qed.
Lemma nets_of_app a b : nets_of (a ++ b) = nets_of a ++ nets_of b.
Proof. unfold nets_of. apply flat_map_app. Qed.
Lemma macs_of_app a b : macs_of (a ++ b) = macs_of a ++ macs_of b.
Proof. unfold macs_of. apply flat_map_app. Qed.
Lemma cids_of_app a b : cids_of (a ++ b) = cids_of a ++ cids_of b.
Proof. unfold cids_of. apply flat_map_app. Qed.

Ltac kind_map := let l := fresh "l" in let IH := fresh "IH" in
  intros l; unfold ips_of, nets_of, macs_of, cids_of; induction l as [|? l IH]; cbn; [reflexivity|];
  try rewrite IH; reflexivity.

Lemma ips_of_ip : forall l, ips_of (map PIp l) = l. Proof. kind_map. Qed.
Lemma ips_of_net : forall l, ips_of (map PNet l) = []. Proof. kind_map. Qed.
Lemma ips_of_mac : forall l, ips_of (map PMac l) = []. Proof. kind_map. Qed.
Lemma ips_of_cid : forall l, ips_of (map PCid l) = []. Proof. kind_map. Qed.
Lemma nets_of_ip : forall l, nets_of (map PIp l) = []. Proof. kind_map. Qed.
Lemma nets_of_net : forall l, nets_of (map PNet l) = l. Proof. kind_map. Qed.
Lemma nets_of_mac : forall l, nets_of (map PMac l) = []. Proof. kind_map. Qed.
Lemma nets_of_cid : forall l, nets_of (map PCid l) = []. Proof. kind_map. Qed.
Lemma macs_of_ip : forall l, macs_of (map PIp l) = []. Proof. kind_map. Qed.
Lemma macs_of_net : forall l, macs_of (map PNet l) = []. Proof. kind_map. Qed.
Lemma macs_of_mac : forall l, macs_of (map PMac l) = l. Proof. kind_map. Qed.
Lemma macs_of_cid : forall l, macs_of (map PCid l) = []. Proof. kind_map. Qed.
Lemma cids_of_ip : forall l, cids_of (map PIp l) = []. Proof. kind_map. Qed.
Lemma cids_of_net : forall l, cids_of (map PNet l) = []. Proof. kind_map. Qed.
Lemma cids_of_mac : forall l, cids_of (map PMac l) = []. Proof. kind_map. Qed.
Lemma cids_of_cid : forall l, cids_of (map PCid l) = l. Proof. kind_map. Qed.

Lemma no_bad_written c : existsb is_bad (ids_of c) = false.
Proof.
  unfold ids_of. rewrite !existsb_app.
  assert (H1 : forall l, existsb is_bad (map PIp l) = false) by (induction l; cbn; auto).
  assert (H2 : forall l, existsb is_bad (map PNet l) = false) by (induction l; cbn; auto).
  assert (H3 : forall l, existsb is_bad (map PMac l) = false) by (induction l; cbn; auto).
  assert (H4 : forall l, existsb is_bad (map PCid l) = false) by (induction l; cbn; auto).
  rewrite H1, H2, H3, H4. reflexivity.
Qed.

(** * What toPersistent gives: every flag as written *)

(** The loaded record, field by field, in terms of the file object alone.
    In particular [c_own_blocked] is the negation of
    [use_global_blocked_services] WHATEVER the [blocked_services] key looks
    like, and an absent / null section is the empty own list
    ([stored_blocked None = default_blocked]). *)
Definition as_written (g : uid) (o : cobj) (c : client) (x : extra) : Prop :=
  c_name c = o_name o /\
  c_uid c = (if o_uid o =? 0 then g else o_uid o) /\
  c_own_settings c = negb (o_use_global_settings o) /\
  c_filtering c = o_filtering o /\
  c_parental c = o_parental o /\
  c_safebrowsing c = o_safebrowsing o /\
  c_safesearch c = ss_enabled (o_ss o) /\
  x_ss x = o_ss o /\
  c_own_blocked c = negb (o_use_global_blocked o) /\
  c_blocked c = Some (stored_blocked (o_blocked o)) /\
  c_ignore_qlog c = o_ignore_qlog o /\
  c_ignore_stats c = o_ignore_stats o /\
  x_cache_enabled x = o_cache_enabled o /\
  x_cache_size x = o_cache_size o /\
  c_tags c = o_tags o /\
  c_upstreams c = o_upstreams o /\
  c_ips c = sort_by addr_z_compare (ips_of (o_ids o)) /\
  c_subnets c = sort_by subnet_compare (nets_of (o_ids o)) /\
  c_macs c = sort_by cmp_bytes (macs_of (o_ids o)) /\
  c_cids c = sort_by cmp_bytes (cids_of (o_ids o)) /\
  x_nil_sched x = nil_sched_of (o_blocked o).

Lemma to_persistent_ok known g o c x :
  to_persistent known g o = COk c x ->
  existsb is_bad (o_ids o) = false /\
  forallb (fun i => existsb (eqb_bytes i) known)
    (b_ids (stored_blocked (o_blocked o))) = true /\
  as_written g o c x.
Proof.
  unfold to_persistent. destruct (existsb is_bad (o_ids o)); [discriminate|].
  destruct (forallb _ _) eqn:F; cbn [negb]; [|discriminate].
  intros H. inversion H; subst c x; clear H. cbn.
  split; [reflexivity|]. split; [reflexivity|]. unfold as_written; cbn. repeat split; reflexivity.
Qed.

Lemma flags_as_written known g o c x :
  to_persistent known g o = COk c x -> as_written g o c x.
Proof. intros H. apply to_persistent_ok in H. tauto. Qed.

(** toPersistent fails exactly on a bad identifier or an unknown service. *)
Lemma to_persistent_total known g o :
  (exists c x, to_persistent known g o = COk c x) <->
  (existsb is_bad (o_ids o) = false /\
   forallb (fun i => existsb (eqb_bytes i) known)
     (b_ids (stored_blocked (o_blocked o))) = true).
Proof.
  split.
  - intros (c & x & H). apply to_persistent_ok in H. tauto.
  - intros (H1 & H2). unfold to_persistent. rewrite H1, H2. cbn [negb]. eauto.
Qed.

(** The opt-out of the global blocked services never depends on the section. *)
Lemma opt_out_kept known g o c x :
  to_persistent known g o = COk c x ->
  o_use_global_blocked o = false -> c_own_blocked c = true /\ exists b, c_blocked c = Some b.
Proof.
  intros H E. apply flags_as_written in H.
  destruct H as (_ & _ & _ & _ & _ & _ & _ & _ & Hb & Hs & _).
  rewrite Hb, E. split; [reflexivity|eauto].
Qed.

(** * forConfig is total on what it is given and loses nothing *)
Lemma for_config_fields c x :
  let o := for_config c x in
  o_name o = c_name c /\ o_uid o = c_uid c /\ o_tags o = c_tags c /\ o_upstreams o = c_upstreams c /\
  o_ss o = x_ss x /\ o_blocked o = option_map (fun b => written_blocked b (x_nil_sched x)) (c_blocked c) /\
  o_cache_size o = x_cache_size x /\ o_cache_enabled o = x_cache_enabled x /\
  o_use_global_settings o = negb (c_own_settings c) /\ o_filtering o = c_filtering c /\
  o_parental o = c_parental c /\ o_safebrowsing o = c_safebrowsing c /\
  o_use_global_blocked o = negb (c_own_blocked c) /\
  o_ignore_qlog o = c_ignore_qlog c /\ o_ignore_stats o = c_ignore_stats c /\
  o_ids o = ids_of c.
Proof. cbn. repeat split; reflexivity. Qed.

(** A loaded client always has its section written. *)
Lemma for_config_section known g o c x :
  to_persistent known g o = COk c x ->
  exists fb, o_blocked (for_config c x) = Some fb /\ fb_ids fb = b_ids (stored_blocked (o_blocked o)).
Proof.
  intros H. apply flags_as_written in H. cbn [for_config o_blocked].
  destruct H as (_ & _ & _ & _ & _ & _ & _ & _ & _ & Hs & _). rewrite Hs. cbn. eauto.
Qed.

(** The stored section written and read again is the stored section; a nil
    schedule stays nil. *)
Lemma stored_written o :
  stored_blocked (Some (written_blocked (stored_blocked o) (nil_sched_of o))) = stored_blocked o /\
  nil_sched_of (Some (written_blocked (stored_blocked o) (nil_sched_of o))) = nil_sched_of o.
Proof.
  destruct o as [[ids [[w z]|]]|]; cbn; split; reflexivity.
Qed.

(** * One object: what forConfig writes for a loaded client loads back to it *)
Lemma client_eta c :
  c = Build_client (c_uid c) (c_name c) (c_cids c) (c_ips c) (c_subnets c) (c_macs c) (c_own_settings c)
        (c_filtering c) (c_safesearch c) (c_safebrowsing c) (c_parental c) (c_own_blocked c) (c_blocked c)
        (c_ignore_qlog c) (c_ignore_stats c) (c_tags c) (c_upstreams c).
Proof. destruct c; reflexivity. Qed.

Lemma object_roundtrip known g g' o c x :
  to_persistent known g o = COk c x -> c_uid c <> 0 ->
  to_persistent known g' (for_config c x) = COk c x.
Proof.
  intros H Hu. apply to_persistent_ok in H. destruct H as (_ & Hk & W).
  destruct W as (Wn & Wu & Wos & Wf & Wp & Wsb & Wss & Wx & Wob & Wb & Wq & Wst & Wce & Wcs & Wt & Wup & Wi & Ws & Wmc & Wc & Wns).
  unfold to_persistent.
  change (o_ids (for_config c x)) with (ids_of c). rewrite no_bad_written.
  cbn [for_config o_blocked o_uid o_name o_use_global_settings o_filtering o_ss o_safebrowsing o_parental
       o_use_global_blocked o_ignore_qlog o_ignore_stats o_tags o_upstreams o_cache_enabled o_cache_size].
  rewrite Wb. cbn [option_map]. rewrite Wns.
  destruct (stored_written (o_blocked o)) as (Sb & Sn). rewrite Sb, Sn. rewrite Hk. cbn [negb].
  destruct (c_uid c =? 0) eqn:E; [apply N.eqb_eq in E; contradiction|].
  unfold ids_of.
  rewrite !ips_of_app, !nets_of_app, !macs_of_app, !cids_of_app.
  rewrite ips_of_ip, ips_of_net, ips_of_mac, ips_of_cid, nets_of_ip, nets_of_net, nets_of_mac, nets_of_cid,
          macs_of_ip, macs_of_net, macs_of_mac, macs_of_cid, cids_of_ip, cids_of_net, cids_of_mac, cids_of_cid.
  cbn [app]. rewrite !app_nil_r.
  rewrite Wi at 1. rewrite (sort_idem addr_z_compare addr_z_compare_eq addr_z_compare_antisym). rewrite <- Wi.
  rewrite Ws at 1. rewrite (sort_idem subnet_compare subnet_compare_eq (fun a b => subnet_compare_antisym a b)). rewrite <- Ws.
  rewrite Wmc at 1. rewrite (sort_idem cmp_bytes cmp_bytes_eq' cmp_bytes_antisym'). rewrite <- Wmc.
  rewrite Wc at 1. rewrite (sort_idem cmp_bytes cmp_bytes_eq' cmp_bytes_antisym'). rewrite <- Wc.
  rewrite !Bool.negb_involutive.
  rewrite <- Wb.
  assert (Ess : ss_enabled (x_ss x) = c_safesearch c) by (rewrite Wx; symmetry; exact Wss).
  rewrite Ess. rewrite <- (client_eta c). rewrite <- Wns. destruct x; reflexivity.
Qed.

(** * The whole list: conversion of what was written reproduces the clients *)
Definition written (pcs : list (client * extra)) : list cobj := map (fun p => for_config (fst p) (snd p)) pcs.

(** [pcs] came out of a conversion and carry uids. *)
Definition loadable_back known (pcs : list (client * extra)) : Prop :=
  Forall (fun p => (exists g o, to_persistent known g o = COk (fst p) (snd p)) /\
                   c_uid (fst p) <> 0) pcs.

Lemma conv_all_written known g pcs : forall i,
  loadable_back known pcs ->
  conv_all known i (map (fun o => (g, o)) (written pcs)) = inr pcs.
Proof.
  induction pcs as [|[c x] pcs IH]; intros i H; [reflexivity|].
  inversion H as [|p l Hp Hl]; subst. destruct Hp as ((g0 & o & Hc) & Hu). cbn [fst snd] in *.
  cbn [written map conv_all fst snd].
  rewrite (object_roundtrip known g0 g o c x Hc Hu).
  fold (written pcs). rewrite (IH (i + 1) Hl). reflexivity.
Qed.

(** Everything the loader converted satisfies the first part. *)
Lemma conv_all_came known : forall objs i pcs,
  conv_all known i objs = inr pcs ->
  Forall (fun p => exists g o, to_persistent known g o = COk (fst p) (snd p)) pcs.
Proof.
  induction objs as [|[g o] objs IH]; intros i pcs H; cbn [conv_all] in H.
  - inversion H. constructor.
  - destruct (to_persistent known g o) as [e|c x] eqn:E; [discriminate|].
    destruct (conv_all known (i + 1) objs) as [e|l] eqn:E2; [discriminate|].
    inversion H; subst pcs. constructor; [cbn; eauto|]. eapply IH; eassumption.
Qed.

(** * The full statement at registry level (proved in Proofs/ClientConfigLoad.v,
    [config_roundtrip_statement_holds] / [config_roundtrip]):
    what [reload] gives is the same registry.  "Same": the same record and
    extra fields under every uid. *)
Definition same_registry (r1 r2 : registry) : Prop :=
  forall u, deref (fst r1) u = deref (fst r2) u /\
            (deref (fst r1) u <> None -> extra_of r1 u = extra_of r2 u).

Definition config_roundtrip_statement : Prop :=
  forall cfg known objs r g,
    load cfg known objs = LOk r ->
    exists r', reload cfg known g r = LOk r' /\ same_registry r r' /\ save r' = save r.

(** Two registries with the same records answer every request alike
    (selection by the declarative precedence of Proofs/ClientIndex.v, which
    speaks of the records only). *)
Lemma owner_of_same {K} ix1 ix2 (keys : client -> list K) k u :
  (forall u, deref ix1 u = deref ix2 u) -> owner_of ix1 keys k u -> owner_of ix2 keys k u.
Proof. intros E (c & Hc & Hk). exists c. rewrite <- E. auto. Qed.

Lemma resolves_same ix1 ix2 dhcp id a r :
  (forall u, deref ix1 u = deref ix2 u) -> resolves ix1 dhcp id a r -> resolves ix2 dhcp id a r.
Proof.
  intros E H.
  assert (E' : forall u, deref ix2 u = deref ix1 u) by (intros; symmetry; apply E).
  assert (Ncid : no_cid ix1 id -> no_cid ix2 id).
  { intros N u Ho. apply (N u). eapply owner_of_same; eassumption. }
  assert (Nip : no_ip ix1 a -> no_ip ix2 a).
  { intros N u Ho. apply (N u). eapply owner_of_same; eassumption. }
  assert (Ncidr : no_cidr ix1 a -> no_cidr ix2 a).
  { intros N p u Ho. apply (N p u). eapply owner_of_same; eassumption. }
  destruct H as [u O|u N O|u p N NI O C M|u m N NI NC D O|N NI NC D].
  - apply RCid. eapply owner_of_same; eassumption.
  - apply RIp; [auto|eapply owner_of_same; eassumption].
  - apply RCidr with (p := p); auto; [eapply owner_of_same; eassumption|].
    intros p' u' O' C'. apply (M p' u'); [eapply owner_of_same; eassumption|assumption].
  - eapply RMac; eauto. eapply owner_of_same; eassumption.
  - apply RNone; auto. intros m Dm u Ho. apply (D m Dm u). eapply owner_of_same; eassumption.
Qed.

Lemma same_records_same_settings ix1 ix2 dhcp id a g :
  Inv ix1 -> Inv ix2 -> (forall u, deref ix1 u = deref ix2 u) ->
  apply_client_filtering ix1 dhcp id a g = apply_client_filtering ix2 dhcp id a g.
Proof.
  intros I1 I2 E.
  assert (F : acf_find ix1 dhcp id a = acf_find ix2 dhcp id a).
  { eapply (precedence_unique ix2 dhcp id a); [exact I2| |apply precedence; exact I2].
    eapply resolves_same; [exact E|apply precedence; exact I1]. }
  unfold apply_client_filtering. rewrite F. destruct (acf_find ix2 dhcp id a); [|reflexivity].
  rewrite E. reflexivity.
Qed.

(** * An 8-byte MAC survives (since /repo 5c9e5b4; before, the colon text was
    read back as an IPv6 address and the round trip was refuted with this very
    object) *)
Definition ex_mac8 : bytes := [2; 0; 94; 16; 0; 0; 0; 1].
Definition ex_obj : cobj :=
  {| o_name := [101]; o_ids := [PMac ex_mac8]; o_tags := []; o_upstreams := []; o_uid := 7;
     o_ss := zero_ss; o_blocked := None; o_cache_size := 0; o_cache_enabled := false;
     o_use_global_settings := false; o_filtering := false; o_parental := false; o_safebrowsing := false;
     o_use_global_blocked := false; o_ignore_qlog := false; o_ignore_stats := false |}.
Definition ex_conf_cfg : config := {| cfg_tags := []; cfg_addr_ok := fun _ => true |}.

Lemma roundtrip_mac8 :
  exists r r',
    load ex_conf_cfg [] [(0, ex_obj)] = LOk r /\ reload ex_conf_cfg [] 0 r = LOk r' /\
    (exists c, deref (fst r) 7 = Some c /\ c_macs c = [ex_mac8] /\ c_ips c = []) /\
    (exists c', deref (fst r') 7 = Some c' /\ c_macs c' = [ex_mac8] /\ c_ips c' = []) /\
    save r' = save r.
Proof.
  eexists. eexists. split; [vm_compute; reflexivity|]. split; [vm_compute; reflexivity|].
  split; [eexists; (split; [vm_compute; reflexivity|split; reflexivity])|].
  split; [eexists; (split; [vm_compute; reflexivity|split; reflexivity])|]. vm_compute. reflexivity.
Qed.

(** * OBSERVATION: a section without a schedule makes the client's requests
    panic; exactly for a chosen client that applies its own blocked services
    and whose stored schedule is nil, and this survives save and restart. *)
Lemma query_panics_spec r dhcp id a :
  query_panics r dhcp id a = true <->
  exists u c, acf_find (fst r) dhcp id a = Some u /\ deref (fst r) u = Some c /\
              c_own_blocked c = true /\ x_nil_sched (extra_of r u) = true.
Proof.
  unfold query_panics. split.
  - destruct (acf_find (fst r) dhcp id a) as [u|] eqn:Ea; [|discriminate].
    destruct (deref (fst r) u) as [c|] eqn:Ed; [|discriminate].
    intros H. apply andb_true_iff in H. destruct H as (H1 & H2). exists u, c. repeat split; assumption.
  - intros (u & c & -> & -> & -> & ->). reflexivity.
Qed.

Lemma nil_sched_as_written known g o c x :
  to_persistent known g o = COk c x ->
  (x_nil_sched x = true <-> exists fb, o_blocked o = Some fb /\ fb_sched fb = None).
Proof.
  intros H. apply flags_as_written in H.
  destruct H as (_ & _ & _ & _ & _ & _ & _ & _ & _ & _ & _ & _ & _ & _ & _ & _ & _ & _ & _ & _ & Hn).
  rewrite Hn. unfold nil_sched_of. destruct (o_blocked o) as [fb|].
  - destruct (fb_sched fb) eqn:E.
    + split; [discriminate|]. intros (fb' & E1 & E2). inversion E1; subst. congruence.
    + split; [eauto|reflexivity].
  - split; [discriminate|]. intros (fb & E & _). discriminate.
Qed.

Definition ex_obj_nil : cobj :=
  {| o_name := [110]; o_ids := [PIp ([10;1;2;3], [])]; o_tags := []; o_upstreams := []; o_uid := 9;
     o_ss := zero_ss; o_blocked := Some {| fb_ids := []; fb_sched := None |};
     o_cache_size := 0; o_cache_enabled := false;
     o_use_global_settings := true; o_filtering := false; o_parental := false; o_safebrowsing := false;
     o_use_global_blocked := false; o_ignore_qlog := false; o_ignore_stats := false |}.

Lemma example_nil_sched :
  exists r r',
    load ex_conf_cfg [] [(0, ex_obj_nil)] = LOk r /\ reload ex_conf_cfg [] 0 r = LOk r' /\
    query_panics r (fun _ => None) [] ([10;1;2;3], []) = true /\
    query_panics r' (fun _ => None) [] ([10;1;2;3], []) = true /\
    query_panics r (fun _ => None) [] ([10;1;2;4], []) = false.
Proof.
  eexists. eexists. split; [vm_compute; reflexivity|]. split; [vm_compute; reflexivity|].
  repeat split; vm_compute; reflexivity.
Qed.

(** Non-vacuity of the premises: a loaded client (absent section, opt-out
    kept) that is written and read back. *)
Definition ex_obj6 : cobj :=
  {| o_name := [101]; o_ids := [PCid [99]; PMac [170;187;204;221;238;1]; PIp ([10;1;2;3], []); PNet ([10;0;0;0], 8)];
     o_tags := []; o_upstreams := []; o_uid := 0;
     o_ss := zero_ss; o_blocked := None; o_cache_size := 4096; o_cache_enabled := true;
     o_use_global_settings := true; o_filtering := false; o_parental := true; o_safebrowsing := false;
     o_use_global_blocked := false; o_ignore_qlog := false; o_ignore_stats := true |}.

Lemma example_roundtrip :
  exists c x r r',
    to_persistent [] 5 ex_obj6 = COk c x /\ c_uid c = 5 /\ c_uid c <> 0 /\
    c_own_blocked c = true /\ c_blocked c = Some default_blocked /\
    c_ignore_qlog c = false /\ c_ignore_stats c = true /\
    to_persistent [] 0 (for_config c x) = COk c x /\
    load ex_conf_cfg [] [(5, ex_obj6)] = LOk r /\ reload ex_conf_cfg [] 0 r = LOk r' /\
    save r' = save r /\ save r = [for_config c x].
Proof.
  do 4 eexists. split; [vm_compute; reflexivity|].
  split; [reflexivity|]. split; [discriminate|].
  repeat (split; [vm_compute; reflexivity|]). vm_compute; reflexivity.
Qed.

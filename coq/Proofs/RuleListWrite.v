(** The parser against a destination whose writes fail (C15, round 4):
    [process_w] / [parse_w] of Model/RuleListParser.v are [process] / [parse]
    as long as everything written fits into the destination, and end in the
    write error, the destination filled to the last byte, as soon as it does
    not -- wherever the limit lies. *)
From Coq Require Import NArith List Bool Lia.
From AGH Require Import Base.Run Model.RuleListParser Proofs.RuleListParser.
Import ListNotations.
Local Open Scope N_scope.

Section Write.
  Variable crc : N -> bytes -> N.
  Notation process := (process crc).
  Notation process_w := (process_w crc).
  Notation parse := (parse crc).
  Notation parse_w := (parse_w crc).

  (** The state [processLine] works on once a title line has been looked at. *)
  Definition titled (st : pstate) (t : bytes) : pstate :=
    if p_title_found st then st
    else match title_of t with
         | Some ti => {| p_title := ti; p_title_found := true; p_count := p_count st;
                         p_written := p_written st; p_sum := p_sum st; p_lines := p_lines st |}
         | None => st
         end.

  Lemma titled_written st t : p_written (titled st t) = p_written st.
  Proof. unfold titled. destruct (p_title_found st); auto. destruct (title_of t); auto. Qed.

  Lemma process_step l r st :
    process (l :: r) st =
    let t := trim_space l in
    if (p_written st =? 0) && is_html_line t then (st, Some EHtml)
    else match classify t with
         | LSkip => process r (titled st t)
         | LBinary => (titled st t, Some EBinary)
         | LRule => process r {| p_title := p_title (titled st t); p_title_found := p_title_found (titled st t);
                                 p_count := p_count (titled st t) + 1;
                                 p_written := p_written (titled st t) + lenN t + 1;
                                 p_sum := crc (p_sum (titled st t)) t;
                                 p_lines := t :: p_lines (titled st t) |}
         end.
  Proof. reflexivity. Qed.

  Lemma process_w_step cap l r st :
    process_w cap (l :: r) st =
    let t := trim_space l in
    if (p_written st =? 0) && is_html_line t then (st, Some EHtml, [])
    else match classify t with
         | LSkip => process_w cap r (titled st t)
         | LBinary => (titled st t, Some EBinary, [])
         | LRule =>
             let room := cap - p_written (titled st t) in
             if room <? lenN t + 1 then
               ({| p_title := p_title (titled st t); p_title_found := p_title_found (titled st t);
                   p_count := p_count (titled st t) + 1;
                   p_written := p_written (titled st t) + room;
                   p_sum := crc (p_sum (titled st t)) t;
                   p_lines := p_lines (titled st t) |}, Some EWrite, take room (t ++ [10]))
             else
               process_w cap r {| p_title := p_title (titled st t); p_title_found := p_title_found (titled st t);
                                  p_count := p_count (titled st t) + 1;
                                  p_written := p_written (titled st t) + lenN t + 1;
                                  p_sum := crc (p_sum (titled st t)) t;
                                  p_lines := t :: p_lines (titled st t) |}
         end.
  Proof. reflexivity. Qed.

  (** The byte count only grows. *)
  Lemma process_written_mono : forall toks st, p_written st <= p_written (fst (process toks st)).
  Proof.
    induction toks as [|l r IH]; intros st; [cbn; lia|].
    rewrite process_step. cbv zeta.
    destruct ((p_written st =? 0) && is_html_line (trim_space l)); [cbn; lia|].
    destruct (classify (trim_space l)).
    - etransitivity; [|apply IH]. rewrite titled_written. lia.
    - etransitivity; [|apply IH]. cbn [p_written]. rewrite titled_written. lia.
    - cbn [fst]. rewrite titled_written. lia.
  Qed.

  (** Everything fits: no write fails, the run is that of [process]. *)
  Lemma process_w_fits cap : forall toks st,
    p_written (fst (process toks st)) <= cap ->
    process_w cap toks st = (process toks st, []).
  Proof.
    induction toks as [|l r IH]; intros st H; [reflexivity|].
    rewrite process_w_step. rewrite process_step in *. cbv zeta in *.
    destruct ((p_written st =? 0) && is_html_line (trim_space l)); [reflexivity|].
    destruct (classify (trim_space l)); [now apply IH| |reflexivity].
    set (st2 := {| p_title := _; p_written := p_written (titled st (trim_space l)) + lenN (trim_space l) + 1 |}) in *.
    pose proof (process_written_mono r st2) as M. unfold st2 at 1 in M. cbn [p_written] in M.
    destruct (N.ltb_spec (cap - p_written (titled st (trim_space l))) (lenN (trim_space l) + 1)); [lia|].
    now apply IH.
  Qed.

  (** It does not fit: the write that crosses the limit fails, whichever line
      it belongs to and wherever in the line the limit lies; the destination
      is full. *)
  Lemma process_w_overflow cap : forall toks st,
    p_written st <= cap -> cap < p_written (fst (process toks st)) ->
    exists st' part, process_w cap toks st = (st', Some EWrite, part) /\ p_written st' = cap /\
                     p_count st' <> 0.
  Proof.
    induction toks as [|l r IH]; intros st Hle H; [cbn in H; lia|].
    rewrite process_w_step. rewrite process_step in H. cbv zeta in *.
    destruct ((p_written st =? 0) && is_html_line (trim_space l)); [cbn in H; lia|].
    destruct (classify (trim_space l)).
    - apply IH; auto. now rewrite titled_written.
    - set (st2 := {| p_title := _; p_written := p_written (titled st (trim_space l)) + lenN (trim_space l) + 1 |}) in *.
      pose proof (titled_written st (trim_space l)) as T.
      destruct (N.ltb_spec (cap - p_written (titled st (trim_space l))) (lenN (trim_space l) + 1)).
      + eexists _, _. split; [reflexivity|]. cbn [p_written p_count]. split; lia.
      + apply IH; auto. unfold st2. cbn [p_written]. lia.
    - cbn [fst] in H. rewrite titled_written in H. lia.
  Qed.

  Lemma parse_written x re :
    p_written (fst (parse x re)) = p_written (fst (process (fst (scan x [] 0)) p_init)).
  Proof.
    unfold RuleListParser.parse. destruct (scan x [] 0) as [toks tl]. cbn [fst].
    destruct (process toks p_init) as [st [e|]]; reflexivity.
  Qed.

  Theorem parse_w_fits cap x re :
    p_written (fst (parse x re)) <= cap -> parse_w cap x re = (parse x re, []).
  Proof.
    rewrite parse_written. unfold RuleListParser.parse_w, RuleListParser.parse.
    destruct (scan x [] 0) as [toks tl]. cbn [fst]. intros H.
    rewrite (process_w_fits cap toks p_init H).
    destruct (process toks p_init) as [st [e|]]; reflexivity.
  Qed.

  Theorem parse_w_overflow cap x re :
    cap < p_written (fst (parse x re)) ->
    exists st part, parse_w cap x re = (st, Some EWrite, part) /\ p_written st = cap.
  Proof.
    rewrite parse_written. unfold RuleListParser.parse_w.
    destruct (scan x [] 0) as [toks tl]. cbn [fst]. intros H.
    destruct (process_w_overflow cap toks p_init) as (st & part & E & W & _); [cbn; lia|exact H|].
    rewrite E. eauto.
  Qed.

  (** Either way. *)
  Corollary parse_w_cases cap x re :
    (cap < p_written (fst (parse x re)) /\
     exists st part, parse_w cap x re = (st, Some EWrite, part) /\ p_written st = cap) \/
    (p_written (fst (parse x re)) <= cap /\ parse_w cap x re = (parse x re, [])).
  Proof.
    destruct (N.le_gt_cases (p_written (fst (parse x re))) cap) as [L|G].
    - right. split; [exact L|now apply parse_w_fits].
    - left. split; [exact G|now apply parse_w_overflow].
  Qed.

  (** A destination that fails never turns a failing parse into a successful
      one, nor changes what a successful one yields. *)
  Corollary parse_w_ok cap x re st part :
    parse_w cap x re = (st, None, part) -> parse x re = (st, None) /\ part = [] /\ p_written st <= cap.
  Proof.
    intros E. destruct (parse_w_cases cap x re) as [(_ & st' & part' & E' & _)|(L & E')]; [congruence|].
    rewrite E' in E. destruct (parse x re) as [st0 e0]. injection E as -> -> <-. auto.
  Qed.

  (** For a text that parses, the limit may lie anywhere before the last byte
      of its normal form: before the first byte, inside a line, at a line
      boundary. *)
  Corollary parse_w_any_position cap x re st :
    parse x re = (st, None) -> cap < lenN (output st) ->
    exists st' part, parse_w cap x re = (st', Some EWrite, part) /\ p_written st' = cap.
  Proof.
    intros P H. apply parse_w_overflow. rewrite P. cbn [fst].
    destruct (parse_output_shape crc x re st P) as (ws & _ & _ & _ & _ & ->). exact H.
  Qed.
End Write.

(** Non-vacuity: the example text of Proofs/RuleListParser.v (normal form of
    14 bytes in three lines) against every limit from 0 to 13: the write error
    each time, the destination filled exactly; 14 and more: the parse of the
    unlimited destination. *)
Example parse_w_example :
  forallb (fun cap => match parse_w crc32_update cap Examples.text false with
                      | (st, Some EWrite, part) => (p_written st =? cap) &&
                          eqb_bytes (take cap Examples.stored)
                                    (flat_map (fun t => t ++ [10]) (rv (p_lines st)) ++ part)
                      | _ => false
                      end) [0; 1; 4; 5; 6; 9; 10; 13] = true /\
  parse_w crc32_update 14 Examples.text false = (parse crc32_update Examples.text false, []) /\
  parse_w crc32_update 4096 Examples.text false = (parse crc32_update Examples.text false, []).
Proof. vm_compute. auto. Qed.

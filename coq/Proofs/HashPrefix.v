(** Proofs about Model/HashPrefix.v (C19). *)
From Coq Require Import ZArith NArith List Bool Lia.
From AGH Require Import Base.Run Base.Bytes Model.HashPrefix.
Import ListNotations.

Lemma question_only_prefixes suffix hs1 hs2 :
  map prefix_of hs1 = map prefix_of hs2 -> question suffix hs1 = question suffix hs2.
Proof.
  unfold question. intros H. f_equal.
  rewrite !flat_map_concat_map.
  rewrite <- (map_map prefix_of (fun p => hex_of p ++ [dot]) hs1).
  rewrite <- (map_map prefix_of (fun p => hex_of p ++ [dot]) hs2).
  now rewrite H.
Qed.

(** Proofs about Model/HashPrefix.v (C19). *)
From Coq Require Import ZArith NArith List Bool Lia.
From AGH Require Import Base.Run Base.Bytes Model.HashPrefix.
Import ListNotations.

#[local] Arguments prefix_of : simpl never.

(** * Membership tests *)

Lemma mem_hash_In h l : mem_hash h l = true <-> In h l.
Proof.
  unfold mem_hash. rewrite existsb_exists. split.
  - intros (x & Hx & E). apply eqb_bytes_eq in E. now subst.
  - intros H. exists h. split; auto. apply eqb_bytes_refl.
Qed.

Lemma mem_hash_false h l : mem_hash h l = false <-> ~ In h l.
Proof. rewrite <- mem_hash_In. destruct (mem_hash h l); split; congruence. Qed.

Lemma find_match_spec a b : find_match a b = true <-> exists h, In h a /\ In h b.
Proof.
  unfold find_match. rewrite existsb_exists. split; intros (h & H1 & H2); exists h; split; auto;
    now apply mem_hash_In.
Qed.

Lemma find_match_false a b : find_match a b = false <-> forall h, In h a -> ~ In h b.
Proof.
  split.
  - intros H h Ha Hb. assert (find_match a b = true) by (apply find_match_spec; eauto). congruence.
  - intros H. destruct (find_match a b) eqn:E; auto. apply find_match_spec in E.
    destruct E as (h & Ha & Hb). exfalso; eapply H; eauto.
Qed.

(** * The question: only prefixes leave *)

Lemma question_shape suffix hs :
  question suffix hs = concat (map (fun p => hex_of p ++ [dot]) (map prefix_of hs)) ++ suffix.
Proof. unfold question. now rewrite flat_map_concat_map, map_map. Qed.

Lemma question_only_prefixes suffix hs1 hs2 :
  map prefix_of hs1 = map prefix_of hs2 -> question suffix hs1 = question suffix hs2.
Proof. intros H. now rewrite !question_shape, H. Qed.

(** * The cache as a finite map *)

Lemma cget_cdel_eq p c : cget p (cdel p c) = None.
Proof.
  unfold cget, cdel. induction c as [|[k v] c IH]; cbn; auto.
  destruct (eqb_bytes k p) eqn:E; cbn; auto. now rewrite E.
Qed.

Lemma cget_cdel_ne p q c : p <> q -> cget q (cdel p c) = cget q c.
Proof.
  intros N. unfold cget, cdel. induction c as [|[k v] c IH]; cbn; auto.
  destruct (eqb_bytes k p) eqn:E; cbn.
  - apply eqb_bytes_eq in E. subst k.
    apply eqb_bytes_neq in N. now rewrite N.
  - destruct (eqb_bytes k q); auto.
Qed.

Lemma cget_cset_eq p it c : cget p (cset p it c) = Some it.
Proof. unfold cget, cset. cbn. now rewrite eqb_bytes_refl. Qed.

Lemma cget_cset_ne p q it c : p <> q -> cget q (cset p it c) = cget q c.
Proof.
  intros N. unfold cset, cget at 1. cbn [find fst].
  apply eqb_bytes_neq in N as N'. rewrite N'. now apply cget_cdel_ne.
Qed.

Lemma cget_cdel_Some p q c it : cget q (cdel p c) = Some it -> cget q c = Some it.
Proof.
  destruct (eqb_bytes p q) eqn:E.
  - apply eqb_bytes_eq in E. subst. now rewrite cget_cdel_eq.
  - apply eqb_bytes_neq in E. now rewrite cget_cdel_ne.
Qed.

(** * findInCache: the in-place compaction *)

(** The entry that answers for [h], if it is there and has not expired. *)
Definition live (now : Z) (c : cache) (h : hash) : option citem :=
  match cget (prefix_of h) c with
  | Some it => if expired now it then None else Some it
  | None => None
  end.

Definition is_live now c h : bool := match live now c h with Some _ => true | None => false end.

(** The same loop over an explicit decomposition of the slice:
    [pre] = compacted part, [mid] = stale slots, [rest] = not yet visited. *)
Fixpoint fic_ref (now : Z) (c : cache) (pre mid rest : list hash) : find_res :=
  match rest with
  | [] => match pre with [] => FoundClean | _ => ToRequest pre end
  | h :: rest' =>
      match live now c h with
      | None => fic_ref now c (pre ++ [h]) (tl (mid ++ [h])) rest'
      | Some it =>
          if find_match (pre ++ mid ++ h :: rest') (c_hashes it) then FoundBlocked
          else fic_ref now c pre (mid ++ [h]) rest'
      end
  end.

Lemma upd_app {A} (pre : list A) x a l : upd (length pre) x (pre ++ a :: l) = pre ++ x :: l.
Proof. induction pre; cbn; congruence. Qed.

Lemma fic_loop_ref now c : forall rest pre mid,
  fic_loop now c (length rest) (length pre + length mid) (pre ++ mid ++ rest) (length pre)
  = fic_ref now c pre mid rest.
Proof.
  induction rest as [|h rest IH]; intros pre mid.
  - cbn [length fic_loop fic_ref]. destruct pre as [|a pre]; [reflexivity|].
    replace (Nat.eqb (length (a :: pre)) 0) with false by reflexivity.
    remember (a :: pre) as p. rewrite app_nil_r.
    rewrite firstn_app, Nat.sub_diag, firstn_all. cbn [firstn]. rewrite app_nil_r. now subst.
  - cbn [length fic_loop fic_ref].
    assert (Hn : nth (length pre + length mid) (pre ++ mid ++ h :: rest) [] = h).
    { rewrite app_assoc, <- app_length. apply nth_middle. }
    rewrite Hn. unfold live.
    assert (Hupd : upd (length pre) h (pre ++ mid ++ h :: rest)
                   = (pre ++ [h]) ++ tl (mid ++ [h]) ++ rest).
    { destruct mid as [|m mid]; cbn [app tl].
      - rewrite upd_app. now rewrite <- app_assoc.
      - rewrite upd_app. rewrite <- !app_assoc. reflexivity. }
    assert (Hlen : S (length pre + length mid) = length (pre ++ [h]) + length (tl (mid ++ [h]))).
    { rewrite app_length. destruct mid; cbn; rewrite ?app_length; cbn; lia. }
    assert (Hlen' : S (length pre) = length (pre ++ [h])) by (rewrite app_length; cbn; lia).
    destruct (cget (prefix_of h) c) as [it|].
    + destruct (expired now it).
      * rewrite Hupd, Hlen, Hlen'. apply IH.
      * destruct (find_match _ _); auto.
        replace (pre ++ mid ++ h :: rest) with (pre ++ (mid ++ [h]) ++ rest)
          by (now rewrite <- !app_assoc).
        replace (S (length pre + length mid)) with (length pre + length (mid ++ [h]))
          by (rewrite app_length; cbn; lia).
        apply IH.
    + rewrite Hupd, Hlen, Hlen'. apply IH.
Qed.

Lemma find_in_cache_ref now c hashes : find_in_cache now c hashes = fic_ref now c [] [] hashes.
Proof. unfold find_in_cache. apply (fic_loop_ref now c hashes [] []). Qed.

Lemma in_tl {A} (x : A) l : In x (tl l) -> In x l.
Proof. destruct l; cbn; auto. Qed.

Lemma fic_ref_spec now c : forall rest pre mid,
  match fic_ref now c pre mid rest with
  | FoundBlocked =>
      exists h it h', In h rest /\ live now c h = Some it /\
                      In h' (pre ++ mid ++ rest) /\ In h' (c_hashes it)
  | FoundClean =>
      pre = [] /\ forall h, In h rest -> exists it, live now c h = Some it /\ ~ In h (c_hashes it)
  | ToRequest hs =>
      hs = pre ++ filter (fun h => negb (is_live now c h)) rest /\ hs <> [] /\
      forall h it, In h rest -> live now c h = Some it -> ~ In h (c_hashes it)
  end.
Proof.
  induction rest as [|h rest IH]; intros pre mid; cbn [fic_ref].
  - destruct pre; cbn.
    + split; auto. intros ? [].
    + rewrite app_nil_r. repeat split; try congruence; intros ? ? [].
  - destruct (live now c h) as [it|] eqn:L.
    + destruct (find_match _ _) eqn:FM.
      * apply find_match_spec in FM. destruct FM as (h' & H1 & H2).
        exists h, it, h'. repeat split; auto. now left.
      * assert (Hh : ~ In h (c_hashes it)).
        { eapply find_match_false; [exact FM|]. rewrite !in_app_iff. right; right; now left. }
        specialize (IH pre (mid ++ [h])).
        destruct (fic_ref now c pre (mid ++ [h]) rest) as [| |hs].
        -- destruct IH as (h0 & it0 & h' & A & B & C & D). exists h0, it0, h'.
           repeat split; auto; [now right|].
           rewrite !in_app_iff in C. rewrite !in_app_iff. cbn in *. tauto.
        -- destruct IH as [-> IH]. split; auto. intros h0 [<-|H0]; eauto.
        -- destruct IH as (A & B & C). cbn [filter]. unfold is_live at 1. rewrite L. cbn [negb].
           repeat split; auto. intros h0 it0 [<-|H0] L0; [congruence|eauto].
    + specialize (IH (pre ++ [h]) (tl (mid ++ [h]))).
      destruct (fic_ref now c (pre ++ [h]) (tl (mid ++ [h])) rest) as [| |hs].
      * destruct IH as (h0 & it0 & h' & A & B & C & D). exists h0, it0, h'.
        repeat split; auto; [now right|].
        rewrite !in_app_iff in C. rewrite !in_app_iff.
        destruct C as [[C|C]|[C|C]]; cbn in *; try tauto.
        apply in_tl in C. rewrite in_app_iff in C. cbn in C. tauto.
      * destruct IH as [E _]. destruct pre; discriminate.
      * destruct IH as (A & B & C). cbn [filter]. unfold is_live at 1. rewrite L. cbn [negb].
        rewrite <- app_assoc in A. repeat split; auto.
        intros h0 it0 [<-|H0] L0; [congruence|eauto].
Qed.

(** What [findInCache] returns, in terms of the caller's list. *)
Lemma find_in_cache_spec now c hashes :
  match find_in_cache now c hashes with
  | FoundBlocked =>
      exists h it h', In h hashes /\ live now c h = Some it /\ In h' hashes /\ In h' (c_hashes it)
  | FoundClean =>
      forall h, In h hashes -> exists it, live now c h = Some it /\ ~ In h (c_hashes it)
  | ToRequest hs =>
      hs = filter (fun h => negb (is_live now c h)) hashes /\ hs <> [] /\
      forall h it, In h hashes -> live now c h = Some it -> ~ In h (c_hashes it)
  end.
Proof.
  rewrite find_in_cache_ref. pose proof (fic_ref_spec now c hashes [] []) as H.
  destruct (fic_ref now c [] [] hashes); cbn [app] in H; auto. now destruct H.
Qed.

Lemma live_cget now c h it : live now c h = Some it -> cget (prefix_of h) c = Some it.
Proof.
  unfold live. destruct (cget (prefix_of h) c) as [i|]; [|discriminate].
  destruct (expired now i); congruence.
Qed.

(** * storeInCache keeps the cache exact *)

(** An entry for prefix [p] is exact for database [db]. *)
Definition entry_ok (db : list hash) (p : prefix) (it : citem) : Prop :=
  forall h, In h (c_hashes it) <-> In h db /\ prefix_of h = p.

Definition cache_inv (db : list hash) (c : cache) : Prop :=
  forall p it, cget p c = Some it -> entry_ok db p it.

(** The answer carries exactly the database's hashes under the asked prefixes. *)
Definition answer_ok (db : list hash) (asked : list prefix) (received : list hash) : Prop :=
  forall h, In h received <-> In h db /\ In (prefix_of h) asked.

Lemma dedup_In x l : In x (dedup l) <-> In x l.
Proof.
  induction l as [|a l IH]; cbn; [tauto|].
  rewrite filter_In, IH, negb_true_iff, eqb_bytes_neq.
  destruct (eqb_bytes x a) eqn:E.
  - apply eqb_bytes_eq in E. subst. tauto.
  - apply eqb_bytes_neq in E. split; [tauto|]. intros [->|H]; [congruence|]. right; split; auto.
Qed.

Lemma evict_inv db ps : forall c, cache_inv db c -> cache_inv db (fold_left (fun c p => cdel p c) ps c).
Proof.
  induction ps as [|p ps IH]; intros c H; cbn [fold_left]; auto.
  apply IH. intros q it G. apply cget_cdel_Some in G. now apply H.
Qed.

(** One [Set], whatever the cache evicts for it and whether or not it keeps
    the item: exact entries stay exact. *)
Lemma cset_o_inv db e p it c :
  cache_inv db c -> entry_ok db p it -> cache_inv db (cset_o e p it c).
Proof.
  intros Hc He. unfold cset_o. pose proof (evict_inv db (fst e) c Hc) as H1.
  destruct (snd e); auto. intros q it'. destruct (eqb_bytes p q) eqn:E.
  - apply eqb_bytes_eq in E. subst q. rewrite cget_cset_eq. now intros [= <-].
  - apply eqb_bytes_neq in E. rewrite cget_cset_ne by auto. apply H1.
Qed.

Lemma store_pos_inv db exp resp asked :
  answer_ok db asked resp ->
  forall ps evs c,
    (forall p, In p ps -> In p (map prefix_of resp)) ->
    cache_inv db c -> cache_inv db (fst (store_pos exp resp ps evs c)).
Proof.
  intros Hans. induction ps as [|p ps IH]; intros evs c Hps Hinv; cbn [store_pos]; auto.
  destruct (pop evs) as [e evs']. apply IH; [intros; apply Hps; now right|].
  apply cset_o_inv; auto. intros h. cbn [c_hashes]. rewrite filter_In, eqb_bytes_eq.
  assert (Hp : In p (map prefix_of resp)) by (apply Hps; now left).
  apply in_map_iff in Hp. destruct Hp as (h0 & Hp0 & H0). split.
  - intros [Hr Hpre]. split; auto. now apply Hans.
  - intros [Hd Hpre]. split; auto. apply Hans. split; auto.
    rewrite Hpre, <- Hp0. now apply Hans.
Qed.

Lemma store_neg_inv db exp resp asked :
  answer_ok db asked resp ->
  forall l evs c,
    (forall h, In h l -> In (prefix_of h) asked) ->
    cache_inv db c ->
    cache_inv db (fst (store_neg exp (dedup (map prefix_of resp)) l evs c)).
Proof.
  intros Hans. induction l as [|h l IH]; intros evs c Hl Hinv; cbn [store_neg]; auto.
  assert (Hl' : forall h0, In h0 l -> In (prefix_of h0) asked) by (intros; apply Hl; now right).
  destruct (cget (prefix_of h) c); [now apply IH|].
  destruct (mem_hash (prefix_of h) (dedup (map prefix_of resp))) eqn:M; [now apply IH|].
  destruct (pop evs) as [e evs']. apply IH; auto.
  apply cset_o_inv; auto. intros x. cbn [c_hashes]. split; [intros []|]. intros [Hx Hp].
  apply mem_hash_false in M. apply M. apply dedup_In. rewrite <- Hp. apply in_map.
  apply Hans. split; auto. rewrite Hp. apply Hl. now left.
Qed.

(** [storeInCache] keeps the cache exact for every iteration order of the map
    and every eviction behaviour of the cache. *)
Lemma store_in_cache_inv db exp to_req resp order evs c :
  answer_ok db (map prefix_of to_req) resp ->
  cache_inv db c ->
  cache_inv db (fst (store_in_cache exp to_req resp order evs c)).
Proof.
  intros Hans Hinv. unfold store_in_cache.
  pose proof (store_pos_inv db exp resp _ Hans
                (filter (fun p => mem_hash p (dedup (map prefix_of resp))) order) evs c) as H1.
  destruct (store_pos exp resp _ evs c) as [c1 evs1]. cbn [fst] in H1.
  apply store_neg_inv with (asked := map prefix_of to_req); [exact Hans| |].
  - intros h Hh. apply in_map. exact Hh.
  - apply H1; auto. intros p Hp. apply filter_In in Hp. destruct Hp as [_ Hp].
    apply (proj1 (mem_hash_In _ _)) in Hp. apply (proj1 (dedup_In _ _)) in Hp. exact Hp.
Qed.

(** * Check *)

(** A lookup service for database [db]: it may fail; when it answers, the
    well-formed TXT strings are exactly the database's hashes under the asked
    prefixes (malformed strings may be present, they are ignored). *)
Definition svc_ok (db : list hash) (svc : list prefix -> option (list bytes)) : Prop :=
  forall asked, match svc asked with
                | None => True
                | Some strs => answer_ok db asked (parse_txt strs)
                end.

Section WithOracles.
  Variable sha : bytes -> hash.
  Variable pubsuf : bytes -> bytes * bool.
  Variable suffix : bytes.
  Variable cache_time : Z.

  Notation hashes_of := (hostname_to_hashes sha pubsuf).
  Notation check := (check sha pubsuf suffix cache_time).

  (** What the database says about a host: one of the enumerated names is in it. *)
  Definition db_verdict (db : list hash) (host : bytes) : bool := find_match (hashes_of host) db.

  Lemma db_verdict_spec db host :
    db_verdict db host = true <-> exists n, In n (names_to_hash pubsuf host) /\ In (sha n) db.
  Proof.
    unfold db_verdict, hostname_to_hashes. rewrite find_match_spec. split.
    - intros (h & H1 & H2). apply in_map_iff in H1. destruct H1 as (n & <- & Hn). eauto.
    - intros (n & H1 & H2). exists (sha n). split; auto. now apply in_map.
  Qed.

  Lemma check_transparent db svc order evs now host c :
    cache_inv db c -> svc_ok db svc ->
    let res := check svc order evs now host c in
    cache_inv db (fst res) /\
    (o_err (snd res) = false -> o_blocked (snd res) = db_verdict db host) /\
    (o_err (snd res) = true -> fst res = c /\ o_blocked (snd res) = false).
  Proof.
    intros Hinv Hsvc. unfold HashPrefix.check.
    pose proof (find_in_cache_spec now c (hashes_of host)) as S.
    destruct (find_in_cache now c (hashes_of host)) as [| |hs]; cbn [fst snd o_err o_blocked].
    - destruct S as (h & it & h' & Hh & L & Hh' & Hit). split; [exact Hinv|split; [|discriminate]].
      intros _. symmetry. apply find_match_spec. exists h'. split; auto.
      apply live_cget in L. now apply (Hinv _ _ L).
    - split; [exact Hinv|split; [|discriminate]]. intros _. symmetry. apply find_match_false.
      intros h Hh Hdb. destruct (S h Hh) as (it & L & Hn). apply Hn.
      apply live_cget in L. apply (Hinv _ _ L). auto.
    - destruct S as (Ehs & Hne & Hclean).
      specialize (Hsvc (map prefix_of hs)).
      destruct (svc (map prefix_of hs)) as [strs|]; cbn [fst snd o_err o_blocked].
      + pose proof (store_in_cache_inv db ((now + cache_time) / ns_sec)%Z hs (parse_txt strs)
                      order evs c Hsvc Hinv) as Hst.
        destruct (store_in_cache _ hs (parse_txt strs) order evs c) as [c' rest].
        cbn [fst snd o_err o_blocked] in *.
        split; [exact Hst|]. split; [|discriminate]. intros _.
        unfold db_verdict.
        destruct (find_match (hashes_of host) db) eqn:V.
        * apply find_match_spec in V. destruct V as (h & Hh & Hdb).
          apply find_match_spec. exists h.
          assert (Hin : In h hs).
          { rewrite Ehs. apply filter_In. split; auto. unfold is_live.
            destruct (live now c h) as [it|] eqn:L; auto. exfalso.
            apply (Hclean h it Hh L). apply live_cget in L. apply (Hinv _ _ L). auto. }
          split; auto. apply Hsvc. split; auto. now apply in_map.
        * apply find_match_false. intros h Hh Hr.
          eapply find_match_false; [exact V| |apply Hsvc in Hr; apply Hr].
          rewrite Ehs in Hh. now apply filter_In in Hh.
      + split; [exact Hinv|split; [discriminate|auto]].
  Qed.

  (** A fresh lookup (empty cache, answering service) gives the database's verdict. *)
  Lemma fresh_check_verdict db svc order evs now host :
    svc_ok db svc -> o_err (snd (check svc order evs now host [])) = false ->
    o_blocked (snd (check svc order evs now host [])) = db_verdict db host.
  Proof.
    intros Hs He. apply (check_transparent db svc order evs now host []); auto.
    intros p it; discriminate.
  Qed.

  (** Non-interference at the level of [Check]: whatever the cache holds, two
      hosts with the same list of prefixes that both go upstream send the
      same question. *)
  Lemma check_question_only_prefixes svc1 svc2 order1 order2 evs1 evs2 now c host1 host2 q1 q2 :
    map prefix_of (hashes_of host1) = map prefix_of (hashes_of host2) ->
    o_question (snd (check svc1 order1 evs1 now host1 c)) = Some q1 ->
    o_question (snd (check svc2 order2 evs2 now host2 c)) = Some q2 ->
    q1 = q2.
  Proof.
    intros Hp. unfold HashPrefix.check.
    pose proof (find_in_cache_spec now c (hashes_of host1)) as S1.
    pose proof (find_in_cache_spec now c (hashes_of host2)) as S2.
    destruct (find_in_cache now c (hashes_of host1)) as [| |hs1]; try discriminate.
    destruct (find_in_cache now c (hashes_of host2)) as [| |hs2];
      try (destruct (svc1 _); [destruct (store_in_cache _ _ _ _ _ _)|]; discriminate).
    destruct S1 as (E1 & _), S2 as (E2 & _).
    assert (Hq : question suffix hs1 = question suffix hs2).
    { apply question_only_prefixes. subst hs1 hs2.
      revert Hp. generalize (hashes_of host1) (hashes_of host2).
      induction l as [|a l IH]; intros [|b l'] H; try discriminate; auto.
      cbn in H. injection H as Hab Hl. cbn [filter].
      assert (El : is_live now c a = is_live now c b) by (unfold is_live, live; now rewrite Hab).
      rewrite El. destruct (is_live now c b); cbn [negb map]; [|rewrite Hab; f_equal]; auto. }
    destruct (svc1 _); [destruct (store_in_cache _ _ _ order1 _ _)|];
      (destruct (svc2 _); [destruct (store_in_cache _ _ _ order2 _ _)|]); cbn; congruence.
  Qed.

  (** ** Histories *)

  Definition op_ok (db : list hash) (o : op) : Prop :=
    match o with OCheck _ svc _ _ => svc_ok db svc | _ => True end.

  (** Per step, against a reference verdict [v]: a check that did not fail
      returns [v host]; a failed one returns "not blocked" and leaves the
      cache as it was. *)
  Definition step_transparent (v : bytes -> bool) (before : Z * cache) (o : op)
      (res : (Z * cache) * option check_out) : Prop :=
    match o, snd res with
    | OCheck host _ _ _, Some out =>
        (o_err out = false -> o_blocked out = v host) /\
        (o_err out = true -> o_blocked out = false /\ snd (fst res) = snd before)
    | OCheck _ _ _ _, None => False
    | _, _ => True
    end.

  Fixpoint history_transparent (v : bytes -> bool) (st : Z * cache) (ops : list op)
      (rs : list ((Z * cache) * option check_out)) : Prop :=
    match ops, rs with
    | [], [] => True
    | o :: ops', r :: rs' => step_transparent v st o r /\ history_transparent v (fst r) ops' rs'
    | _, _ => False
    end.

  Lemma history_transparent_ext v v' : (forall h, v h = v' h) ->
    forall ops st rs, history_transparent v st ops rs -> history_transparent v' st ops rs.
  Proof.
    intros E. induction ops as [|o ops IH]; intros st [|r rs]; cbn; auto.
    intros [H1 H2]. split; auto. unfold step_transparent in *.
    destruct o; auto. destruct (snd r); auto. now rewrite <- E.
  Qed.

  Lemma step_inv db o st :
    cache_inv db (snd st) -> op_ok db o ->
    cache_inv db (snd (fst (step sha pubsuf suffix cache_time o st))) /\
    step_transparent (db_verdict db) st o (step sha pubsuf suffix cache_time o st).
  Proof.
    destruct st as [now c]. intros Hinv Hok. destruct o as [host svc order evs|d|ps]; cbn [step snd] in *.
    - pose proof (check_transparent db svc order evs now host c Hinv Hok) as H. cbn zeta in H.
      destruct (check svc order evs now host c) as [c' out]. cbn [fst snd] in *.
      unfold step_transparent. cbn [fst snd]. intuition.
    - cbn. auto.
    - cbn. split; auto. now apply evict_inv.
  Qed.

  Theorem run_transparent db : forall ops st,
    cache_inv db (snd st) -> Forall (op_ok db) ops ->
    history_transparent (db_verdict db) st ops (run sha pubsuf suffix cache_time ops st).
  Proof.
    induction ops as [|o ops IH]; intros st Hinv Hok; cbn [run history_transparent]; auto.
    inversion Hok as [|? ? Ho Hops]; subst.
    destruct (step_inv db o st Hinv Ho) as [A B]. split; auto.
  Qed.

  Lemma check_no_error svc order evs now host c :
    (forall asked, svc asked <> None) -> o_err (snd (check svc order evs now host c)) = false.
  Proof.
    intros H. unfold HashPrefix.check. destruct (find_in_cache _ _ _); auto.
    specialize (H (map prefix_of hs)).
    destruct (svc _); [destruct (store_in_cache _ _ _ _ _ _); reflexivity|congruence].
  Qed.
End WithOracles.

(** * The database service of the model is a lookup service *)

Definition byte_ok (b : N) : Prop := (b < 256)%N.
Definition hash_wf (h : hash) : Prop := length h = 32%nat /\ Forall byte_ok h.

Lemma unhex_hex n : (n < 16)%N -> unhex (hex_digit n) = Some n.
Proof.
  intros H. unfold hex_digit, unhex.
  destruct (N.ltb_spec n 10).
  - replace ((48 <=? 48 + n) && (48 + n <=? 57))%N with true.
    + f_equal. lia.
    + symmetry. apply andb_true_intro. split; apply N.leb_le; lia.
  - replace ((48 <=? 87 + n) && (87 + n <=? 57))%N with false.
    + replace ((97 <=? 87 + n) && (87 + n <=? 102))%N with true.
      * f_equal. lia.
      * symmetry. apply andb_true_intro. split; apply N.leb_le; lia.
    + symmetry. apply andb_false_iff. right. apply N.leb_gt. lia.
Qed.

Lemma decode_hex_of h : Forall byte_ok h -> decode_hex (hex_of h) = Some h.
Proof.
  induction 1 as [|b h Hb _ IH]; [reflexivity|].
  unfold hex_of in *. cbn [flat_map app decode_hex]. unfold byte_ok in Hb.
  rewrite !unhex_hex, IH.
  - f_equal. f_equal. pose proof (N.div_mod b 16). lia.
  - apply N.mod_lt. lia.
  - apply N.div_lt_upper_bound; lia.
Qed.

Lemma hex_of_length h : length (hex_of h) = (2 * length h)%nat.
Proof. unfold hex_of. induction h; cbn [flat_map length app]; lia. Qed.

Lemma parse_txt_hex l : Forall hash_wf l -> parse_txt (map hex_of l) = l.
Proof.
  induction 1 as [|h l [Hl Hb] _ IH]; [reflexivity|].
  unfold parse_txt in *. cbn [map flat_map]. rewrite IH, hex_of_length, Hl, decode_hex_of by auto.
  reflexivity.
Qed.

Lemma db_service_ok db : Forall hash_wf db -> svc_ok db (db_service db).
Proof.
  intros Hwf asked. unfold db_service. rewrite parse_txt_hex.
  - intros h. now rewrite filter_In, mem_hash_In.
  - apply Forall_forall. intros h Hh. apply filter_In in Hh.
    eapply Forall_forall in Hwf; [exact Hwf|tauto].
Qed.

(** * Fresh lookups and the final statements *)

Section Final.
  Variable sha : bytes -> hash.
  Variable pubsuf : bytes -> bytes * bool.
  Variable suffix : bytes.
  Variable cache_time : Z.

  (** The verdict of a lookup made with an empty cache at instant [now]. *)
  Definition fresh_verdict (db : list hash) (now : Z) (host : bytes) : bool :=
    o_blocked (snd (check sha pubsuf suffix cache_time (db_service db) [] [] now host [])).

  Lemma fresh_verdict_db db now host :
    Forall hash_wf db -> fresh_verdict db now host = db_verdict sha pubsuf db host.
  Proof.
    intros Hwf. unfold fresh_verdict. apply fresh_check_verdict.
    - now apply db_service_ok.
    - apply check_no_error. discriminate.
  Qed.

  Theorem verdict_spec db now host : Forall hash_wf db ->
    fresh_verdict db now host = true <->
    exists n, In n (names_to_hash pubsuf host) /\ In (sha n) db.
  Proof. intros Hwf. rewrite fresh_verdict_db by auto. apply db_verdict_spec. Qed.

  (** The same in terms of the answer: blocked iff one of the well-formed
      strings of the answer is the full hash of an enumerated name. *)
  Theorem verdict_answer_spec svc order evs now host strs hs :
    find_in_cache now [] (hostname_to_hashes sha pubsuf host) = ToRequest hs ->
    svc (map prefix_of hs) = Some strs ->
    o_blocked (snd (check sha pubsuf suffix cache_time svc order evs now host [])) = true <->
    exists h, In h hs /\ In h (parse_txt strs).
  Proof.
    intros F S. unfold check. rewrite F, S. destruct (store_in_cache _ _ _ _ _ _).
    cbn [snd o_blocked]. apply find_match_spec.
  Qed.

  Lemma find_in_empty_cache now hashes :
    find_in_cache now [] hashes = match hashes with [] => FoundClean | _ => ToRequest hashes end.
  Proof.
    pose proof (find_in_cache_spec now [] hashes) as S.
    assert (L : forall h, is_live now [] h = false) by reflexivity.
    assert (E : filter (fun h => negb (is_live now [] h)) hashes = hashes).
    { clear S. induction hashes as [|a l IH]; cbn [filter]; auto. rewrite L. cbn [negb]. now rewrite IH. }
    destruct (find_in_cache now [] hashes) as [| |hs].
    - destruct S as (h & it & _ & _ & Hl & _). discriminate.
    - destruct hashes as [|a l]; auto. destruct (S a) as (it & Hl & _); [now left|discriminate].
    - destruct S as (-> & Hne & _). rewrite E in *. destruct hashes; congruence.
  Qed.

  Theorem cache_transparent db ops now0 :
    Forall hash_wf db -> Forall (op_ok db) ops ->
    forall now', history_transparent (fresh_verdict db now') (now0, []) ops
                   (run sha pubsuf suffix cache_time ops (now0, [])).
  Proof.
    intros Hwf Hok now'.
    apply history_transparent_ext with (v := db_verdict sha pubsuf db).
    - intros h. symmetry. now apply fresh_verdict_db.
    - apply run_transparent; auto. intros p it; discriminate.
  Qed.
End Final.

(** * Enumeration of the hashed names *)

(** [n] is [d] or what follows one of its dots. *)
Definition aligned_suffix (n d : bytes) : Prop :=
  n = d \/ exists pre, d = pre ++ dot :: n.

Lemma subdomains_from_spec n : forall d,
  In n (subdomains_from d) <-> exists pre, d = pre ++ dot :: n.
Proof.
  induction d as [|b d IH]; cbn [subdomains_from].
  - split; [intros []|]. intros ([|? ?] & H); discriminate.
  - destruct (N.eqb_spec b dot) as [->|Nb].
    + cbn [In]. rewrite IH. split.
      * intros [<-|(pre & ->)]; [now exists []|]. now exists (dot :: pre).
      * intros ([|x pre] & H); cbn in H; injection H as H; subst; eauto.
    + rewrite IH. split.
      * intros (pre & ->). now exists (b :: pre).
      * intros ([|x pre] & H); cbn in H; injection H as H; subst; [congruence|eauto].
Qed.

Lemma subdomains_spec d n : In n (subdomains d) <-> d <> [] /\ aligned_suffix n d.
Proof.
  unfold subdomains, aligned_suffix. destruct d as [|b d].
  - split; [intros []|]. intros [H _]. congruence.
  - cbn [In]. rewrite subdomains_from_spec. split.
    + intros [<-|H]; (split; [discriminate|auto]).
    + intros [_ [->|H]]; auto.
Qed.

Lemma count_rev b s : count b (rev s) = count b s.
Proof.
  induction s as [|c s IH]; cbn [rev count]; auto.
  rewrite count_app, IH. cbn [count]. destruct (c =? b)%N; lia.
Qed.

Lemma last_labels_spec : forall r nd acc, (nd <= 3)%nat ->
  (count dot r + nd < 4 /\ last_labels r nd acc = rev r ++ acc)%nat \/
  (exists r1 r2, r = r1 ++ dot :: r2 /\ (count dot r1 + nd = 3)%nat /\
                 last_labels r nd acc = rev r1 ++ acc).
Proof.
  induction r as [|b r IH]; intros nd acc Hnd; cbn [last_labels].
  - left. cbn. split; [lia|reflexivity].
  - destruct (N.eqb_spec b dot) as [->|Nb].
    + destruct (Nat.eqb_spec (S nd) 4) as [E|E].
      * right. exists [], r. cbn. repeat split; auto; lia.
      * destruct (IH (S nd) (dot :: acc)) as [[H1 H2]|(r1 & r2 & H1 & H2 & H3)]; [lia| |].
        -- left. cbn [count rev]. rewrite N.eqb_refl, <- app_assoc. split; [lia|exact H2].
        -- right. exists (dot :: r1), r2. subst r. cbn [count rev app]. rewrite N.eqb_refl, <- app_assoc.
           repeat split; auto. lia.
    + apply N.eqb_neq in Nb.
      destruct (IH nd (b :: acc) Hnd) as [[H1 H2]|(r1 & r2 & H1 & H2 & H3)].
      * left. cbn [count rev]. rewrite Nb, <- app_assoc. split; [lia|exact H2].
      * right. exists (b :: r1), r2. subst r. cbn [count rev app]. rewrite Nb, <- app_assoc.
        repeat split; auto.
Qed.

(** The names are taken from the last four labels of the host. *)
Lemma trim_host_spec host :
  (count dot host < 4 /\ trim_host host = host)%nat \/
  (exists pre, host = pre ++ dot :: trim_host host /\ count dot (trim_host host) = 3%nat).
Proof.
  unfold trim_host.
  destruct (last_labels_spec (rev host) 0 [] ltac:(lia)) as [[H1 H2]|(r1 & r2 & H1 & H2 & H3)].
  - left. rewrite count_rev, Nat.add_0_r in H1. rewrite H2, app_nil_r, rev_involutive. auto.
  - right. rewrite H3, app_nil_r. exists (rev r2). split.
    + rewrite <- (rev_involutive host), H1, rev_app_distr. cbn [rev]. now rewrite <- app_assoc.
    + rewrite count_rev. lia.
Qed.

(** The loop with [break]: the longest-first candidates up to, and excluding,
    the first one equal to the public suffix. *)
Lemma take_until_eq_spec ps l :
  exists l2, l = take_until_eq ps l ++ l2 /\
             Forall (fun m => m <> ps) (take_until_eq ps l) /\
             (l2 = [] \/ exists l3, l2 = ps :: l3).
Proof.
  induction l as [|s l (l2 & E & F & T)]; cbn [take_until_eq].
  - exists []. auto.
  - destruct (eqb_bytes s ps) eqn:Es.
    + apply eqb_bytes_eq in Es. subst. exists (ps :: l). cbn. eauto.
    + apply eqb_bytes_neq in Es. exists l2. cbn [app]. rewrite <- E. auto.
Qed.

Definition effective_suffix (r : bytes * bool) : bytes := if snd r then fst r else [].

Lemma names_to_hash_spec pubsuf host :
  let cands := subdomains (trim_host host) in
  let ps := effective_suffix (pubsuf host) in
  exists rest, cands = names_to_hash pubsuf host ++ rest /\
               Forall (fun m => m <> ps) (names_to_hash pubsuf host) /\
               (rest = [] \/ exists l3, rest = ps :: l3).
Proof.
  unfold names_to_hash, effective_suffix. destruct (pubsuf host) as [ps icann]. cbn [fst snd].
  apply take_until_eq_spec.
Qed.

(** * Non-vacuity: concrete instances *)

Module Examples.
  Local Open Scope N_scope.
  (* toy oracles: the "hash" of a name is two bytes derived from its length
     and first byte, followed by the name padded to 32 bytes *)
  Definition pad (s : bytes) : bytes := firstn 30 (s ++ repeat 0 30).
  Definition sha (s : bytes) : hash := [N.of_nat (length s); hd 0 s] ++ pad s.
  Definition co_uk : bytes := [99;111;46;117;107].
  Definition pubsuf (_ : bytes) : bytes * bool := (co_uk, true).
  Definition sfx : bytes := [115;98;46].
  (* a.b.c.evil.co.uk *)
  Definition host1 : bytes := [97;46;98;46;99;46;101;118;105;108;46;99;111;46;117;107].
  Definition evil : bytes := [101;118;105;108;46;99;111;46;117;107].
  (* zvil.co.uk: same toy prefix as evil.co.uk?  no: first byte differs; wvil -> differs.
     eviL.co.uk shares length and first byte, hence the prefix, with evil.co.uk *)
  Definition twin : bytes := [101;118;105;76;46;99;111;46;117;107].
  Definition db : list hash := [sha evil].
  Definition ct : Z := (3650 * ns_sec)%Z.
  Definition ops : list op :=
    [OCheck twin (db_service db) [] []; OCheck host1 (db_service db) [] [];
     OAdvance (4000 * ns_sec)%Z; OCheck host1 (fun _ => None) [] [];
     OEvict [prefix_of (sha evil)]; OCheck evil (db_service db) [] []].
  (* a cache so small that the second Set of a check evicts what the first
     one stored, and the third item is not stored at all *)
  Definition ops_small : list op :=
    [OCheck host1 (db_service db) [prefix_of (sha evil)]
            [([], true); ([prefix_of (sha evil)], true)];
     OCheck host1 (db_service db) [prefix_of (sha evil)] [([], false)];
     OCheck evil (db_service db) [] []].
End Examples.

Example names_example :
  names_to_hash Examples.pubsuf Examples.host1
  = [[99;46;101;118;105;108;46;99;111;46;117;107]%N; Examples.evil].
Proof. vm_compute. reflexivity. Qed.

Example db_wf_example : Forall hash_wf Examples.db.
Proof.
  repeat constructor; vm_compute; try reflexivity; intros; discriminate.
Qed.

(** The store as it was before the repair (commit c62e74a): the second loop
    looked only at the cache to decide whether a prefix had an answer.  If the
    cache drops the positive entry in the middle of one [storeInCache] (a
    cache too small for one answer), that loop stores an empty entry for a
    prefix under which the database has a hash, and the next check is
    answered "clean" from the cache. *)
Module PreFix.
  Definition store_positive (exp : Z) (resp : list hash) (c : cache) : cache :=
    fold_left (fun c p =>
        cset p {| c_expiry := exp;
                  c_hashes := filter (fun h => eqb_bytes (prefix_of h) p) resp |} c)
      (dedup (map prefix_of resp)) c.

  Definition store_negative (exp : Z) (to_req : list hash) (c : cache) : cache :=
    fold_left (fun c h =>
        match cget (prefix_of h) c with
        | None => cset (prefix_of h) {| c_expiry := exp; c_hashes := [] |} c
        | Some _ => c
        end) to_req c.
End PreFix.

Example midstore_eviction_poisons :
  let hs := [Examples.sha Examples.evil] in
  let c := PreFix.store_negative 3650 hs
             (cdel (prefix_of (Examples.sha Examples.evil)) (PreFix.store_positive 3650 hs [])) in
  answer_ok Examples.db (map prefix_of hs) hs /\
  o_blocked (snd (check Examples.sha Examples.pubsuf Examples.sfx Examples.ct
                    (db_service Examples.db) [] [] 0 Examples.evil c)) = false /\
  o_question (snd (check Examples.sha Examples.pubsuf Examples.sfx Examples.ct
                    (db_service Examples.db) [] [] 0 Examples.evil c)) = None /\
  db_verdict Examples.sha Examples.pubsuf Examples.db Examples.evil = true.
Proof.
  cbv zeta. split; [|vm_compute; auto].
  intros h. unfold Examples.db. cbn [In map]. split.
  - intros [<-|[]]. auto.
  - intros [[<-|[]] _]. auto.
Qed.

(** The same eviction with the store as it is now: the entry is simply
    missing afterwards, and the next check looks the name up again. *)
Example midstore_eviction_now :
  map (fun r => match snd r with
                | Some o => Some (o_blocked o, match o_question o with Some _ => true | None => false end,
                                  o_sets_left o)
                | None => None end)
      (run Examples.sha Examples.pubsuf Examples.sfx Examples.ct Examples.ops_small (0%Z, []))
  = [Some (true, true, 0%nat); Some (true, true, 0%nat); Some (true, true, 0%nat)]
  /\ Forall (op_ok Examples.db) Examples.ops_small.
Proof.
  split; [vm_compute; reflexivity|].
  unfold Examples.ops_small.
  repeat (apply Forall_cons; [cbn [op_ok]; apply db_service_ok; exact db_wf_example|]).
  apply Forall_nil.
Qed.

(** A history that exercises: a clean twin storing a positive entry, a hit
    from that entry, expiry, a failing upstream, eviction. *)
Example history_example :
  map (fun r => match snd r with Some o => Some (o_blocked o, o_err o) | None => None end)
      (run Examples.sha Examples.pubsuf Examples.sfx Examples.ct Examples.ops (0%Z, []))
  = [Some (false, false); Some (true, false); None; Some (false, true); None; Some (true, false)]
  /\ Forall (op_ok Examples.db) Examples.ops.
Proof.
  split; [vm_compute; reflexivity|].
  pose proof (db_service_ok _ db_wf_example).
  unfold Examples.ops.
  repeat (apply Forall_cons; [cbn [op_ok]; first [exact H | exact I | intros ?; exact I]|]).
  apply Forall_nil.
Qed.

Example same_prefixes_example :
  map prefix_of (hostname_to_hashes Examples.sha Examples.pubsuf Examples.evil)
  = map prefix_of (hostname_to_hashes Examples.sha Examples.pubsuf Examples.twin)
  /\ Examples.evil <> Examples.twin.
Proof. split; [vm_compute; reflexivity|discriminate]. Qed.

(** * The caller lower-cases the name *)
From AGH Require Import Base.Bytes.

Lemma lower_byte_idem b : lower_byte (lower_byte b) = lower_byte b.
Proof.
  unfold lower_byte. destruct (is_upper b) eqn:E; [|now rewrite E].
  unfold is_upper in *. apply andb_true_iff in E. destruct E as [E1 E2].
  apply N.leb_le in E1. apply N.leb_le in E2.
  replace (b + 32 <=? 90)%N with false by (symmetry; apply N.leb_gt; lia).
  now rewrite andb_false_r.
Qed.

Lemma lower_idem h : lower (lower h) = lower h.
Proof. unfold lower. rewrite map_map. apply map_ext. exact lower_byte_idem. Qed.

(** Only the lower-case form of the request's name reaches the checker: two
    spellings of the same name give the same hashes, question, verdict and
    cache. *)
Lemma check_host_spelling sha pubsuf suffix ct svc order evs now h1 h2 c :
  lower h1 = lower h2 ->
  check_host sha pubsuf suffix ct svc order evs now h1 c
  = check_host sha pubsuf suffix ct svc order evs now h2 c.
Proof. unfold check_host, caller_name. now intros ->. Qed.

Lemma check_host_lower sha pubsuf suffix ct svc order evs now h c :
  check_host sha pubsuf suffix ct svc order evs now h c
  = check sha pubsuf suffix ct svc order evs now (lower h) c /\
  check_host sha pubsuf suffix ct svc order evs now (lower h) c
  = check_host sha pubsuf suffix ct svc order evs now h c.
Proof. unfold check_host, caller_name. now rewrite lower_idem. Qed.

Lemma check_host_question_only_prefixes sha pubsuf suffix ct svc1 svc2 order1 order2 evs1 evs2
    now c host1 host2 q1 q2 :
  map prefix_of (hostname_to_hashes sha pubsuf (lower host1))
    = map prefix_of (hostname_to_hashes sha pubsuf (lower host2)) ->
  o_question (snd (check_host sha pubsuf suffix ct svc1 order1 evs1 now host1 c)) = Some q1 ->
  o_question (snd (check_host sha pubsuf suffix ct svc2 order2 evs2 now host2 c)) = Some q2 ->
  q1 = q2.
Proof. unfold check_host, caller_name. apply check_question_only_prefixes. Qed.

Example caller_example :
  caller_name [87; 87; 87; 46; 69; 118; 105; 108; 46; 67; 79; 77]%N = [119; 119; 119; 46; 101; 118; 105; 108; 46; 99; 111; 109]%N.
Proof. reflexivity. Qed.

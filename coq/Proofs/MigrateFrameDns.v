(** C13, part 4: frame inside the [dns] section.  From schema version 2 on
    (step 2 replaces the section by [coredns]), every key of [dns] outside a
    fixed list keeps its value through any range of steps. *)
From Coq Require Import List ZArith String Ascii Bool Lia.
From AGH Require Import Model.Migrate Proofs.Migrate Proofs.MigrateFrame Proofs.MigrateSim.
Import ListNotations.
Local Open Scope string_scope.
Local Open Scope list_scope.
Local Open Scope Z_scope.

(** Keys of the [dns] section some step may write or remove. *)
Definition dns_written : list string :=
  ["bootstrap_dns"; "bind_host"; "bind_hosts"; "autohost_tld"; "local_domain_name"; "upstream_dns";
   "local_ptr_upstreams"; "querylog_interval"; "resolve_clients"; "querylog_enabled";
   "querylog_file_enabled"; "querylog_size_memory"; "statistics_interval"; "edns_client_subnet";
   "safe_search"; "safesearch_enabled"; "blocked_services"; "filtering_enabled";
   "filters_update_interval"; "parental_enabled"; "safebrowsing_enabled"; "safebrowsing_cache_size";
   "safesearch_cache_size"; "parental_cache_size"; "rewrites"; "protection_enabled"; "blocking_mode";
   "blocking_ipv4"; "blocking_ipv6"; "blocked_response_ttl"; "protection_disabled_until";
   "parental_block_host"; "safebrowsing_block_host"; "upstream_mode"; "all_servers"; "fastest_addr"].

Ltac ne2 :=
  match goal with
  | H : mem_b ?k ?l = false |- ?k <> _ => apply (mem_b_ne _ _ _ H); reflexivity
  | |- _ => discriminate
  end.

Ltac frame_rw2 :=
  repeat match goal with
  | H : move_val ?t ?s ?d ?sk ?dk = Some (?s', ?d') |- context [get ?x ?s'] =>
      rewrite (get_move_val t s d sk dk s' d' x H) by ne2
  | H : move_in ?t ?m ?sk ?dk = Some ?m' |- context [get ?x ?m'] =>
      rewrite (get_move_in t m sk dk m' x H) by ne2
  | H : moves ?l ?s ?d = Some (?s', ?d') |- context [get ?x ?s'] =>
      rewrite (get_moves l s d s' d' x H)
        by (let a := fresh in let Ha := fresh in
            intros a Ha; cbn in Ha; repeat (destruct Ha as [<-|Ha]; [ne2|]); contradiction)
  | |- _ => rewrite get_upd_ne by ne2
  | |- _ => rewrite get_del_ne by ne2
  end.

Definition dns_frames (s : step) : Prop :=
  forall m m' d k, s (Some m) = Ok m' -> get "dns" m = Some (VObj d) -> mem_b k dns_written = false ->
    exists d', get "dns" m' = Some (VObj d') /\ get k d' = get k d.

Lemma fv_obj_of_get m k d : get k m = Some (VObj d) -> field_val TObj m k = FOk (VObj d).
Proof. unfold field_val. now intros ->. Qed.

Ltac dns_step :=
  intros m m' d k H G Hk; cbn [stamp bind] in H;
  match type of H with context [upd "schema_version" (VInt ?n) m] =>
    let G1 := fresh "G1" in
    assert (G1 : get "dns" (upd "schema_version" (VInt n) m) = Some (VObj d))
      by (rewrite get_upd_ne by discriminate; exact G);
    set (m0 := upd "schema_version" (VInt n) m) in *; clearbody m0;
    let F := fresh "F" in
    pose proof (fv_obj_of_get _ _ _ G1) as F;
    unfold with_obj in H; rewrite ?F in H; cbn [zobj] in H
  end;
  split_ok;
  (eexists; split;
   [ repeat first [ rewrite get_upd_eq | rewrite get_upd_ne by discriminate | rewrite get_del_ne by discriminate
                  | match goal with
                    | H : move_val ?t ?s ?dd ?sk ?dk = Some (?s', ?d') |- context [get ?x ?s'] =>
                        rewrite (get_move_val t s dd sk dk s' d' x H) by discriminate
                    | H : moves ?l ?s ?dd = Some (?s', ?d') |- context [get ?x ?s'] =>
                        rewrite (get_moves l s dd s' d' x H)
                          by (let a := fresh in let Ha := fresh in
                              intros a Ha; cbn in Ha; repeat (destruct Ha as [<-|Ha]; [discriminate|]); contradiction)
                    end ];
     first [reflexivity | eassumption]
   | frame_rw2; reflexivity ]).

Section WithOracles.
Variable O : oracles.

Lemma dframes1 : dns_frames step1. Proof. unfold step1. dns_step. Qed.
Lemma dframes3 : dns_frames step3. Proof. unfold step3. dns_step. Qed.
Lemma dframes4 : dns_frames step4. Proof. unfold step4. dns_step. Qed.
Lemma dframes5 : dns_frames (step5 O). Proof. unfold step5. dns_step. Qed.
Lemma dframes6 : dns_frames step6. Proof. unfold step6. dns_step. Qed.
Lemma dframes7 : dns_frames step7. Proof. unfold step7. dns_step. Qed.
Lemma dframes8 : dns_frames step8. Proof. unfold step8. dns_step. Qed.
Lemma dframes9 : dns_frames step9. Proof. unfold step9. dns_step. Qed.
Lemma dframes10 : dns_frames (step10 O). Proof. unfold step10, quic_field. dns_step. Qed.
Lemma dframes11 : dns_frames step11. Proof. unfold step11. dns_step. Qed.
Lemma dframes12 : dns_frames step12. Proof. unfold step12. dns_step. Qed.
Lemma dframes13 : dns_frames step13. Proof. unfold step13. dns_step. Qed.
Lemma dframes14 : dns_frames step14. Proof. unfold step14. dns_step. Qed.
Lemma dframes15 : dns_frames step15. Proof. unfold step15. dns_step. Qed.
Lemma dframes16 : dns_frames step16. Proof. unfold step16. dns_step. Qed.
Lemma dframes17 : dns_frames step17. Proof. unfold step17. dns_step. Qed.
Lemma dframes18 : dns_frames step18. Proof. unfold step18. dns_step. Qed.
Lemma dframes19 : dns_frames step19. Proof. unfold step19. dns_step. Qed.
Lemma dframes20 : dns_frames step20. Proof. unfold step20. dns_step. Qed.
Lemma dframes21 : dns_frames step21. Proof. unfold step21. dns_step. Qed.
Lemma dframes22 : dns_frames step22. Proof. unfold step22. dns_step. Qed.
Lemma dframes23 : dns_frames (step23 O). Proof. unfold step23. dns_step. Qed.
Lemma dframes24 : dns_frames step24. Proof. unfold step24. dns_step. Qed.
Lemma dframes25 : dns_frames step25. Proof. unfold step25. dns_step. Qed.
Lemma dframes26 : dns_frames step26. Proof. unfold step26. dns_step. Qed.
Lemma dframes27 : dns_frames step27. Proof. unfold step27, replace_dot. dns_step. Qed.
Lemma dframes28 : dns_frames step28. Proof. unfold step28. dns_step. Qed.
Lemma dframes29 : dns_frames (step29 O). Proof. unfold step29. dns_step. Qed.

Lemma steps_dns_frames : Forall dns_frames (skipn 2 (map snd (steps O))).
Proof.
  cbn.
  repeat (apply Forall_cons;
    [first [exact dframes3|exact dframes4|exact dframes5|exact dframes6|exact dframes7|exact dframes8
           |exact dframes9|exact dframes10|exact dframes11|exact dframes12|exact dframes13|exact dframes14
           |exact dframes15|exact dframes16|exact dframes17|exact dframes18|exact dframes19|exact dframes20
           |exact dframes21|exact dframes22|exact dframes23|exact dframes24|exact dframes25|exact dframes26
           |exact dframes27|exact dframes28|exact dframes29]|]).
  apply Forall_nil.
Qed.

Lemma run_steps_dns_frame l : Forall dns_frames l -> forall m m' d k,
  run_steps l m = Ok m' -> get "dns" m = Some (VObj d) -> mem_b k dns_written = false ->
  exists d', get "dns" m' = Some (VObj d') /\ get k d' = get k d.
Proof.
  induction 1 as [|s l Hs _ IH]; intros m m' d k H G Hk; cbn in H.
  - injection H as <-. eauto.
  - destruct (s (Some m)) as [m1| |] eqn:E; cbn [bind] in H; try discriminate.
    destruct (Hs _ _ _ _ E G Hk) as (d1 & G1 & E1).
    destruct (IH _ _ _ _ H G1 Hk) as (d2 & G2 & E2). exists d2. split; congruence.
Qed.

Lemma skipn_skipn2 {A} c (l : list A) : (2 <= c)%nat -> skipn c l = skipn (c - 2) (skipn 2 l).
Proof.
  intros R. replace c with (2 + (c - 2))%nat at 1 by lia.
  rewrite Nat.add_comm. revert l. generalize (c - 2)%nat as b. intros b l.
  destruct l as [|x [|y l]]; cbn.
  - rewrite !skipn_nil. reflexivity.
  - rewrite Nat.add_comm. cbn. rewrite !skipn_nil. reflexivity.
  - rewrite Nat.add_comm. reflexivity.
Qed.

Lemma upgrade_dns_frame cur tgt m m' d k : (2 <= cur)%nat ->
  upgrade O cur tgt m = Ok m' -> get "dns" m = Some (VObj d) -> mem_b k dns_written = false ->
  exists d', get "dns" m' = Some (VObj d') /\ get k d' = get k d.
Proof.
  intros R. unfold upgrade. rewrite (skipn_skipn2 cur _ R).
  apply run_steps_dns_frame, Forall_firstn, Forall_skipn, steps_dns_frames.
Qed.

End WithOracles.

Lemma migrate_dns_frame O top t m' d k :
  migrate O top t = ONew m' -> 2 <= version_of (input_map top) ->
  get "dns" (input_map top) = Some (VObj d) -> mem_b k dns_written = false ->
  exists d', get "dns" m' = Some (VObj d') /\ get k d' = get k d.
Proof.
  intros H V. destruct (migrate_new_inv' O _ _ _ H) as (_ & _ & U).
  assert (R : (2 <= Z.to_nat (version_of (input_map top)))%nat) by lia.
  apply (upgrade_dns_frame O _ _ _ _ d k R U).
Qed.

Example doc22_dns_frame :
  mem_b "port" dns_written = false /\
  exists m' d', migrate oracles0 (Some (upd "dns" (VObj [("port", VInt 5353); ("all_servers", VBool true)]) doc22)) 29 = ONew m' /\
    get "dns" m' = Some (VObj d') /\ get "port" d' = Some (VInt 5353) /\ get "all_servers" d' = None.
Proof. split; [reflexivity|]. do 2 eexists. split; [vm_compute; reflexivity|]. repeat split. Qed.
